#!/bin/bash
# usage: tools/verify_seed.sh <id> <worktree> : confirms a seeded change in its scratch worktree:
#   demo fails with the change, passes without it, and the pinned suite passes with it.
id=$1; wt=$2
cd "$wt" || exit 2
git diff -- src Cargo.toml > /tmp/verify_$id.diff
[ -s /tmp/verify_$id.diff ] || { echo "$id: no source change in worktree"; exit 2; }
run_demo() {
  if [ -f demo/run.sh ]; then (cd demo && CARGO_NET_OFFLINE=true sh ./run.sh >/tmp/verify_$id.demo.$1.log 2>&1; echo $?)
  elif [ -f demo/src/lib.rs ] && [ ! -f demo/src/main.rs ]; then (cd demo && CARGO_NET_OFFLINE=true cargo test --doc --offline >/tmp/verify_$id.demo.$1.log 2>&1; echo $?)
  else (cd demo && CARGO_NET_OFFLINE=true cargo run --offline >/tmp/verify_$id.demo.$1.log 2>&1; echo $?); fi
}
with=$(run_demo with)
git apply -R /tmp/verify_$id.diff
without=$(run_demo without)
git apply /tmp/verify_$id.diff
suite=$(CARGO_NET_OFFLINE=true cargo nextest run --workspace --no-fail-fast --offline 2>&1 | grep -E "^\s*Summary" | tail -1)
echo "$id: demo_with_change_exit=$with demo_without_change_exit=$without suite: $suite"
