#!/bin/bash
# usage: tools/reverify_seed.sh <name under seeded/> : re-confirms a saved seeded change from scratch
#   (fresh worktree of /repo under /tmp, patch applied, demo copied in), then removes the worktree.
name=$1
wt=/tmp/rv_$name
git -C /repo worktree remove --force $wt 2>/dev/null
git -C /repo worktree add --detach $wt HEAD >/dev/null 2>&1 || exit 2
cd $wt && git apply /verif/seeded/$name/patch.diff || { echo "$name: patch does not apply"; git -C /repo worktree remove --force $wt; exit 2; }
cp -r /verif/seeded/$name/demo $wt/demo
cp /repo/Cargo.lock $wt/demo/Cargo.lock 2>/dev/null
/verif/tools/verify_seed.sh $name $wt
git -C /repo worktree remove --force $wt
git -C /repo worktree prune
