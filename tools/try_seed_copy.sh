#!/bin/bash
# usage: tools/try_seed_copy.sh <sync|run> ...
#   sync                      : (re)create the trial copy /tmp/try/{verif,repo} from /verif (with build caches) and /repo HEAD
#   run <patch> <check id>... : applies a seeded change to the COPY of the repo, runs the copy's checks, undoes it
# The copy lets seeded changes be evaluated while /verif and /repo are being edited; nothing it writes is evidence.
set -u
T=/tmp/try
case "$1" in
sync)
  mkdir -p $T
  rsync -a --delete --exclude .git /verif/ $T/verif/
  if [ ! -d $T/repo/.git ] && [ ! -f $T/repo/.git ]; then git -C /repo worktree add --detach $T/repo HEAD >/dev/null; fi
  git -C $T/repo checkout -q --detach $(git -C /repo rev-parse HEAD) && git -C $T/repo checkout -- .
  sed -i "s#path = \"/repo\"#path = \"$T/repo\"#" $T/verif/harness/Cargo.toml $T/verif/harness/asm/Cargo.toml
  echo synced
  ;;
run)
  shift; patch=$1; shift
  cd $T/repo || exit 2
  git checkout -- . ; git clean -fdq src ; git apply "$patch" || { echo "patch does not apply"; exit 2; }
  cd $T/verif
  for c in "$@"; do
    start=$(date +%s)
    out=$(UOM_REPO=$T/repo ./check "$c" 2>&1 | grep -v "^\[check\]" | tail -6)
    echo "== $c ($(( $(date +%s) - start ))s)"; echo "$out" | cut -c1-600
  done
  git -C $T/repo checkout -- . ; git -C $T/repo clean -fdq src
  ;;
esac
