#!/bin/bash
# usage: tools/try_seed.sh <patch> <check id>...   applies a seeded change to /repo, runs the checks, and undoes it
set -u
patch=$1; shift
cd /repo || exit 2
if ! git diff --quiet; then echo "/repo is dirty"; exit 2; fi
git apply "$patch" || { echo "patch does not apply"; exit 2; }
cd /verif
# evidence written while a seeded change is applied must not survive: it is restored afterwards
rm -rf /verif/build/evidence.bak && cp -r /verif/evidence /verif/build/evidence.bak
for c in "$@"; do
  start=$(date +%s)
  out=$(./check "$c" 2>&1 | grep -v "^\[check\]" | tail -6)
  echo "== $c ($(( $(date +%s) - start ))s)"; echo "$out" | cut -c1-400
done
rm -rf /verif/evidence && mv /verif/build/evidence.bak /verif/evidence
git -C /repo checkout -- . 
git -C /repo status --short | head -3
