#!/bin/bash
# usage: tools/save_seed.sh <dir name under seeded/> <worktree> <diff file> : stores a confirmed seeded change
name=$1; wt=$2; diff=$3
d=/verif/seeded/$name
mkdir -p $d
cp $diff $d/patch.diff
rm -rf $d/demo
mkdir -p $d/demo
(cd $wt/demo && tar cf - --exclude=target --exclude=Cargo.lock .) | (cd $d/demo && tar xf -)
ls $d $d/demo
