#!/bin/bash
# usage: tools/seed_matrix.sh [name…]   runs every saved seeded change (or the named ones) on the trial copy against
#   the property recorded in its meta.json (first id of the "property" field) and prints one line per seed:
#   <seed> <property> detected|MISSED|no-failing-input-found   (hours for all of them: each run rebuilds the harness)
cd /verif
[ -d /tmp/try/verif ] || tools/try_seed_copy.sh sync
names=("$@"); [ ${#names[@]} -eq 0 ] && names=($(ls seeded))
for n in "${names[@]}"; do
  [ -f seeded/$n/patch.diff ] || continue
  prop=$(python3 -c "import json,re,sys; m=json.load(open('seeded/$n/meta.json')); print(re.findall(r'C\d\d', m['property'])[0])" 2>/dev/null || echo "")
  [ -z "$prop" ] && { echo "$n ? no meta.json"; continue; }
  out=$(tools/try_seed_copy.sh run /verif/seeded/$n/patch.diff $prop 2>&1)
  if echo "$out" | grep -q "no-failing-input-found"; then r="no-failing-input-found";
  elif echo "$out" | grep -q "^VIOLATION"; then r="detected";
  else r="MISSED"; fi
  echo "$n $prop $r"
done
