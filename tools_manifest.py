#!/usr/bin/env python3
"""Regenerates MANIFEST.json from checklib/manifest_data.py and validates it (run after editing)."""
import json, os, sys
sys.path.insert(0, os.path.join(os.path.dirname(os.path.abspath(__file__)), 'checklib'))
import manifest_data as md
checks = []
for pid, d in sorted(md.CHECKS.items()):
    checks.append(dict(property_id=pid, quick_cmd="./check %s --tier quick" % pid, thorough_cmd="./check %s --tier thorough" % pid,
                       evidence_file="evidence/%s.json" % pid, replay_cmd_template="./check %s --replay {path}" % pid,
                       engine="lean4-proof+correspondence",
                       level_claimed=dict(category=d.get('category', 'proof'), text=d['text'], design_ref="DESIGN.md §5 " + pid),
                       level_note=d['note'], technique=d['technique']))
allp = [json.loads(l)['id'] for l in open(os.path.join(os.path.dirname(os.path.abspath(__file__)), 'properties.jsonl'))]
na = [dict(property_id=p, reason=md.NOT_APPLICABLE.get(p, 'not claimed yet: its check is still being built in this session (planned, see DESIGN.md §5)'))
      for p in allp if p not in md.CHECKS]
m = dict(version=1, setup_cmd="./setup.sh",
         hooks=dict(guard="uom_verif",
                    enable="no hooks are needed or present: every checked function is observable through the public API (to_base/from_base are new/get; change_base is observable through mixed-base +)",
                    baseline_off_cmd="cd /repo && cargo nextest run --workspace --no-fail-fast --offline", source_commits=[], add_only=True),
         engines=[dict(name="lean4-proof+correspondence", path="/verif/check", serves_properties=sorted(md.CHECKS),
                       kind_free_text="Lean 4 model + theorems (lake project /verif/lean); python translator (/verif/translate) regenerating the tables AND the function bodies / impl signatures / impl, cfg and trait-method inventories / feature gates of the model from /repo/src on every run (BExpr for straight-line bodies, Rx for control flow); Rust harness (/verif/harness) piping cases from the real crate into the compiled Lean driver, which recomputes each observed output with the model and evaluates the property oracle on it")],
         checks=checks, notes="see DESIGN.md §0 (status, findings, false alarms, seeded-change matrices of eleven batches, negative controls) and §7 (trusted base); known_findings.json lists fixed defects (five fix: commits in /repo) and open findings; seeded/ holds 95 confirmed breaking changes and 2 benign controls with the checks that catch them", not_applicable=na)
json.dump(m, open(os.path.join(os.path.dirname(os.path.abspath(__file__)), 'MANIFEST.json'), 'w'), indent=1)
try:
    import jsonschema
    jsonschema.validate(m, json.load(open('/root/.vp/MANIFEST.schema.json')))
    print('MANIFEST.json valid: %d checks, %d not claimed' % (len(checks), len(na)))
except ImportError:
    print('jsonschema not importable here; run with python3-vt')
