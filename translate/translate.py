#!/usr/bin/env python3
"""Translator: /repo/src  ->  build/table.json, lean/Uom/Gen/*.lean, harness/src/gen/*.rs

Every extraction *site* has a name.  A site that cannot be found or parsed raises SiteError(site);
the check driver treats that as a broken tie (translator-broken:<site>).
Files are only rewritten when their content changes (so lake / cargo stay incremental).
"""
import json
import os
import re
import sys
from fractions import Fraction

sys.path.insert(0, os.path.dirname(os.path.abspath(__file__)))
from rustlex import lex, match_close, find_macro_calls, LexError  # noqa: E402


class SiteError(Exception):
    def __init__(self, site, msg):
        super().__init__('%s: %s' % (site, msg))
        self.site = site
        self.msg = msg


# ------------------------------------------------------------------------------------------------
# token cursor


class Cur:
    def __init__(self, toks, site, i=0, end=None):
        self.t = toks
        self.i = i
        self.end = len(toks) if end is None else end
        self.site = site

    def peek(self, k=0):
        j = self.i + k
        return self.t[j] if j < self.end else (None, None)

    def at(self, kind, text=None):
        k, t = self.peek()
        return k == kind and (text is None or t == text)

    def next(self):
        if self.i >= self.end:
            raise SiteError(self.site, 'unexpected end of tokens')
        tok = self.t[self.i]
        self.i += 1
        return tok

    def expect(self, kind, text=None):
        k, t = self.next()
        if k != kind or (text is not None and t != text):
            raise SiteError(self.site, 'expected %s %r, got %s %r (token %d)' % (kind, text, k, t, self.i - 1))
        return t

    def accept(self, kind, text=None):
        if self.at(kind, text):
            return self.next()[1]
        return None

    def skip_attrs(self):
        """skip `#[...]` attributes (doc comments are already gone)."""
        while self.at('p', '#') and self.peek(1) == ('p', '['):
            j = match_close(self.t, self.i + 1)
            self.i = j + 1

    def done(self):
        return self.i >= self.end


# ------------------------------------------------------------------------------------------------
# coefficient expressions: general arithmetic over float literals and prefix!(..)


def parse_literal(text, site):
    """Rust float/integer literal -> exact (mantissa, exp10).  Suffixes f32/f64 are accepted."""
    s = text.replace('_', '')
    m = re.fullmatch(r'([0-9]+)(?:\.([0-9]*))?(?:[eE]([+-]?[0-9]+))?(f32|f64)?', s)
    if not m:
        raise SiteError(site, 'unsupported numeric literal %r' % text)
    ip, fp, ex = m.group(1), m.group(2) or '', int(m.group(3) or 0)
    mant = int(ip + fp)
    e10 = ex - len(fp)
    # normalise trailing zeros of the mantissa (keeps generated text stable and small)
    while mant != 0 and mant % 10 == 0:
        mant //= 10
        e10 += 1
    if mant == 0:
        e10 = 0
    return ['lit', mant, e10]


def parse_expr(c, prefixes, site):
    """precedence climbing: + - (lowest), * /, unary -, atoms.  Returns an AST of nested lists."""

    def atom():
        k, t = c.next()
        if k == 'num':
            return parse_literal(t, site)
        if k == 'p' and t == '(':
            v = addsub()
            c.expect('p', ')')
            return v
        if k == 'p' and t == '-':
            return ['neg', atom()]
        if k == 'id' and t == 'prefix' and c.at('p', '!'):
            c.next()
            c.expect('p', '(')
            name = c.expect('id')
            c.expect('p', ')')
            if prefixes is None or name not in prefixes:
                raise SiteError(site, 'unknown prefix %r' % name)
            return ['prefix', name]
        raise SiteError(site, 'unexpected token %s %r in coefficient expression' % (k, t))

    def muldiv():
        v = atom()
        while c.at('p', '*') or c.at('p', '/'):
            op = c.next()[1]
            w = atom()
            v = ['mul' if op == '*' else 'div', v, w]
        return v

    def addsub():
        v = muldiv()
        while c.at('p', '+') or c.at('p', '-'):
            op = c.next()[1]
            w = muldiv()
            v = ['add' if op == '+' else 'sub', v, w]
        return v

    return addsub()


def expr_exact(e, prefixes):
    k = e[0]
    if k == 'lit':
        return Fraction(e[1]) * Fraction(10) ** e[2]
    if k == 'prefix':
        return expr_exact(prefixes[e[1]], prefixes)
    if k == 'neg':
        return -expr_exact(e[1], prefixes)
    a, b = expr_exact(e[1], prefixes), expr_exact(e[2], prefixes)
    return {'add': a + b, 'sub': a - b, 'mul': a * b, 'div': a / b if b != 0 else Fraction(0)}[k]


def expand_prefix(e, prefixes):
    """inline prefix!(x) by the macro's expansion (what rustc sees)."""
    k = e[0]
    if k == 'lit':
        return e
    if k == 'prefix':
        return expand_prefix(prefixes[e[1]], prefixes)
    return [k] + [expand_prefix(x, prefixes) for x in e[1:]]


# ------------------------------------------------------------------------------------------------
# sites


def read(repo, rel, site):
    p = os.path.join(repo, rel)
    try:
        with open(p, encoding='utf-8') as f:
            return f.read()
    except OSError as ex:
        raise SiteError(site, 'cannot read %s: %s' % (rel, ex))


def lex_site(src, site):
    try:
        return lex(src)
    except (LexError, ValueError, IndexError) as ex:
        raise SiteError(site, 'lexer: %s' % ex)


def site_prefix(repo):
    site = 'si.prefix'
    toks = lex_site(read(repo, 'src/si/prefix.rs', site), site)
    # macro_rules! prefix { (name) => { expr }; ... }
    i = None
    for j in range(len(toks) - 3):
        if toks[j] == ('id', 'macro_rules') and toks[j + 1] == ('p', '!') and toks[j + 2] == ('id', 'prefix'):
            i = j + 3
            break
    if i is None:
        raise SiteError(site, 'macro_rules! prefix not found')
    end = match_close(toks, i)
    c = Cur(toks, site, i + 1, end)
    prefixes = {}
    order = []
    while not c.done():
        c.expect('p', '(')
        name = c.expect('id')
        c.expect('p', ')')
        c.expect('p', '=>')
        c.expect('p', '{')
        e = parse_expr(c, prefixes, site)
        c.expect('p', '}')
        c.accept('p', ';')
        prefixes[name] = e
        order.append(name)
    if not order:
        raise SiteError(site, 'no prefixes')
    return prefixes, order


DIMV = {'Z0': 0}
for _i in range(1, 25):
    DIMV['P%d' % _i] = _i
    DIMV['N%d' % _i] = -_i


def parse_quantity_macro(toks, lo, hi, prefixes, site):
    c = Cur(toks, site, lo, hi)
    c.skip_attrs()
    c.expect('id', 'quantity')
    c.expect('p', ':')
    qname = c.expect('id')
    c.expect('p', ';')
    desc = c.expect('str')
    c.expect('p', ';')
    c.skip_attrs()
    c.expect('id', 'dimension')
    c.expect('p', ':')
    system = c.expect('id')
    c.expect('p', '<')
    dim = []
    while True:
        d = c.expect('id')
        if d not in DIMV:
            raise SiteError(site, 'unknown typenum exponent %r' % d)
        dim.append(DIMV[d])
        if c.accept('p', ','):
            continue
        c.expect('p', '>')
        break
    c.expect('p', ';')
    kind = 'Kind'
    if c.at('id', 'kind'):
        c.next()
        c.expect('p', ':')
        ids = []
        while not c.at('p', ';'):
            k, t = c.next()
            if k == 'id':
                ids.append(t)
        c.expect('p', ';')
        if not ids:
            raise SiteError(site, 'empty kind')
        kind = ids[-1]
    c.expect('id', 'units')
    c.expect('p', '{')
    units = []
    while not c.at('p', '}'):
        c.skip_attrs()
        c.expect('p', '@')
        uname = c.expect('id')
        c.expect('p', ':')
        coef = parse_expr(c, prefixes, site + '.' + uname)
        cons = None
        if c.accept('p', ','):
            cons = parse_expr(c, prefixes, site + '.' + uname)
        c.expect('p', ';')
        abbr = c.expect('str')
        c.expect('p', ',')
        sing = c.expect('str')
        c.expect('p', ',')
        plur = c.expect('str')
        c.expect('p', ';')
        units.append(dict(name=uname, coef=coef, cons=cons, abbr=abbr, sing=sing, plur=plur))
    c.expect('p', '}')
    if not units:
        raise SiteError(site, 'no units')
    return dict(name=qname, desc=desc, system=system, dim=dim, kind=kind, units=units)


def site_system(repo):
    site = 'si.system'
    toks = lex_site(read(repo, 'src/si/mod.rs', site), site)
    calls = list(find_macro_calls(toks, 'system'))
    if len(calls) != 1:
        raise SiteError(site, 'expected exactly one system! invocation, found %d' % len(calls))
    c = Cur(toks, site, calls[0][0], calls[0][1])
    c.skip_attrs()
    c.expect('id', 'quantities')
    c.expect('p', ':')
    qs = c.expect('id')
    c.expect('p', '{')
    base = []
    while not c.at('p', '}'):
        c.skip_attrs()
        name = c.expect('id')
        c.expect('p', ':')
        unit = c.expect('id')
        c.expect('p', ',')
        sym = c.expect('id')
        c.expect('p', ';')
        base.append(dict(name=name, unit=unit, symbol=sym))
    c.expect('p', '}')
    c.skip_attrs()
    c.expect('id', 'units')
    c.expect('p', ':')
    us = c.expect('id')
    c.expect('p', '{')
    mods = []
    while not c.at('p', '}'):
        c.skip_attrs()
        c.accept('id', 'mod')
        m = c.expect('id')
        c.expect('p', '::')
        q = c.expect('id')
        c.expect('p', ',')
        mods.append([m, q])
    return dict(quantities=qs, units=us, base=base, modules=mods), toks


MARKERS = ['Add', 'AddAssign', 'Sub', 'SubAssign', 'Mul', 'MulAssign', 'Div', 'DivAssign', 'Neg', 'Rem', 'RemAssign',
           'Saturating']


def parse_trait_supers(toks, site):
    """all `pub trait X: A + B + ... {` headers -> {X: [last path segment of each supertrait]}"""
    out = {}
    order = []
    i = 0
    while i + 2 < len(toks):
        if toks[i] == ('id', 'trait') and toks[i + 1][0] == 'id':
            name = toks[i + 1][1]
            j = i + 2
            supers = []
            if toks[j] == ('p', ':'):
                j += 1
                cur = None
                while j < len(toks) and toks[j] != ('p', '{') and toks[j] != ('id', 'where'):
                    k, t = toks[j]
                    if k == 'id':
                        cur = t
                    elif k == 'p' and t == '+':
                        if cur: supers.append(cur)
                        cur = None
                    elif k == 'p' and t == '<':
                        j = _skip_angle(toks, j)
                        continue
                    j += 1
                if cur: supers.append(cur)
            out[name] = supers
            order.append(name)
            i = j
        i += 1
    return out, order


def _skip_angle(toks, j):
    depth = 0
    while j < len(toks):
        k, t = toks[j]
        if k == 'p' and t == '<': depth += 1
        elif k == 'p' and t == '>':
            depth -= 1
            if depth == 0:
                return j + 1
        elif k == 'p' and t == '>>':
            depth -= 2
            if depth <= 0:
                return j + 1
        j += 1
    return j


def site_kinds(repo, si_toks):
    site = 'kinds'
    lib = lex_site(read(repo, 'src/lib.rs', site), site)
    lib_tr, _ = parse_trait_supers(lib, site)
    if 'Kind' not in lib_tr:
        raise SiteError(site, 'trait Kind not found in src/lib.rs')
    for m in MARKERS:
        if m not in lib_tr:
            raise SiteError(site, 'marker trait %s not found in src/lib.rs' % m)
    si_tr, si_order = parse_trait_supers(si_toks, site)
    kinds = {'Kind': sorted(set(lib_tr['Kind']), key=MARKERS.index)}
    order = ['Kind']
    for name in si_order:
        if not name.endswith('Kind'):
            continue
        ms = set()
        for s in si_tr[name]:
            if s == 'Kind':
                ms |= set(kinds['Kind'])
            elif s in MARKERS:
                ms.add(s)
            elif s in kinds:
                ms |= set(kinds[s])
            elif s in ('Send', 'Sync', 'Sized', 'Unpin'):
                pass
            else:
                raise SiteError(site, 'kind %s has unknown supertrait %s' % (name, s))
        kinds[name] = sorted(ms, key=MARKERS.index)
        order.append(name)
    return kinds, order


def site_impl_from(si_toks):
    site = 'impl_from'
    pairs = []
    for lo, hi in find_macro_calls(si_toks, 'impl_from'):
        c = Cur(si_toks, site, lo, hi)
        a = c.expect('id')
        c.expect('p', ',')
        b = c.expect('id')
        if not c.done():
            raise SiteError(site, 'unexpected tokens in impl_from!')
        pairs.append([a, b])
    return pairs


def site_quantities(repo, system, prefixes):
    out = []
    seen = set()
    for module, qname in system['modules']:
        site = 'si.quantity.' + module
        toks = lex_site(read(repo, 'src/si/%s.rs' % module, site), site)
        calls = list(find_macro_calls(toks, 'quantity'))
        if len(calls) != 1:
            raise SiteError(site, 'expected exactly one quantity! invocation, found %d' % len(calls))
        q = parse_quantity_macro(toks, calls[0][0], calls[0][1], prefixes, site)
        if q['name'] != qname:
            raise SiteError(site, 'system! lists %s::%s but the file declares %s' % (module, qname, q['name']))
        if len(q['dim']) != len(system['base']):
            raise SiteError(site, 'dimension has %d exponents, system has %d base quantities' % (len(q['dim']), len(system['base'])))
        q['module'] = module
        seen.add(module)
        out.append(q)
    return out


def translate_user(path, prefixes):
    """C19: the system / quantities / added units a downstream crate (the harness) declares with the
    exported macros — read with the same parsers as src/si"""
    site = 'usr'
    with open(path, encoding='utf-8') as f:
        toks = lex_site(f.read(), site)
    quants = {}
    for lo, hi in find_macro_calls(toks, 'quantity'):
        q = parse_quantity_macro(toks, lo, hi, prefixes, site + '.quantity')
        quants[q['name']] = q
    sys_calls = list(find_macro_calls(toks, 'system'))
    if len(sys_calls) != 1:
        raise SiteError(site, 'expected one system! invocation in the harness, found %d' % len(sys_calls))
    c = Cur(toks, site, sys_calls[0][0], sys_calls[0][1])
    c.skip_attrs(); c.expect('id', 'quantities'); c.expect('p', ':'); qs = c.expect('id'); c.expect('p', '{')
    base = []
    while not c.at('p', '}'):
        c.skip_attrs()
        name = c.expect('id'); c.expect('p', ':'); unit = c.expect('id'); c.expect('p', ','); sym = c.expect('id'); c.expect('p', ';')
        base.append(dict(name=name, unit=unit, symbol=sym))
    c.expect('p', '}'); c.skip_attrs(); c.expect('id', 'units'); c.expect('p', ':'); us = c.expect('id'); c.expect('p', '{')
    out = []
    while not c.at('p', '}'):
        c.skip_attrs(); c.accept('id', 'mod')
        m = c.expect('id'); c.expect('p', '::'); qn = c.expect('id'); c.expect('p', ',')
        if qn not in quants:
            raise SiteError(site, 'system! lists %s::%s but no quantity! declares it' % (m, qn))
        q = dict(quants[qn]); q['module'] = m
        if len(q['dim']) != len(base):
            raise SiteError(site, 'dimension arity of %s' % qn)
        out.append(q)
    added = []
    for lo, hi in find_macro_calls(toks, 'unit'):
        c = Cur(toks, site + '.unit', lo, hi)
        c.expect('id', 'system'); c.expect('p', ':')
        while not c.at('p', ';'):
            c.next()
        c.expect('p', ';'); c.expect('id', 'quantity'); c.expect('p', ':')
        path_ids = []
        while not c.at('p', ';'):
            k, tx = c.next()
            if k == 'id':
                path_ids.append(tx)
        c.expect('p', ';')
        while not c.done():
            c.skip_attrs(); c.expect('p', '@'); uname = c.expect('id'); c.expect('p', ':')
            coef = parse_expr(c, prefixes, site + '.unit.' + uname)
            cons = None
            if c.accept('p', ','):
                cons = parse_expr(c, prefixes, site + '.unit.' + uname)
            c.expect('p', ';'); abbr = c.expect('str'); c.expect('p', ','); sing = c.expect('str'); c.expect('p', ','); plur = c.expect('str'); c.expect('p', ';')
            added.append(dict(quantity=path_ids[-1], name=uname, coef=coef, cons=cons, abbr=abbr, sing=sing, plur=plur))
    return dict(quantities=out, base=base, added=added, qs=qs, us=us)


def emit_user(t, usr, outdir):
    prefixes = t['prefixes']
    lines = ['-- GENERATED by translate/translate.py from /verif/harness/src/bin/usr.rs — do not edit', 'import Uom.Model.Table', 'namespace Uom.Gen.Usr', 'open Uom', '']

    def unit_row(u):
        coef = lean_expr(expand_prefix(u['coef'], prefixes))
        cons = 'none' if u['cons'] is None else '(some %s)' % lean_expr(expand_prefix(u['cons'], prefixes))
        return '  { name := %s, coef := %s, cons := %s,\n    abbr := %s, sing := %s, plur := %s }' % (
            lean_str(u['name']), coef, cons, lean_str(u['abbr']), lean_str(u['sing']), lean_str(u['plur']))

    for q in usr['quantities']:
        lines.append('def q_%s : QuantityDecl := {\n  modName := %s, name := %s, desc := %s,\n  dim := [%s], kind := 0,\n  units := [\n%s] }' % (
            q['module'], lean_str('usr.' + q['module']), lean_str(q['name']), lean_str(q['desc']), ', '.join(str(d) for d in q['dim']),
            ',\n'.join(unit_row(u) for u in q['units'])))
    lines.append('def table : List QuantityDecl := [%s]' % ', '.join('q_' + q['module'] for q in usr['quantities']))
    lines.append('def baseUnits : List (Str × Str) := [%s]' % ', '.join('(%s, %s)' % (lean_str('usr.' + b['name']), lean_str(b['unit'])) for b in usr['base']))
    by_q = {}
    for a in usr['added']:
        by_q.setdefault(a['quantity'], []).append(a)
    lines.append('/-- units added to built-in quantities with `unit!` (absent from the registry, as documented) -/')
    lines.append('def added : List QuantityDecl := [%s]' % ',\n'.join(
        '{\n  modName := %s, name := %s, desc := %s, dim := [], kind := 0,\n  units := [\n%s] }' % (
            lean_str('added.' + qn), lean_str(qn), lean_str(qn), ',\n'.join(unit_row(u) for u in us)) for qn, us in by_q.items()))
    lines.append('end Uom.Gen.Usr')
    return write_if_changed(os.path.join(outdir, 'Usr.lean'), '\n'.join(lines) + '\n')


def site_layout(repo):
    """`struct Quantity` of src/system.rs: attributes and fields; `#[inline(always)]` on the conversion kernel"""
    site = 'layout'
    toks = lex_site(read(repo, 'src/system.rs', site), site)
    idx = None
    for i in range(len(toks) - 2):
        if toks[i] == ('id', 'struct') and toks[i + 1] == ('id', 'Quantity'):
            idx = i
            break
    if idx is None:
        raise SiteError(site, 'struct Quantity not found')
    # attributes immediately preceding `pub struct` (doc comments are gone; cfg_attr(doc) ones are skipped)
    attrs = []
    j = idx - 1
    if toks[j] == ('id', 'pub'):
        j -= 1
    while j > 0 and toks[j] == ('p', ']'):
        depth = 0
        k = j
        while k >= 0:
            if toks[k] == ('p', ']'): depth += 1
            elif toks[k] == ('p', '['):
                depth -= 1
                if depth == 0:
                    break
            k -= 1
        text = ''.join(t for _k, t in toks[k + 1:j])
        if not text.startswith('cfg_attr') and not text.startswith('doc'):
            attrs.append(text)
        j = k - 2 if toks[k - 1] == ('p', '#') else k - 1
    # fields
    k = idx
    while toks[k] != ('p', '{'):
        k += 1
    end = match_close(toks, k)
    c = Cur(toks, site, k + 1, end)
    fields = []
    while not c.done():
        c.skip_attrs()
        c.accept('id', 'pub')
        name = c.expect('id')
        c.expect('p', ':')
        ty = []
        depth = 0
        while not c.done():
            kk, tt = c.peek()
            if kk == 'p' and tt == ',' and depth == 0:
                break
            if kk == 'p' and tt == '<': depth += 1
            if kk == 'p' and tt == '>': depth -= 1
            ty.append(tt)
            c.next()
        c.accept('p', ',')
        fields.append([name, ''.join(ty)])
    # #[inline(always)] on the conversion kernel
    inl = {}
    for fn in ('from_base', 'to_base', 'change_base'):
        for i in range(len(toks) - 1):
            if toks[i] == ('id', 'fn') and toks[i + 1] == ('id', fn):
                window = toks[max(0, i - 40):i]
                inl[fn] = any(window[m:m + 4] == [('id', 'inline'), ('p', '('), ('id', 'always'), ('p', ')')] for m in range(len(window) - 3))
                break
        else:
            raise SiteError(site, 'fn %s not found' % fn)
    return dict(attrs=attrs, fields=fields, inline_always=inl)


def emit_layout(layout, outdir):
    lines = ['-- GENERATED by translate/translate.py from src/system.rs — do not edit', 'namespace Uom.Gen.Layout', '']
    lines.append('def attrs : List String := [%s]' % ', '.join(json.dumps(a) for a in layout['attrs']))
    lines.append('/-- (field name, type text, is the type a `PhantomData<…>`) -/')
    lines.append('def fields : List (String × String × Bool) := [%s]' % ', '.join(
        '(%s, %s, %s)' % (json.dumps(n), json.dumps(t), 'true' if re.search(r'(^|::)PhantomData<', t) else 'false') for n, t in layout['fields']))
    lines.append('def inlineAlways : List (String × Bool) := [%s]' % ', '.join('(%s, %s)' % (json.dumps(k), 'true' if v else 'false') for k, v in layout['inline_always'].items()))
    lines.append('end Uom.Gen.Layout')
    return write_if_changed(os.path.join(outdir, 'Layout.lean'), '\n'.join(lines) + '\n')


def translate(repo):
    prefixes, prefix_order = site_prefix(repo)
    system, si_toks = site_system(repo)
    kinds, kind_order = site_kinds(repo, si_toks)
    impl_from = site_impl_from(si_toks)
    quantities = site_quantities(repo, system, prefixes)
    for q in quantities:
        if q['kind'] not in kinds:
            raise SiteError('si.quantity.' + q['module'], 'unknown kind %s' % q['kind'])
    by_mod = {q['module']: q for q in quantities}
    for b in system['base']:
        if b['name'] not in by_mod:
            raise SiteError('si.system', 'base quantity %s has no module' % b['name'])
        if b['unit'] not in [u['name'] for u in by_mod[b['name']]['units']]:
            raise SiteError('si.system', 'base unit %s not declared in %s' % (b['unit'], b['name']))
    return dict(system=system, prefixes={k: prefixes[k] for k in prefix_order}, prefix_order=prefix_order,
                kinds={k: kinds[k] for k in kind_order}, kind_order=kind_order, markers=MARKERS,
                impl_from=impl_from, quantities=quantities)


# ------------------------------------------------------------------------------------------------
# emitters


def write_if_changed(path, content):
    os.makedirs(os.path.dirname(path), exist_ok=True)
    try:
        with open(path, encoding='utf-8') as f:
            if f.read() == content:
                return False
    except OSError:
        pass
    tmp = path + '.tmp'
    with open(tmp, 'w', encoding='utf-8') as f:
        f.write(content)
    os.replace(tmp, path)
    return True


def lean_str(s):
    b = s.encode('utf-8')
    return '⟨%d, 0x%s⟩' % (len(b), b.hex() if b else '0')


def lean_int(n):
    return str(n) if n >= 0 else '(%d)' % n


def lean_expr(e):
    k = e[0]
    if k == 'lit':
        return '(.lit %d %s)' % (e[1], lean_int(e[2]))
    if k == 'neg':
        return '(.neg %s)' % lean_expr(e[1])
    return '(.%s %s %s)' % (k, lean_expr(e[1]), lean_expr(e[2]))


LEAN_KEYWORDS = {'end', 'at', 'from', 'in', 'open', 'section', 'do', 'then', 'else', 'if', 'fun', 'let', 'have', 'show', 'by', 'with', 'match',
                 'where', 'deriving', 'instance', 'structure', 'class', 'def', 'theorem', 'example', 'abbrev', 'import', 'namespace',
                 'variable', 'universe', 'mutual', 'macro', 'syntax', 'notation', 'infix', 'prefix', 'postfix', 'private', 'protected',
                 'partial', 'unsafe', 'noncomputable', 'return', 'for', 'unless', 'try', 'catch', 'finally', 'break', 'continue',
                 'Type', 'Prop', 'Sort', 'local', 'attribute', 'set_option', 'using', 'extends', 'inductive', 'axiom', 'opaque',
                 'calc', 'nomatch', 'nofun', 'true', 'false', 'module', 'meta', 'public'}


def lean_ident(i):
    return '«%s»' % i if i in LEAN_KEYWORDS else i


def chunked(items, n=64):
    return [items[i:i + n] for i in range(0, len(items), n)]


def emit_lean(t, outdir):
    prefixes = t['prefixes']
    kind_idx = {k: i for i, k in enumerate(t['kind_order'])}
    written = 0
    mods = []
    for q in t['quantities']:
        lines = ['-- GENERATED by translate/translate.py from src/si/%s.rs — do not edit' % q['module'],
                 'import Uom.Model.Table', 'namespace Uom.Gen', 'open Uom', '']
        rows = []
        for u in q['units']:
            coef = lean_expr(expand_prefix(u['coef'], prefixes))
            cons = 'none' if u['cons'] is None else '(some %s)' % lean_expr(expand_prefix(u['cons'], prefixes))
            rows.append('  { name := %s, coef := %s, cons := %s,\n    abbr := %s, sing := %s, plur := %s }' % (
                lean_str(u['name']), coef, cons, lean_str(u['abbr']), lean_str(u['sing']), lean_str(u['plur'])))
        chunks = chunked(rows)
        for ci, ch in enumerate(chunks):
            lines.append('def q_%s_units%d : List UnitDecl := [\n%s]' % (q['module'], ci, ',\n'.join(ch)))
        lines.append('def q_%s : QuantityDecl := {\n  modName := %s, name := %s, desc := %s,\n  dim := [%s], kind := %d,\n  units := %s }' % (
            q['module'], lean_str(q['module']), lean_str(q['name']), lean_str(q['desc']),
            ', '.join(str(d) for d in q['dim']), kind_idx[q['kind']],
            ' ++ '.join('q_%s_units%d' % (q['module'], ci) for ci in range(len(chunks)))))
        lines.append('end Uom.Gen')
        mod = 'Q_' + q['module']
        mods.append(mod)
        written += write_if_changed(os.path.join(outdir, 'Q', mod + '.lean'), '\n'.join(lines) + '\n')
    # remove stale quantity files
    qdir = os.path.join(outdir, 'Q')
    for f in os.listdir(qdir):
        if f.endswith('.lean') and f[:-5] not in mods:
            os.remove(os.path.join(qdir, f))
            written += 1
    # identifiers as Str constants, so hand-written theorems can name units and quantities
    idents = []
    seen = set()
    for q in t['quantities']:
        for ident in [q['module']] + [u['name'] for u in q['units']]:
            if ident not in seen:
                seen.add(ident)
                idents.append(ident)
    nl = ['-- GENERATED by translate/translate.py — do not edit', 'import Uom.Model.Table', 'namespace Uom.Gen.N', 'open Uom']
    nl += ['def %s : Str := %s' % (lean_ident(i), lean_str(i)) for i in idents]
    nl.append('end Uom.Gen.N')
    written += write_if_changed(os.path.join(outdir, 'Names.lean'), '\n'.join(nl) + '\n')
    lines = ['-- GENERATED by translate/translate.py — do not edit']
    lines += ['import Uom.Gen.Q.%s' % m for m in mods]
    lines += ['namespace Uom.Gen', 'open Uom', '']
    qchunks = chunked(['q_' + q['module'] for q in t['quantities']], 32)
    for ci, ch in enumerate(qchunks):
        lines.append('def table%d : List QuantityDecl := [%s]' % (ci, ', '.join(ch)))
    lines.append('def table : List QuantityDecl := %s' % ' ++ '.join('table%d' % i for i in range(len(qchunks))))
    lines.append('')
    lines.append('def markerNames : List Str := [%s]' % ', '.join(lean_str(m) for m in t['markers']))
    lines.append('def kinds : List KindDecl := [\n%s]' % ',\n'.join(
        '  { name := %s, markers := [%s] }' % (lean_str(k), ', '.join(str(t['markers'].index(m)) for m in t['kinds'][k]))
        for k in t['kind_order']))
    lines.append('def implFrom : List (Nat × Nat) := [%s]' % ', '.join(
        '(%d, %d)' % (kind_idx[a], kind_idx[b]) for a, b in t['impl_from']))
    lines.append('def prefixes : List (Str × CExpr) := [\n%s]' % ',\n'.join(
        '  (%s, %s)' % (lean_str(p), lean_expr(expand_prefix(t['prefixes'][p], prefixes))) for p in t['prefix_order']))
    s = t['system']
    lines.append('def system : SystemDecl := {\n  quantities := %s, units := %s,\n  base := [%s] }' % (
        lean_str(s['quantities']), lean_str(s['units']),
        ', '.join('{ name := %s, unit := %s, symbol := %s }' % (lean_str(b['name']), lean_str(b['unit']), lean_str(b['symbol']))
                  for b in s['base'])))
    lines.append('end Uom.Gen')
    written += write_if_changed(os.path.join(outdir, 'Table.lean'), '\n'.join(lines) + '\n')
    return written


def lean_rat(s):
    f = Fraction(s)
    return '(%d / %d)' % (f.numerator, f.denominator)


def emit_certs(t, outdir, verif):
    """C05 composition certificates (finder: translate/compose.py; it never looks at coefficients)"""
    import compose
    r = compose.find(t)
    try:
        with open(os.path.join(verif, 'known_findings.json'), encoding='utf-8') as f:
            kf = json.load(f)
    except OSError:
        kf = {'findings': []}
    dev = {}
    for fnd in kf.get('findings', []):
        if fnd.get('key', {}).get('kind') == 'coefficient-deviation':
            for u in fnd['key']['units']:
                dev[(u['module'], u['unit'])] = u['bound']

    def fac(f):
        return '⟨%d, %d, %s, %d⟩' % (f[0], f[1], lean_int(f[2]), f[3])

    def reading(rd):
        return '[' + ', '.join('[' + ', '.join(fac(f) for f in g) + ']' for g in rd) + ']'

    normal, deviant = [], []
    for qi, ui, cs in r['composable']:
        q = t['quantities'][qi]
        key = (q['module'], q['units'][ui]['name'])
        row = '  ⟨%d, %d, [%s]⟩' % (qi, ui, ', '.join(reading(c) for c in cs))
        if key in dev:
            deviant.append('  (%s, %s)' % (lean_rat(dev[key]), row.strip()))
        else:
            normal.append(row)
    lines = ['-- GENERATED by translate/translate.py (finder: translate/compose.py) — do not edit', 'import Uom.Model.Compose', 'namespace Uom.Gen', 'open Uom', '']
    chunks = chunked(normal, 60)
    for i, ch in enumerate(chunks):
        lines.append('def certs%d : List Cert := [\n%s]' % (i, ',\n'.join(ch)))
    lines.append('def certChunks : List (List Cert) := [%s]' % ', '.join('certs%d' % i for i in range(len(chunks))))
    lines.append('/-- composable units listed as known findings, each with its own recorded bound -/')
    lines.append('def devCerts : List (Rat × Cert) := [\n%s]' % ',\n'.join(deviant))
    lines.append('/-- units whose identifier reads as a composition, but of another dimension -/')
    lines.append('def misnamed : List (Nat × Nat) := [%s]' % ', '.join('(%d, %d)' % x for x in r['misnamed']))
    lines.append('def primitives : List (Nat × Nat) := [%s]' % ', '.join('(%d, %d)' % x for x in r['primitive']))
    lines.append('end Uom.Gen')
    t['compose'] = dict(composable=len(r['composable']), primitive=len(r['primitive']),
                        misnamed=[[t['quantities'][qi]['module'], t['quantities'][qi]['units'][ui]['name']] for qi, ui in r['misnamed']],
                        deviant=len(deviant))
    t['_certs'] = [[qi, ui, cs] for qi, ui, cs in r['composable']]
    return write_if_changed(os.path.join(outdir, 'Certs.lean'), '\n'.join(lines) + '\n')


def emit_label_checks(t, outdir, shards=16):
    """per-quantity kernel obligations, spread over `shards` modules so lake checks them in parallel"""
    written = 0
    qs = t['quantities']
    cdir = os.path.join(outdir, 'Check')
    names = []
    for k in range(shards):
        part = [q for i, q in enumerate(qs) if i % shards == k]
        lines = ['-- GENERATED by translate/translate.py — do not edit', 'import Uom.Model.LabelCheck']
        lines += ['import Uom.Gen.Q.Q_%s' % q['module'] for q in part]
        lines += ['namespace Uom.Gen.Check', 'open Uom', '']
        for q in part:
            lines.append('theorem labels_%s : labelOk Gen.q_%s = true := by decide +kernel' % (q['module'], q['module']))
        lines.append('end Uom.Gen.Check')
        written += write_if_changed(os.path.join(cdir, 'L%d.lean' % k), '\n'.join(lines) + '\n')
        names.append('L%d' % k)
    for f in os.listdir(cdir):
        if f.endswith('.lean') and f[:-5] not in names + ['Labels']:
            os.remove(os.path.join(cdir, f))
    lines = ['-- GENERATED by translate/translate.py — do not edit', 'import Uom.Gen.Table']
    lines += ['import Uom.Gen.Check.%s' % n for n in names]
    lines += ['namespace Uom.Gen.Check', 'open Uom', '']
    lines.append('/-- the table is the list of the per-quantity declarations -/')
    lines.append('theorem table_eq : Gen.table = [%s] := by rfl' % ', '.join('Gen.q_' + q['module'] for q in qs))
    lines.append('')
    lines.append('/-- every quantity of the table passes the label obligations -/')
    lines.append('theorem labels_all : ∀ q ∈ Gen.table, labelOk q = true := by')
    lines.append('  rw [table_eq]')
    lines.append('  intro q hq')
    lines.append('  simp only [List.mem_cons, List.not_mem_nil, or_false] at hq')
    lines.append('  rcases hq with %s' % ' | '.join(['rfl'] * len(qs)))
    for q in qs:
        lines.append('  · exact labels_%s' % q['module'])
    lines.append('end Uom.Gen.Check')
    written += write_if_changed(os.path.join(cdir, 'Labels.lean'), '\n'.join(lines) + '\n')
    return written


def emit_rust(t, outdir):
    """macros enumerating the SI so the harness can instantiate generic probes per quantity / unit."""
    lines = ['// GENERATED by translate/translate.py — do not edit', '']
    lines.append('#[macro_export]')
    lines.append('macro_rules! for_each_quantity {')
    lines.append('    ($m:ident $(, $arg:tt)*) => {')
    for q in t['quantities']:
        lines.append('        $m!($($arg,)* %s, %s, [%s]);' % (q['module'], q['name'], ', '.join(u['name'] for u in q['units'])))
    lines.append('    };')
    lines.append('}')
    lines.append('')
    lines.append('pub const QUANTITY_MODULES: &[&str] = &[%s];' % ', '.join('"%s"' % q['module'] for q in t['quantities']))
    lines.append('pub const BASE_QUANTITIES: &[(&str, &str)] = &[%s];' % ', '.join(
        '("%s", "%s")' % (b['name'], b['unit']) for b in t['system']['base']))
    return write_if_changed(os.path.join(outdir, 'si_gen.rs'), '\n'.join(lines) + '\n')


BODY_FILES = ['system.rs', 'quantity.rs', 'si/thermodynamic_temperature.rs', 'si/temperature_interval.rs',
              'si/mod.rs', 'si/angle.rs', 'si/ratio.rs', 'si/time.rs', 'lib.rs', 'unit.rs']


def site_bodies(repo):
    """every `fn` body of the macro files, as `BExpr` (see bodies.py); [(key, nparams, lean)] and the name table"""
    import bodies
    try:
        out, names, raw = bodies.collect(lambda rel: read(repo, 'src/' + rel, 'bodies.' + rel), BODY_FILES)
    except SiteError:
        raise
    except Exception as ex:     # noqa: a lexer/parser failure is a broken translator, not a crash
        raise SiteError('bodies', '%s: %s' % (type(ex).__name__, ex))
    if not out:
        raise SiteError('bodies', 'no function bodies found')
    return out, names, raw


def emit_bodies(out, names, outdir, raw=None):
    import bodies
    raw = raw or {}
    lines = ['import Uom.Model.Body', '/-! GENERATED by translate/translate.py (site `bodies`) — do not edit -/',
             'namespace Uom.Gen.Body', 'open Uom.Body', '']
    for key, nparams, lean in out:
        lines.append('def %s : FnDef := ⟨%d, %s⟩' % (key, nparams, lean))
    lines.append('')
    lines.append('/-! uninterpreted names: `code ↦ text` -/')
    used = {}
    for text, code in names.codes.items():
        kind, _, rest = text.partition(' ')
        if kind not in ('fn', 'method', 'field'):
            continue
        rest = rest.replace('?', 'try').replace('!', 'not')
        base = {'fn': 'f_', 'method': 'm_', 'field': 'fld_'}[kind] + (re.sub(r'[^A-Za-z0-9]+', '_', rest).strip('_') or 'x')
        if base in used:
            base += '_%d' % code
        used[base] = code
        lines.append('/-- `%s` -/' % text.replace('-/', '- /'))
        lines.append('def %s : Nat := %d' % (base, code))
    lines.append('')
    lines.append('end Uom.Gen.Body')
    changed = write_if_changed(os.path.join(outdir, 'Bodies.lean'), '\n'.join(lines) + '\n')
    # signatures (output dimension, kind bounds, per-exponent bounds) of the same functions
    import bodies
    sl = ['import Uom.Model.Sig', '/-! GENERATED by translate/translate.py (site `bodies`, signatures) — do not edit -/',
          'namespace Uom.Gen.Sig', 'open Uom.Body Uom.Sig', '']
    for key, _n, _l in out:
        b = raw.get(key)
        if b is None or not (key.startswith('system_') or key.startswith('si_')):
            continue
        sl.append('def %s : Sig := %s' % (key, bodies.parse_sig(b.get('hdr', ''), b.get('impl_out', ''), b.get('sig', ''), MARKERS, b.get('ptypes', ()))))
    # closed-world inventory of the `impl` headers of the system / si macro files
    try:
        rows = bodies.collect_impls(lambda rel: read(os.environ.get('UOM_REPO', '/repo'), 'src/' + rel, 'bodies.' + rel),
                                    ['system.rs', 'si/mod.rs', 'si/thermodynamic_temperature.rs', 'si/temperature_interval.rs',
                                     'si/angle.rs', 'si/ratio.rs', 'si/time.rs', 'quantity.rs'])
    except Exception as ex:     # noqa
        raise SiteError('bodies', 'impl inventory: %s' % ex)
    discs = []
    for d, _m in rows:
        if d not in discs:
            discs.append(d)
    sl.append('')
    sl.append('/-! every `impl` header of src/system.rs, src/quantity.rs and the special impls of src/si: discriminator and kind-bound markers -/')
    for i, d in enumerate(discs):
        sl.append('def impl_%s : Nat := %d' % (d, i))
    sl.append('def implInventory : List (Nat × List Nat) := [')
    sl.append(',\n'.join('  (impl_%s, [%s])' % (d, ', '.join(str(MARKERS.index(m)) if m in MARKERS else '999' for m in ms)) for d, ms in rows))
    sl.append(']')
    # closed-world inventory of conditional compilation: every `#[cfg(P)]`, `cfg!(P)` and every `cfg_attr(P, X)` whose
    # payload X is not documentation or a lint level, in the macro files, the storage-type and feature-gate files
    from rustlex import lex, match_close
    preds = []
    for rel in BODY_FILES + ['storage_types.rs', 'features.rs']:
        try:
            toks = lex(read(os.environ.get('UOM_REPO', '/repo'), 'src/' + rel, 'bodies.' + rel))
        except SiteError:
            raise
        i = 0
        while i < len(toks) - 1:
            k, t = toks[i]
            if k == 'id' and t in ('cfg', 'cfg_attr') and toks[i + 1] in (('p', '('), ('p', '!')):
                j = i + 1
                if toks[j] == ('p', '!'):
                    j += 1
                if j < len(toks) and toks[j] == ('p', '('):
                    e = match_close(toks, j)
                    inner = toks[j + 1:e]
                    if t == 'cfg_attr':
                        # split at the first top-level comma: predicate, payload
                        depth, cut = 0, None
                        for q, (kk, tt) in enumerate(inner):
                            if kk == 'p' and tt in '([{': depth += 1
                            if kk == 'p' and tt in ')]}': depth -= 1
                            if kk == 'p' and tt == ',' and depth == 0:
                                cut = q
                                break
                        payload = ' '.join(tt for _k, tt in inner[cut + 1:]) if cut is not None else ''
                        if re.match(r'(doc\b|allow\b|warn\b|deny\b|no_std\b|clippy\b)', payload):
                            i = e + 1
                            continue
                        text = 'cfg_attr(' + ' '.join(tt for _k, tt in inner) + ')'
                    else:
                        text = ' '.join((repr(tt) if _k == 'str' else tt) for _k, tt in inner)
                    if text not in preds:
                        preds.append(text)
                    i = e + 1
                    continue
            i += 1
    sl.append('')
    sl.append('/-! every conditional-compilation predicate of the macro files (documentation / lint-only `cfg_attr`s excluded) -/')
    cfg_names = []
    for i, ptxt in enumerate(preds):
        nm = 'cfg_' + (re.sub(r'[^A-Za-z0-9]+', '_', ptxt).strip('_') or 'x')
        if nm in cfg_names:
            nm += '_%d' % i
        cfg_names.append(nm)
        sl.append('/-- `%s` -/' % ptxt.replace('-/', '- /'))
        sl.append('def %s : Nat := %d' % (nm, i))
    sl.append('def cfgPredicates : List Nat := [%s]' % ', '.join(cfg_names))
    # the atoms of each predicate other than `feature = "…"` and `test` (e.g. `debug_assertions`, `target_pointer_width`):
    # configuration axes the feature-flag property (C17) and the debug-build correspondence do not range over
    foreign = []
    for nm, ptxt in zip(cfg_names, preds):
        atoms = [w for w in re.findall(r"[A-Za-z_$][A-Za-z0-9_$]*", re.sub(r"'[^']*'", '', ptxt))
                 if w not in ('not', 'any', 'all', 'feature', 'test', 'cfg_attr', '$feature')]
        if atoms:
            foreign.append('(%s, %d)' % (nm, len(atoms)))
    sl.append('def cfgForeignAtoms : List (Nat × Nat) := [%s]' % ', '.join(foreign))
    # method-resolution hijack: a method of one of the crate's own traits (which are where-clause bounds of every
    # quantity impl, hence in scope) that has the same name as a storage-type method the quantity impls forward to
    # (`self.value.abs()` …) would be picked instead of it when its receiver is by value
    tfns = bodies.collect_trait_fns(lambda rel: read(os.environ.get('UOM_REPO', '/repo'), 'src/' + rel, 'bodies.' + rel),
                                    ['lib.rs', 'system.rs', 'quantity.rs', 'unit.rs', 'si/mod.rs'])
    fwd_codes = {text[len('method '):].split('::<')[0]: code for text, code in names.codes.items() if text.startswith('method ')}
    sl.append('')
    sl.append('/-! methods declared by the traits of the crate, as codes of the method-name table of `Gen/Bodies.lean` when a quantity body calls a method of that name -/')
    rows = []
    trs = []
    for tr, fn in tfns:
        if tr not in trs:
            trs.append(tr)
            sl.append('def trait_%s : Nat := %d' % (tr, len(trs) - 1))
        if fn in fwd_codes:
            rows.append('(trait_%s, %d)' % (tr, fwd_codes[fn]))
    sl.append('def traitFnCodes : List (Nat × Nat) := [%s]' % ', '.join(rows))
    sl.append('def traitFnCount : Nat := %d' % len(tfns))
    # function keys that occur more than once (an unrecognised cfg twin would show up here)
    dups = sorted(k for k, _n, _l in out if re.search(r'_v\d+$', k))
    sl.append('def duplicateKeys : List String := [%s]' % ', '.join('"%s"' % d for d in dups))
    sl.append('')
    sl.append('end Uom.Gen.Sig')
    changed += write_if_changed(os.path.join(outdir, 'Sigs.lean'), '\n'.join(sl) + '\n')
    return changed


def site_features(repo):
    """src/features.rs: every `#[cfg(COND)] macro_rules! NAME { ($($tt:tt)*) => { BODY }; }` as (NAME, COND, passes)"""
    from rustlex import lex, match_close
    toks = lex(read(repo, 'src/features.rs', 'features'))
    gates = []
    i = 0
    pending = None

    def cfg(lo, hi):
        # tokens of a cfg predicate -> nested tuple
        k, t = toks[lo]
        if k == 'id' and t == 'feature':
            assert toks[lo + 1] == ('p', '=') and toks[lo + 2][0] == 'str'
            return ('feat', toks[lo + 2][1]), lo + 3
        if k == 'id' and t == 'test':
            return ('test',), lo + 1
        if k == 'id' and t in ('not', 'any', 'all'):
            assert toks[lo + 1] == ('p', '(')
            end = match_close(toks, lo + 1)
            items = []
            j = lo + 2
            while j < end:
                e, j = cfg(j, end)
                items.append(e)
                if j < end and toks[j] == ('p', ','):
                    j += 1
            return (t, items), end + 1
        raise SiteError('features', 'cfg predicate not understood at token %d: %r' % (lo, t))

    while i < len(toks):
        if toks[i] == ('p', '#') and toks[i + 1] == ('p', '['):
            j = match_close(toks, i + 1)
            if toks[i + 2] == ('id', 'cfg'):
                pending, _ = cfg(i + 4, j - 1)
            i = j + 1
            continue
        if toks[i] == ('id', 'macro_rules') and toks[i + 1] == ('p', '!'):
            name = toks[i + 2][1]
            b = i + 3
            bend = match_close(toks, b)
            # single arm  ( $($tt:tt)* ) => { body } ;
            m0 = b + 1
            mend = match_close(toks, m0)
            if ' '.join(t for _k, t in toks[m0 + 1:mend]) != '$ ( $tt : tt ) *' or toks[mend + 1] != ('p', '=>'):
                raise SiteError('features', 'gate macro %s has an unexpected matcher' % name)
            body0 = mend + 2
            bodyend = match_close(toks, body0)
            body = ' '.join(t for _k, t in toks[body0 + 1:bodyend])
            if body not in ('', '$ ( $tt ) *'):
                raise SiteError('features', 'gate macro %s has an unexpected body: %s' % (name, body))
            if pending is None:
                raise SiteError('features', 'gate macro %s without a cfg attribute' % name)
            gates.append((name, pending, body != ''))
            pending = None
            i = bend + 1
            continue
        i += 1
    if not gates:
        raise SiteError('features', 'no gate macros found')
    return gates


def emit_features(gates, outdir):
    feats = []

    def walk(c):
        if c[0] == 'feat' and c[1] not in feats:
            feats.append(c[1])
        if c[0] in ('not', 'any', 'all'):
            for x in c[1]:
                walk(x)
    for _n, c, _p in gates:
        walk(c)
    names = []
    for n, _c, _p in gates:
        if n not in names:
            names.append(n)

    def lean(c):
        if c[0] == 'feat':
            return '(.feat %d)' % feats.index(c[1])
        if c[0] == 'test':
            return '.test'
        if c[0] == 'not':
            return '(.not %s)' % lean(c[1][0])
        return '(.%s [%s])' % (c[0], ', '.join(lean(x) for x in c[1]))
    lines = ['import Uom.Model.Features', '/-! GENERATED by translate/translate.py (site `features`) — do not edit -/',
             'namespace Uom.Gen.Features', 'open Uom.Features', '']
    for i, f in enumerate(feats):
        lines.append('def feat_%s : Nat := %d' % (re.sub(r'[^A-Za-z0-9]+', '_', f), i))
    for i, n in enumerate(names):
        lines.append('def gate_%s : Nat := %d' % (n, i))
    lines.append('def gates : List Gate := [')
    lines.append(',\n'.join('  ⟨gate_%s, %s, %s⟩' % (n, lean(c), 'true' if p else 'false') for n, c, p in gates))
    lines.append(']')
    lines.append('')
    lines.append('end Uom.Gen.Features')
    return write_if_changed(os.path.join(outdir, 'Features.lean'), '\n'.join(lines) + '\n')


def emit_rx(raw, outdir):
    """the same function bodies in the control-flow language `Uom.Rx.Rx` (Model/Rx.lean)"""
    import bodies
    out, names = bodies.collect_rx(raw)
    lines = ['import Uom.Model.Rx', '/-! GENERATED by translate/translate.py (site `bodies`, Rx form) — do not edit -/',
             'namespace Uom.Gen.RxBody', 'open Uom.Rx', '']
    for key, nparams, lean in out:
        lines.append('def %s : FnDef := ⟨%d, %s⟩' % (key, nparams, lean))
    lines.append('')
    lines.append('/-! names: `code ↦ text`; the tables of paths and methods start with the well-known names of Model/Rx.lean -/')
    pre = {'c': 'c_', 'm': 'm_', 'fld': 'fld_', 'op': 'op_', 'ty': 'ty_', 'meta': 'meta_'}
    opn = {'+': 'add', '-': 'sub', '*': 'mul', '/': 'div', '%': 'rem', '<': 'lt', '<=': 'le', '>': 'gt', '>=': 'ge',
           '==': 'eq', '!=': 'ne'}
    used = set()
    for tab, prefix in pre.items():
        for text, code in names.tabs[tab].items():
            shown = opn.get(text, text) if tab == 'op' else text
            base = prefix + (re.sub(r'[^A-Za-z0-9]+', '_', shown).strip('_') or 'x')
            if base in used:
                base += '_%d' % code
            used.add(base)
            lines.append('/-- `%s` -/' % text.replace('-/', '- /'))
            lines.append('def %s : Nat := %d' % (base, code))
    lines.append('')
    lines.append('end Uom.Gen.RxBody')
    return write_if_changed(os.path.join(outdir, 'RxBodies.lean'), '\n'.join(lines) + '\n')


def main():
    verif = os.environ.get('VERIF_DIR') or os.path.dirname(os.path.dirname(os.path.abspath(__file__)))
    repo = os.environ.get('UOM_REPO', '/repo')
    try:
        t = translate(repo)
    except SiteError as ex:
        print('translator-broken:%s %s' % (ex.site, ex.msg))
        return 3
    # exact rational value of every coefficient, for the python-side consumers
    for q in t['quantities']:
        for u in q['units']:
            f = expr_exact(u['coef'], t['prefixes'])
            u['coef_exact'] = [f.numerator, f.denominator]
            if u['cons'] is not None:
                g = expr_exact(u['cons'], t['prefixes'])
                u['cons_exact'] = [g.numerator, g.denominator]
    changed = 0
    changed += emit_certs(t, os.path.join(verif, 'lean', 'Uom', 'Gen'), verif)
    changed += emit_label_checks(t, os.path.join(verif, 'lean', 'Uom', 'Gen'))
    try:
        layout = site_layout(repo)
    except SiteError as ex:
        print('translator-broken:%s %s' % (ex.site, ex.msg))
        return 3
    t['layout'] = layout
    changed += emit_layout(layout, os.path.join(verif, 'lean', 'Uom', 'Gen'))
    try:
        usr = translate_user(os.path.join(verif, 'harness', 'src', 'bin', 'usr.rs'), t['prefixes'])
    except SiteError as ex:
        print('translator-broken:%s %s' % (ex.site, ex.msg))
        return 3
    changed += emit_user(t, usr, os.path.join(verif, 'lean', 'Uom', 'Gen'))
    try:
        bout, bnames, braw = site_bodies(repo)
    except SiteError as ex:
        print('translator-broken:%s %s' % (ex.site, ex.msg))
        return 3
    changed += emit_bodies(bout, bnames, os.path.join(verif, 'lean', 'Uom', 'Gen'), braw)
    changed += emit_rx(braw, os.path.join(verif, 'lean', 'Uom', 'Gen'))
    try:
        gates = site_features(repo)
    except SiteError as ex:
        print('translator-broken:%s %s' % (ex.site, ex.msg))
        return 3
    except Exception as ex:     # noqa
        print('translator-broken:features %s: %s' % (type(ex).__name__, ex))
        return 3
    changed += emit_features(gates, os.path.join(verif, 'lean', 'Uom', 'Gen'))
    write_if_changed(os.path.join(verif, 'build', 'bodies.json'), json.dumps(braw, ensure_ascii=False, indent=0))
    t['bodies'] = len(bout)
    t['usr'] = dict(quantities=len(usr['quantities']), units=sum(len(q['units']) for q in usr['quantities']), added=len(usr['added']))
    changed += write_if_changed(os.path.join(verif, 'build', 'table.json'), json.dumps(t, ensure_ascii=False, indent=0))
    changed += emit_lean(t, os.path.join(verif, 'lean', 'Uom', 'Gen'))
    changed += emit_rust(t, os.path.join(verif, 'harness', 'src', 'gen'))
    nu = sum(len(q['units']) for q in t['quantities'])
    print('translated quantities=%d units=%d kinds=%d prefixes=%d impl_from=%d files_changed=%d' % (
        len(t['quantities']), nu, len(t['kinds']), len(t['prefixes']), len(t['impl_from']), changed))
    return 0


if __name__ == '__main__':
    sys.exit(main())
