"""Name-derivation finder for C05: reads a unit identifier as a composition of prefixes, other
units' names and the words per / square / cubic / squared / cubed.  It never looks at coefficients:
it returns every reading whose *dimension* equals the quantity's; the Lean kernel then checks that
one of them reproduces the coefficient.

A certificate is a list of groups (group 0 = numerator, later groups = denominators introduced by
`per`); a group is a list of factors (quantity index, unit index, prefix index or -1, form, power)
with form 0 plain, 1 `square x`, 2 `cubic x`, 3 `x squared`, 4 `x cubed`.
"""
from functools import lru_cache

FORMS = {(None, None): (0, 1), ('square', None): (1, 2), ('cubic', None): (2, 3), (None, 'squared'): (3, 2), (None, 'cubed'): (4, 3)}


def build_index(t):
    units = {}
    for qi, q in enumerate(t['quantities']):
        for ui, u in enumerate(q['units']):
            units.setdefault(u['name'], []).append((qi, ui, tuple(q['dim'])))
    prefixes = [p for p in t['prefix_order'] if p != 'none']
    return units, prefixes


def find(t, max_certs=6):
    units, prefixes = build_index(t)
    pidx = {p: t['prefix_order'].index(p) for p in prefixes}
    n = len(t['system']['base'])
    zero = (0,) * n

    def atoms(tok):
        out = []
        for (qi, ui, d) in units.get(tok, []):
            out.append(((qi, ui, -1), d))
        for p in prefixes:
            if tok.startswith(p) and len(tok) > len(p):
                for (qi, ui, d) in units.get(tok[len(p):], []):
                    out.append(((qi, ui, pidx[p]), d))
        return out

    def add(a, b, k=1):
        return tuple(x + k * y for x, y in zip(a, b))

    def parse_product(words):
        words = tuple(words)

        @lru_cache(None)
        def go(i):
            if i == len(words):
                return [((), zero)]
            res = []
            for (pre, post), (form, k) in FORMS.items():
                j = i
                if pre:
                    if words[j] != pre:
                        continue
                    j += 1
                for l in range(j + 1, len(words) + 1):
                    at = atoms('_'.join(words[j:l]))
                    if not at:
                        continue
                    l2 = l
                    if post:
                        if l2 < len(words) and words[l2] == post:
                            l2 += 1
                        else:
                            continue
                    for (a, d) in at:
                        for (rest, d2) in go(l2):
                            res.append((((a[0], a[1], a[2], form, k),) + rest, add(d2, d, k)))
            return res

        return go(0)

    def derivations(name):
        words = name.split('_')
        parts, cur = [], []
        for w in words:
            if w == 'per':
                parts.append(cur)
                cur = []
            else:
                cur.append(w)
        parts.append(cur)
        if any(len(p) == 0 for p in parts[1:]):
            return []
        cur = [((), zero)] if not parts[0] else [((g,), d) for g, d in parse_product(parts[0])]
        if not parts[0]:
            cur = [(((),), zero)]
        for p in parts[1:]:
            den = parse_product(p)
            cur = [(gs + (g,), add(d1, d2, -1)) for gs, d1 in cur for g, d2 in den]
        return cur

    result = {'composable': [], 'primitive': [], 'misnamed': []}
    for qi, q in enumerate(t['quantities']):
        dim = tuple(q['dim'])
        for ui, u in enumerate(q['units']):
            ds = derivations(u['name'])
            # the trivial reading "the unit is itself" is not a composition
            ds = [d for d in ds if not (len(d[0]) == 1 and len(d[0][0]) == 1 and d[0][0][0][:3] == (qi, ui, -1) and d[0][0][0][3] == 0)]
            # a composition has at least two components (prefix+unit counts as two)
            ds = [d for d in ds if sum(len(g) for g in d[0]) >= 2 or any(f[2] >= 0 or f[3] != 0 for g in d[0] for f in g) or len(d[0]) > 1]
            if not ds:
                result['primitive'].append((qi, ui))
                continue
            ok = [d[0] for d in ds if d[1] == dim]
            if not ok:
                result['misnamed'].append((qi, ui))
                continue
            result['composable'].append((qi, ui, ok[:max_certs]))
    return result
