"""A small Rust lexer: enough of the language to read uom's macro invocations and macro bodies.

Tokens are (kind, text) with kind in:
  id    identifier / keyword (also `$name` macro variables, kept with the leading `$`)
  num   numeric literal (raw text, underscores kept)
  str   string literal (decoded python str)
  chr   char literal
  life  lifetime
  p     punctuation (longest match)
Comments (line, block, doc) are dropped; the caller never sees layout.
"""
import re

PUNCT = [
    '<<=', '>>=', '...', '..=', '::', '->', '=>', '==', '!=', '<=', '>=', '&&', '||', '+=', '-=', '*=',
    '/=', '%=', '^=', '&=', '|=', '<<', '>>', '..',
]
SINGLE = set('+-*/%^!&|=<>@.,;:#$?~()[]{}')

_num = re.compile(r'(0x[0-9a-fA-F_]+|0o[0-7_]+|0b[01_]+|[0-9][0-9_]*(?:\.(?![.a-zA-Z_])[0-9_]*)?(?:[eE][+-]?[0-9_]+)?)([a-zA-Z][a-zA-Z0-9_]*)?')
_id = re.compile(r'\$?[A-Za-z_][A-Za-z0-9_]*')


class LexError(Exception):
    pass


def _decode_str(body):
    out = []
    i = 0
    n = len(body)
    while i < n:
        c = body[i]
        if c != '\\':
            out.append(c)
            i += 1
            continue
        i += 1
        e = body[i]
        if e == 'n': out.append('\n'); i += 1
        elif e == 't': out.append('\t'); i += 1
        elif e == 'r': out.append('\r'); i += 1
        elif e == '0': out.append('\0'); i += 1
        elif e == '\\': out.append('\\'); i += 1
        elif e == '"': out.append('"'); i += 1
        elif e == "'": out.append("'"); i += 1
        elif e == 'x':
            out.append(chr(int(body[i + 1:i + 3], 16))); i += 3
        elif e == 'u':
            j = body.index('}', i)
            out.append(chr(int(body[i + 2:j].replace('_', ''), 16))); i = j + 1
        elif e == '\n':
            i += 1
            while i < n and body[i] in ' \t\n\r':
                i += 1
        else:
            raise LexError('bad escape \\' + e)
    return ''.join(out)


def lex(src):
    toks = []
    i = 0
    n = len(src)
    while i < n:
        c = src[i]
        if c in ' \t\r\n':
            i += 1
            continue
        if src.startswith('//', i):
            j = src.find('\n', i)
            i = n if j < 0 else j
            continue
        if src.startswith('/*', i):
            depth = 1
            i += 2
            while i < n and depth:
                if src.startswith('/*', i): depth += 1; i += 2
                elif src.startswith('*/', i): depth -= 1; i += 2
                else: i += 1
            continue
        # raw strings r"..." r#"..."#  (and byte variants)
        m = re.match(r'b?r(#*)"', src[i:])
        if m:
            hashes = m.group(1)
            start = i + m.end()
            end = src.index('"' + hashes, start)
            toks.append(('str', src[start:end]))
            i = end + 1 + len(hashes)
            continue
        if c == '"' or (c == 'b' and i + 1 < n and src[i + 1] == '"'):
            if c == 'b': i += 1
            j = i + 1
            while src[j] != '"':
                j += 2 if src[j] == '\\' else 1
            toks.append(('str', _decode_str(src[i + 1:j])))
            i = j + 1
            continue
        if c == "'":
            # char literal or lifetime
            m = re.match(r"'(\\.[^']*|[^\\'])'", src[i:])
            if m:
                toks.append(('chr', _decode_str(m.group(1))))
                i += m.end()
                continue
            m = re.match(r"'[A-Za-z_][A-Za-z0-9_]*", src[i:])
            if m:
                toks.append(('life', m.group(0)))
                i += m.end()
                continue
            raise LexError('stray quote at %d' % i)
        if c.isdigit():
            m = _num.match(src, i)
            toks.append(('num', m.group(0)))
            i = m.end()
            continue
        m = _id.match(src, i)
        if m:
            toks.append(('id', m.group(0)))
            i = m.end()
            continue
        for p in PUNCT:
            if src.startswith(p, i):
                toks.append(('p', p))
                i += len(p)
                break
        else:
            if c in SINGLE:
                toks.append(('p', c))
                i += 1
            else:
                raise LexError('unexpected character %r at %d' % (c, i))
    return toks


OPEN = {'(': ')', '[': ']', '{': '}'}


def match_close(toks, i):
    """toks[i] is an opening delimiter; return the index of its closing partner."""
    stack = []
    j = i
    while j < len(toks):
        k, t = toks[j]
        if k == 'p' and t in OPEN:
            stack.append(OPEN[t])
        elif k == 'p' and t in (')', ']', '}'):
            if not stack or stack[-1] != t:
                raise LexError('unbalanced delimiter %s at token %d' % (t, j))
            stack.pop()
            if not stack:
                return j
        j += 1
    raise LexError('unclosed delimiter')


def find_macro_calls(toks, name):
    """yield (start, end) token ranges of the *inside* of every `name! { ... }` / `name!( ... )`."""
    i = 0
    while i + 2 < len(toks):
        if toks[i] == ('id', name) and toks[i + 1] == ('p', '!') and toks[i + 2][0] == 'p' and toks[i + 2][1] in OPEN:
            if i > 0 and toks[i - 1] == ('id', 'macro_rules'):
                i += 1
                continue
            j = match_close(toks, i + 2)
            yield (i + 3, j)
            i = j
        i += 1
