"""Body-level translator: function bodies of src/system.rs (inside `system!`) -> a small expression AST.

Supported Rust subset (what the conversion kernel and the operator impls use): `use …;` (skipped),
`let x = e;`, a final expression or expression statement, `if c { e } else { e }`, binary operators
`+ - * / % < <= > >= == !=`, assignment operators `+= -= *= /= %=`, unary `-`, `&`, `*`, paths with
turbofish `f::<A, B>(args)`, method calls `.m(args)`, field access, struct literals `P { f: e, ..base }`,
parenthesised expressions, closures `|x| e` (kept opaque), `match` (kept opaque), literals, macro
variables `$x`, and the base-factor repetition
    V::coefficient() $(* U::$name::coefficient().powi(D::$symbol::to_i32()))+
which becomes the node ['basefactor', 'U'].

AST nodes (JSON lists):
  ['var', name] ['lit', text] ['path', 'A::b', [turbofish type args as text]] ['call', fn_node, [args]]
  ['method', recv, name, [args]] ['field', recv, name] ['bin', op, a, b] ['assign', op, a, b] ['neg', a]
  ['ref', a] ['deref', a] ['if', c, t, e] ['struct', path, {field: expr}, base|None] ['basefactor', units]
  ['opaque', text] ['rep_mul_div', units_r, units_l]   (the old per-base repetition of change_base)
A function body is {'lets': [[name, expr], …], 'result': expr}.
"""
from rustlex import match_close

BIN_PREC = [
    (['=='], 4), (['!='], 4), (['<'], 4), (['<='], 4), (['>'], 4), (['>='], 4),
    (['+'], 6), (['-'], 6), (['*'], 7), (['/'], 7), (['%'], 7),
]
PREC = {op: p for ops, p in BIN_PREC for op in ops}
ASSIGN = {'+=', '-=', '*=', '/=', '%=', '='}


class BodyError(Exception):
    pass


class P:
    def __init__(self, toks, i, end):
        self.t = toks
        self.i = i
        self.end = end

    def peek(self, k=0):
        j = self.i + k
        return self.t[j] if j < self.end else (None, None)

    def at(self, kind, text=None):
        k, t = self.peek()
        return k == kind and (text is None or t == text)

    def next(self):
        if self.i >= self.end:
            raise BodyError('unexpected end')
        tok = self.t[self.i]
        self.i += 1
        return tok

    def expect(self, kind, text=None):
        k, t = self.next()
        if k != kind or (text is not None and t != text):
            raise BodyError('expected %s %r got %s %r' % (kind, text, k, t))
        return t

    def text(self, lo, hi):
        return ' '.join(t for _k, t in self.t[lo:hi])

    # ---- types (kept as text) ----
    def skip_type_args(self):
        """at '<' : return list of top-level comma separated type texts, consume through matching '>'"""
        self.expect('p', '<')
        depth = 1
        args, cur = [], []
        while depth:
            k, t = self.next()
            if k == 'p' and t == '<':
                depth += 1
            elif k == 'p' and t == '>':
                depth -= 1
                if depth == 0:
                    break
            elif k == 'p' and t == '>>':
                depth -= 2
                if depth <= 0:
                    break
            elif k == 'p' and t in ('(', '[', '{'):
                j = match_close(self.t, self.i - 1)
                cur.append(self.text(self.i - 1, j + 1))
                self.i = j + 1
                continue
            if k == 'p' and t == ',' and depth == 1:
                args.append(' '.join(cur))
                cur = []
            else:
                cur.append(t)
        if cur:
            args.append(' '.join(cur))
        return args

    # ---- expressions ----
    def path(self):
        segs = []
        targs = []
        if self.at('p', '<'):
            # qualified path <T as Trait>::name
            j = self.i
            self.skip_type_args()
            segs.append('<' + self.text(j + 1, self.i - 1) + '>')
        else:
            segs.append(self.expect('id'))
        while self.at('p', '::'):
            self.next()
            if self.at('p', '<'):
                targs = self.skip_type_args()
            else:
                segs.append(self.expect('id'))
        return '::'.join(segs), targs

    def block(self):
        """at '{': parse a block as {'lets', 'result'}"""
        self.expect('p', '{')
        end = match_close(self.t, self.i - 1)
        sub = P(self.t, self.i, end)
        body = sub.body()
        self.i = end + 1
        return body

    def body(self):
        lets = []
        result = None
        while self.i < self.end:
            if self.at('p', '#'):      # attribute
                self.next()
                j = match_close(self.t, self.i)
                self.i = j + 1
                continue
            if self.at('id', 'use'):
                while not self.at('p', ';'):
                    self.next()
                self.next()
                continue
            if self.at('id', 'let'):
                self.next()
                self_mut = self.at('id', 'mut')
                if self_mut:
                    self.next()
                if self.at('p', '('):   # tuple pattern
                    j = match_close(self.t, self.i)
                    name = self.text(self.i, j + 1)
                    try:
                        sub = P(self.t, self.i, j + 1)
                        pat = sub.pattern1()
                        if sub.i == j + 1:
                            name = ('pat', name, pat)
                    except BodyError:
                        pass
                    self.i = j + 1
                else:
                    name = self.expect('id')
                if self.at('p', ':'):
                    self.next()
                    # type annotation up to '='
                    depth = 0
                    while not (self.at('p', '=') and depth == 0):
                        k, t = self.next()
                        if t == '<': depth += 1
                        if t == '>': depth -= 1
                self.expect('p', '=')
                e = self.expr()
                self.expect('p', ';')
                lets.append([name, e])
                continue
            e = self.expr()
            if self.at('p', ';'):
                self.next()
                if self.i >= self.end:
                    result = e      # trailing expression statement (assignment forms)
                else:
                    lets.append(['_', e])
            elif self.i < self.end and e[0] in ('if', 'match', 'block', 'opaque'):
                lets.append(['_', e])       # block-like expression statement (`if c { return … }`)
            else:
                if result is not None or self.i < self.end:
                    # an expression that is neither a statement nor the tail: never drop it silently
                    raise BodyError('expression without `;` before the end of the block')
                result = e
        if result is None and lets and lets[-1][0] == '_':
            result = lets.pop()[1]
        return {'lets': lets, 'result': result if result is not None else ['lit', '()']}

    def expr(self, min_prec=0):
        lhs = self.unary()
        while True:
            k, t = self.peek()
            if k == 'p' and t in ASSIGN and min_prec == 0:
                self.next()
                rhs = self.expr(1)
                lhs = ['assign', t, lhs, rhs]
                continue
            if k == 'p' and t in PREC and PREC[t] >= max(min_prec, 1):
                # `<` could start generics only after `::`, which path() handles; here it is a comparison
                self.next()
                rhs = self.expr(PREC[t] + 1)
                lhs = ['bin', t, lhs, rhs]
                continue
            if k == 'id' and t == 'as':
                self.next()
                ty, targs = self.path()
                lhs = ['cast', lhs, ty + ('<' + ', '.join(targs) + '>' if targs else '')]
                continue
            # the base-factor repetition:  X $( * … )+
            if k == 'p' and t == '$' and self.peek(1) == ('p', '('):
                rep = self.repetition()
                lhs = self.apply_rep(lhs, rep)
                continue
            break
        return lhs

    def repetition(self):
        self.expect('p', '$')
        j = match_close(self.t, self.i)
        inner = (self.i + 1, j)
        self.i = j + 1
        self.expect('p', '+')
        return inner

    def apply_rep(self, lhs, inner):
        lo, hi = inner
        txt = self.text(lo, hi)
        import re
        m = re.fullmatch(r'\* (\w+) :: \$name :: coefficient \( \) \. powi \( D :: \$symbol :: to_i32 \( \) \)', txt)
        if m and lhs == ['call', ['path', 'V::coefficient', []], []]:
            return ['basefactor', m.group(1)]
        m = re.fullmatch(r'\* (\w+) :: \$name :: coefficient \( \) \. powi \( D :: \$symbol :: to_i32 \( \) \) / (\w+) :: \$name :: coefficient \( \) \. powi \( D :: \$symbol :: to_i32 \( \) \)', txt)
        if m:
            return ['rep_mul_div', lhs, m.group(1), m.group(2)]
        return ['opaque', '%s $( %s )+' % (self.show(lhs), txt)]

    def show(self, e):
        return str(e)

    def unary(self):
        k, t = self.peek()
        if k == 'p' and t == '-':
            self.next()
            return ['neg', self.unary()]
        if k == 'p' and t == '&':
            self.next()
            if self.at('id', 'mut'):
                self.next()
            return ['ref', self.unary()]
        if k == 'p' and t == '*':
            self.next()
            return ['deref', self.unary()]
        if k == 'p' and t == '!':
            self.next()
            return ['not', self.unary()]
        return self.postfix(self.atom())

    def args(self):
        self.expect('p', '(')
        end = match_close(self.t, self.i - 1)
        out = []
        sub = P(self.t, self.i, end)
        while sub.i < sub.end:
            out.append(sub.expr())
            if sub.at('p', ','):
                sub.next()
        self.i = end + 1
        return out

    def postfix(self, e):
        while True:
            if self.at('p', '.'):
                self.next()
                k, t = self.next()
                if k == 'num':
                    e = ['field', e, t]
                    continue
                name = t
                targs = []
                if self.at('p', '::'):
                    self.next()
                    targs = self.skip_type_args()
                if self.at('p', '('):
                    e = ['method', e, name, self.args(), targs]
                else:
                    e = ['field', e, name]
                continue
            if self.at('p', '('):
                e = ['call', e, self.args()]
                continue
            if self.at('p', '?'):
                self.next()
                e = ['try', e]
                continue
            if self.at('p', '$') and self.peek(1) == ('p', '(') and self.peek(2) == ('p', '.'):
                self.next()
                j = match_close(self.t, self.i)
                sub = P(self.t, self.i + 1, j)
                chain = sub.postfix(['rep_hole'])
                if sub.i != sub.end:
                    raise BodyError('method-chain repetition')
                self.i = j + 1
                self.expect('p', '+')
                e = ['rep_chain', e, chain]
                continue
            return e

    def atom(self):
        k, t = self.peek()
        if k == 'num':
            self.next()
            return ['lit', t]
        if k == 'str':
            self.next()
            return ['strlit', t]
        if k == 'chr':
            self.next()
            return ['chrlit', t]
        if k == 'life':
            self.next()
            return ['lit', repr(t)]
        if k == 'p' and t == '(':
            j = match_close(self.t, self.i)
            sub = P(self.t, self.i + 1, j)
            items = []
            while sub.i < sub.end:
                items.append(sub.expr())
                if sub.at('p', ','):
                    sub.next()
            self.i = j + 1
            if not items:
                return ['lit', '()']
            return items[0] if len(items) == 1 else ['tuple', items]
        if k == 'p' and t == '{':
            b = self.block()
            return ['block', b]
        if k == 'p' and t in ('|', '||'):       # closure
            start = self.i
            try:
                pats = []
                if t == '||':
                    self.next()
                else:
                    self.next()
                    while not self.at('p', '|'):
                        pats.append(self.pattern1())
                        if self.at('p', ':'):       # type annotation
                            self.next()
                            depth = 0
                            while not (depth == 0 and (self.at('p', ',') or self.at('p', '|'))):
                                _k, tt = self.next()
                                if tt == '<': depth += 1
                                if tt == '>': depth -= 1
                        if self.at('p', ','):
                            self.next()
                    self.next()
                if self.at('p', '{'):
                    body = ['block', self.block()]
                else:
                    body = self.expr(1)
                return ['closure', pats, body]
            except BodyError:
                self.i = start
                j = self.i + 1
                while self.t[j] != ('p', '|'):
                    j += 1
                self.i = j + 1
                if self.at('p', '{'):
                    e = match_close(self.t, self.i)
                    txt = self.text(self.i, e + 1)
                    self.i = e + 1
                else:
                    txt = str(self.expr(1))
                return ['opaque', 'closure ' + txt]
        if k == 'id' and t == 'return':
            self.next()
            if self.i >= self.end or self.at('p', ';'):
                return ['return', ['lit', '()']]
            return ['return', self.expr()]
        if k == 'id' and not t.startswith('$') and self.peek(1) == ('p', '!') and self.peek(2)[0] == 'p' \
                and self.peek(2)[1] in ('(', '[', '{'):
            self.next()
            self.next()
            j = match_close(self.t, self.i)
            if self.t[self.i + 1] == ('p', '@') and self.t[self.i + 2][0] == 'id':
                # internal-rule invocation `name!(@rule args… $($conversion),+)`: the rule and its leading
                # plain identifier arguments; the trailing repetition stands for the unit's declaration
                rule = self.t[self.i + 2][1]
                m = self.i + 3
                ids = []
                while m < j and self.t[m][0] == 'id' and not self.t[m][1].startswith('$'):
                    ids.append(['var', self.t[m][1]])
                    m += 1
                rest = self.text(m, j)
                self.i = j + 1
                if rest != '$ ( $conversion ) , +':
                    raise BodyError('internal macro rule with unexpected arguments: ' + rest)
                return ['macro_rule', t, rule, ids]
            sub = P(self.t, self.i + 1, j)
            items = []
            while sub.i < sub.end:
                items.append(sub.expr())
                if sub.at('p', ','):
                    sub.next()
            self.i = j + 1
            return ['macro', t, items]
        if k == 'id' and t == 'if':
            self.next()
            # condition: expression up to '{' (no struct literals in conditions)
            c = self.expr_no_struct()
            tb = self.block()
            eb = None
            if self.at('id', 'else'):
                self.next()
                if self.at('id', 'if'):
                    eb = {'lets': [], 'result': self.atom()}
                else:
                    eb = self.block()
            return ['if', c, tb, eb]
        if k == 'id' and t == 'match':
            start = self.i
            self.next()
            try:
                scrut = self.expr_no_struct()
                self.expect('p', '{')
                end = match_close(self.t, self.i - 1)
                arms = P(self.t, self.i, end).arms()
                self.i = end + 1
                return ['match', scrut, arms]
            except BodyError:
                self.i = start + 1
                while not self.at('p', '{'):
                    self.next()
                j = match_close(self.t, self.i)
                txt = self.text(self.i, j + 1)
                self.i = j + 1
                return ['opaque', 'match ' + txt]
        if k == 'id' or (k == 'p' and t == '<'):
            if k == 'id' and t.startswith('$') and self.peek(1) != ('p', '::') and not (
                    self.peek(1) == ('p', '{') and not getattr(self, 'no_struct', False)):
                self.next()
                return ['var', t]
            name, targs = self.path()
            # struct literal?
            if self.at('p', '{') and not getattr(self, 'no_struct', False) and (
                    name[:1].isupper() or '::' in name or name == 'Self' or name.startswith('$')):
                j = match_close(self.t, self.i)
                sub = P(self.t, self.i + 1, j)
                fields = {}
                base = None
                while sub.i < sub.end:
                    if sub.at('p', '..'):
                        sub.next()
                        base = sub.expr()
                    else:
                        fname = sub.expect('id')
                        if sub.at('p', ':'):
                            sub.next()
                            fields[fname] = sub.expr()
                        else:
                            fields[fname] = ['var', fname]
                    if sub.at('p', ','):
                        sub.next()
                self.i = j + 1
                return ['struct', name, fields, base]
            if '::' in name or targs:
                return ['path', name, targs]
            return ['var', name]
        raise BodyError('unexpected token %s %r' % (k, t))

    def arms(self):
        out = []
        while self.i < self.end:
            if self.at('p', '#'):
                self.next()
                j = match_close(self.t, self.i)
                self.i = j + 1
                continue
            if self.at('p', '$') and self.peek(1) == ('p', '('):
                self.next()
                j = match_close(self.t, self.i)
                inner = P(self.t, self.i + 1, j).arms()
                self.i = j + 1
                self.expect('p', '+')
                for a in inner:
                    if a[0] != 'arm':
                        raise BodyError('nested repetition in match arms')
                    out.append(['rep', a[1], a[2]])
                continue
            pat = self.pattern()
            if self.at('id', 'if'):
                raise BodyError('match guard')
            self.expect('p', '=>')
            if self.at('p', '{'):
                body = ['block', self.block()]      # a block arm ends at its closing brace (no postfix, comma optional)
            else:
                body = self.expr()
            if self.at('p', ','):
                self.next()
            out.append(['arm', pat, body])
        return out

    def pattern(self):
        alts = [self.pattern1()]
        while self.at('p', '|'):
            self.next()
            alts.append(self.pattern1())
        p = alts[-1]
        for a in reversed(alts[:-1]):
            p = ['palt', a, p]
        return p

    def pattern1(self):
        k, t = self.peek()
        if k == 'id' and t == '_':
            self.next()
            return ['pwild']
        if k in ('str', 'chr', 'num'):
            self.next()
            return ['plit', k, t]
        if k == 'p' and t == '(':
            j = match_close(self.t, self.i)
            sub = P(self.t, self.i + 1, j)
            items = []
            while sub.i < sub.end:
                items.append(sub.pattern())
                if sub.at('p', ','):
                    sub.next()
            self.i = j + 1
            return items[0] if len(items) == 1 else ['ptuple', items]
        if k == 'p' and t == '&':
            self.next()
            return self.pattern1()
        if k == 'id':
            if t.startswith('$') and self.peek(1) != ('p', '::'):
                self.next()
                return ['pmeta', t]
            if t in ('ref', 'mut'):
                self.next()
                return self.pattern1()
            name, _targs = self.path()
            if self.at('p', '('):
                j = match_close(self.t, self.i)
                sub = P(self.t, self.i + 1, j)
                items = []
                while sub.i < sub.end:
                    items.append(sub.pattern())
                    if sub.at('p', ','):
                        sub.next()
                self.i = j + 1
                return ['pctor', name, items]
            if '::' in name or name[:1].isupper():
                return ['pctor', name, []]
            return ['pbind', name]
        raise BodyError('pattern: unexpected token %s %r' % (k, t))

    def expr_no_struct(self):
        self.no_struct = True
        try:
            return self.expr()
        finally:
            self.no_struct = False


def substitute(toks, lo, hi, subst):
    out = []
    for k, t in toks[lo:hi]:
        if k == 'id' and t in subst:
            out.extend(subst[t])
        else:
            out.append((k, t))
    return out


def split_args(toks, lo, hi, angle=False):
    args, cur, depth = [], [], 0
    for k, t in toks[lo:hi]:
        if k == 'p' and t in '([{':
            depth += 1
        if k == 'p' and t in ')]}':
            depth -= 1
        if angle and k == 'p' and t == '<':
            depth += 1
        if angle and k == 'p' and t == '>':
            depth -= 1
        if angle and k == 'p' and t == '>>':
            depth -= 2
        if k == 'p' and t == ',' and depth == 0:
            args.append(cur)
            cur = []
        else:
            cur.append((k, t))
    if cur:
        args.append(cur)
    return args


WRAPPERS = ('autoconvert', 'not_autoconvert', 'std', 'serde', 'test', 'autoconvert_test')


def expand_impl_ops(toks):
    """inline the two `impl_ops!(…)` invocations of `system!` by token substitution (what macro_rules does)"""
    # find macro_rules! impl_ops { ( params ) => { body } ; }
    for i in range(len(toks) - 3):
        if toks[i] == ('id', 'macro_rules') and toks[i + 1] == ('p', '!') and toks[i + 2] == ('id', 'impl_ops'):
            b = i + 3
            bend = match_close(toks, b)
            p0 = b + 1
            pend = match_close(toks, p0)
            params = [t for k, t in toks[p0 + 1:pend] if k == 'id' and t.startswith('$')]
            j = pend + 1
            assert toks[j] == ('p', '=>')
            body0 = j + 1
            bodyend = match_close(toks, body0)
            # the invocations follow the definition
            out = []
            k = bend + 1
            while k < len(toks) - 2:
                if toks[k] == ('id', 'impl_ops') and toks[k + 1] == ('p', '!'):
                    a0 = k + 2
                    aend = match_close(toks, a0)
                    args = split_args(toks, a0 + 1, aend)
                    if len(args) != len(params):
                        raise BodyError('impl_ops! arity')
                    subst = dict(zip(params, args))
                    out.append(substitute(toks, body0 + 1, bodyend, subst))
                    k = aend
                k += 1
                if len(out) == 2:
                    break
            return (i, bend), out
    raise BodyError('macro_rules! impl_ops not found')


def param_name(arg):
    """name bound by one parameter: `self`, `&self`, `&mut self`, `mut x: T`, `x: T`, `_: T`"""
    names = []
    for k, t in arg:
        if k == 'p' and t == ':':
            break
        if k == 'id' and t not in ('mut', 'ref'):
            names.append(t)
    return names[-1] if names else '_'


def param_type(arg):
    for i, (k, t) in enumerate(arg):
        if k == 'p' and t == ':':
            return ' '.join(tt for _k, tt in arg[i + 1:])
    return ''


def extract_fns(toks, lo, hi, ctx=()):
    """yield (fn name, wrapper context tuple, impl header text, body dict) for every `fn` with a block body"""
    i = lo
    impl_hdr = ''
    pending = ()
    while i < hi:
        k, t = toks[i]
        if k == 'p' and t == '#' and i + 1 < hi and toks[i + 1] == ('p', '['):
            j = match_close(toks, i + 1)
            txt = ' '.join(tt for _k, tt in toks[i + 2:j])
            if txt == 'cfg ( feature = autoconvert )':
                pending = ('autoconvert',)
            elif txt == 'cfg ( not ( feature = autoconvert ) )':
                pending = ('not_autoconvert',)
            elif txt.startswith('cfg ( test') or txt == 'test':
                pending = ('test',)
            i = j + 1
            continue
        if k == 'id' and t in WRAPPERS and i + 2 < hi and toks[i + 1] == ('p', '!') and toks[i + 2] == ('p', '{'):
            j = match_close(toks, i + 2)
            yield from extract_fns(toks, i + 3, j, ctx + (t,))
            i = j + 1
            continue
        if k == 'id' and t == 'storage_types' and i + 2 < hi and toks[i + 1] == ('p', '!') and toks[i + 2] == ('p', '{'):
            j = match_close(toks, i + 2)
            tys = []
            m = i + 3
            if toks[m] == ('id', 'types') and toks[m + 1] == ('p', ':'):
                m += 2
                while toks[m] != ('p', ';'):
                    if toks[m][0] == 'id':
                        tys.append(toks[m][1])
                    m += 1
            yield from extract_fns(toks, i + 3, j, ctx + ('types:' + '_'.join(tys),))
            i = j + 1
            continue
        if k == 'id' and t == 'impl':
            # header up to '{'
            j = i
            depth = 0
            while not (toks[j] == ('p', '{') and depth == 0):
                if toks[j][1] == '<': depth += 1
                if toks[j][1] == '>': depth -= 1
                if toks[j][1] == '>>': depth -= 2
                j += 1
            impl_hdr = ' '.join(tt for _k, tt in toks[i:j])
            jend = match_close(toks, j)
            impl_out = ''
            for m in range(j + 1, jend - 2):
                if toks[m] == ('id', 'type') and toks[m + 1] == ('id', 'Output') and toks[m + 2] == ('p', '='):
                    e = m + 3
                    while toks[e] != ('p', ';'):
                        e += 1
                    impl_out = ' '.join(tt for _k, tt in toks[m + 3:e])
                    break
            for x in extract_fns(toks, j + 1, jend, ctx + pending):
                x[3].setdefault('impl_out', impl_out)
                yield (x[0], x[1], impl_hdr, x[3])
            pending = ()
            i = jend + 1
            continue
        if k == 'id' and t == 'fn' and toks[i + 1][0] == 'id':
            name = toks[i + 1][1]
            j = i + 2
            # skip generics, params, return type, where clause up to the body '{' at depth 0
            depth = 0
            params = None
            ptypes = []
            sig_from = None
            while j < hi:
                kk, tt = toks[j]
                if kk == 'p' and tt in '([':
                    jc = match_close(toks, j)
                    if params is None and tt == '(' and depth <= 0:
                        pargs = split_args(toks, j + 1, jc, angle=True)
                        params = [param_name(a) for a in pargs]
                        ptypes = [param_type(a) for a in pargs]
                        sig_from = jc + 1
                    j = jc + 1
                    continue
                if kk == 'p' and tt == '<': depth += 1
                if kk == 'p' and tt == '>': depth -= 1
                if kk == 'p' and tt == '>>': depth -= 2
                if kk == 'p' and tt == '->': pass
                if kk == 'p' and tt == ';' and depth <= 0:
                    break
                if kk == 'p' and tt == '{' and depth <= 0:
                    break
                j += 1
            if j < hi and toks[j] == ('p', '{'):
                jend = match_close(toks, j)
                try:
                    body = P(toks, j + 1, jend).body()
                except (BodyError, IndexError) as ex:
                    body = {'lets': [], 'result': ['opaque', 'unparsed: %s' % ex]}
                body['params'] = params or []
                body['ptypes'] = ptypes
                body['sig'] = ' '.join(tt for _k, tt in toks[(sig_from or j):j])
                yield (name, ctx + pending, '', body)
                pending = ()
                i = jend + 1
                continue
            pending = ()
            i = j + 1
            continue
        if k == 'p' and t in '{(':
            # descend (modules, storage_types! blocks, …) keeping the context
            j = match_close(toks, i)
            yield from extract_fns(toks, i + 1, j, ctx + pending)
            pending = ()
            i = j + 1
            continue
        i += 1


# ---------------------------------------------------------------------------------------------
# JSON AST  ->  Lean `Uom.Body.BExpr`
# ---------------------------------------------------------------------------------------------
import re as _re

TYP = {'D', 'Dl', 'Dr', 'Da', 'Dimension', 'U', 'Ul', 'Ur', 'Ua', 'Ub', 'V', 'N', 'E'}
BOPS = {'+': 'add', '-': 'sub', '*': 'mul', '/': 'div', '%': 'rem', '<': 'lt', '<=': 'le', '>': 'gt',
        '>=': 'ge', '==': 'eq', '!=': 'ne'}
CMP_METH = {'lt': 'lt', 'le': 'le', 'gt': 'gt', 'ge': 'ge', 'eq': 'eq', 'ne': 'ne', 'partial_cmp': 'partialCmp'}
STRIP = ('$crate::', 'crate::', 'super::', '__system::', 'self::')


def typ(t):
    t = t.strip()
    if t in TYP:
        return '.' + t
    if t.startswith('dyn Dimension'):
        # `dyn Dimension<L = L, M = M, …, Kind = dyn K>`: the explicit dimension only stands for "the same exponents" when
        # every base-quantity slot is bound to the parameter of the same name
        pairs = _re.findall(r'(\w+) = (\w+)', _re.sub(r'Kind = (dyn )?[\w$:]+', '', t))
        return '.Dexplicit' if pairs and all(a == b for a, b in pairs) else '.other'
    if _re.fullmatch(r'\$quantities < \$ \( \$crate :: typenum :: Sum < D :: \$symbol , Da :: \$symbol > \) , \+ >', t):
        return '.Dsum'
    return '.other'


class Names:
    """uninterpreted names -> small integers, with a stable Lean constant per name"""

    def __init__(self):
        self.codes = {}

    def code(self, text):
        if text not in self.codes:
            self.codes[text] = len(self.codes)
        return self.codes[text]

    def const(self, text):
        base = _re.sub(r'[^A-Za-z0-9]+', '_', text).strip('_') or 'x'
        return base


def strip_path(name):
    changed = True
    while changed:
        changed = False
        for pre in STRIP:
            if name.startswith(pre):
                name = name[len(pre):]
                changed = True
    return name


def is_phantom(e):
    return e[0] == 'path' and e[1].endswith('marker::PhantomData')


class ToLean:
    def __init__(self, names, params):
        self.names = names
        self.scope = {}
        for p in params:
            self.scope.setdefault(p, len(self.scope))
        self.nparams = len(self.scope)

    def var_id(self, name, bind=False):
        if name not in self.scope:
            if not bind:
                return None
            self.scope[name] = len(self.scope)
        return self.scope[name]

    def opaque(self, text):
        return '(.opaque %d)' % self.names.code('opaque: ' + text)

    def fn(self, name, targs):
        n = strip_path(name)
        last = n.split('::')[-1]
        if n == 'N::coefficient' and not targs:
            return '.nCoefficient'
        if last == 'to_base' and len(targs) == 4:
            return '(.toBase %s %s %s)' % (typ(targs[0]), typ(targs[1]), typ(targs[3]))
        if last == 'from_base' and len(targs) == 4:
            return '(.fromBase %s %s %s)' % (typ(targs[0]), typ(targs[1]), typ(targs[3]))
        if last == 'change_base' and len(targs) == 4:
            return '(.changeBase %s %s %s)' % (typ(targs[0]), typ(targs[1]), typ(targs[2]))
        if n == 'Self::new' and len(targs) == 1:
            return '(.selfNew %s)' % typ(targs[0])
        full = n + ('::<' + ', '.join(targs) + '>' if targs else '')
        return '(.other %d)' % self.names.code('fn ' + full)

    def block(self, b):
        lets = b['lets']
        out = self.expr(b['result']) if False else None
        # build inside-out, but ids must be allocated in source order: first translate in order
        parts = []
        for name, e in lets:
            ve = self.expr(e)
            if isinstance(name, (tuple, list)):
                name = name[1]
            if name == '_':
                parts.append(('seq', ve))
            elif name.startswith('('):
                parts.append(('seq', self.opaque('let ' + name)))
            else:
                parts.append(('let', self.var_id(name, bind=True), ve))
        res = self.expr(b['result'])
        for p in reversed(parts):
            if p[0] == 'seq':
                res = '(.seq %s %s)' % (p[1], res)
            else:
                res = '(.letIn %d %s %s)' % (p[1], p[2], res)
        return res

    def expr(self, e):
        k = e[0]
        if k == 'var':
            i = self.var_id(e[1])
            if i is not None:
                return '(.var %d)' % i
            return '(.fn0 (.other %d))' % self.names.code('fn ' + e[1])
        if k == 'lit':
            t = e[1].replace('_', '')
            if t.isdigit():
                return '(.lit %d)' % int(t)
            return self.opaque('lit ' + e[1])
        if k in ('strlit', 'chrlit'):
            return self.opaque('lit ' + repr(e[1]))
        if k == 'path':
            return '(.fn0 %s)' % self.fn(e[1], e[2])
        if k == 'call':
            callee, args = e[1], e[2]
            if callee[0] == 'path':
                n = strip_path(callee[1])
                if n == 'N::constant' and len(args) == 1 and args[0][0] == 'path':
                    if args[0][1].endswith('ConstantOp::Add'):
                        return '(.fn0 .nConstantAdd)'
                    if args[0][1].endswith('ConstantOp::Sub'):
                        return '(.fn0 .nConstantSub)'
                f = self.fn(callee[1], callee[2])
            elif callee[0] == 'var' and self.var_id(callee[1]) is None:
                f = '(.other %d)' % self.names.code('fn ' + callee[1])
            else:
                return self.opaque('call ' + str(e))
            a = [self.expr(x) for x in args]
            if len(a) == 0:
                return '(.fn0 %s)' % f
            if len(a) == 1:
                return '(.fn1 %s %s)' % (f, a[0])
            if len(a) == 2:
                return '(.fn2 %s %s %s)' % (f, a[0], a[1])
            return self.opaque('call ' + str(e))
        if k == 'method':
            recv, name, args = self.expr(e[1]), e[2], [self.expr(x) for x in e[3]]
            targs = e[4] if len(e) > 4 else []
            if name == 'conversion' and not args:
                m = '.conversion'
            elif name == 'value' and not args:
                m = '.value'
            elif name == 'get' and not args and len(targs) == 1:
                m = '(.get %s)' % typ(targs[0])
            elif name in CMP_METH and len(args) == 1:
                m = '.' + CMP_METH[name]
            else:
                full = name + ('::<' + ', '.join(targs) + '>' if targs else '')
                m = '(.fwd %d)' % self.names.code('method ' + full)
            if len(args) == 0:
                return '(.m0 %s %s)' % (recv, m)
            if len(args) == 1:
                return '(.m1 %s %s %s)' % (recv, m, args[0])
            if len(args) == 2:
                return '(.m2 %s %s %s %s)' % (recv, m, args[0], args[1])
            return self.opaque('method ' + str(e))
        if k == 'field':
            if e[2] == 'value':
                return '(.valueOf %s)' % self.expr(e[1])
            return '(.m0 %s (.fwd %d))' % (self.expr(e[1]), self.names.code('field ' + e[2]))
        if k == 'bin':
            return '(.bin .%s %s %s)' % (BOPS[e[1]], self.expr(e[2]), self.expr(e[3]))
        if k == 'assign':
            op = e[1][:-1]
            if op in BOPS:
                return '(.assign .%s %s %s)' % (BOPS[op], self.expr(e[2]), self.expr(e[3]))
            return self.opaque('assign ' + str(e))
        if k == 'neg':
            return '(.neg %s)' % self.expr(e[1])
        if k in ('ref', 'deref'):
            return '(.ref %s)' % self.expr(e[1])
        if k == 'not':
            return '(.m0 %s (.fwd %d))' % (self.expr(e[1]), self.names.code('method !'))
        if k == 'try':
            return '(.m0 %s (.fwd %d))' % (self.expr(e[1]), self.names.code('method ?'))
        if k == 'if':
            c = self.expr(e[1])
            saved = dict(self.scope)
            t = self.block(e[2])
            self.scope = dict(saved)
            el = self.block(e[3]) if e[3] is not None else self.opaque('no else')
            self.scope = saved
            return '(.ite %s %s %s)' % (c, t, el)
        if k == 'block':
            saved = dict(self.scope)
            r = self.block(e[1])
            self.scope = saved
            return r
        if k == 'struct':
            fields, base = e[2], e[3]
            ks = set(fields)
            if ks == {'dimension', 'units', 'value'} and base is None and is_phantom(fields['dimension']) \
                    and is_phantom(fields['units']):
                return '(.quantity %s)' % self.expr(fields['value'])
            if ks == {'value'} and base == ['var', 'self']:
                return '(.quantity %s)' % self.expr(fields['value'])
            return self.opaque('struct ' + str(e))
        if k == 'basefactor':
            return '(.baseFactor %s .D)' % typ(e[1])
        return self.opaque(str(e))


# ---------------------------------------------------------------------------------------------
# JSON AST  ->  Lean `Uom.Rx.Rx`  (control flow over Option / Result / strings; Model/Rx.lean)
# ---------------------------------------------------------------------------------------------
RX_STRIP = ('$crate::', 'crate::', 'lib::', 'cmp::', 'super::', '__system::', 'self::', 'fmt::', 'num::pow::',
            'convert::', 'str::')
RX_PATHS = ['None', 'Some', 'Ok', 'Err', 'Ordering::Less', 'Ordering::Equal', 'Ordering::Greater']
RX_METHS = ['splitn', 'next', 'unwrap', 'ok_or', 'map_err', 'and_then', 'trim', 'fmt', 'cmp']
V_REP = 1000


def rx_strip(name):
    segs = name.split('::')
    changed = True
    while changed:
        changed = False
        for pre in RX_STRIP:
            if name.startswith(pre):
                name = name[len(pre):]
                changed = True
    return name


def rx_norm_ty(t):
    """type argument text -> normalised (`super :: super :: $unit` -> `$unit`)"""
    t = t.replace(' ', '')
    changed = True
    while changed:
        changed = False
        for pre in RX_STRIP:
            if t.startswith(pre):
                t = t[len(pre):]
                changed = True
    return t


class RxNames:
    def __init__(self):
        self.tabs = {'c': {n: i for i, n in enumerate(RX_PATHS)}, 'm': {n: i for i, n in enumerate(RX_METHS)},
                     'fld': {}, 'op': {}, 'ty': {}, 'meta': {}, 'opq': {}}

    def code(self, tab, text):
        t = self.tabs[tab]
        if text not in t:
            t[text] = len(t)
        return t[text]


def bytes_lit(s):
    return '[' + ', '.join(str(b) for b in s.encode('utf-8')) + ']'


class ToRx:
    """translate one function body; anything outside the subset becomes `.opaque`"""

    def __init__(self, names, params):
        self.n = names
        self.scope = {}
        for p in params:
            self.scope.setdefault(p, len(self.scope))
        self.nparams = len(self.scope)
        self.next_id = len(self.scope)

    def bind(self, name):
        i = self.next_id
        self.next_id += 1
        self.scope[name] = i
        return i

    def opaque(self, text):
        return '(.opaque %d)' % self.n.code('opq', text)

    # -- patterns
    def pat(self, p):
        k = p[0]
        if k == 'pwild':
            return '.wild'
        if k == 'pbind':
            return '(.bind %d)' % self.bind(p[1])
        if k == 'pmeta':
            return '(.metaVar %d)' % self.n.code('meta', p[1])
        if k == 'plit':
            if p[1] == 'str':
                return '(.str %s)' % bytes_lit(p[2])
            raise BodyError('literal pattern')
        if k == 'pctor':
            name = rx_strip(p[1])
            # `Units::$unit(_)`: the constructor is named by a metavariable of the repetition — one constructor per
            # instance.  Encoded as the enum's constructor family applied to the *name* of the instance's variant:
            # a value `Units::meter(..)` is `ctor1 <Units::$> (str "meter")`, the pattern matches when the instance's
            # `$unit` is that name (the payload, a unit-like struct, carries no data and must be ignored by the pattern)
            segs = [x.strip() for x in name.split('::')]
            if segs[-1].startswith('$') and '$' not in '::'.join(segs[:-1]):
                if len(p[2]) == 1 and p[2][0][0] == 'pwild':
                    return '(.ctor1 %d (.metaVar %d))' % (self.n.code('c', '::'.join(segs[:-1]) + '::$'),
                                                           self.n.code('meta', segs[-1][1:]))
                raise BodyError('metavariable constructor pattern with a payload pattern')
            if '$' in name:
                raise BodyError('metavariable in a constructor pattern')
            if len(p[2]) == 0:
                return '(.ctor0 %d)' % self.n.code('c', name)
            if len(p[2]) == 1:
                return '(.ctor1 %d %s)' % (self.n.code('c', name), self.pat(p[2][0]))
            raise BodyError('constructor pattern arity')
        if k == 'ptuple':
            if len(p[1]) == 2:
                a = self.pat(p[1][0])
                b = self.pat(p[1][1])
                return '(.tup2 %s %s)' % (a, b)
            raise BodyError('tuple pattern arity')
        if k == 'palt':
            a = self.pat(p[1])
            b = self.pat(p[2])
            return '(.alt %s %s)' % (a, b)
        raise BodyError('pattern ' + k)

    # -- names with macro metavariables take the repetition index as a leading argument
    def fname(self, name, targs):
        n = rx_strip(name)
        # a qualified path `<A as B>::f`: normalise inside the brackets
        n = _re.sub(r'\$crate :: |crate :: |lib :: |typenum :: |num :: ', '', n)
        full = n + ('::<' + ', '.join(rx_norm_ty(t) for t in targs) + '>' if targs else '')
        rep = '$' in full
        return self.n.code('c', full), rep

    def block(self, b):
        saved = dict(self.scope)
        parts = []
        for name, e in b['lets']:
            ve = self.expr(e)
            if isinstance(name, (tuple, list)):
                try:
                    parts.append(('letpat', self.pat(name[2]), ve))
                except BodyError:
                    parts.append(('seq', self.opaque('let ' + name[1])))
            elif name == '_':
                parts.append(('seq', ve))
            elif name.startswith('('):
                parts.append(('seq', self.opaque('let ' + name)))
            else:
                parts.append(('let', self.bind(name), ve))
        res = self.expr(b['result'])
        for p in reversed(parts):
            if p[0] == 'seq':
                res = '(.seq %s %s)' % (p[1], res)
            elif p[0] == 'letpat':
                res = '(.letPat %s %s %s)' % (p[1], p[2], res)
            else:
                res = '(.letIn %d %s %s)' % (p[1], p[2], res)
        self.scope = saved
        return res

    def args(self, xs):
        return [self.expr(x) for x in xs]

    def expr(self, e):
        try:
            return self.expr1(e)
        except BodyError as ex:
            return self.opaque('%s: %s' % (ex, e))

    def expr1(self, e):
        k = e[0]
        if k == 'var':
            if e[1] in self.scope:
                return '(.var %d)' % self.scope[e[1]]
            c, rep = self.fname(e[1], [])
            return '(.path %d)' % c
        if k == 'lit':
            t = e[1].replace('_', '')
            if t.isdigit():
                return '(.nat %d)' % int(t)
            if t == '()':
                return '.unit'
            if _re.fullmatch(r'[0-9]+\.[0-9]+', t):
                return '(.path %d)' % self.n.code('c', 'lit ' + t)       # a float literal: a named constant
            return self.opaque('lit ' + e[1])
        if k == 'strlit':
            return '(.str %s)' % bytes_lit(e[1])
        if k == 'chrlit':
            b = e[1].encode('utf-8')
            if len(b) != 1:
                raise BodyError('multi-byte char literal')
            return '(.chr %d)' % b[0]
        if k == 'path':
            c, rep = self.fname(e[1], e[2])
            if rep:
                return '(.call1 %d (.var %d))' % (c, V_REP)
            return '(.path %d)' % c
        if k == 'call':
            callee, args = e[1], e[2]
            if callee[0] == 'path':
                c, rep = self.fname(callee[1], callee[2])
            elif callee[0] == 'var' and callee[1] not in self.scope:
                c, rep = self.fname(callee[1], [])
            else:
                raise BodyError('call of a computed function')
            a = self.args(args)
            if rep:
                a = ['(.var %d)' % V_REP] + a
            if len(a) == 0:
                return '(.call0 %d)' % c
            if len(a) == 1:
                return '(.call1 %d %s)' % (c, a[0])
            if len(a) == 2:
                return '(.call2 %d %s %s)' % (c, a[0], a[1])
            raise BodyError('call arity %d' % len(a))
        if k == 'method':
            name, args = e[2], e[3]
            targs = e[4] if len(e) > 4 else []
            full = name + ('::<' + ', '.join(rx_norm_ty(t) for t in targs) + '>' if targs else '')
            if '$' in full:
                raise BodyError('metavariable in a method name')
            m = self.n.code('m', full)
            recv = self.expr(e[1])
            if len(args) == 1 and args[0][0] == 'closure':
                pats, body = args[0][1], args[0][2]
                if len(pats) != 1:
                    raise BodyError('closure arity')
                saved = dict(self.scope)
                p = self.pat(pats[0])
                b = self.expr(body)
                self.scope = saved
                return '(.mClos %s %d %s %s)' % (recv, m, p, b)
            a = self.args(args)
            if len(a) == 0:
                return '(.m0 %s %d)' % (recv, m)
            if len(a) == 1:
                return '(.m1 %s %d %s)' % (recv, m, a[0])
            if len(a) == 2:
                return '(.m2 %s %d %s %s)' % (recv, m, a[0], a[1])
            raise BodyError('method arity %d' % len(a))
        if k == 'rep_chain':
            recv, chain = self.expr(e[1]), e[2]
            if chain[0] == 'method' and chain[1] == ['rep_hole'] and len(chain[3]) == 1 and chain[3][0][0] == 'closure':
                pats, body = chain[3][0][1], chain[3][0][2]
                if len(pats) != 1:
                    raise BodyError('closure arity')
                saved = dict(self.scope)
                p = self.pat(pats[0])
                b = self.expr(body)
                self.scope = saved
                return '(.repChainClos %s %d %s %s)' % (recv, self.n.code('m', chain[2]), p, b)
            raise BodyError('method-chain repetition shape')
        if k == 'field':
            return '(.field %s %d)' % (self.expr(e[1]), self.n.code('fld', e[2]))
        if k == 'bin':
            return '(.bin %d %s %s)' % (self.n.code('op', e[1]), self.expr(e[2]), self.expr(e[3]))
        if k == 'neg':
            return '(.neg %s)' % self.expr(e[1])
        if k in ('ref', 'deref'):
            return '(.ref %s)' % self.expr(e[1])
        if k == 'cast':
            return '(.cast %s %d)' % (self.expr(e[1]), self.n.code('ty', e[2]))
        if k == 'tuple':
            if len(e[1]) == 2:
                return '(.tup2 %s %s)' % (self.expr(e[1][0]), self.expr(e[1][1]))
            raise BodyError('tuple arity')
        if k == 'try':
            return '(.try_ %s)' % self.expr(e[1])
        if k == 'return':
            return '(.ret %s)' % self.expr(e[1])
        if k == 'if':
            c = self.expr(e[1])
            t = self.block(e[2])
            el = self.block(e[3]) if e[3] is not None else '.unit'
            return '(.ite %s %s %s)' % (c, t, el)
        if k == 'block':
            return self.block(e[1])
        if k == 'match':
            s = self.expr(e[1])
            arms = '.noArm'
            built = []
            for a in e[2]:
                saved = dict(self.scope)
                p = self.pat(a[1])
                b = self.expr(a[2])
                self.scope = saved
                built.append((a[0], p, b))
            for kind, p, b in reversed(built):
                arms = '(.%s %s %s %s)' % ('repArm' if kind == 'rep' else 'arm', p, b, arms)
            return '(.matchOn %s %s)' % (s, arms)
        if k == 'struct':
            fields, base = e[2], e[3]
            # `Quantity { dimension: PhantomData, units: PhantomData, value }` / `Quantity { value, ..self }`: the
            # constructor `Quantity{value}` applied to the value expression (the phantom fields carry no data)
            if (set(fields) == {'dimension', 'units', 'value'} and base is None and is_phantom(fields['dimension'])
                    and is_phantom(fields['units'])) or (set(fields) == {'value'} and base == ['var', 'self']):
                return '(.call1 %d %s)' % (self.n.code('c', 'Quantity{value}'), self.expr(fields['value']))
            # any other struct literal without a base: the constructor named by the struct and its data-carrying
            # fields (in source order), applied to the field expressions; `PhantomData` fields carry no data
            if base is None:
                data = [(f, x) for f, x in fields.items() if not is_phantom(x)]
                sname = e[1].split('::')[-1].strip() if isinstance(e[1], str) else None
                if sname and '$' not in sname and len(data) <= 2:
                    c = self.n.code('c', '%s{%s}' % (sname, ','.join(f for f, _ in data)))
                    a = [self.expr(x) for _, x in data]
                    return '(.call%d %d%s)' % (len(a), c, ''.join(' ' + x for x in a))
            raise BodyError('struct literal')
        if k == 'macro_rule':
            c = self.n.code('c', '%s!(@%s)' % (e[1], e[2]))
            a = self.args(e[3])
            if len(a) == 0:
                return '(.call0 %d)' % c
            if len(a) == 1:
                return '(.call1 %d %s)' % (c, a[0])
            raise BodyError('macro rule arity')
        if k == 'macro' and e[1] == 'write' and len(e[2]) == 2 and e[2][1][0] == 'strlit':
            return '(.write0 %s %s)' % (self.expr(e[2][0]), bytes_lit(e[2][1][1]))
        if k == 'macro' and e[1] == 'write' and len(e[2]) in (3, 4) and e[2][1][0] == 'strlit':
            dst = self.expr(e[2][0])
            fmt = bytes_lit(e[2][1][1])
            a = self.args(e[2][2:])
            return '(.write%d %s %s %s)' % (len(a), dst, fmt, ' '.join(a))
        raise BodyError('outside the Rx subset: ' + k)


def collect_rx(raw):
    """raw: key -> body dict (from `collect`); -> [(key, nparams, lean)], RxNames"""
    names = RxNames()
    out = []
    for key, body in raw.items():
        tr = ToRx(names, body.get('params', []))
        try:
            lean = tr.block(body)
        except Exception as ex:      # noqa
            lean = '(.opaque %d)' % names.code('opq', 'untranslatable %s' % ex)
        out.append((key, tr.nparams, lean))
    return out, names


def impl_disc(hdr):
    """a short stable discriminator of an impl header: `Add_Quantity_for_Quantity`, `inherent_Quantity`"""
    if not hdr:
        return 'free'
    t = hdr.split()
    assert t[0] == 'impl'
    i = 1
    if i < len(t) and t[i] == '<':
        d = 0
        while True:
            if t[i] == '<': d += 1
            if t[i] == '>': d -= 1
            if t[i] == '>>': d -= 2
            i += 1
            if d <= 0:
                break
    rest = t[i:]
    if 'where' in rest:
        rest = rest[:rest.index('where')]

    def head(ts):
        # last path segment before the first '<', and the head of the first generic argument
        segs, arg = [], None
        j = 0
        while j < len(ts) and ts[j] != '<':
            if ts[j] not in ('::', 'dyn', '&', "'de"):
                segs.append(ts[j])
            j += 1
        if j < len(ts):
            k = j + 1
            while k < len(ts) and ts[k] in ('::', 'dyn', '&', "'de", ','):
                k += 1
            # skip a leading path
            a = []
            while k < len(ts) and ts[k] not in ('<', '>', ',', '>>'):
                if ts[k] != '::':
                    a.append(ts[k])
                k += 1
            arg = a[-1] if a else None
        return (segs[-1] if segs else 'x'), arg

    depth = 0
    split = None
    for j, x in enumerate(rest):
        if x == '<': depth += 1
        if x == '>': depth -= 1
        if x == '>>': depth -= 2
        if x == 'for' and depth == 0:
            split = j
            break
    san = lambda s: _re.sub(r'[^A-Za-z0-9]+', '', s)
    if split is None:
        h, _a = head(rest)
        return 'inherent_' + san(h)
    tr, arg = head(rest[:split])
    ty, _a = head(rest[split + 1:])
    return san(tr) + ('_' + san(arg) if arg else '') + '_for_' + san(ty)


def macro_rule_arms(toks, macro):
    """internal rules `(@rule …matcher…) => { body };` of `macro_rules! <macro>` whose matcher consists of the
    rule name, plain `$x:ident` / `$x:expr` fragments and commas: yield (rule, [param names], body dict)"""
    for i in range(len(toks) - 3):
        if toks[i] == ('id', 'macro_rules') and toks[i + 1] == ('p', '!') and toks[i + 2] == ('id', macro):
            b = i + 3
            bend = match_close(toks, b)
            j = b + 1
            while j < bend:
                if toks[j] != ('p', '('):
                    j += 1
                    continue
                mend = match_close(toks, j)
                if toks[mend + 1] != ('p', '=>'):
                    j = mend + 1
                    continue
                body0 = mend + 2
                bodyend = match_close(toks, body0)
                m = toks[j + 1:mend]
                if len(m) >= 2 and m[0] == ('p', '@') and m[1][0] == 'id' and not any(t == ('p', '(') for t in m):
                    rule = m[1][1]
                    params, ok, q = [], True, 2
                    while q < len(m):
                        if m[q][0] == 'id' and m[q][1].startswith('$') and q + 2 < len(m) + 1 and m[q + 1] == ('p', ':') \
                                and m[q + 2][1] in ('expr', 'ident'):
                            params.append(m[q][1])
                            q += 3
                        elif m[q] == ('p', ','):
                            q += 1
                        else:
                            ok = False
                            break
                    if ok and params:
                        try:
                            body = P(toks, body0 + 1, bodyend).body()
                        except (BodyError, IndexError) as ex:
                            body = {'lets': [], 'result': ['opaque', 'unparsed: %s' % ex]}
                        body['params'] = params
                        body['ptypes'] = []
                        body['sig'] = ''
                        yield (rule, params, body)
                j = bodyend + 1
            return


def collect_trait_fns(repo_src_reader, files):
    """[(trait name, fn name)] for every `fn` declared (with or without a default body) inside a `trait` block"""
    from rustlex import lex
    out = []
    for rel in files:
        toks = lex(repo_src_reader(rel))
        i = 0
        n = len(toks)
        while i < n - 2:
            if toks[i] == ('id', 'trait') and toks[i + 1][0] == 'id' and (i == 0 or toks[i - 1] != ('p', '::')):
                name = toks[i + 1][1]
                j = i + 2
                while j < n and toks[j] != ('p', '{') and toks[j] != ('p', ';'):
                    j += 1
                if j < n and toks[j] == ('p', '{'):
                    e = match_close(toks, j)
                    depth = 0
                    for q in range(j + 1, e):
                        kk, tt = toks[q]
                        if kk == 'p' and tt == '{': depth += 1
                        if kk == 'p' and tt == '}': depth -= 1
                        if depth == 0 and kk == 'id' and tt == 'fn' and toks[q + 1][0] == 'id':
                            out.append((name, toks[q + 1][1]))
                    i = e + 1
                    continue
            i += 1
    return out


def collect_impls(repo_src_reader, files):
    """every `impl` header of the given files (with `impl_ops!` inlined): [(discriminator, [kind-bound marker names])]"""
    from rustlex import lex
    rows = []
    for rel in files:
        toks = lex(repo_src_reader(rel))
        try:
            span, exps = expand_impl_ops(toks)
            streams = [toks[:span[0]] + toks[span[1] + 1:]] + exps
        except BodyError:
            streams = [toks]
        for ts in streams:
            i = 0
            n = len(ts)
            while i < n:
                if ts[i] == ('id', 'impl') and (i == 0 or ts[i - 1] not in (('p', '!'), ('p', '->'), ('p', ':'), ('p', '&'))) and i + 1 < n \
                        and (ts[i + 1] == ('p', '<') or ts[i + 1][0] == 'id' or ts[i + 1] == ('p', '$')):
                    j = i
                    depth = 0
                    ok = True
                    while j < n and not (ts[j] == ('p', '{') and depth == 0):
                        if ts[j][1] == '<': depth += 1
                        if ts[j][1] == '>': depth -= 1
                        if ts[j][1] == '>>': depth -= 2
                        if ts[j] == ('p', ';') and depth <= 0:
                            ok = False
                            break
                        j += 1
                    if ok and j < n:
                        hdr = ' '.join(tt for _k, tt in ts[i:j])
                        try:
                            disc = impl_disc(hdr)
                        except Exception:      # noqa
                            disc = 'unparsed'
                        marks = [mk for _d, mk in _re.findall(r'(\w+) :: Kind : \$crate :: marker :: (\w+)', hdr)]
                        rows.append((disc, marks))
                        i = j + 1
                        continue
                i += 1
    return rows


def collect(repo_src_reader, files):
    """[(key, params, lean_expr)], names"""
    from rustlex import lex
    names = Names()
    out = []
    seen = {}
    raw = {}
    for rel in files:
        toks = lex(repo_src_reader(rel))
        try:
            span, exps = expand_impl_ops(toks)
            base = toks[:span[0]] + toks[span[1] + 1:]
        except BodyError:
            base, exps = toks, []
        fns = list(extract_fns(base, 0, len(base)))
        for ex in exps:
            fns += list(extract_fns(ex, 0, len(ex)))
        stem = _re.sub(r'[^A-Za-z0-9]+', '_', rel[:-3] if rel.endswith('.rs') else rel)
        if rel == 'unit.rs':
            for rule, params, body in macro_rule_arms(toks, 'unit'):
                fns.append(('rule_%s_%d' % (rule, len(params)), (), '', body))
        for name, ctx, hdr, body in fns:
            if 'test' in ctx:
                continue
            if name.startswith('$'):
                continue
            mode = 'auto' if 'autoconvert' in ctx else 'noauto' if 'not_autoconvert' in ctx else None
            key = '%s_%s_%s' % (stem, impl_disc(hdr), _re.sub(r'[^A-Za-z0-9_]+', '', name))
            if mode:
                key += '_' + mode
            for c in ctx:
                if c.startswith('types:') and stem in ('lib', 'unit'):
                    key += '_' + c[6:]
            n = seen.get(key, 0)
            seen[key] = n + 1
            if n:
                key += '_v%d' % (n + 1)
            tl = ToLean(names, body.get('params', []))
            try:
                lean = tl.block(body)
            except Exception as ex:      # noqa
                lean = '(.opaque %d)' % names.code('opaque: untranslatable %s' % ex)
            out.append((key, tl.nparams, lean))
            body['hdr'] = hdr
            raw[key] = body
    return out, names, raw


# ---------------------------------------------------------------------------------------------
# signatures: output dimension, kind bounds and per-exponent typenum bounds of every operator impl
# ---------------------------------------------------------------------------------------------
ARG_RE = r'(?:(\w+) :: \$symbol|\$crate :: typenum :: (Z0|P2|P3)|(E))'
OUT_OP_RE = _re.compile(
    r'\$quantities < \$ \( \$crate :: typenum :: (\w+) < ' + ARG_RE + r'(?: , ' + ARG_RE + r')? > (?:, )?\) (?:, )?\+ (\w+ :: Kind )?>')
TOPS = {'Sum': 'sum', 'Diff': 'diff', 'Prod': 'prod', 'Negate': 'negate', 'PartialQuot': 'partialQuot', 'Quot': 'quot'}
BOUND_TRAITS = {'Add': 'sum', 'Sub': 'diff', 'Mul': 'prod', 'Neg': 'negate', 'PartialDiv': 'partialQuot', 'Div': 'quot'}


def _arg(g):
    d, c, e = g
    if d:
        return '(.dim %s)' % typ(d)
    if c:
        return '.' + c.lower()
    if e:
        return '.e'
    return '.none'


def quantity_args(text):
    """[(dimension arg text, units arg text)] of every `Quantity < A , B , C >` occurrence, in order"""
    t = text.split()
    out = []
    i = 0
    while i < len(t) - 1:
        if t[i] in ('Quantity', 'ThermodynamicTemperature', 'TemperatureInterval') and t[i + 1] == '<':
            alias = t[i] != 'Quantity'
            depth, j, args, cur = 1, i + 2, [], []
            while j < len(t) and depth > 0:
                x = t[j]
                if x == '<': depth += 1
                elif x == '>': depth -= 1
                elif x == '>>': depth -= 2
                if depth <= 0:
                    break
                if x == ',' and depth == 1:
                    args.append(' '.join(cur)); cur = []
                else:
                    cur.append(x)
                j += 1
            if cur:
                args.append(' '.join(cur))
            if alias and args:
                out.append((t[i], args[0]))
            elif len(args) >= 2:
                out.append((args[0], args[1]))
            i += 2          # nested occurrences are visited too
            continue
        i += 1
    return out


def parse_sig(hdr, impl_out, sigtext, markers, ptypes=()):
    """-> Lean `Uom.Sig.Sig` literal"""
    ret, _, fn_where = sigtext.partition(' where ')
    ret = ret.replace('->', '', 1).strip()
    out_text = impl_out if (impl_out and ret in ('Self :: Output', '')) else ret
    hdr_main, _, hdr_where = hdr.partition(' where ')
    where = hdr_where + ' , ' + fn_where
    # operand dimension parameters
    lhs = rhs = None
    m = _re.search(r' for Quantity < (\w+) ,', hdr_main)
    if m:
        lhs = m.group(1)
    elif _re.match(r'impl (< [^{]*? > )?(?:[\w$]+ :: )*Quantity < (\w+) ,', hdr_main):
        lhs = _re.match(r'impl (< [^{]*? > )?(?:[\w$]+ :: )*Quantity < (\w+) ,', hdr_main).group(2)
    m = _re.search(r'< Quantity < (\w+) ,[^>]*>+ for ', hdr_main)
    if m:
        rhs = m.group(1)
    elif lhs and _re.search(r':: (Add|Sub|Rem|AddAssign|SubAssign|RemAssign|PartialEq|PartialOrd) for Quantity <', hdr_main):
        rhs = lhs       # no generic argument: `Rhs = Self`
    elif lhs and len(ptypes) >= 2:
        # a method: the dimension parameter of its first quantity argument
        pt = ptypes[1]
        mm = _re.match(r'(?:& )?Quantity < (\w+) ,', pt)
        if pt in ('Self', '& Self'):
            rhs = lhs
        elif mm:
            rhs = mm.group(1)
    # base-units parameters of the two operands
    lhs_u = rhs_u = None
    qa = quantity_args(hdr_main)
    if ' for ' in hdr_main:
        before, _, after = hdr_main.partition(' for ')
        qb, qf = quantity_args(before), quantity_args(after)
        if qf:
            lhs_u = qf[0][1]
        if qb:
            rhs_u = qb[0][1]
        elif lhs_u and rhs == lhs:
            rhs_u = lhs_u
    elif qa:
        lhs_u = qa[0][1]
        if len(ptypes) >= 2:
            qp = quantity_args(ptypes[1])
            if ptypes[1] in ('Self', '& Self'):
                rhs_u = lhs_u
            elif qp:
                rhs_u = qp[0][1]
    # output
    m = OUT_OP_RE.search(out_text)
    if out_text == 'Self':
        out = '.self'
    elif _re.fullmatch(r'Quantity < (\w+) , \w+ , V >', out_text):
        out = '(.same %s)' % typ(_re.fullmatch(r'Quantity < (\w+) , \w+ , V >', out_text).group(1))
    elif m:
        op = TOPS.get(m.group(1), 'other')
        a = _arg(m.group(2, 3, 4))
        b = _arg(m.group(5, 6, 7))
        out = '(.op .%s %s %s %s)' % (op, a, b, 'true' if m.group(8) else 'false')
    elif out_text in ('', '( )'):
        out = '.unit'
    else:
        out = '(.named %d)' % (sum(ord(c) for c in out_text) % 100000)
    # kind bounds
    kb = []
    for d, mk in _re.findall(r'(\w+) :: Kind : \$crate :: marker :: (\w+)', where):
        if mk in markers:
            kb.append('(%s, %d)' % (typ(d), markers.index(mk)))
        else:
            kb.append('(%s, 999)' % typ(d))
    # per-exponent bounds  `$( D::$symbol : Trait<Arg> , …)+`
    sb = []
    for d, tr, a1, a2, a3 in _re.findall(
            r'\$ \( (\w+) :: \$symbol : \$crate :: (?:lib :: ops|typenum) :: (\w+)(?: < ' + ARG_RE + r' >)?', where):
        sb.append('(%s, .%s, %s)' % (typ(d), BOUND_TRAITS.get(tr, 'other'), _arg((a1, a2, a3))))
    for a1, tr, d in _re.findall(r'\$ \( \$crate :: typenum :: (Z0) : \$crate :: lib :: ops :: (\w+) < (\w+) :: \$symbol >', where):
        sb.append('(%s, .%s, .z0)' % (typ(d), BOUND_TRAITS.get(tr, 'other')))
    opt = lambda x: '(some %s)' % typ(x) if x else 'none'
    return '⟨%s, %s, %s, %s, %s, [%s], [%s]⟩' % (opt(lhs), opt(rhs), opt(lhs_u), opt(rhs_u), out, ', '.join(kb), ', '.join(sb))
