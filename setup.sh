#!/bin/bash
# Build the framework from files on disk only (offline). Idempotent.
set -e
cd "$(dirname "$0")"
export CARGO_NET_OFFLINE=true
python3 translate/translate.py
(cd lean && lake build Uom driver)
[ -f harness/Cargo.lock ] || cp /repo/Cargo.lock harness/Cargo.lock
(cd harness && cargo build --offline --features fl,allsi --target-dir target/fl,allsi --bin conv && cargo build --offline --features fl --target-dir target/fl --bin conv --bin ops --bin reg --bin usr && cargo build --offline --features wide --target-dir target/wide --bin ops --bin hist --bin convx --bin text --bin misc && cargo build --offline --features wide-noauto --target-dir target/wide-noauto --bin hist && cargo build --offline --features fl,allsi --target-dir target/fl,allsi --bin text)
echo setup-ok
