//! hist: same-base operations on every storage type, next to the bare-number operation (C07, C10).
//!
//! b2 <V> <form> <q> <u> <a> <b> <qres> <rawres>     binary form and the bare-number operation
//! un <V> <form> <q> <u> <a> <qres> <rawres>         unary
//! sc <V> <form> <q> <u> <a> <k> <qres> <rawres>     scaling by a bare number
//! sum <V> <q> <u> <v1:..:vn> <qres> <rawres>
//! zero <V> <which> <q> <u> <qres> <rawres>
//! Histories are chains of these lines: the `a` of a step is the register after the previous step.
#![allow(non_camel_case_types, unused_macros, unused_imports, dead_code, unused_variables, unused_mut)]
use std::io::Write;
use std::marker::PhantomData;
use std::panic::AssertUnwindSafe;
use uom::si::Quantity;
use uom::num::{Saturating, Signed, Zero};
use uom::ConstZero;
use uomh::*;

pub struct Cx<W: Write> {
    out: W,
    seed: u64,
    n: usize,
    hist_len: usize,
    idx: u64,
    shard: (u64, u64),
}

impl<W: Write> Cx<W> {
    fn take(&mut self) -> bool {
        self.idx += 1;
        self.idx % self.shard.1 == self.shard.0
    }
    fn rng(&self, salt: &str) -> Rng {
        Rng::new(self.seed).fork(hash_str(salt))
    }
}

fn g<R>(f: impl FnOnce() -> R) -> Option<R> {
    guarded(AssertUnwindSafe(f))
}

macro_rules! q {
    ($T:ty, $v:expr) => {
        <$T>::from_value($v)
    };
}
trait FromValue<V> {
    fn from_value(v: V) -> Self;
}
impl<D, U, V> FromValue<V> for Quantity<D, U, V>
where
    D: uom::si::Dimension + ?Sized,
    U: uom::si::Units<V> + ?Sized,
    V: uom::num::Num + uom::Conversion<V>,
{
    fn from_value(v: V) -> Self {
        Quantity { dimension: PhantomData, units: PhantomData, value: v }
    }
}

macro_rules! b2 {
    ($cx:ident, $V:ty, $qn:expr, $un:expr, $form:expr, $a:expr, $b:expr, $qe:expr, $re:expr) => {
        writeln!($cx.out, "b2 {} {} {} {} {} {} {} {}", <$V as Val>::NAME, $form, $qn, $un, $a.enc(), $b.enc(),
            enc_opt(&g(|| $qe)), enc_opt(&g(|| $re))).unwrap();
    };
}
macro_rules! un {
    ($cx:ident, $V:ty, $qn:expr, $un:expr, $form:expr, $a:expr, $qe:expr, $re:expr) => {
        writeln!($cx.out, "un {} {} {} {} {} {} {}", <$V as Val>::NAME, $form, $qn, $un, $a.enc(),
            enc_opt(&g(|| $qe)), enc_opt(&g(|| $re))).unwrap();
    };
}
macro_rules! sc {
    ($cx:ident, $V:ty, $qn:expr, $un:expr, $form:expr, $a:expr, $k:expr, $qe:expr, $re:expr) => {
        writeln!($cx.out, "sc {} {} {} {} {} {} {} {}", <$V as Val>::NAME, $form, $qn, $un, $a.enc(), $k.enc(),
            enc_opt(&g(|| $qe)), enc_opt(&g(|| $re))).unwrap();
    };
}

/// forms available for every storage type and every default-like kind
macro_rules! common_forms {
    ($cx:ident, $V:ty, $Q:ty, $qn:expr, $un:expr) => {{
        let mut rng = $cx.rng(concat!(stringify!($V), $qn, $un, "common"));
        for k in 0..$cx.n {
            let a = <$V as Val>::gen(&mut rng, k);
            let b = <$V as Val>::gen(&mut rng, (k * 5 + 2) % ($cx.n + 3));
            let (a, b) = if k % 6 == 5 { (a.clone(), a) } else { (a, b) };
            b2!($cx, $V, $qn, $un, "add", a, b, (q!($Q, a.clone()) + q!($Q, b.clone())).value, a.clone() + b.clone());
            b2!($cx, $V, $qn, $un, "sub", a, b, (q!($Q, a.clone()) - q!($Q, b.clone())).value, a.clone() - b.clone());
            b2!($cx, $V, $qn, $un, "rem", a, b, (q!($Q, a.clone()) % q!($Q, b.clone())).value, a.clone() % b.clone());
            b2!($cx, $V, $qn, $un, "mul", a, b, (q!($Q, a.clone()) * q!($Q, b.clone())).value, a.clone() * b.clone());
            b2!($cx, $V, $qn, $un, "div", a, b, (q!($Q, a.clone()) / q!($Q, b.clone())).value, a.clone() / b.clone());
            b2!($cx, $V, $qn, $un, "adda", a, b, { let mut x = q!($Q, a.clone()); x += q!($Q, b.clone()); x.value }, { let mut x = a.clone(); x += b.clone(); x });
            b2!($cx, $V, $qn, $un, "suba", a, b, { let mut x = q!($Q, a.clone()); x -= q!($Q, b.clone()); x.value }, { let mut x = a.clone(); x -= b.clone(); x });
            b2!($cx, $V, $qn, $un, "rema", a, b, { let mut x = q!($Q, a.clone()); x %= q!($Q, b.clone()); x.value }, { let mut x = a.clone(); x %= b.clone(); x });
            b2!($cx, $V, $qn, $un, "eq", a, b, q!($Q, a.clone()) == q!($Q, b.clone()), a == b);
            b2!($cx, $V, $qn, $un, "ne", a, b, q!($Q, a.clone()) != q!($Q, b.clone()), a != b);
            b2!($cx, $V, $qn, $un, "lt", a, b, q!($Q, a.clone()) < q!($Q, b.clone()), a < b);
            b2!($cx, $V, $qn, $un, "le", a, b, q!($Q, a.clone()) <= q!($Q, b.clone()), a <= b);
            b2!($cx, $V, $qn, $un, "gt", a, b, q!($Q, a.clone()) > q!($Q, b.clone()), a > b);
            b2!($cx, $V, $qn, $un, "ge", a, b, q!($Q, a.clone()) >= q!($Q, b.clone()), a >= b);
            b2!($cx, $V, $qn, $un, "pcmp", a, b, q!($Q, a.clone()).partial_cmp(&q!($Q, b.clone())), a.partial_cmp(&b));
            sc!($cx, $V, $qn, $un, "mulk", a, b, (q!($Q, a.clone()) * b.clone()).value, a.clone() * b.clone());
            sc!($cx, $V, $qn, $un, "divk", a, b, (q!($Q, a.clone()) / b.clone()).value, a.clone() / b.clone());
            sc!($cx, $V, $qn, $un, "kmul", a, b, (b.clone() * q!($Q, a.clone())).value, b.clone() * a.clone());
            sc!($cx, $V, $qn, $un, "kdiv", a, b, (b.clone() / q!($Q, a.clone())).value, b.clone() / a.clone());
            sc!($cx, $V, $qn, $un, "mulka", a, b, { let mut x = q!($Q, a.clone()); x *= b.clone(); x.value }, { let mut x = a.clone(); x *= b.clone(); x });
            sc!($cx, $V, $qn, $un, "divka", a, b, { let mut x = q!($Q, a.clone()); x /= b.clone(); x.value }, { let mut x = a.clone(); x /= b.clone(); x });
            un!($cx, $V, $qn, $un, "is_zero", a, q!($Q, a.clone()).is_zero(), a.is_zero());
        }
        // Sum over an iterator
        for k in 0..($cx.n / 4 + 1) {
            let vs: Vec<$V> = (0..(k % 7)).map(|i| <$V as Val>::gen(&mut rng, 9 + i + k)).collect();
            let vs2 = vs.clone();
            let qr: Option<$V> = g(|| vs.iter().cloned().map(|v| q!($Q, v)).sum::<$Q>().value);
            let rr: Option<$V> = g(|| vs2.iter().cloned().sum::<$V>());
            writeln!($cx.out, "sum {} {} {} {} {} {}", <$V as Val>::NAME, $qn, $un,
                if vs2.is_empty() { "-".to_string() } else { join_enc(&vs2) }, enc_opt(&qr), enc_opt(&rr)).unwrap();
        }
        writeln!($cx.out, "zero {} zero {} {} {} {}", <$V as Val>::NAME, $qn, $un, <$Q as Zero>::zero().value.enc(), <$V as Zero>::zero().enc()).unwrap();
        writeln!($cx.out, "zero {} default {} {} {} {}", <$V as Val>::NAME, $qn, $un, <$Q as Default>::default().value.enc(), <$V as Default>::default().enc()).unwrap();
    }};
}

macro_rules! const_zero {
    ($cx:ident, $V:ty, $Q:ty, $qn:expr, $un:expr) => {
        writeln!($cx.out, "zero {} ZERO {} {} {} {}", <$V as Val>::NAME, $qn, $un, <$Q as ConstZero>::ZERO.value.enc(), <$V as ConstZero>::ZERO.enc()).unwrap();
    };
}

macro_rules! signed_forms {
    ($cx:ident, $V:ty, $Q:ty, $qn:expr, $un:expr) => {{
        let mut rng = $cx.rng(concat!(stringify!($V), $qn, $un, "signed"));
        for k in 0..$cx.n {
            let a = <$V as Val>::gen(&mut rng, k);
            un!($cx, $V, $qn, $un, "neg", a, (-q!($Q, a.clone())).value, -a.clone());
            un!($cx, $V, $qn, $un, "abs", a, q!($Q, a.clone()).abs().value, Signed::abs(&a));
            un!($cx, $V, $qn, $un, "signum", a, q!($Q, a.clone()).signum().value, Signed::signum(&a));
        }
    }};
}

macro_rules! ord_forms {
    ($cx:ident, $V:ty, $Q:ty, $qn:expr, $un:expr) => {{
        let mut rng = $cx.rng(concat!(stringify!($V), $qn, $un, "ord"));
        for k in 0..$cx.n {
            let a = <$V as Val>::gen(&mut rng, k);
            let b = <$V as Val>::gen(&mut rng, (k * 3 + 1) % ($cx.n + 2));
            let c = <$V as Val>::gen(&mut rng, (k * 11 + 5) % ($cx.n + 7));
            b2!($cx, $V, $qn, $un, "cmp", a, b, Ord::cmp(&q!($Q, a.clone()), &q!($Q, b.clone())), Ord::cmp(&a, &b));
            b2!($cx, $V, $qn, $un, "ordmax", a, b, Ord::max(q!($Q, a.clone()), q!($Q, b.clone())).value, Ord::max(a.clone(), b.clone()));
            b2!($cx, $V, $qn, $un, "ordmin", a, b, Ord::min(q!($Q, a.clone()), q!($Q, b.clone())).value, Ord::min(a.clone(), b.clone()));
            let (lo, hi) = if b <= c { (b.clone(), c.clone()) } else { (c.clone(), b.clone()) };
            // a proper range, the degenerate ranges lo == hi (below, at and above the value) and the inverted
            // range (both sides must panic alike)
            for (lo, hi) in [(lo.clone(), hi.clone()), (b.clone(), b.clone()), (a.clone(), a.clone()), (c.clone(), c.clone()),
                             (hi.clone(), lo.clone())] {
                writeln!($cx.out, "b2 {} clamp:{} {} {} {} {} {} {}", <$V as Val>::NAME, hi.enc(), $qn, $un, a.enc(), lo.enc(),
                    enc_opt(&g(|| Ord::clamp(q!($Q, a.clone()), q!($Q, lo.clone()), q!($Q, hi.clone())).value)),
                    enc_opt(&g(|| Ord::clamp(a.clone(), lo.clone(), hi.clone())))).unwrap();
            }
        }
    }};
}

macro_rules! saturating_forms {
    ($cx:ident, $V:ty, $Q:ty, $qn:expr, $un:expr) => {{
        let mut rng = $cx.rng(concat!(stringify!($V), $qn, $un, "sat"));
        for k in 0..$cx.n {
            let a = <$V as Val>::gen(&mut rng, k);
            let b = <$V as Val>::gen(&mut rng, (k * 3 + 1) % ($cx.n + 2));
            b2!($cx, $V, $qn, $un, "satadd", a, b, Saturating::saturating_add(q!($Q, a.clone()), q!($Q, b.clone())).value, Saturating::saturating_add(a.clone(), b.clone()));
            b2!($cx, $V, $qn, $un, "satsub", a, b, Saturating::saturating_sub(q!($Q, a.clone()), q!($Q, b.clone())).value, Saturating::saturating_sub(a.clone(), b.clone()));
        }
    }};
}

macro_rules! float_forms {
    ($cx:ident, $V:ty, $Q:ty, $Vol:ty, $Area:ty, $qn:expr, $un:expr) => {{
        use uom::num::Float;
        let mut rng = $cx.rng(concat!(stringify!($V), $qn, $un, "float"));
        for k in 0..$cx.n {
            let a = <$V as Val>::gen(&mut rng, k);
            let b = <$V as Val>::gen(&mut rng, (k * 3 + 1) % ($cx.n + 2));
            b2!($cx, $V, $qn, $un, "fmax", a, b, q!($Q, a).max(q!($Q, b)).value, Float::max(a, b));
            b2!($cx, $V, $qn, $un, "fmin", a, b, q!($Q, a).min(q!($Q, b)).value, Float::min(a, b));
            b2!($cx, $V, $qn, $un, "hypot", a, b, q!($Q, a).hypot(q!($Q, b)).value, Float::hypot(a, b));
            b2!($cx, $V, $qn, $un, "atan2", a, b, q!($Q, a).atan2(q!($Q, b)).value, Float::atan2(a, b));
            un!($cx, $V, $qn, $un, "recip", a, q!($Q, a).recip().value, Float::recip(a));
            un!($cx, $V, $qn, $un, "sqrt", a, q!($Area, a).sqrt().value, Float::sqrt(a));
            un!($cx, $V, $qn, $un, "cbrt", a, q!($Vol, a).cbrt().value, Float::cbrt(a));
            un!($cx, $V, $qn, $un, "powi2", a, q!($Q, a).powi(uom::typenum::P2::new()).value, Float::powi(a, 2));
            un!($cx, $V, $qn, $un, "powi-3", a, q!($Q, a).powi(uom::typenum::N3::new()).value, Float::powi(a, -3));
            un!($cx, $V, $qn, $un, "classify", a, q!($Q, a).classify(), Float::classify(a));
            un!($cx, $V, $qn, $un, "is_nan", a, q!($Q, a).is_nan(), Float::is_nan(a));
            un!($cx, $V, $qn, $un, "is_infinite", a, q!($Q, a).is_infinite(), Float::is_infinite(a));
            un!($cx, $V, $qn, $un, "is_finite", a, q!($Q, a).is_finite(), Float::is_finite(a));
            un!($cx, $V, $qn, $un, "is_normal", a, q!($Q, a).is_normal(), Float::is_normal(a));
            un!($cx, $V, $qn, $un, "is_sign_positive", a, q!($Q, a).is_sign_positive(), Float::is_sign_positive(a));
            un!($cx, $V, $qn, $un, "is_sign_negative", a, q!($Q, a).is_sign_negative(), Float::is_sign_negative(a));
            let c = <$V as Val>::gen(&mut rng, (k * 13 + 7) % ($cx.n + 11));
            writeln!($cx.out, "b2 {} mul_add:{} {} {} {} {} {} {}", <$V as Val>::NAME, c.enc(), $qn, $un, a.enc(), b.enc(),
                enc_opt(&g(|| { let r: $Area = q!($Q, a).mul_add(q!($Q, b), q!($Area, c)); r.value })),
                enc_opt(&g(|| Float::mul_add(a, b, c)))).unwrap();
        }
    }};
}

/// a history: one register, a chain of dimension-preserving operations
macro_rules! history {
    ($cx:ident, $V:ty, $Q:ty, $qn:expr, $un:expr, [$($extra:tt)*]) => {{
        let mut rng = $cx.rng(concat!(stringify!($V), $qn, $un, "hist"));
        let n_hist = ($cx.n / 8).max(2);
        for h in 0..n_hist {
            let mut raw: $V = <$V as Val>::gen(&mut rng, 9 + h);
            let mut qreg: $Q = q!($Q, raw.clone());
            for _step in 0..$cx.hist_len {
                let kk = if rng.below(4) == 0 { rng.below(9) as usize } else { 10 + rng.below(50) as usize };
                let b = <$V as Val>::gen(&mut rng, kk);
                let op = rng.below(8);
                let a = raw.clone();
                let (qr, rr, form): (Option<$Q>, Option<$V>, &str) = match op {
                    0 => (g(|| qreg.clone() + q!($Q, b.clone())), g(|| a.clone() + b.clone()), "add"),
                    1 => (g(|| qreg.clone() - q!($Q, b.clone())), g(|| a.clone() - b.clone()), "sub"),
                    2 => (g(|| qreg.clone() % q!($Q, b.clone())), g(|| a.clone() % b.clone()), "rem"),
                    3 => (g(|| { let mut x = qreg.clone(); x += q!($Q, b.clone()); x }), g(|| { let mut x = a.clone(); x += b.clone(); x }), "adda"),
                    4 => (g(|| { let mut x = qreg.clone(); x -= q!($Q, b.clone()); x }), g(|| { let mut x = a.clone(); x -= b.clone(); x }), "suba"),
                    5 => (g(|| qreg.clone() * b.clone()), g(|| a.clone() * b.clone()), "mulk"),
                    6 => (g(|| qreg.clone() / b.clone()), g(|| a.clone() / b.clone()), "divk"),
                    _ => (g(|| { let mut x = qreg.clone(); x %= q!($Q, b.clone()); x }), g(|| { let mut x = a.clone(); x %= b.clone(); x }), "rema"),
                };
                let tag = if form == "mulk" || form == "divk" { "sc" } else { "b2" };
                writeln!($cx.out, "{} {} {} {} {} {} {} {} {}", tag, <$V as Val>::NAME, form, $qn, $un, a.enc(), b.enc(),
                    enc_opt(&qr.as_ref().map(|x| x.value.clone())), enc_opt(&rr)).unwrap();
                match (qr, rr) {
                    (Some(x), Some(y)) => { qreg = x; raw = y; }
                    _ => break,
                }
            }
        }
    }};
}

macro_rules! per_type {
    ($cx:ident, $V:ty, [$($class:ident),*]) => {{
        type Len = uom::si::length::Length<Si<$V>, $V>;
        type LenCgs = uom::si::length::Length<Cgs<$V>, $V>;
        type EnergyKgh = uom::si::energy::Energy<Kgh<$V>, $V>;
        type Ang = uom::si::angle::Angle<Si<$V>, $V>;
        type Info = uom::si::information::Information<Fpm<$V>, $V>;
        type Ti = uom::si::temperature_interval::TemperatureInterval<Mmm<$V>, $V>;
        type Area = uom::si::area::Area<Si<$V>, $V>;
        type Vol = uom::si::volume::Volume<Si<$V>, $V>;
        type AreaCgs = uom::si::area::Area<Cgs<$V>, $V>;
        type VolCgs = uom::si::volume::Volume<Cgs<$V>, $V>;
        if $cx.take() { common_forms!($cx, $V, Len, "length", "si"); history!($cx, $V, Len, "length", "si", []); }
        if $cx.take() { common_forms!($cx, $V, LenCgs, "length", "cgs"); history!($cx, $V, LenCgs, "length", "cgs", []); }
        if $cx.take() { common_forms!($cx, $V, EnergyKgh, "energy", "kgh"); history!($cx, $V, EnergyKgh, "energy", "kgh", []); }
        if $cx.take() { common_forms!($cx, $V, Ang, "angle", "si"); history!($cx, $V, Ang, "angle", "si", []); }
        if $cx.take() { common_forms!($cx, $V, Info, "information", "fpm"); }
        if $cx.take() { common_forms!($cx, $V, Ti, "temperature_interval", "mmm"); }
        $( per_type!(@class $class, $cx, $V, Len, LenCgs, Ang, Area, Vol, AreaCgs, VolCgs); )*
    }};
    (@class signed, $cx:ident, $V:ty, $Len:ty, $LenCgs:ty, $Ang:ty, $Area:ty, $Vol:ty, $AreaCgs:ty, $VolCgs:ty) => {
        if $cx.take() { signed_forms!($cx, $V, $Len, "length", "si"); signed_forms!($cx, $V, $LenCgs, "length", "cgs"); signed_forms!($cx, $V, $Ang, "angle", "si"); }
    };
    (@class ord, $cx:ident, $V:ty, $Len:ty, $LenCgs:ty, $Ang:ty, $Area:ty, $Vol:ty, $AreaCgs:ty, $VolCgs:ty) => {
        if $cx.take() { ord_forms!($cx, $V, $Len, "length", "si"); ord_forms!($cx, $V, $LenCgs, "length", "cgs"); }
    };
    (@class saturating, $cx:ident, $V:ty, $Len:ty, $LenCgs:ty, $Ang:ty, $Area:ty, $Vol:ty, $AreaCgs:ty, $VolCgs:ty) => {
        if $cx.take() { saturating_forms!($cx, $V, $Len, "length", "si"); saturating_forms!($cx, $V, $LenCgs, "length", "cgs"); }
    };
    (@class constzero, $cx:ident, $V:ty, $Len:ty, $LenCgs:ty, $Ang:ty, $Area:ty, $Vol:ty, $AreaCgs:ty, $VolCgs:ty) => {
        if $cx.take() { const_zero!($cx, $V, $Len, "length", "si"); const_zero!($cx, $V, $LenCgs, "length", "cgs"); const_zero!($cx, $V, $Ang, "angle", "si"); }
    };
    (@class float, $cx:ident, $V:ty, $Len:ty, $LenCgs:ty, $Ang:ty, $Area:ty, $Vol:ty, $AreaCgs:ty, $VolCgs:ty) => {
        if $cx.take() { float_forms!($cx, $V, $Len, $Vol, $Area, "length", "si"); }
        if $cx.take() { float_forms!($cx, $V, $LenCgs, $VolCgs, $AreaCgs, "length", "cgs"); }
    };
}

fn main() {
    silence_panics();
    let stdout = std::io::stdout();
    let mut cx = Cx {
        out: std::io::BufWriter::with_capacity(1 << 20, stdout.lock()),
        seed: env_u64("VERIF_SEED", 1),
        n: env_u64("VERIF_N", if thorough() { 600 } else { 60 }) as usize,
        hist_len: env_u64("VERIF_HIST", if thorough() { 4096 } else { 64 }) as usize,
        idx: 0,
        shard: shard(),
    };
    per_type!(cx, f64, [signed, constzero, float]);
    per_type!(cx, f32, [signed, constzero, float]);
    #[cfg(feature = "wide-types")]
    {
        use num_bigint::{BigInt, BigUint};
        use num_rational::{BigRational, Rational64};
        per_type!(cx, i32, [signed, ord, saturating, constzero]);
        per_type!(cx, i64, [signed, ord, saturating, constzero]);
        per_type!(cx, isize, [signed, ord, saturating, constzero]);
        per_type!(cx, u32, [ord, saturating, constzero]);
        per_type!(cx, u64, [ord, saturating, constzero]);
        per_type!(cx, BigInt, [signed, ord]);
        per_type!(cx, BigUint, [ord]);
        per_type!(cx, Rational64, [signed, ord]);
        #[cfg(feature = "wide2-types")]
        {
            per_type!(cx, i8, [signed, ord, saturating, constzero]);
            per_type!(cx, i16, [signed, ord, saturating, constzero]);
            per_type!(cx, i128, [signed, ord, saturating, constzero]);
            per_type!(cx, u8, [ord, saturating, constzero]);
            per_type!(cx, u16, [ord, saturating, constzero]);
            per_type!(cx, u128, [ord, saturating, constzero]);
            per_type!(cx, usize, [ord, saturating, constzero]);
            per_type!(cx, num_rational::Rational32, [signed, ord]);
            per_type!(cx, num_rational::Rational, [signed, ord]);
        }
        per_type!(cx, BigRational, [signed, ord]);
    }
    cx.out.flush().unwrap();
}
