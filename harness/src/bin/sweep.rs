//! sweep: the exhaustive part of C03's thorough tier — `new::<N>`, `get::<N>` and `get∘new` over ALL 2^32
//! f32 bit patterns, for a rotating subset of (base-unit set, unit) pairs.
//!
//! 4·10^9 case lines per unit cannot go through the line protocol, so the sweep filters: a cheap f64
//! re-computation of the exact result (relative error ≈ 3·2^-53, far below the f32 tolerances) flags every
//! pattern whose observed result is non-finite although no intermediate over/underflows, is not the
//! bit-exact identity for an identity unit, or lies beyond 85 % of the property's tolerance; flagged
//! patterns — and one pattern in every 2^14 regardless — are printed as ordinary `conv` lines and judged by
//! the Lean driver (model bit-exactness and the exact-rational oracle).  The filter is a search aid and is
//! not trusted for soundness of an alarm; it is trusted (stated in the evidence) not to hide a violation
//! larger than the 15 % margin.  `tally` lines report how many patterns were swept / guarded / flagged.
//!
//! Build with --release.  VERIF_SHARD=i/n sweeps the i-th of n contiguous slices of the pattern space.
#![allow(non_camel_case_types)]
use std::io::Write;
use std::marker::PhantomData;
use uom::ConstantOp;
use uomh::*;

struct Ctx<W: Write> {
    out: W,
    idx: u64,
    period: u64,
    phase: u64,
    shard: (u64, u64),
    swept_units: u64,
    count_only: bool,
}

const U: f64 = 5.960464477539063e-8; // 2^-24

fn normal_or(r: f32, zero_ok: bool) -> bool {
    r.is_normal() || (r == 0.0 && zero_ok)
}

impl<W: Write> Ctx<W> {
    #[allow(clippy::too_many_arguments)]
    fn unit(
        &mut self,
        base: &str,
        module: &str,
        unit: &str,
        coef: f32,
        cons_a: f32,
        cons_s: f32,
        pows: &[f32; 7],
        new: &dyn Fn(f32) -> f32,
        get: &dyn Fn(f32) -> f32,
    ) {
        self.idx += 1;
        if self.count_only || self.idx % self.period != self.phase {
            return;
        }
        self.swept_units += 1;
        // the base factor exactly as the code folds it
        let mut f = 1.0f32;
        for p in pows {
            f = f * *p;
        }
        let head = format!("f32 {} {} {} {} {} {} {}", base, module, unit, coef.hex(), cons_a.hex(), cons_s.hex(), join_hex(pows));
        let usable = coef.is_finite() && f.is_finite() && coef != 0.0 && f != 0.0;
        let id_new = usable && coef == f && cons_a == 0.0;
        let id_get = usable && coef == f && cons_s == 0.0;
        let (cf, ff, ca, cs) = (coef as f64, f as f64, cons_a as f64, cons_s as f64);
        let to_base_ok = |v: f32| -> bool {
            let s = v + cons_a;
            if coef >= f {
                let k = coef / f;
                let r = s * k;
                s.is_finite() && k.is_normal() && normal_or(r, s == 0.0 || k == 0.0)
            } else {
                let t = s * coef;
                let r = t / f;
                s.is_finite() && normal_or(t, s == 0.0 || coef == 0.0) && normal_or(r, t == 0.0)
            }
        };
        let from_base_ok = |v: f32| -> bool {
            if coef < f {
                let k = f / coef;
                let t = v * k;
                let r = t - cons_s;
                k.is_normal() && normal_or(t, v == 0.0 || k == 0.0) && r.is_finite()
            } else {
                let k = coef / f;
                let t = v / k;
                let r = t - cons_s;
                k.is_normal() && normal_or(t, v == 0.0) && r.is_finite()
            }
        };
        let (i, n) = self.shard;
        let total: u64 = 1 << 32;
        let lo = total / n * i;
        let hi = if i + 1 == n { total } else { total / n * (i + 1) };
        let (mut swept, mut guarded, mut flagged, mut sampled, mut identity) = (0u64, 0u64, 0u64, 0u64, 0u64);
        let mut printed_flagged = 0u64;
        for bits in lo..hi {
            let v = f32::from_bits(bits as u32);
            let o_new = new(v);
            let o_get = get(v);
            let o_rt = get(o_new);
            swept += 1;
            let mut flag = false;
            let mut any_checked = false;
            // construction
            if id_new {
                identity += 1;
                any_checked = true;
                if !(o_new.to_bits() == v.to_bits() || (v.is_nan() && o_new.is_nan())) {
                    flag = true;
                }
            } else if usable && v.is_finite() && to_base_ok(v) {
                any_checked = true;
                let exact = (v as f64 + ca) * cf / ff;
                if !o_new.is_finite() || (o_new as f64 - exact).abs() > 0.85 * 4.0 * U * exact.abs() {
                    flag = true;
                }
            }
            // reading
            if id_get {
                any_checked = true;
                if !(o_get.to_bits() == v.to_bits() || (v.is_nan() && o_get.is_nan())) {
                    flag = true;
                }
            } else if usable && v.is_finite() && from_base_ok(v) {
                any_checked = true;
                let scaled = v as f64 * ff / cf;
                let exact = scaled - cs;
                if !o_get.is_finite() || (o_get as f64 - exact).abs() > 0.85 * U * (3.0 * scaled.abs() + 2.0 * exact.abs()) {
                    flag = true;
                }
            }
            // round trip
            if id_get && id_new {
                if !(o_rt.to_bits() == v.to_bits() || (v.is_nan() && o_rt.is_nan())) {
                    flag = true;
                }
            } else if usable && v.is_finite() && to_base_ok(v) && from_base_ok(o_new) {
                any_checked = true;
                if !o_rt.is_finite() || (o_rt as f64 - v as f64).abs() > 0.85 * 8.0 * U * ((v as f64).abs() + cs.abs()) {
                    flag = true;
                }
            }
            if !any_checked {
                guarded += 1;
            }
            let sample = bits & 0x3fff == (self.idx * 977) & 0x3fff;
            if flag {
                flagged += 1;
            }
            if (flag && printed_flagged < 5000) || sample {
                if flag {
                    printed_flagged += 1;
                } else {
                    sampled += 1;
                }
                writeln!(self.out, "conv {} {} {} {} {}", head, v.hex(), o_new.hex(), o_get.hex(), o_rt.hex()).unwrap();
            }
        }
        writeln!(self.out, "tally sweep32:patterns {}", swept).unwrap();
        writeln!(self.out, "tally sweep32:guarded-entirely {}", guarded).unwrap();
        writeln!(self.out, "tally sweep32:identity-unit-patterns {}", identity).unwrap();
        writeln!(self.out, "tally sweep32:flagged-by-filter {}", flagged).unwrap();
        writeln!(self.out, "tally sweep32:systematic-sample {}", sampled).unwrap();
        if i == 0 {
            writeln!(self.out, "tally sweep32:unit:{}/{}/{} 1", base, module, unit).unwrap();
        }
    }
}

macro_rules! sweep_q {
    ($ctx:ident, $V:ident, $U:ident, $bname:expr, $module:ident, $Q:ident, [$($unit:ident),*]) => {{
        type D = uom::si::$module::Dimension;
        type QT = uom::si::$module::$Q<$U<$V>, $V>;
        let pows = base_pows::<D, $U<$V>, $V>();
        #[inline(always)]
        fn q(v: $V) -> QT {
            QT { dimension: PhantomData, units: PhantomData, value: v }
        }
        $({
            type N = uom::si::$module::$unit;
            $ctx.unit(
                $bname,
                stringify!($module),
                stringify!($unit),
                <N as uom::Conversion<$V>>::coefficient(),
                <N as uom::Conversion<$V>>::constant(ConstantOp::Add),
                <N as uom::Conversion<$V>>::constant(ConstantOp::Sub),
                &pows,
                &|v| QT::new::<N>(v).value,
                &|s| q(s).get::<N>(),
            );
        })*
    }};
}

// the same reduced catalogue as `conv others` (30 quantities, both offset scales, all branch shapes)
macro_rules! some_quantities {
    ($m:ident, $ctx:ident, $V:ident, $U:ident, $bname:expr) => {
        $m!($ctx, $V, $U, $bname, length, Length, [meter, kilometer, foot, inch, mile, angstrom, light_year, micron]);
        $m!($ctx, $V, $U, $bname, mass, Mass, [kilogram, gram, pound, ounce, ton, dalton, grain]);
        $m!($ctx, $V, $U, $bname, time, Time, [second, minute, hour, day, nanosecond, year]);
        $m!($ctx, $V, $U, $bname, thermodynamic_temperature, ThermodynamicTemperature, [kelvin, degree_celsius, degree_fahrenheit, degree_rankine, millikelvin, kilokelvin]);
        $m!($ctx, $V, $U, $bname, temperature_interval, TemperatureInterval, [kelvin, degree_celsius, degree_fahrenheit, degree_rankine, millikelvin]);
        $m!($ctx, $V, $U, $bname, velocity, Velocity, [meter_per_second, kilometer_per_hour, mile_per_hour, knot, foot_per_second]);
        $m!($ctx, $V, $U, $bname, acceleration, Acceleration, [meter_per_second_squared, standard_gravity, foot_per_second_squared]);
        $m!($ctx, $V, $U, $bname, energy, Energy, [joule, kilowatt_hour, calorie, electronvolt, btu, erg, foot_pound]);
        $m!($ctx, $V, $U, $bname, power, Power, [watt, kilowatt, horsepower, erg_per_second]);
        $m!($ctx, $V, $U, $bname, pressure, Pressure, [pascal, bar, atmosphere, psi, millimeter_of_mercury]);
        $m!($ctx, $V, $U, $bname, force, Force, [newton, dyne, pound_force, kilogram_force]);
        $m!($ctx, $V, $U, $bname, electric_potential, ElectricPotential, [volt, millivolt, kilovolt, abvolt, statvolt]);
        $m!($ctx, $V, $U, $bname, frequency, Frequency, [hertz, kilohertz, cycle_per_minute]);
        $m!($ctx, $V, $U, $bname, area, Area, [square_meter, hectare, acre, square_foot, barn]);
        $m!($ctx, $V, $U, $bname, volume, Volume, [cubic_meter, liter, gallon, cubic_inch, milliliter]);
        $m!($ctx, $V, $U, $bname, mass_density, MassDensity, [kilogram_per_cubic_meter, gram_per_cubic_centimeter, pound_per_cubic_foot]);
        $m!($ctx, $V, $U, $bname, specific_heat_capacity, SpecificHeatCapacity, [joule_per_kilogram_kelvin, kilojoule_per_kilogram_kelvin, joule_per_gram_degree_celsius]);
        $m!($ctx, $V, $U, $bname, angle, Angle, [radian, degree, revolution]);
        $m!($ctx, $V, $U, $bname, ratio, Ratio, [ratio, percent, part_per_million]);
        $m!($ctx, $V, $U, $bname, information, Information, [bit, byte, kibibyte, kilobyte]);
        $m!($ctx, $V, $U, $bname, electric_charge, ElectricCharge, [coulomb, ampere_hour, milliampere_hour, elementary_charge]);
    };
}

fn main() {
    let seed = env_u64("VERIF_SEED", 1);
    // number of (base set, unit) pairs swept per run
    let units = env_u64("VERIF_SWEEP_UNITS", 6).max(1);
    let stdout = std::io::stdout();
    let mut ctx = Ctx {
        out: std::io::BufWriter::with_capacity(1 << 20, stdout.lock()),
        idx: 0,
        period: 1,
        phase: 0,
        shard: shard(),
        swept_units: 0,
        count_only: true,
    };
    for pass in 0..2 {
        if pass == 1 {
            let total_units = ctx.idx;
            ctx.period = (total_units / units).max(1);
            ctx.phase = seed.wrapping_mul(0x9e37_79b9_7f4a_7c15) % ctx.period;
            ctx.idx = 0;
            ctx.count_only = false;
        }
        let ctx = &mut ctx;
        some_quantities!(sweep_q, ctx, f32, Si, "si");
        some_quantities!(sweep_q, ctx, f32, Cgs, "cgs");
        some_quantities!(sweep_q, ctx, f32, Kgh, "kgh");
        some_quantities!(sweep_q, ctx, f32, Fpm, "fpm");
        some_quantities!(sweep_q, ctx, f32, Mmm, "mmm");
        some_quantities!(sweep_q, ctx, f32, OnlyT, "onlyt");
    }
    ctx.out.flush().unwrap();
}
