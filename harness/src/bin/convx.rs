//! convx: `new::<N>` / `get::<N>` for exact, integer and complex storage (C08, C09, C20).
//!
//! convx <V> <base> <module> <unit> <coef> <consA> <consS> <p1:..:p7> <v> <new(v).value> <Q{v}.get()> <new(v).get()>
//! cplx  <V> <base> <module> <unit> <coef> <consA> <consS> <p1:..:p7> <re> <im> <norm> <new.re> <new.im> <get.re> <get.im> <rt.re> <rt.im>
//! skip  <V> <base> <module> <unit>          the unit's coefficient is not representable in the storage type (panics)
//! num   <V> <a> <Ratio<Si>::from(a).value> <V::from(Ratio<Si>{a})> <…Kgh> <…Kgh>      bare number <-> ratio (C15)
//! xpow  <V> <coef> <e> <coef.powi(e)>       one factor of the base-unit combination (`n/d` for exact types, hex for complex)
#![allow(non_camel_case_types, unused_macros, unused_imports, dead_code)]
use std::io::Write;
use std::marker::PhantomData;
use std::panic::AssertUnwindSafe;
use uom::ConstantOp;
use uomh::*;

pub struct Cx<W: Write> {
    out: W,
    seed: u64,
    n: usize,
    idx: u64,
    shard: (u64, u64),
}

impl<W: Write> Cx<W> {
    fn take(&mut self) -> bool {
        self.idx += 1;
        self.idx % self.shard.1 == self.shard.0
    }
}

fn g<R>(f: impl FnOnce() -> R) -> Option<R> {
    guarded(AssertUnwindSafe(f))
}

macro_rules! convx_item {
    ($V:ty, $U:ident, $bname:expr, $module:ident, $Q:ident, [$($unit:ident),*]) => {
        pub mod $module {
            use super::super::*;
            use super::V;
            #[inline(never)]
            pub fn run<W: Write>(cx: &mut Cx<W>) {
                convx_q!(cx, V, $U, $bname, $module, $Q, [$($unit),*]);
            }
        }
    };
}
macro_rules! cplx_item {
    ($V:ty, $R:ty, $vname:expr, $U:ident, $bname:expr, $module:ident, $Q:ident, [$($unit:ident),*]) => {
        pub mod $module {
            use super::super::*;
            #[inline(never)]
            pub fn run<W: Write>(cx: &mut Cx<W>) {
                cplx_q!(cx, $V, $R, $vname, $U, $bname, $module, $Q, [$($unit),*]);
            }
        }
    };
}
macro_rules! call_item {
    ($cx:ident, $module:ident, $Q:ident, [$($unit:ident),*]) => {
        $module::run($cx);
    };
}

macro_rules! convx_q {
    ($cx:ident, $V:ty, $U:ident, $bname:expr, $module:ident, $Q:ident, [$($unit:ident),*]) => {{
        type D = uom::si::$module::Dimension;
        type QT = uom::si::$module::$Q<$U<$V>, $V>;
        fn q(v: $V) -> QT {
            QT { dimension: PhantomData, units: PhantomData, value: v }
        }
        // the factors of the base-unit combination: coefficient, exponent, `powi` result
        if $cx.take() {
            if let Some(s) = g(|| {
                let cs = base_coefs::<$U<$V>, $V>();
                let ps = base_pows::<D, $U<$V>, $V>();
                let ds = dim_exps::<D>();
                (0..7).map(|i| format!("xpow {} {} {} {}\n", <$V as Val>::NAME, cs[i].enc(), ds[i], ps[i].enc())).collect::<String>()
            }) {
                write!($cx.out, "{}", s).unwrap();
            }
        }
        $(if $cx.take() {
            type N = uom::si::$module::$unit;
            let hd = g(|| {
                let pows = base_pows::<D, $U<$V>, $V>();
                format!("{} {} {} {}",
                    <N as uom::Conversion<$V>>::coefficient().enc(),
                    <N as uom::Conversion<$V>>::constant(ConstantOp::Add).enc(),
                    <N as uom::Conversion<$V>>::constant(ConstantOp::Sub).enc(),
                    join_enc(&pows))
            });
            match hd {
                None => writeln!($cx.out, "skip {} {} {} {}", <$V as Val>::NAME, $bname, stringify!($module), stringify!($unit)).unwrap(),
                Some(hd) => {
                    let mut rng = Rng::new($cx.seed).fork(hash_str(concat!(stringify!($V), $bname, stringify!($module), stringify!($unit))));
                    for k in 0..$cx.n {
                        let v = <$V as Val>::gen(&mut rng, k);
                        let nw: Option<$V> = g(|| QT::new::<N>(v.clone()).value);
                        let gt: Option<$V> = g(|| q(v.clone()).get::<N>());
                        let rt: Option<$V> = g(|| QT::new::<N>(v.clone()).get::<N>());
                        writeln!($cx.out, "convx {} {} {} {} {} {} {} {} {}", <$V as Val>::NAME, $bname, stringify!($module), stringify!($unit),
                            hd, v.enc(), enc_opt(&nw), enc_opt(&gt), enc_opt(&rt)).unwrap();
                    }
                }
            }
        })*
    }};
}

macro_rules! cplx_q {
    ($cx:ident, $V:ty, $R:ty, $vname:expr, $U:ident, $bname:expr, $module:ident, $Q:ident, [$($unit:ident),*]) => {{
        type D = uom::si::$module::Dimension;
        type QT = uom::si::$module::$Q<$U<$V>, $V>;
        fn q(v: $V) -> QT {
            QT { dimension: PhantomData, units: PhantomData, value: v }
        }
        if $cx.take() {
            let cs = base_coefs::<$U<$V>, $V>();
            let ps = base_pows::<D, $U<$V>, $V>();
            let ds = dim_exps::<D>();
            for i in 0..7 {
                writeln!($cx.out, "xpow {} {} {} {}", $vname, cs[i].hex(), ds[i], ps[i].hex()).unwrap();
            }
        }
        $(if $cx.take() {
            type N = uom::si::$module::$unit;
            let pows = base_pows::<D, $U<$V>, $V>();
            let hd = format!("{} {} {} {}",
                <N as uom::Conversion<$V>>::coefficient().hex(),
                <N as uom::Conversion<$V>>::constant(ConstantOp::Add).hex(),
                <N as uom::Conversion<$V>>::constant(ConstantOp::Sub).hex(),
                join_hex(&pows));
            let mut rng = Rng::new($cx.seed).fork(hash_str(concat!($vname, $bname, stringify!($module), stringify!($unit))));
            let vals = float_values::<$R>(&mut rng, 2 * $cx.n, &[]);
            for k in 0..$cx.n {
                let re = vals[(k * 3 + 2) % vals.len()];
                let im = if k % 4 == 0 { 0.0 } else { vals[(k * 5 + 1) % vals.len()] };
                let v = <$V>::new(re, im);
                let nw = QT::new::<N>(v).value;
                let gt = q(v).get::<N>();
                let rt = QT::new::<N>(v).get::<N>();
                writeln!($cx.out, "cplx {} {} {} {} {} {} {} {} {} {} {} {} {} {}", $vname, $bname, stringify!($module), stringify!($unit),
                    hd, re.hex(), im.hex(), v.norm().hex(), nw.re.hex(), nw.im.hex(), gt.re.hex(), gt.im.hex(), rt.re.hex(), rt.im.hex()).unwrap();
            }
        })*
    }};
}

macro_rules! some_quantities {
    ($m:ident, [$($pre:tt)*]) => {
        $m!($($pre)* length, Length, [meter, kilometer, foot, inch, mile, angstrom, micron, centimeter, yottameter, yoctometer, zettameter]);
        $m!($($pre)* mass, Mass, [kilogram, gram, pound, ounce, ton, grain, yoctogram, yottagram]);
        $m!($($pre)* time, Time, [second, minute, hour, day, nanosecond, year, yoctosecond, zeptosecond, yottasecond]);
        $m!($($pre)* thermodynamic_temperature, ThermodynamicTemperature, [kelvin, degree_celsius, degree_fahrenheit, degree_rankine, millikelvin, kilokelvin]);
        $m!($($pre)* temperature_interval, TemperatureInterval, [kelvin, degree_celsius, degree_fahrenheit, degree_rankine, millikelvin]);
        $m!($($pre)* velocity, Velocity, [meter_per_second, kilometer_per_hour, mile_per_hour, knot, foot_per_second]);
        $m!($($pre)* energy, Energy, [joule, kilowatt_hour, calorie, btu, erg, foot_pound, kilojoule]);
        $m!($($pre)* power, Power, [watt, kilowatt, horsepower, erg_per_second]);
        $m!($($pre)* pressure, Pressure, [pascal, bar, atmosphere, psi, kilopascal]);
        $m!($($pre)* thermal_conductivity, ThermalConductivity, [watt_per_meter_kelvin, kilowatt_per_meter_kelvin]);
        $m!($($pre)* area, Area, [square_meter, hectare, acre, square_foot, square_kilometer]);
        $m!($($pre)* volume, Volume, [cubic_meter, liter, gallon, cubic_inch, milliliter, cubic_nanometer, cubic_gigameter]);
        $m!($($pre)* frequency, Frequency, [hertz, kilohertz, cycle_per_minute]);
        $m!($($pre)* electric_potential, ElectricPotential, [volt, millivolt, kilovolt]);
        $m!($($pre)* information, Information, [bit, byte, kibibyte, kilobyte]);
        $m!($($pre)* ratio, Ratio, [ratio, percent, part_per_million]);
        $m!($($pre)* angle, Angle, [radian, degree, revolution]);
        $m!($($pre)* molar_energy, MolarEnergy, [joule_per_mole, kilojoule_per_mole]);
    };
}

macro_rules! exact_mod {
    ($name:ident, $V:ty, $U:ident, $bname:expr) => {
        mod $name {
            #[allow(unused_imports)]
            use super::*;
            pub type V = $V;
            some_quantities!(convx_item, [V, $U, $bname,]);
            pub fn run_all<W: Write>(cx: &mut Cx<W>) {
                some_quantities!(call_item, [cx,]);
            }
        }
    };
}
macro_rules! cplx_mod {
    ($name:ident, $V:ty, $R:ty, $vname:expr, $U:ident, $bname:expr) => {
        mod $name {
            #[allow(unused_imports)]
            use super::*;
            some_quantities!(cplx_item, [$V, $R, $vname, $U, $bname,]);
            pub fn run_all<W: Write>(cx: &mut Cx<W>) {
                some_quantities!(call_item, [cx,]);
            }
        }
    };
}

use num_bigint::{BigInt, BigUint};
use num_complex::{Complex32, Complex64};
use num_rational::{BigRational, Rational64};

exact_mod!(bigrational_si, BigRational, Si, "si");
exact_mod!(bigrational_cgs, BigRational, Cgs, "cgs");
exact_mod!(bigrational_kgh, BigRational, Kgh, "kgh");
exact_mod!(bigint_si, BigInt, Si, "si");
exact_mod!(bigint_kgh, BigInt, Kgh, "kgh");
exact_mod!(biguint_si, BigUint, Si, "si");
exact_mod!(rational64_si, Rational64, Si, "si");
exact_mod!(rational64_cgs, Rational64, Cgs, "cgs");
exact_mod!(i32_si, i32, Si, "si");
exact_mod!(i64_si, i64, Si, "si");
exact_mod!(i64_cgs, i64, Cgs, "cgs");
exact_mod!(u32_si, u32, Si, "si");
exact_mod!(u64_si, u64, Si, "si");
exact_mod!(isize_si, isize, Si, "si");
cplx_mod!(c64_si, Complex64, f64, "complex64", Si, "si");
cplx_mod!(c64_cgs, Complex64, f64, "complex64", Cgs, "cgs");
cplx_mod!(c32_kgh, Complex32, f32, "complex32", Kgh, "kgh");
cplx_mod!(c32_si, Complex32, f32, "complex32", Si, "si");

/// "A bare number converts to and from a ratio unchanged" (C15): `Ratio::from(a).value` and `V::from(Ratio{a})`
macro_rules! num_val {
    ($cx:ident, $V:ty) => {{
        type V = $V;
        let mut rng = Rng::new($cx.seed).fork(hash_str(<V as Val>::NAME) ^ 0x6e756d);
        for k in 0..(4 * $cx.n) {
            let a = <V as Val>::gen(&mut rng, k);
            let to_si = g(|| uom::si::ratio::Ratio::<Si<V>, V>::from(a.clone()).value);
            let from_si = g(|| V::from(uom::si::ratio::Ratio::<Si<V>, V> { dimension: PhantomData, units: PhantomData, value: a.clone() }));
            let to_k = g(|| uom::si::ratio::Ratio::<Kgh<V>, V>::from(a.clone()).value);
            let from_k = g(|| V::from(uom::si::ratio::Ratio::<Kgh<V>, V> { dimension: PhantomData, units: PhantomData, value: a.clone() }));
            writeln!($cx.out, "num {} {} {} {} {} {}", <V as Val>::NAME, a.enc(), enc_opt(&to_si), enc_opt(&from_si), enc_opt(&to_k), enc_opt(&from_k)).unwrap();
        }
    }};
}

macro_rules! num_cplx {
    ($cx:ident, $V:ty, $R:ty, $vname:expr) => {{
        let mut rng = Rng::new($cx.seed).fork(hash_str($vname) ^ 0x6e756d);
        let vals = float_values::<$R>(&mut rng, 8 * $cx.n, &[]);
        for k in 0..(4 * $cx.n) {
            let a = <$V>::new(vals[(k * 3 + 2) % vals.len()], vals[(k * 5 + 1) % vals.len()]);
            let enc = |z: $V| format!("{}:{}", z.re.hex(), z.im.hex());
            let to_si = uom::si::ratio::Ratio::<Si<$V>, $V>::from(a).value;
            let from_si = <$V>::from(uom::si::ratio::Ratio::<Si<$V>, $V> { dimension: PhantomData, units: PhantomData, value: a });
            let to_k = uom::si::ratio::Ratio::<Kgh<$V>, $V>::from(a).value;
            let from_k = <$V>::from(uom::si::ratio::Ratio::<Kgh<$V>, $V> { dimension: PhantomData, units: PhantomData, value: a });
            writeln!($cx.out, "num {} {} {} {} {} {}", $vname, enc(a), enc(to_si), enc(from_si), enc(to_k), enc(from_k)).unwrap();
        }
    }};
}

fn main() {
    silence_panics();
    let stdout = std::io::stdout();
    let mut cx = Cx {
        out: std::io::BufWriter::with_capacity(1 << 20, stdout.lock()),
        seed: env_u64("VERIF_SEED", 1),
        n: env_u64("VERIF_N", if thorough() { 200 } else { 24 }) as usize,
        idx: 0,
        shard: shard(),
    };
    let which = std::env::args().nth(1).unwrap_or_else(|| "all".to_string());
    if which == "all" || which == "exact" {
        bigrational_si::run_all(&mut cx);
        bigrational_cgs::run_all(&mut cx);
        bigrational_kgh::run_all(&mut cx);
        bigint_si::run_all(&mut cx);
        bigint_kgh::run_all(&mut cx);
        biguint_si::run_all(&mut cx);
        rational64_si::run_all(&mut cx);
        rational64_cgs::run_all(&mut cx);
        i32_si::run_all(&mut cx);
        i64_si::run_all(&mut cx);
        i64_cgs::run_all(&mut cx);
        u32_si::run_all(&mut cx);
        u64_si::run_all(&mut cx);
        isize_si::run_all(&mut cx);
    }
    if which == "all" || which == "complex" {
        c64_si::run_all(&mut cx);
        c64_cgs::run_all(&mut cx);
        c32_kgh::run_all(&mut cx);
        c32_si::run_all(&mut cx);
    }
    if which == "all" || which == "num" {
        if cx.shard.0 == 0 {
            num_val!(cx, f64);
            num_val!(cx, f32);
            num_val!(cx, BigRational);
            num_val!(cx, Rational64);
            num_val!(cx, BigInt);
            num_val!(cx, BigUint);
            num_val!(cx, i32);
            num_val!(cx, i64);
            num_val!(cx, u32);
            num_val!(cx, u64);
            num_val!(cx, isize);
            num_cplx!(cx, Complex64, f64, "complex64");
            num_cplx!(cx, Complex32, f32, "complex32");
        }
    }
    cx.out.flush().unwrap();
}
