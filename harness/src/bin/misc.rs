//! misc: Time <-> Duration (C14), angle / ratio functions and constants (C18), serde (C13).
//!
//! dur  <V> <base> <pows(time)> <coef second> <coef nanosecond> <stored v> <ok:secs:nanos | neg | overflow | PANIC>
//! tim  <V> <base> <pows(time)> <coef second> <coef nanosecond> <secs> <nanos> <ok:stored | overflow | PANIC>
//! trig <V> <base> <fn> <unitidx of angle> <x> <stored angle> <result stored> <raw fn(stored angle)>
//! inv  <V> <base> <fn> <unitidx of ratio> <x> <stored ratio> <result stored> <raw fn(stored ratio)>
//! at2  <V> <base> <module> <a> <b> <result stored> <raw a.atan2(b)>
//! cst  <V> <name> <stored> <unit module> <unitidx> <read back>
//! ser  <V> <base> <module> <fmt json|value> <quantity output hex> <raw value output hex>
//! de   <V> <base> <module> <fmt json|value> <input hex> <quantity result ok:<enc>|err> <raw result ok:<enc>|err>
#![allow(non_camel_case_types, unused_macros, unused_imports, dead_code, unused_variables)]
use std::convert::TryFrom;
use std::io::Write;
use std::marker::PhantomData;
use std::panic::AssertUnwindSafe;
use std::time::Duration;
use uom::si::time::TryFromError;
use uom::si::Quantity;
use uomh::*;

pub struct Cx<W: Write> {
    out: W,
    seed: u64,
    n: usize,
    idx: u64,
    shard: (u64, u64),
    mode: String,
}
impl<W: Write> Cx<W> {
    fn take(&mut self) -> bool {
        self.idx += 1;
        self.idx % self.shard.1 == self.shard.0
    }
    fn on(&self, m: &str) -> bool {
        self.mode == "all" || self.mode == m
    }
}
fn g<R>(f: impl FnOnce() -> R) -> Option<R> {
    guarded(AssertUnwindSafe(f))
}

fn unit_index(names: impl Iterator<Item = String>, name: &str) -> usize {
    names.map(|d| d.split('(').next().unwrap().to_string()).position(|n| n == name).unwrap()
}

// ------------------------------------------------------------------------------------------------
// C14

fn time_values_f<V: Fl>(rng: &mut Rng, n: usize) -> Vec<V> {
    let mut out: Vec<V> = float_values::<V>(rng, n, &[]);
    for k in [0.0f64, -0.0, 1.0, 4.5, 5.0, 61.0, 0.999999999, 0.9999999999999999, 1e-9, 1e-10, 1.5e-9, 0.5e-9, 1e9, 59.999999999, 3600.0,
        18446744073709551615.0, 18446744073709549568.0, 18446744073709551616.0, 1.8446744073709552e19, 3.4e38, -1e-30, -1.0, 4294967296.0, 4294967295.999,
        9007199254740993.0, 0.1, 123456789.123456789, 2.5, 86399.999999999] {
        out.push(V::from(k).unwrap_or_else(V::nan));
    }
    out
}

macro_rules! dur_float {
    ($cx:ident, $V:ty, $U:ident, $bname:expr) => {{
        if $cx.take() {
            use uom::si::time::{nanosecond, second, Time};
            type D = uom::si::time::Dimension;
            type T = Time<$U<$V>, $V>;
            let pows = join_enc(&base_pows::<D, $U<$V>, $V>());
            let cs = <second as uom::Conversion<$V>>::coefficient().enc();
            let cn = <nanosecond as uom::Conversion<$V>>::coefficient().enc();
            let mut rng = Rng::new($cx.seed).fork(hash_str(concat!(stringify!($V), $bname, "dur")));
            for v in time_values_f::<$V>(&mut rng, 3 * $cx.n) {
                let t = T { dimension: PhantomData, units: PhantomData, value: v };
                let r = match g(|| Duration::try_from(t)) {
                    None => "PANIC".to_string(),
                    Some(Ok(d)) => format!("ok:{}:{}", d.as_secs(), d.subsec_nanos()),
                    Some(Err(TryFromError::NegativeDuration)) => "neg".to_string(),
                    Some(Err(TryFromError::Overflow)) => "overflow".to_string(),
                };
                writeln!($cx.out, "dur {} {} {} {} {} {} {}", <$V as Val>::NAME, $bname, pows, cs, cn, v.enc(), r).unwrap();
            }
            for (s, n) in durations(&mut rng, $cx.n) {
                let r = match g(|| T::try_from(Duration::new(s, n))) {
                    None => "PANIC".to_string(),
                    Some(Ok(t)) => format!("ok:{}", t.value.enc()),
                    Some(Err(_)) => "overflow".to_string(),
                };
                writeln!($cx.out, "tim {} {} {} {} {} {} {} {}", <$V as Val>::NAME, $bname, pows, cs, cn, s, n, r).unwrap();
            }
        }
    }};
}

fn durations(rng: &mut Rng, n: usize) -> Vec<(u64, u32)> {
    let mut out = vec![(0, 0), (0, 1), (1, 0), (0, 999_999_999), (u64::MAX, 999_999_999), (u64::MAX, 0), (1 << 53, 1), ((1 << 53) + 1, 0),
        (4, 500_000_000), (59, 999_999_999), (u32::MAX as u64, 0), (u32::MAX as u64 + 1, 7), (i64::MAX as u64, 5), (i32::MAX as u64, 0), (i32::MAX as u64 + 1, 0)];
    for i in 0..n {
        let s = match i % 3 { 0 => rng.next() >> (rng.below(64)), 1 => rng.below(100_000), _ => rng.next() };
        out.push((s, rng.below(1_000_000_000) as u32));
    }
    out
}

#[cfg(feature = "wide-types")]
macro_rules! dur_int {
    ($cx:ident, $V:ty, $U:ident, $bname:expr) => {{
        if $cx.take() {
            use uom::si::time::{nanosecond, second, Time};
            type D = uom::si::time::Dimension;
            type T = Time<$U<$V>, $V>;
            let hd = g(|| format!("{} {} {}", join_enc(&base_pows::<D, $U<$V>, $V>()),
                <second as uom::Conversion<$V>>::coefficient().enc(), <nanosecond as uom::Conversion<$V>>::coefficient().enc()));
            let hd = hd.unwrap_or_else(|| "PANIC PANIC PANIC".to_string());
            let mut rng = Rng::new($cx.seed).fork(hash_str(concat!(stringify!($V), $bname, "dur")));
            for k in 0..(2 * $cx.n) {
                let v = <$V as Val>::gen(&mut rng, k);
                let t = T { dimension: PhantomData, units: PhantomData, value: v.clone() };
                let r = match g(|| Duration::try_from(t)) {
                    None => "PANIC".to_string(),
                    Some(Ok(d)) => format!("ok:{}:{}", d.as_secs(), d.subsec_nanos()),
                    Some(Err(TryFromError::NegativeDuration)) => "neg".to_string(),
                    Some(Err(TryFromError::Overflow)) => "overflow".to_string(),
                };
                writeln!($cx.out, "dur {} {} {} {} {}", <$V as Val>::NAME, $bname, hd, v.enc(), r).unwrap();
            }
            for (s, n) in durations(&mut rng, $cx.n) {
                let r = match g(|| T::try_from(Duration::new(s, n))) {
                    None => "PANIC".to_string(),
                    Some(Ok(t)) => format!("ok:{}", t.value.enc()),
                    Some(Err(_)) => "overflow".to_string(),
                };
                writeln!($cx.out, "tim {} {} {} {} {} {}", <$V as Val>::NAME, $bname, hd, s, n, r).unwrap();
            }
        }
    }};
}

base_set!(MinuteBase, meter, kilogram, minute, ampere, kelvin, mole, candela);
base_set!(HourBase, meter, kilogram, hour, ampere, kelvin, mole, candela);
base_set!(MilliBase, meter, kilogram, millisecond, ampere, kelvin, mole, candela);
base_set!(NanoBase, meter, kilogram, nanosecond, ampere, kelvin, mole, candela);

// ------------------------------------------------------------------------------------------------
// C18

fn angle_values<V: Fl>(rng: &mut Rng, n: usize) -> Vec<V> {
    let mut out = float_values::<V>(rng, n, &[]);
    for k in [0.0f64, -0.0, 1.0, -1.0, 90.0, 180.0, 360.0, 0.25, 0.5, std::f64::consts::FRAC_PI_2, std::f64::consts::PI, 1e6, 1e22, 100.0, 400.0, 5400.0, 324000.0, 1e-300, 0.7071067811865476, 2.0, 10.0, 1.0000000000000002] {
        out.push(V::from(k).unwrap());
    }
    // the neighbours of the domain edges *in the storage type's own precision* (1 ± 1 ulp, 1 ± 2 ulp, … and
    // their negatives): where acos / asin / atanh / acosh / ln_1p switch between a value, NaN and ±∞
    for k in [1.0f64, 0.5, 2.0] {
        let e: V = V::from(k).unwrap();
        let b = e.to_bits64();
        for d in [1u64, 2, 3] {
            for v in [V::from_bits64(b + d), V::from_bits64(b - d)] {
                out.push(v);
                out.push(-v);
            }
        }
    }
    out
}

macro_rules! trig_unit {
    ($cx:ident, $V:ty, $U:ident, $bname:expr, [$($unit:ident),*]) => {{
        use uom::si::angle::Angle;
        type A = Angle<$U<$V>, $V>;
        $(if $cx.take() {
            let idx = unit_index(uom::si::angle::units().map(|u| format!("{:?}", u)), stringify!($unit));
            let mut rng = Rng::new($cx.seed).fork(hash_str(concat!(stringify!($V), $bname, stringify!($unit), "trig")));
            for x in angle_values::<$V>(&mut rng, $cx.n / 2) {
                let a = A::new::<uom::si::angle::$unit>(x);
                let s = a.value;
                macro_rules! t {
                    ($f:ident) => {
                        writeln!($cx.out, "trig {} {} {} {} {} {} {} {}", <$V as Val>::NAME, $bname, stringify!($f), idx, x.hex(), s.hex(),
                            a.$f().value.hex(), <$V>::$f(s).hex()).unwrap();
                    };
                }
                t!(sin); t!(cos); t!(tan); t!(sinh); t!(cosh); t!(tanh);
                let (qs, qc) = a.sin_cos();
                let (rs, rc) = <$V>::sin_cos(s);
                writeln!($cx.out, "trig {} {} sin_cos.0 {} {} {} {} {}", <$V as Val>::NAME, $bname, idx, x.hex(), s.hex(), qs.value.hex(), rs.hex()).unwrap();
                writeln!($cx.out, "trig {} {} sin_cos.1 {} {} {} {} {}", <$V as Val>::NAME, $bname, idx, x.hex(), s.hex(), qc.value.hex(), rc.hex()).unwrap();
            }
        })*
    }};
}

macro_rules! inv_unit {
    ($cx:ident, $V:ty, $U:ident, $bname:expr, [$($unit:ident),*]) => {{
        use uom::si::ratio::Ratio;
        type R = Ratio<$U<$V>, $V>;
        $(if $cx.take() {
            let idx = unit_index(uom::si::ratio::units().map(|u| format!("{:?}", u)), stringify!($unit));
            let mut rng = Rng::new($cx.seed).fork(hash_str(concat!(stringify!($V), $bname, stringify!($unit), "inv")));
            for x in angle_values::<$V>(&mut rng, $cx.n / 2) {
                let r = R::new::<uom::si::ratio::$unit>(x);
                let s = r.value;
                macro_rules! t {
                    ($f:ident) => {
                        writeln!($cx.out, "inv {} {} {} {} {} {} {} {}", <$V as Val>::NAME, $bname, stringify!($f), idx, x.hex(), s.hex(),
                            r.$f().value.hex(), <$V>::$f(s).hex()).unwrap();
                    };
                }
                t!(acos); t!(acosh); t!(asin); t!(asinh); t!(atan); t!(atanh);
                t!(exp); t!(exp2); t!(ln); t!(log2); t!(log10); t!(exp_m1); t!(ln_1p);
                // the base is an argument like any other: the common bases exactly, edge values, a random one
                let bases: [$V; 12] = [2.5, 2.0, 10.0, core::f64::consts::E as $V, 0.5, 1.0, 0.0, -1.0, <$V>::NAN, <$V>::INFINITY, 16.0,
                    <$V as Fl>::from_bits64(rng.next() >> (64 - (<$V as Fl>::MANT_BITS + <$V as Fl>::EXP_BITS)))];
                for b in bases {
                    writeln!($cx.out, "inv {} {} log {} {} {} {} {}", <$V as Val>::NAME, $bname, idx, x.hex(), s.hex(), r.log(b).value.hex(), <$V>::log(s, b).hex()).unwrap();
                }
            }
        })*
    }};
}

macro_rules! at2_q {
    ($cx:ident, $V:ty, $U:ident, $bname:expr, $m:ident :: $Q:ident) => {{
        if $cx.take() {
            type QT = uom::si::$m::$Q<$U<$V>, $V>;
            let mut rng = Rng::new($cx.seed).fork(hash_str(concat!(stringify!($V), $bname, stringify!($m), "at2")));
            let vals = angle_values::<$V>(&mut rng, $cx.n);
            for i in 0..vals.len() {
                let (a, b) = (vals[i], vals[(i * 7 + 3) % vals.len()]);
                let qa = QT { dimension: PhantomData, units: PhantomData, value: a };
                let qb = QT { dimension: PhantomData, units: PhantomData, value: b };
                writeln!($cx.out, "at2 {} {} {} {} {} {} {}", <$V as Val>::NAME, $bname, stringify!($m), a.hex(), b.hex(), qa.atan2(qb).value.hex(), <$V>::atan2(a, b).hex()).unwrap();
            }
        }
    }};
}

macro_rules! consts {
    ($cx:ident, $V:ident) => {{
        if $cx.take() {
            use uom::si::$V::{Angle, SolidAngle};
            let ai = |n: &str| unit_index(uom::si::angle::units().map(|u| format!("{:?}", u)), n);
            let si = |n: &str| unit_index(uom::si::solid_angle::units().map(|u| format!("{:?}", u)), n);
            let h = Angle::HALF_TURN;
            let f = Angle::FULL_TURN;
            let sp = SolidAngle::SPHERE;
            writeln!($cx.out, "cst {} HALF_TURN {} angle {} {}", stringify!($V), h.value.hex(), ai("degree"), h.get::<uom::si::angle::degree>().hex()).unwrap();
            writeln!($cx.out, "cst {} HALF_TURN {} angle {} {}", stringify!($V), h.value.hex(), ai("radian"), h.get::<uom::si::angle::radian>().hex()).unwrap();
            writeln!($cx.out, "cst {} HALF_TURN {} angle {} {}", stringify!($V), h.value.hex(), ai("revolution"), h.get::<uom::si::angle::revolution>().hex()).unwrap();
            writeln!($cx.out, "cst {} FULL_TURN {} angle {} {}", stringify!($V), f.value.hex(), ai("revolution"), f.get::<uom::si::angle::revolution>().hex()).unwrap();
            writeln!($cx.out, "cst {} FULL_TURN {} angle {} {}", stringify!($V), f.value.hex(), ai("degree"), f.get::<uom::si::angle::degree>().hex()).unwrap();
            writeln!($cx.out, "cst {} FULL_TURN {} angle {} {}", stringify!($V), f.value.hex(), ai("radian"), f.get::<uom::si::angle::radian>().hex()).unwrap();
            writeln!($cx.out, "cst {} SPHERE {} solid_angle {} {}", stringify!($V), sp.value.hex(), si("steradian"), sp.get::<uom::si::solid_angle::steradian>().hex()).unwrap();
            writeln!($cx.out, "cst {} SPHERE {} solid_angle {} {}", stringify!($V), sp.value.hex(), si("spat"), sp.get::<uom::si::solid_angle::spat>().hex()).unwrap();
        }
    }};
}

// ------------------------------------------------------------------------------------------------
// C13

#[cfg(feature = "wide-types")]
macro_rules! serde_q {
    ($cx:ident, $V:ty, $U:ident, $bname:expr, $m:ident :: $Q:ident) => {{
        if $cx.take() {
            type QT = uom::si::$m::$Q<$U<$V>, $V>;
            let mut rng = Rng::new($cx.seed).fork(hash_str(concat!(stringify!($V), $bname, stringify!($m), "serde")));
            let mut texts: Vec<String> = vec!["1".into(), "1.5".into(), "\"1\"".into(), "null".into(), "[1,2]".into(), "{}".into(), "-0.0".into(), "1e400".into(),
                "true".into(), "[1,1]".into(), "[\"1\",\"2\"]".into(), "\"3/4\"".into(), "".into(), "1 ".into(), "[[1],[1]]".into(), "18446744073709551616".into(), "-1".into(), "[1,[1]]".into(),
                // non-canonical encodings a rational storage type accepts as they are (`Ratio::new_raw`): unreduced, negative denominator, zero numerator
                "[2,4]".into(), "[1,-2]".into(), "[0,5]".into(), "[-6,-4]".into(), "-0".into(), "0.0".into()];
            for k in 0..$cx.n {
                let v = <$V as Val>::gen(&mut rng, k);
                let q = QT { dimension: PhantomData, units: PhantomData, value: v.clone() };
                let enc = |r: Result<String, String>| match r { Ok(s) => hex_str(&s), Err(_) => "err".to_string() };
                let js_q = serde_json::to_string(&q).map_err(|e| e.to_string());
                let js_v = serde_json::to_string(&v).map_err(|e| e.to_string());
                writeln!($cx.out, "ser {} {} {} json {} {}", <$V as Val>::NAME, $bname, stringify!($m), enc(js_q.clone()), enc(js_v)).unwrap();
                let val_q = serde_json::to_value(&q).map(|x| x.to_string()).map_err(|e| e.to_string());
                let val_v = serde_json::to_value(&v).map(|x| x.to_string()).map_err(|e| e.to_string());
                writeln!($cx.out, "ser {} {} {} value {} {}", <$V as Val>::NAME, $bname, stringify!($m), enc(val_q), enc(val_v)).unwrap();
                if let Ok(s) = js_q {
                    texts.push(s);
                }
                // token-level format: every serde data-model call is visible (newtype wrappers, names, …)
                let tq = uomh::tok::to_tok(&q).map(|t| format!("{:?}", t)).map_err(|e| e.to_string());
                let tv = uomh::tok::to_tok(&v).map(|t| format!("{:?}", t)).map_err(|e| e.to_string());
                writeln!($cx.out, "ser {} {} {} token {} {}", <$V as Val>::NAME, $bname, stringify!($m), enc(tq), enc(tv.clone())).unwrap();
                // deserialization from tokens: same result and the same requests to the deserializer
                if let Ok(tok) = uomh::tok::to_tok(&v) {
                    use uomh::tok::Tok;
                    let variants = vec![tok.clone(), Tok::Newtype("Quantity".to_string(), Box::new(tok.clone())), Tok::Seq(vec![tok.clone()]),
                        Tok::Some(Box::new(tok.clone())), Tok::Str("1".to_string()), Tok::Unit, Tok::F64(1.5f64.to_bits()), Tok::I(-1), Tok::U(7)];
                    for t in variants.into_iter().take(if k < 6 { 9 } else { 1 }) {
                        let (rq, lq) = uomh::tok::from_tok::<QT>(&t);
                        let (rv, lv) = uomh::tok::from_tok::<$V>(&t);
                        let sq = match rq { Ok(q) => format!("ok:{}:{}", q.value.enc(), lq.join(",")), Err(_) => format!("err:{}", lq.join(",")) };
                        let sv = match rv { Ok(v) => format!("ok:{}:{}", v.enc(), lv.join(",")), Err(_) => format!("err:{}", lv.join(",")) };
                        writeln!($cx.out, "de {} {} {} token {} {} {}", <$V as Val>::NAME, $bname, stringify!($m), hex_str(&format!("{:?}", t)), hex_str(&sq), hex_str(&sv)).unwrap();
                    }
                }
            }
            for t in texts {
                let dq = match g(|| serde_json::from_str::<QT>(&t)) { None => "PANIC".to_string(), Some(Ok(q)) => format!("ok:{}", q.value.enc()), Some(Err(_)) => "err".to_string() };
                let dv = match g(|| serde_json::from_str::<$V>(&t)) { None => "PANIC".to_string(), Some(Ok(v)) => format!("ok:{}", v.enc()), Some(Err(_)) => "err".to_string() };
                writeln!($cx.out, "de {} {} {} json {} {} {}", <$V as Val>::NAME, $bname, stringify!($m), hex_str(&t), dq, dv).unwrap();
                if let Ok(tree) = serde_json::from_str::<serde_json::Value>(&t) {
                    let t2 = tree.clone();
                    let dq = match g(|| serde_json::from_value::<QT>(tree)) { None => "PANIC".to_string(), Some(Ok(q)) => format!("ok:{}", q.value.enc()), Some(Err(_)) => "err".to_string() };
                    let dv = match g(|| serde_json::from_value::<$V>(t2)) { None => "PANIC".to_string(), Some(Ok(v)) => format!("ok:{}", v.enc()), Some(Err(_)) => "err".to_string() };
                    writeln!($cx.out, "de {} {} {} value {} {} {}", <$V as Val>::NAME, $bname, stringify!($m), hex_str(&t), dq, dv).unwrap();
                }
            }
        }
    }};
}

#[cfg(feature = "wide-types")]
macro_rules! serde_type {
    ($cx:ident, $V:ty) => {
        serde_q!($cx, $V, Si, "si", length::Length);
        serde_q!($cx, $V, Kgh, "kgh", energy::Energy);
        serde_q!($cx, $V, Cgs, "cgs", thermodynamic_temperature::ThermodynamicTemperature);
        serde_q!($cx, $V, Fpm, "fpm", angle::Angle);
        serde_q!($cx, $V, Si, "si", ratio::Ratio);
    };
}

#[inline(never)]
fn run_dur<W: Write>(cx: &mut Cx<W>) {
    dur_float!(cx, f64, Si, "si");
    dur_float!(cx, f32, Si, "si");
    dur_float!(cx, f64, MilliBase, "millisecond");
    dur_float!(cx, f64, MinuteBase, "minute");
    dur_float!(cx, f32, HourBase, "hour");
    dur_float!(cx, f64, NanoBase, "nanosecond");
}
#[cfg(feature = "wide-types")]
#[inline(never)]
fn run_dur_int<W: Write>(cx: &mut Cx<W>) {
    dur_int!(cx, i32, Si, "si");
    dur_int!(cx, i64, Si, "si");
    dur_int!(cx, u64, Si, "si");
    dur_int!(cx, u32, Si, "si");
    dur_int!(cx, i64, MinuteBase, "minute");
    dur_int!(cx, u64, NanoBase, "nanosecond");
    dur_int!(cx, i64, MilliBase, "millisecond");
    dur_int!(cx, u64, MilliBase, "millisecond");
}
#[inline(never)]
fn run_trig<W: Write>(cx: &mut Cx<W>) {
    trig_unit!(cx, f64, Si, "si", [radian, revolution, degree, gon, mil, minute, second]);
    trig_unit!(cx, f32, Kgh, "kgh", [radian, revolution, degree, gon, mil, minute, second]);
    inv_unit!(cx, f64, Cgs, "cgs", [ratio, part_per_hundred, percent, part_per_thousand, per_mille, part_per_ten_thousand, basis_point, part_per_million, part_per_billion, part_per_trillion, part_per_quadrillion]);
    inv_unit!(cx, f32, Si, "si", [ratio, percent, part_per_million]);
    at2_q!(cx, f64, Si, "si", length::Length);
    at2_q!(cx, f64, Kgh, "kgh", energy::Energy);
    at2_q!(cx, f32, Fpm, "fpm", thermodynamic_temperature::ThermodynamicTemperature);
    at2_q!(cx, f32, Cgs, "cgs", angle::Angle);
    at2_q!(cx, f64, Mmm, "mmm", thermal_conductivity::ThermalConductivity);
    consts!(cx, f64);
    consts!(cx, f32);
}
#[cfg(feature = "wide-types")]
#[inline(never)]
fn run_serde<W: Write>(cx: &mut Cx<W>) {
    use num_bigint::{BigInt, BigUint};
    use num_rational::{BigRational, Rational64};
    serde_type!(cx, f64);
    serde_type!(cx, f32);
    serde_type!(cx, i32);
    serde_type!(cx, i64);
    serde_type!(cx, u32);
    serde_type!(cx, u64);
    serde_type!(cx, isize);
    serde_type!(cx, BigInt);
    serde_type!(cx, BigUint);
    serde_type!(cx, Rational64);
    serde_type!(cx, BigRational);
}

fn main() {
    silence_panics();
    let stdout = std::io::stdout();
    let mut cx = Cx {
        out: std::io::BufWriter::with_capacity(1 << 20, stdout.lock()),
        seed: env_u64("VERIF_SEED", 1),
        n: env_u64("VERIF_N", if thorough() { 2000 } else { 200 }) as usize,
        idx: 0,
        shard: shard(),
        mode: std::env::args().nth(1).unwrap_or_else(|| "all".to_string()),
    };
    let c = &mut cx;
    if c.on("dur") {
        run_dur(c);
        #[cfg(feature = "wide-types")]
        run_dur_int(c);
    }
    if c.on("trig") {
        run_trig(c);
    }
    #[cfg(feature = "wide-types")]
    if c.on("serde") {
        run_serde(c);
    }
    cx.out.flush().unwrap();
}
