//! text: formatting and parsing (C11, C12).
//!
//! fmt <V> <base> <module> <unitidx> <style a|d> <specid> <coef> <consS> <pows> <stored v> <x = get> <out hex> <raw fmt of x hex>
//! dbg <V> <base> <module> <base quantity modules> <base unit names> <out hex> <raw Debug of the stored value hex>
//! parse <V> <base> <module> <pows> <input hex> <number part hex | -> <ok:bits | bad | -> <ok:stored | nosep | badnum | unknown | PANIC>
//! prt <V> <base> <module> <unitidx> <style> <pows> <stored v> <ok:stored after format+parse | error>
#![allow(non_camel_case_types, unused_macros, unused_imports, dead_code, unused_variables)]
use std::fmt::{Binary, Debug, Display, LowerExp, LowerHex, Octal, UpperExp, UpperHex};
use std::io::Write;
use std::marker::PhantomData;
use std::panic::AssertUnwindSafe;
use std::str::FromStr;
use uom::fmt::DisplayStyle;
use uom::si::Quantity;
use uom::str::ParseQuantityError;
use uom::ConstantOp;
use uomh::*;

pub struct Cx<W: Write> {
    out: W,
    seed: u64,
    n: usize,
    idx: u64,
    shard: (u64, u64),
    mode: String,
}

impl<W: Write> Cx<W> {
    fn take(&mut self) -> bool {
        self.idx += 1;
        self.idx % self.shard.1 == self.shard.0
    }
    fn on(&self, m: &str) -> bool {
        self.mode == "all" || self.mode == m
    }
}

fn g<R>(f: impl FnOnce() -> R) -> Option<R> {
    guarded(AssertUnwindSafe(f))
}

const BASE_MODS: &str = "length,mass,time,electric_current,thermodynamic_temperature,amount_of_substance,luminous_intensity";

fn base_unit_names<U: uom::si::Units<f64> + ?Sized>() -> String {
    fn last(s: &str) -> &str {
        s.rsplit("::").next().unwrap()
    }
    use std::any::type_name;
    [
        last(type_name::<U::length>()),
        last(type_name::<U::mass>()),
        last(type_name::<U::time>()),
        last(type_name::<U::electric_current>()),
        last(type_name::<U::thermodynamic_temperature>()),
        last(type_name::<U::amount_of_substance>()),
        last(type_name::<U::luminous_intensity>()),
    ]
    .join(",")
}

/// the spec grid for float storage: (id, quantity output, raw output)
macro_rules! float_specs {
    ($emit:ident, $a:expr, $x:expr) => {
        $emit(0, format!("{}", $a), format!("{}", $x));
        $emit(1, format!("{:10}", $a), format!("{:10}", $x));
        $emit(2, format!("{:<12.3}", $a), format!("{:<12.3}", $x));
        $emit(3, format!("{:+}", $a), format!("{:+}", $x));
        $emit(4, format!("{:^15.2}", $a), format!("{:^15.2}", $x));
        $emit(5, format!("{:*>14.4}", $a), format!("{:*>14.4}", $x));
        $emit(6, format!("{:e}", $a), format!("{:e}", $x));
        $emit(7, format!("{:E}", $a), format!("{:E}", $x));
        $emit(8, format!("{:.2e}", $a), format!("{:.2e}", $x));
        $emit(9, format!("{:?}", $a), format!("{:?}", $x));
        $emit(10, format!("{:08.3}", $a), format!("{:08.3}", $x));
        $emit(11, format!("{:+.0}", $a), format!("{:+.0}", $x));
        $emit(12, format!("{:#?}", $a), format!("{:#?}", $x));
    };
}
macro_rules! int_specs {
    ($emit:ident, $a:expr, $x:expr) => {
        $emit(0, format!("{}", $a), format!("{}", $x));
        $emit(1, format!("{:10}", $a), format!("{:10}", $x));
        $emit(3, format!("{:+}", $a), format!("{:+}", $x));
        $emit(9, format!("{:?}", $a), format!("{:?}", $x));
        $emit(20, format!("{:x}", $a), format!("{:x}", $x));
        $emit(21, format!("{:X}", $a), format!("{:X}", $x));
        $emit(22, format!("{:o}", $a), format!("{:o}", $x));
        $emit(23, format!("{:b}", $a), format!("{:b}", $x));
        $emit(24, format!("{:#x}", $a), format!("{:#x}", $x));
        $emit(25, format!("{:#010b}", $a), format!("{:#010b}", $x));
    };
}
macro_rules! display_specs {
    ($emit:ident, $a:expr, $x:expr) => {
        $emit(0, format!("{}", $a), format!("{}", $x));
        $emit(1, format!("{:10}", $a), format!("{:10}", $x));
        $emit(9, format!("{:?}", $a), format!("{:?}", $x));
    };
}

macro_rules! fmt_q {
    ($cx:ident, $V:ty, $specs:ident, $vals:expr, $U:ident, $bname:expr, $module:ident, $Q:ident, [$($unit:ident),*]) => {{
        type D = uom::si::$module::Dimension;
        type QT = uom::si::$module::$Q<$U<$V>, $V>;
        let names: Vec<String> = uom::si::$module::units().map(|u| format!("{:?}", u).split('(').next().unwrap().to_string()).collect();
        $(if $cx.take() {
            type N = uom::si::$module::$unit;
            let idx = names.iter().position(|n| n == stringify!($unit)).unwrap();
            let hd = g(|| format!("{} {} {}", <N as uom::Conversion<$V>>::coefficient().enc(), <N as uom::Conversion<$V>>::constant(ConstantOp::Sub).enc(),
                join_enc(&base_pows::<D, $U<$V>, $V>())));
            if let Some(hd) = hd {
                let mut vals: Vec<$V> = $vals;
                // a stored value that reads back as (about) one in this unit
                if let Some(one) = g(|| QT::new::<N>(<$V as uom::num::One>::one()).value) {
                    vals.push(one);
                }
                for v in vals {
                    let q = QT { dimension: PhantomData, units: PhantomData, value: v.clone() };
                    let x = match g(|| q.clone().get::<N>()) { Some(x) => x, None => continue };
                    for (st, sname) in [(DisplayStyle::Abbreviation, "a"), (DisplayStyle::Description, "d")] {
                        let a1 = QT::format_args(uom::si::$module::$unit, st).with(q.clone());
                        let a2 = q.clone().into_format_args(uom::si::$module::$unit, st);
                        let mut emit = |id: u32, o: String, r: String| {
                            writeln!($cx.out, "fmt {} {} {} {} {} {} {} {} {} {} {}", <$V as Val>::NAME, $bname, stringify!($module), idx, sname, id,
                                hd, v.enc(), x.enc(), hex_str(&o), hex_str(&r)).unwrap();
                        };
                        $specs!(emit, a1, x);
                        // the direct style must print the same
                        emit(100, format!("{}", a2), format!("{}", x));
                    }
                }
            }
        })*
    }};
}

macro_rules! dbg_q {
    ($cx:ident, $V:ty, $vals:expr, $U:ident, $bname:expr, $module:ident, $Q:ident, [$($unit:ident),*]) => {{
        if $cx.take() {
            type QT = uom::si::$module::$Q<$U<$V>, $V>;
            let bu = base_unit_names::<$U<f64>>();
            for v in $vals {
                let q = QT { dimension: PhantomData, units: PhantomData, value: v.clone() };
                writeln!($cx.out, "dbg {} {} {} {} {} {} {}", <$V as Val>::NAME, $bname, stringify!($module), BASE_MODS, bu,
                    hex_str(&format!("{:?}", q)), hex_str(&format!("{:?}", v))).unwrap();
                writeln!($cx.out, "dbg {} {} {} {} {} {} {}", <$V as Val>::NAME, $bname, stringify!($module), BASE_MODS, bu,
                    hex_str(&format!("{:10.3?}", q)), hex_str(&format!("{:10.3?}", v))).unwrap();
            }
        }
    }};
}

fn parse_line<W: Write, V: Fl + FromStr, Q>(cx: &mut Cx<W>, base: &str, module: &str, pows: &str, input: &str, stored: impl Fn(&Q) -> V)
where
    Q: FromStr<Err = ParseQuantityError>,
{
    let (numpart, numparse) = match input.split_once(' ') {
        None => ("-".to_string(), "-".to_string()),
        Some((n, _)) => (hex_str(n), match n.parse::<V>() { Ok(v) => format!("ok:{}", v.hex()), Err(_) => "bad".to_string() }),
    };
    let res = match g(|| input.parse::<Q>()) {
        None => "PANIC".to_string(),
        Some(Ok(q)) => format!("ok:{}", stored(&q).hex()),
        Some(Err(ParseQuantityError::NoSeparator)) => "nosep".to_string(),
        Some(Err(ParseQuantityError::ValueParseError)) => "badnum".to_string(),
        Some(Err(ParseQuantityError::UnknownUnit)) => "unknown".to_string(),
    };
    writeln!(cx.out, "parse {} {} {} {} {} {} {} {}", V::NAME, base, module, pows, hex_str(input), numpart, numparse, res).unwrap();
}

const NUMS: &[&str] = &["1", "-2.5", "1e3", "0.1", "inf", "NaN", "-0", "1e400", "1_000", "+7", ".5", "5.", "0x10", "１"];
const FOREIGN: &[&str] = &["m", "kg", "s", "K", "°C", "rad", "", "meters", "m²", "Ω", "µm", "μm", "km/h", "percent", "B", "bit"];
const ALPHABET: &[&str] = &[" ", " ", "1", "2", ".", "e", "-", "m", "k", "g", "s", "\u{a0}", "\u{3000}", "\t", "\n", "µ", "°", "²", "/", "·", "\u{2009}", "\u{feff}", "é"];

macro_rules! parse_q {
    ($cx:ident, $V:ty, $U:ident, $bname:expr, $module:ident, $Q:ident, [$($unit:ident),*]) => {{
        if $cx.take() {
            type D = uom::si::$module::Dimension;
            type QT = uom::si::$module::$Q<$U<$V>, $V>;
            let pows = join_hex(&base_pows::<D, $U<$V>, $V>());
            let st = |q: &QT| q.value;
            let mut labels: Vec<String> = Vec::new();
            for u in uom::si::$module::units() {
                labels.push(u.abbreviation().to_string());
                labels.push(u.singular().to_string());
                labels.push(u.plural().to_string());
            }
            let mut rng = Rng::new($cx.seed).fork(hash_str(concat!(stringify!($V), $bname, stringify!($module), "parse")));
            for (i, l) in labels.iter().enumerate() {
                let num = NUMS[(i + rng.below(3) as usize) % NUMS.len()];
                parse_line::<_, $V, QT>($cx, $bname, stringify!($module), &pows, &format!("{} {}", num, l), st);
                match i % 9 {
                    0 => parse_line::<_, $V, QT>($cx, $bname, stringify!($module), &pows, &format!("1  {}", l), st),
                    1 => parse_line::<_, $V, QT>($cx, $bname, stringify!($module), &pows, &format!("1 {} ", l), st),
                    2 => parse_line::<_, $V, QT>($cx, $bname, stringify!($module), &pows, &format!("1\t{}", l), st),
                    3 => parse_line::<_, $V, QT>($cx, $bname, stringify!($module), &pows, &format!("1 \u{a0}{}\u{3000}", l), st),
                    4 => parse_line::<_, $V, QT>($cx, $bname, stringify!($module), &pows, &format!("1{}", l), st),
                    5 => parse_line::<_, $V, QT>($cx, $bname, stringify!($module), &pows, &format!(" 1 {}", l), st),
                    6 => parse_line::<_, $V, QT>($cx, $bname, stringify!($module), &pows, &format!("abc {}", l), st),
                    7 => parse_line::<_, $V, QT>($cx, $bname, stringify!($module), &pows, &format!("1 {} x", l), st),
                    _ => parse_line::<_, $V, QT>($cx, $bname, stringify!($module), &pows, &format!("2 {}\u{2028}\n", l.to_uppercase()), st),
                }
            }
            for f in FOREIGN {
                parse_line::<_, $V, QT>($cx, $bname, stringify!($module), &pows, &format!("1 {}", f), st);
            }
            for s in ["", " ", "1", "1 ", " m", "  ", "1  ", "\u{a0}1 m", "1\u{a0}m"] {
                parse_line::<_, $V, QT>($cx, $bname, stringify!($module), &pows, s, st);
            }
            for _ in 0..$cx.n {
                let len = 1 + rng.below(8);
                let mut s = String::new();
                for _ in 0..len {
                    if rng.below(5) == 0 && !labels.is_empty() {
                        s.push_str(&labels[rng.below(labels.len() as u64) as usize]);
                    } else {
                        s.push_str(ALPHABET[rng.below(ALPHABET.len() as u64) as usize]);
                    }
                }
                parse_line::<_, $V, QT>($cx, $bname, stringify!($module), &pows, &s, st);
            }
        }
    }};
}

macro_rules! prt_q {
    ($cx:ident, $V:ty, $U:ident, $bname:expr, $module:ident, $Q:ident, [$($unit:ident),*]) => {{
        type D = uom::si::$module::Dimension;
        type QT = uom::si::$module::$Q<$U<$V>, $V>;
        let names: Vec<String> = uom::si::$module::units().map(|u| format!("{:?}", u).split('(').next().unwrap().to_string()).collect();
        let pows = join_hex(&base_pows::<D, $U<$V>, $V>());
        $(if $cx.take() {
            let idx = names.iter().position(|n| n == stringify!($unit)).unwrap();
            let mut rng = Rng::new($cx.seed).fork(hash_str(concat!(stringify!($V), $bname, stringify!($module), stringify!($unit), "prt")));
            for v in float_values::<$V>(&mut rng, $cx.n / 4 + 2, &[]) {
                let q = QT { dimension: PhantomData, units: PhantomData, value: v };
                for (st, sname) in [(DisplayStyle::Abbreviation, "a"), (DisplayStyle::Description, "d")] {
                    let text = format!("{}", q.into_format_args(uom::si::$module::$unit, st));
                    let back = match g(|| text.parse::<QT>()) {
                        None => "PANIC".to_string(),
                        Some(Ok(b)) => format!("ok:{}", b.value.hex()),
                        Some(Err(e)) => format!("{:?}", e),
                    };
                    writeln!($cx.out, "prt {} {} {} {} {} {} {} {}", <$V as Val>::NAME, $bname, stringify!($module), idx, sname, pows, v.hex(), back).unwrap();
                }
            }
        })*
    }};
}

macro_rules! some_quantities {
    ($m:ident, [$($pre:tt)*]) => {
        $m!($($pre)* length, Length, [meter, kilometer, foot, inch, mile, angstrom, micron]);
        $m!($($pre)* mass, Mass, [kilogram, gram, pound, ounce]);
        $m!($($pre)* time, Time, [second, minute, hour, day, nanosecond]);
        $m!($($pre)* thermodynamic_temperature, ThermodynamicTemperature, [kelvin, degree_celsius, degree_fahrenheit]);
        $m!($($pre)* velocity, Velocity, [meter_per_second, kilometer_per_hour, mile_per_hour]);
        $m!($($pre)* energy, Energy, [joule, kilowatt_hour, calorie, erg]);
        $m!($($pre)* pressure, Pressure, [pascal, bar, psi, pound_force_per_square_inch]);
        $m!($($pre)* thermal_conductivity, ThermalConductivity, [watt_per_meter_kelvin]);
        $m!($($pre)* information, Information, [bit, byte, kibibyte]);
        $m!($($pre)* ratio, Ratio, [ratio, percent]);
        $m!($($pre)* angle, Angle, [radian, degree]);
        $m!($($pre)* electric_potential, ElectricPotential, [volt, millivolt]);
    };
}

macro_rules! item_mod {
    ($name:ident, $m:ident, [$($pre:tt)*]) => {
        mod $name {
            #[allow(unused_imports)]
            use super::*;
            macro_rules! one {
                ($module:ident, $Q:ident, $units:tt) => {
                    pub mod $module {
                        #[allow(unused_imports)]
                        use super::super::*;
                        #[inline(never)]
                        pub fn run<W: Write>(cx: &mut Cx<W>) {
                            $m!(cx, $($pre)* $module, $Q, $units);
                        }
                    }
                };
            }
            some_quantities!(one, []);
            pub fn run_all<W: Write>(cx: &mut Cx<W>) {
                macro_rules! call {
                    ($module:ident, $Q:ident, $units:tt) => {
                        $module::run(cx);
                    };
                }
                some_quantities!(call, []);
            }
        }
    };
}

fn fvals64() -> Vec<f64> {
    vec![1.0, -1.0, 1.0000000000000002, 0.9999999999999999, 0.0, -0.0, f64::NAN, f64::INFINITY, 1000.0, 0.1, 2.5, 1e-7, 123456789.125]
}
fn fvals32() -> Vec<f32> {
    vec![1.0, -1.0, 1.0000001, 0.99999994, 0.0, f32::NAN, f32::NEG_INFINITY, 1000.0, 0.1, 2.5]
}

item_mod!(fmt_f64_si, fmt_q, [f64, float_specs, fvals64(), Si, "si",]);
item_mod!(fmt_f64_kgh, fmt_q, [f64, float_specs, fvals64(), Kgh, "kgh",]);
item_mod!(fmt_f32_cgs, fmt_q, [f32, float_specs, fvals32(), Cgs, "cgs",]);
item_mod!(fmt_f32_si, fmt_q, [f32, display_specs, fvals32(), Si, "si",]);
item_mod!(dbg_f64_si, dbg_q, [f64, fvals64(), Si, "si",]);
item_mod!(dbg_f64_kgh, dbg_q, [f64, fvals64(), Kgh, "kgh",]);
item_mod!(dbg_f32_fpm, dbg_q, [f32, fvals32(), Fpm, "fpm",]);
item_mod!(parse_f64_kgh, parse_q, [f64, Kgh, "kgh",]);
item_mod!(parse_f32_cgs, parse_q, [f32, Cgs, "cgs",]);
item_mod!(prt_f64_si, prt_q, [f64, Si, "si",]);
item_mod!(prt_f64_kgh, prt_q, [f64, Kgh, "kgh",]);
item_mod!(prt_f32_cgs, prt_q, [f32, Cgs, "cgs",]);

#[cfg(feature = "wide-types")]
mod widefmt {
    use super::*;
    use num_rational::BigRational;
    fn ivals() -> Vec<i32> {
        vec![1, -1, 0, 2, 1000, 255, i32::MAX, -3600]
    }
    fn ivals64() -> Vec<i64> {
        vec![1, -1, 0, 2, 1000, 255, 86400, -3600]
    }
    fn rvals() -> Vec<BigRational> {
        use num_bigint::BigInt;
        vec![(1, 1), (-1, 1), (0, 1), (1, 2), (1000, 1), (254, 10000), (3048, 10000), (5, 9)]
            .into_iter().map(|(n, d): (i64, i64)| BigRational::new(BigInt::from(n), BigInt::from(d))).collect()
    }
    item_mod!(fmt_i32_si, fmt_q, [i32, int_specs, ivals(), Si, "si",]);
    item_mod!(fmt_i64_kgh, fmt_q, [i64, int_specs, ivals64(), Kgh, "kgh",]);
    item_mod!(fmt_bigrational_si, fmt_q, [BigRational, display_specs, rvals(), Si, "si",]);
    item_mod!(dbg_i32_si, dbg_q, [i32, ivals(), Si, "si",]);
    pub fn run<W: Write>(cx: &mut Cx<W>) {
        if cx.on("fmt") {
            fmt_i32_si::run_all(cx);
            fmt_i64_kgh::run_all(cx);
            fmt_bigrational_si::run_all(cx);
        }
        if cx.on("dbg") {
            dbg_i32_si::run_all(cx);
        }
    }
}

// every quantity of the SI: parsing of all its labels (f64, default base units)
macro_rules! parse_item {
    ($module:ident, $Q:ident, $units:tt) => {
        pub mod $module {
            #[allow(unused_imports)]
            use super::super::*;
            #[inline(never)]
            pub fn run<W: Write>(cx: &mut Cx<W>) {
                parse_q!(cx, f64, Si, "si", $module, $Q, $units);
            }
        }
    };
}
mod parse_all {
    use uomh::for_each_quantity;
    for_each_quantity!(parse_item);
}
macro_rules! parse_call {
    ($cx:ident, $module:ident, $Q:ident, $units:tt) => {
        parse_all::$module::run($cx);
    };
}

// every unit of every quantity: Display in both styles (f64, default base units)
#[cfg(feature = "allsi")]
macro_rules! fmtall_item {
    ($module:ident, $Q:ident, $units:tt) => {
        pub mod $module {
            #[allow(unused_imports)]
            use super::super::*;
            #[inline(never)]
            pub fn run<W: Write>(cx: &mut Cx<W>) {
                fmt_q!(cx, f64, display_specs, vec![2.5f64], Si, "si", $module, $Q, $units);
            }
        }
    };
}
#[cfg(feature = "allsi")]
mod fmt_all {
    use uomh::for_each_quantity;
    for_each_quantity!(fmtall_item);
}
#[cfg(feature = "allsi")]
macro_rules! fmtall_call {
    ($cx:ident, $module:ident, $Q:ident, $units:tt) => {
        fmt_all::$module::run($cx);
    };
}

fn main() {
    silence_panics();
    let stdout = std::io::stdout();
    let mut cx = Cx {
        out: std::io::BufWriter::with_capacity(1 << 20, stdout.lock()),
        seed: env_u64("VERIF_SEED", 1),
        n: env_u64("VERIF_N", if thorough() { 400 } else { 40 }) as usize,
        idx: 0,
        shard: shard(),
        mode: std::env::args().nth(1).unwrap_or_else(|| "all".to_string()),
    };
    let cxr = &mut cx;
    if cxr.on("fmt") {
        fmt_f64_si::run_all(cxr);
        fmt_f64_kgh::run_all(cxr);
        fmt_f32_cgs::run_all(cxr);
        fmt_f32_si::run_all(cxr);
    }
    if cxr.on("dbg") {
        dbg_f64_si::run_all(cxr);
        dbg_f64_kgh::run_all(cxr);
        dbg_f32_fpm::run_all(cxr);
    }
    if cxr.on("parse") {
        for_each_quantity!(parse_call, cxr);
        parse_f64_kgh::run_all(cxr);
        parse_f32_cgs::run_all(cxr);
    }
    if cxr.on("prt") {
        prt_f64_si::run_all(cxr);
        prt_f64_kgh::run_all(cxr);
        prt_f32_cgs::run_all(cxr);
    }
    #[cfg(feature = "allsi")]
    if cxr.on("fmtall") {
        for_each_quantity!(fmtall_call, cxr);
    }
    #[cfg(feature = "wide-types")]
    widefmt::run(cxr);
    cx.out.flush().unwrap();
}
