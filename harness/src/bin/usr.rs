//! usr (C19): a system of quantities, quantities and units declared with the exported macros by a
//! downstream crate (this binary), units added to built-in SI quantities with `unit!`, and `ISQ!`
//! aliases over caller-chosen base-unit tuples — run through the same line protocol as the SI.
//!
//! The declarations below are parsed by /verif/translate (same parser as for src/si) to generate the
//! model-side table `Uom/Gen/Usr.lean`; `usr reg` dumps the implementation side for the exhaustive diff.
#![allow(non_camel_case_types, unused_macros, unused_imports, dead_code, unused_variables)]
#[macro_use]
extern crate uom;

use std::io::Write;
use std::marker::PhantomData;
use std::panic::AssertUnwindSafe;
use uom::fmt::DisplayStyle;
use uom::typenum::Integer;
use uom::{ConstantOp, Conversion, ConversionFactor};
use uomh::{env_u64, float_values, guarded, hash_str, hex_str, join_hex, shard, silence_panics, thorough, Fl, Rng};

// ------------------------------------------------------------------------------------------------
// a 4-base system with fractional, large and offset coefficients

#[macro_use]
mod extent {
    quantity! {
        /// Extent (base unit span).
        quantity: Extent; "extent";
        /// Dimension of extent.
        dimension: Q<
            P1,  // extent
            Z0,  // heft
            Z0,  // tick
            Z0>; // warmth
        units {
            @span: 1.0; "sp", "span", "spans";
            @kilospan: prefix!(kilo); "ksp", "kilospan", "kilospans";
            @cubit: 4.572_E-1; "cb", "cubit", "cubits";
            @third: 1.0 / 3.0; "⅓sp", "third of a span", "thirds of a span";
            @league: 4.828_032_E9; "lea", "league", "leagues";
            @hair: 7.5_E-11 * 1.0_E-3; "hr", "hair", "hairs";
        }
    }
}

#[macro_use]
mod heft {
    quantity! {
        quantity: Heft; "heft";
        dimension: Q<Z0, P1, Z0, Z0>;
        units {
            @stone: 1.0; "st", "stone", "stones";
            @pebble: 7.0_E-3; "pb", "pebble", "pebbles";
            @boulder: 2.5_E6; "bd", "boulder", "boulders";
        }
    }
}

#[macro_use]
mod tick {
    quantity! {
        quantity: Tick; "tick";
        dimension: Q<Z0, Z0, P1, Z0>;
        units {
            @beat: 1.0; "bt", "beat", "beats";
            @halfbeat: 5.0_E-1; "hb", "halfbeat", "halfbeats";
            @watch: 1.44_E4; "w", "watch", "watches";
        }
    }
}

#[macro_use]
mod warmth {
    quantity! {
        quantity: Warmth; "warmth";
        dimension: Q<Z0, Z0, Z0, P1>;
        units {
            @grade: 1.0; "gr", "grade", "grades";
            @cgrade: 1.0_E0, 273.15_E0; "°cg", "centigrade grade", "centigrade grades";
            @fgrade: 5.0_E0 / 9.0_E0, 459.67_E0; "°fg", "fahrenheit grade", "fahrenheit grades";
            @milligrade: prefix!(milli); "mgr", "milligrade", "milligrades";
        }
    }
}

#[macro_use]
mod pace {
    quantity! {
        quantity: Pace; "pace";
        dimension: Q<P1, Z0, N1, Z0>;
        units {
            @span_per_beat: 1.0; "sp/bt", "span per beat", "spans per beat";
            @kilospan_per_halfbeat: 2.0_E3; "ksp/hb", "kilospan per halfbeat", "kilospans per halfbeat";
            @cubit_per_watch: 4.572_E-1 / 1.44_E4; "cb/w", "cubit per watch", "cubits per watch";
        }
    }
}

#[macro_use]
mod vigor {
    quantity! {
        quantity: Vigor; "vigor";
        dimension: Q<P2, P1, N2, Z0>;
        units {
            @stone_span_squared_per_beat_squared: 1.0; "st·sp²/bt²", "vigor unit", "vigor units";
            @bigvigor: 1.0_E7; "BV", "big vigor", "big vigors";
            @tinyvigor: 1.602_176_634_E-19; "tv", "tiny vigor", "tiny vigors";
        }
    }
}

#[macro_use]
mod glow {
    quantity! {
        quantity: Glow; "glow";
        dimension: Q<N2, Z0, N1, P3>;
        units {
            @grade_cubed_per_span_squared_beat: 1.0; "gr³/sp²bt", "glow unit", "glow units";
            @odd: 3.7_E-2; "odd", "odd glow", "odd glows";
        }
    }
}

system! {
    /// System of quantities.
    quantities: Q {
        extent: span, E;
        heft: stone, H;
        tick: beat, T;
        warmth: grade, W;
    }

    /// System of units.
    units: U {
        mod extent::Extent,
        mod heft::Heft,
        mod tick::Tick,
        mod warmth::Warmth,
        mod pace::Pace,
        mod vigor::Vigor,
        mod glow::Glow,
    }
}

mod d64 {
    mod usys {
        pub use super::super::*;
    }
    Q!(self::usys, f64);
}
mod a64 {
    mod usys {
        pub use super::super::*;
    }
    Q!(self::usys, f64, (kilospan, pebble, halfbeat, milligrade));
}
mod a32 {
    mod usys {
        pub use super::super::*;
    }
    Q!(self::usys, f32, (cubit, boulder, watch, grade));
}

// ------------------------------------------------------------------------------------------------
// units added to built-in quantities

mod added_length {
    unit! {
        system: uom::si;
        quantity: uom::si::length;

        @vsmoot: 1.702; "vfsm", "verification smoot", "verification smoots";
        @beard_second: 5.0_E-9; "bs", "beard-second", "beard-seconds";
    }
}
mod added_temperature {
    unit! {
        system: uom::si;
        quantity: uom::si::thermodynamic_temperature;

        @degree_newton: 100.0 / 33.0, 90.139_5; "°N", "degree Newton", "degrees Newton";
    }
}

// ISQ! aliases over caller-chosen base-unit tuples
mod isq_a { ISQ!(uom::si, f64, (kilometer, gram, hour, milliampere, millikelvin, kilomole, candela)); }
mod isq_b { ISQ!(uom::si, f64, (centimeter, gram, second, ampere, kelvin, mole, candela)); }
mod isq_c { ISQ!(uom::si, f32, (foot, pound, minute, ampere, degree_rankine, mole, candela)); }
mod isq_d { ISQ!(uom::si, f64, (millimeter, milligram, millisecond, microampere, kilokelvin, micromole, millicandela)); }
mod isq_e { ISQ!(uom::si, f32, (meter, kilogram, second, ampere, kelvin, mole, candela)); }
mod isq_f { ISQ!(uom::si, f64, (mile, ton, day, kiloampere, kelvin, mole, kilocandela)); }

// ------------------------------------------------------------------------------------------------

fn g<R>(f: impl FnOnce() -> R) -> Option<R> {
    guarded(AssertUnwindSafe(f))
}

struct Cx<W: Write> {
    out: W,
    seed: u64,
    n: usize,
}

/// base powers of the user system (4 base quantities)
fn upows<D: Dimension + ?Sized, Us: Units<V> + ?Sized, V: Fl>() -> [V; 4] {
    [
        ConversionFactor::<V>::powi(<Us::extent as Conversion<V>>::coefficient(), D::E::to_i32()),
        ConversionFactor::<V>::powi(<Us::heft as Conversion<V>>::coefficient(), D::H::to_i32()),
        ConversionFactor::<V>::powi(<Us::tick as Conversion<V>>::coefficient(), D::T::to_i32()),
        ConversionFactor::<V>::powi(<Us::warmth as Conversion<V>>::coefficient(), D::W::to_i32()),
    ]
}

fn udims<D: Dimension + ?Sized>() -> String {
    [D::E::to_i32(), D::H::to_i32(), D::T::to_i32(), D::W::to_i32()].iter().map(|x| x.to_string()).collect::<Vec<_>>().join(",")
}

macro_rules! uconv {
    ($cx:ident, $V:ty, $alias:ident, $bname:expr, $module:ident, $Q:ident, [$($unit:ident),*]) => {{
        type QT = $alias::$Q;
        type D = $module::Dimension;
        let pows = join_hex(&upows::<D, $alias::Units, $V>());
        $({
            type N = $module::$unit;
            let coef = <N as Conversion<$V>>::coefficient();
            let ca = <N as Conversion<$V>>::constant(ConstantOp::Add);
            let cs = <N as Conversion<$V>>::constant(ConstantOp::Sub);
            let mut rng = Rng::new($cx.seed).fork(hash_str(concat!(stringify!($V), $bname, stringify!($unit))));
            for v in float_values::<$V>(&mut rng, $cx.n, &[coef, ca]) {
                let nw = QT::new::<N>(v).value;
                let q = QT { dimension: PhantomData, units: PhantomData, value: v };
                writeln!($cx.out, "conv {} {} usr.{} {} {} {} {} {} {} {} {} {}", <$V as Fl>::NAME, $bname, stringify!($module), stringify!($unit),
                    coef.hex(), ca.hex(), cs.hex(), pows, v.hex(), nw.hex(), q.get::<N>().hex(), QT::new::<N>(v).get::<N>().hex()).unwrap();
                writeln!($cx.out, "rnd {} {} usr.{} {} {} {} {} {} {} {} {} {} {} {} {}", <$V as Fl>::NAME, $bname, stringify!($module), stringify!($unit),
                    coef.hex(), ca.hex(), cs.hex(), pows, v.hex(), q.get::<N>().hex(), q.floor::<N>().value.hex(), q.ceil::<N>().value.hex(), q.round::<N>().value.hex(),
                    q.trunc::<N>().value.hex(), q.fract::<N>().value.hex()).unwrap();
            }
        })*
    }};
}

// `Units` alias of the default base units (the macro only defines one for explicit tuples)
mod d64u {
    pub type Units = dyn super::Units<f64, extent = super::extent::span, heft = super::heft::stone, tick = super::tick::beat, warmth = super::warmth::grade>;
}

macro_rules! all_user_units {
    ($m:ident, $cx:ident, $V:ty, $alias:ident, $bname:expr) => {
        $m!($cx, $V, $alias, $bname, extent, Extent, [span, kilospan, cubit, third, league, hair]);
        $m!($cx, $V, $alias, $bname, heft, Heft, [stone, pebble, boulder]);
        $m!($cx, $V, $alias, $bname, tick, Tick, [beat, halfbeat, watch]);
        $m!($cx, $V, $alias, $bname, warmth, Warmth, [grade, cgrade, fgrade, milligrade]);
        $m!($cx, $V, $alias, $bname, pace, Pace, [span_per_beat, kilospan_per_halfbeat, cubit_per_watch]);
        $m!($cx, $V, $alias, $bname, vigor, Vigor, [stone_span_squared_per_beat_squared, bigvigor, tinyvigor]);
        $m!($cx, $V, $alias, $bname, glow, Glow, [grade_cubed_per_span_squared_beat, odd]);
    };
}

mod d64x {
    pub use super::d64::*;
    pub use super::d64u::Units;
}

#[inline(never)]
fn run_conv<W: Write>(cx: &mut Cx<W>) {
    all_user_units!(uconv, cx, f64, d64x, "usr-default");
    all_user_units!(uconv, cx, f64, a64, "usr-alt");
    all_user_units!(uconv, cx, f32, a32, "usr-alt32");
}

/// mixed-base operators between the default and the alternative base units
macro_rules! ubin {
    ($cx:ident, $module:ident, $Q:ident) => {{
        type L = d64::$Q;
        type R = a64::$Q;
        type D = $module::Dimension;
        let lp = join_hex(&upows::<D, d64u::Units, f64>());
        let rp = join_hex(&upows::<D, a64::Units, f64>());
        let mut rng = Rng::new($cx.seed).fork(hash_str(concat!("ubin", stringify!($module))));
        let vals = float_values::<f64>(&mut rng, 2 * $cx.n, &[]);
        for i in 0..vals.len() {
            let (a, b) = (vals[i], vals[(i * 7 + 3) % vals.len()]);
            let l = L { dimension: PhantomData, units: PhantomData, value: a };
            let r = R { dimension: PhantomData, units: PhantomData, value: b };
            let head = format!("bin f64 {{}} usr.{} usr-default usr-alt {} {} {} {}", stringify!($module), lp, rp, a.hex(), b.hex());
            writeln!($cx.out, "{} {}", head.replace("{}", "add"), (l + r).value.hex()).unwrap();
            writeln!($cx.out, "{} {}", head.replace("{}", "sub"), (l - r).value.hex()).unwrap();
            writeln!($cx.out, "{} {}", head.replace("{}", "mul"), (l * r).value.hex()).unwrap();
            writeln!($cx.out, "{} {}", head.replace("{}", "div"), (l / r).value.hex()).unwrap();
            writeln!($cx.out, "{} {}", head.replace("{}", "lt"), if l < r { 1 } else { 0 }).unwrap();
            writeln!($cx.out, "{} {}", head.replace("{}", "eq"), if l == r { 1 } else { 0 }).unwrap();
            // and the other way round
            let head = format!("bin f64 {{}} usr.{} usr-alt usr-default {} {} {} {}", stringify!($module), rp, lp, b.hex(), a.hex());
            writeln!($cx.out, "{} {}", head.replace("{}", "add"), (r + l).value.hex()).unwrap();
            writeln!($cx.out, "{} {}", head.replace("{}", "rem"), (r % l).value.hex()).unwrap();
            writeln!($cx.out, "{} {}", head.replace("{}", "ge"), if r >= l { 1 } else { 0 }).unwrap();
        }
    }};
}

/// `x.mul_add(a, b)` in the user system with the three operands in (possibly) different base-unit sets:
/// `Extent · Pace + (Extent·Pace)`; every assignment of {default, alt} to (x, a, b) that mixes the two
macro_rules! umad {
    ($cx:ident, $X:ident, $xn:expr, $A:ident, $an:expr, $B:ident, $bn:expr) => {{
        type Dx = extent::Dimension;
        type Da = pace::Dimension;
        let _ = std::marker::PhantomData::<Dx>;
        let x0 = $X::Extent { dimension: PhantomData, units: PhantomData, value: 1.0 };
        let a0 = $A::Pace { dimension: PhantomData, units: PhantomData, value: 1.0 };
        // the product type names the dimension of `b`
        fn pows_of<D: Dimension + ?Sized, Us: Units<f64> + ?Sized>(_q: &Quantity<D, Us, f64>) -> (String, String) {
            (join_hex(&upows::<D, d64u::Units, f64>()), join_hex(&upows::<D, a64::Units, f64>()))
        }
        let prod = x0 * a0;
        let (pd_def, pd_alt) = pows_of(&prod);
        let pick = |name: &str, d: &String, a: &String| if name == "usr-default" { d.clone() } else { a.clone() };
        let pa_def = join_hex(&upows::<Da, d64u::Units, f64>());
        let pa_alt = join_hex(&upows::<Da, a64::Units, f64>());
        let lpa = pick($xn, &pa_def, &pa_alt);
        let rpa = pick($an, &pa_def, &pa_alt);
        let lpb = pick($xn, &pd_def, &pd_alt);
        let rpb = pick($bn, &pd_def, &pd_alt);
        let mut rng = Rng::new($cx.seed).fork(hash_str(concat!("umad", $xn, $an, $bn)));
        let vals = float_values::<f64>(&mut rng, $cx.n, &[]);
        for i in 0..vals.len() {
            let (xv, av, bv) = (vals[i], vals[(i * 7 + 3) % vals.len()], vals[(i * 5 + 1) % vals.len()]);
            let x = $X::Extent { dimension: PhantomData, units: PhantomData, value: xv };
            let a = $A::Pace { dimension: PhantomData, units: PhantomData, value: av };
            let zero_b = $B::Extent { dimension: PhantomData, units: PhantomData, value: 1.0 } * $B::Pace { dimension: PhantomData, units: PhantomData, value: bv };
            let r = x.mul_add(a, zero_b);
            writeln!($cx.out, "mad f64 usr.extent {} {} {} {} {} {} {} {} {} {} {}", $xn, $an, $bn, lpa, rpa, lpb, rpb,
                xv.hex(), av.hex(), zero_b.value.hex(), r.value.hex()).unwrap();
        }
    }};
}

#[inline(never)]
fn run_mad<W: Write>(cx: &mut Cx<W>) {
    umad!(cx, d64, "usr-default", a64, "usr-alt", d64, "usr-default");
    umad!(cx, d64, "usr-default", d64, "usr-default", a64, "usr-alt");
    umad!(cx, a64, "usr-alt", d64, "usr-default", a64, "usr-alt");
    umad!(cx, a64, "usr-alt", a64, "usr-alt", d64, "usr-default");
    umad!(cx, d64, "usr-default", a64, "usr-alt", a64, "usr-alt");
}

#[inline(never)]
fn run_bin<W: Write>(cx: &mut Cx<W>) {
    ubin!(cx, extent, Extent);
    ubin!(cx, pace, Pace);
    ubin!(cx, vigor, Vigor);
    ubin!(cx, glow, Glow);
    ubin!(cx, heft, Heft);
}

fn dq<D: Dimension + ?Sized, Us: Units<V> + ?Sized, V: uom::num::Num + Conversion<V>>(_q: &Quantity<D, Us, V>) -> String {
    let k = std::any::type_name::<D::Kind>();
    format!("{} {}", udims::<D>(), k.rsplit("::").next().unwrap())
}

/// result types of the user system's operators (C01 on the user system)
#[inline(never)]
fn run_dim<W: Write>(cx: &mut Cx<W>) {
    let e = d64::Extent::new::<extent::span>(2.0);
    let t = d64::Tick::new::<tick::beat>(4.0);
    let h = d64::Heft::new::<heft::stone>(3.0);
    let p = d64::Pace::new::<pace::span_per_beat>(1.0);
    let v = d64::Vigor::new::<vigor::bigvigor>(1.0);
    let gl = d64::Glow::new::<glow::odd>(1.0);
    macro_rules! w {
        ($form:expr, $a:expr, $b:expr, $e:expr, $r:expr) => {
            writeln!(cx.out, "dim {} {} {} {} {}", $form, dq(&$a), dq(&$b), $e, dq(&$r)).unwrap();
        };
    }
    w!("div", e, t, 0, e / t);
    let _p: d64::Pace = e / t; // interchangeable
    w!("mul", p, t, 0, p * t);
    let _e: d64::Extent = p * t;
    w!("mul", h, p, 0, h * p);
    w!("mul", h * p, p, 0, h * p * p);
    let _v: d64::Vigor = h * p * p;
    w!("div", v, gl, 0, v / gl);
    w!("recip", gl, gl, 0, gl.recip());
    w!("powi", p, p, 2, p.powi(uom::typenum::P2::new()));
    w!("powi", gl, gl, -3, gl.powi(uom::typenum::N3::new()));
    w!("sqrt", e * e, e * e, 0, (e * e).sqrt());
    w!("cbrt", e * e * e, e * e * e, 0, (e * e * e).cbrt());
    w!("kmul", v, v, 0, 2.0 * v);
    w!("kdiv", v, v, 0, 2.0 / v);
    w!("keep", v, v, 0, v + v);
    w!("keep", gl, gl, 0, gl % gl);
    w!("keep", p, p, 0, -p);
    w!("keep", e, e, 0, e.floor::<extent::cubit>());
    w!("mul_add", e, p, 0, e.mul_add(p, e * p));
}

/// formatting / parsing in the user system and with the added units
#[inline(never)]
fn run_text<W: Write>(cx: &mut Cx<W>) {
    macro_rules! f {
        ($alias:ident, $bname:expr, $module:ident, $Q:ident, $unit:ident, $idx:expr, $v:expr) => {{
            type QT = $alias::$Q;
            type N = $module::$unit;
            type D = $module::Dimension;
            let q = QT { dimension: PhantomData, units: PhantomData, value: $v };
            let x = q.get::<N>();
            let pows = join_hex(&upows::<D, $alias::Units, f64>());
            for (st, sname) in [(DisplayStyle::Abbreviation, "a"), (DisplayStyle::Description, "d")] {
                let a = q.into_format_args($module::$unit, st);
                let mut emit = |id: u32, o: String, r: String| {
                    writeln!(cx.out, "fmt f64 {} usr.{} {} {} {} {} {} {} {} {} {} {}", $bname, stringify!($module), $idx, sname, id,
                        <N as Conversion<f64>>::coefficient().hex(), <N as Conversion<f64>>::constant(ConstantOp::Sub).hex(), pows, ($v).hex(), x.hex(), hex_str(&o), hex_str(&r)).unwrap();
                };
                emit(0, format!("{}", a), format!("{}", x));
                emit(2, format!("{:<12.3}", a), format!("{:<12.3}", x));
                emit(6, format!("{:e}", a), format!("{:e}", x));
                emit(9, format!("{:?}", a), format!("{:?}", x));
            }
        }};
    }
    for v in [1.0f64, 0.4572, 2.5, 1000.0, -1.0, f64::NAN] {
        f!(d64x, "usr-default", extent, Extent, span, 0, v);
        f!(d64x, "usr-default", extent, Extent, cubit, 2, v);
        f!(a64, "usr-alt", extent, Extent, third, 3, v);
        f!(a64, "usr-alt", warmth, Warmth, cgrade, 1, v);
        f!(d64x, "usr-default", warmth, Warmth, fgrade, 2, v);
        f!(a64, "usr-alt", pace, Pace, kilospan_per_halfbeat, 1, v);
        f!(d64x, "usr-default", vigor, Vigor, tinyvigor, 2, v);
    }
    // Debug of bare quantities: base-unit abbreviations of the user system
    for (name, s, raw) in [
        ("usr-default", format!("{:?}", d64::Vigor::new::<vigor::bigvigor>(1.0)), format!("{:?}", 1.0e7f64)),
        ("usr-default", format!("{:?}", d64::Glow { dimension: PhantomData, units: PhantomData, value: 2.5 }), format!("{:?}", 2.5f64)),
    ] {
        let module = if s.contains("gr^3") { "glow" } else { "vigor" };
        writeln!(cx.out, "dbg f64 {} usr.{} usr.extent,usr.heft,usr.tick,usr.warmth span,stone,beat,grade {} {}", name, module, hex_str(&s), hex_str(&raw)).unwrap();
    }
    {
        let s = format!("{:?}", a64::Vigor { dimension: PhantomData, units: PhantomData, value: 2.5 });
        writeln!(cx.out, "dbg f64 usr-alt usr.vigor usr.extent,usr.heft,usr.tick,usr.warmth kilospan,pebble,halfbeat,milligrade {} {}", hex_str(&s), hex_str(&format!("{:?}", 2.5f64))).unwrap();
    }
    // parsing
    macro_rules! p {
        ($alias:ident, $bname:expr, $module:ident, $Q:ident, $input:expr) => {{
            type QT = $alias::$Q;
            type D = $module::Dimension;
            let pows = join_hex(&upows::<D, $alias::Units, f64>());
            let input: &str = $input;
            let (numpart, numparse) = match input.split_once(' ') {
                None => ("-".to_string(), "-".to_string()),
                Some((n, _)) => (hex_str(n), match n.parse::<f64>() { Ok(v) => format!("ok:{}", v.hex()), Err(_) => "bad".to_string() }),
            };
            let res = match g(|| input.parse::<QT>()) {
                None => "PANIC".to_string(),
                Some(Ok(q)) => format!("ok:{}", q.value.hex()),
                Some(Err(uom::str::ParseQuantityError::NoSeparator)) => "nosep".to_string(),
                Some(Err(uom::str::ParseQuantityError::ValueParseError)) => "badnum".to_string(),
                Some(Err(uom::str::ParseQuantityError::UnknownUnit)) => "unknown".to_string(),
            };
            writeln!(cx.out, "parse f64 {} usr.{} {} {} {} {} {}", $bname, stringify!($module), pows, hex_str(input), numpart, numparse, res).unwrap();
        }};
    }
    for s in ["1 sp", "2.5 cubits", "3 ⅓sp", "1 third of a span", "7 thirds of a span ", "1  lea", "1 m", "1sp", "x sp", "", " ", "1 \u{a0}hr\u{3000}", "1 vfsm"] {
        p!(d64x, "usr-default", extent, Extent, s);
        p!(a64, "usr-alt", extent, Extent, s);
    }
    for s in ["0 °cg", "32 °fg", "1 centigrade grade", "5 fahrenheit grades", "1 mgr", "1 K"] {
        p!(a64, "usr-alt", warmth, Warmth, s);
        p!(d64x, "usr-default", warmth, Warmth, s);
    }
    // added units are absent from the registry and from parsing (as documented)
    let names: Vec<String> = uom::si::length::units().map(|u| format!("{:?}", u)).collect();
    writeln!(cx.out, "absent length vsmoot registry={} parse={}", names.iter().any(|n| n.starts_with("vsmoot")) as u8,
        "1 vfsm".parse::<uom::si::f64::Length>().is_ok() as u8).unwrap();
    writeln!(cx.out, "absent length beard_second registry={} parse={}", names.iter().any(|n| n.starts_with("beard")) as u8,
        "1 bs".parse::<uom::si::f64::Length>().is_ok() as u8).unwrap();
    let tn: Vec<String> = uom::si::thermodynamic_temperature::units().map(|u| format!("{:?}", u)).collect();
    writeln!(cx.out, "absent thermodynamic_temperature degree_newton registry={} parse={}", tn.iter().any(|n| n.starts_with("degree_newton")) as u8,
        "1 °N".parse::<uom::si::f64::ThermodynamicTemperature>().is_ok() as u8).unwrap();
}

/// units added with `unit!` convert like built-in ones; ISQ! aliases over six base-unit tuples
#[inline(never)]
fn run_added<W: Write>(cx: &mut Cx<W>) {
    use uomh::base_pows;
    macro_rules! c {
        ($V:ty, $QT:ty, $D:ty, $U:ty, $bname:expr, $module:expr, $N:ty, $uname:expr) => {{
            let pows = join_hex(&base_pows::<$D, $U, $V>());
            let coef = <$N as Conversion<$V>>::coefficient();
            let ca = <$N as Conversion<$V>>::constant(ConstantOp::Add);
            let cs = <$N as Conversion<$V>>::constant(ConstantOp::Sub);
            let mut rng = Rng::new(cx.seed).fork(hash_str(concat!(stringify!($V), $bname, $uname)));
            for v in float_values::<$V>(&mut rng, cx.n, &[coef, ca]) {
                let q = <$QT>::new::<$N>(v);
                let s = { let mut z = q; z.value = v; z };
                writeln!(cx.out, "conv {} {} {} {} {} {} {} {} {} {} {} {}", <$V as Fl>::NAME, $bname, $module, $uname, coef.hex(), ca.hex(), cs.hex(), pows,
                    v.hex(), q.value.hex(), s.get::<$N>().hex(), q.get::<$N>().hex()).unwrap();
            }
        }};
    }
    use uom::si::{length as l, thermodynamic_temperature as tt, velocity as vel, energy as en, thermal_conductivity as tc};
    c!(f64, uom::si::f64::Length, l::Dimension, uom::si::SI<f64>, "si", "added.length", added_length::vsmoot, "vsmoot");
    c!(f64, uom::si::f64::Length, l::Dimension, uom::si::SI<f64>, "si", "added.length", added_length::beard_second, "beard_second");
    c!(f32, uom::si::f32::Length, l::Dimension, uom::si::SI<f32>, "si", "added.length", added_length::vsmoot, "vsmoot");
    c!(f64, uom::si::f64::ThermodynamicTemperature, tt::Dimension, uom::si::SI<f64>, "si", "added.thermodynamic_temperature", added_temperature::degree_newton, "degree_newton");
    c!(f64, isq_a::Length, l::Dimension, isq_a::Units, "isq_a", "added.length", added_length::vsmoot, "vsmoot");
    c!(f64, isq_a::ThermodynamicTemperature, tt::Dimension, isq_a::Units, "isq_a", "added.thermodynamic_temperature", added_temperature::degree_newton, "degree_newton");
    c!(f32, isq_c::ThermodynamicTemperature, tt::Dimension, isq_c::Units, "isq_c", "added.thermodynamic_temperature", added_temperature::degree_newton, "degree_newton");
    // built-in units through the six ISQ! aliases
    macro_rules! isq {
        ($V:ty, $m:ident, $bname:expr) => {
            c!($V, $m::Length, l::Dimension, $m::Units, $bname, "length", l::foot, "foot");
            c!($V, $m::Velocity, vel::Dimension, $m::Units, $bname, "velocity", vel::kilometer_per_hour, "kilometer_per_hour");
            c!($V, $m::Energy, en::Dimension, $m::Units, $bname, "energy", en::kilowatt_hour, "kilowatt_hour");
            c!($V, $m::ThermalConductivity, tc::Dimension, $m::Units, $bname, "thermal_conductivity", tc::watt_per_meter_kelvin, "watt_per_meter_kelvin");
            c!($V, $m::ThermodynamicTemperature, tt::Dimension, $m::Units, $bname, "thermodynamic_temperature", tt::degree_fahrenheit, "degree_fahrenheit");
        };
    }
    isq!(f64, isq_a, "isq_a");
    isq!(f64, isq_b, "isq_b");
    isq!(f32, isq_c, "isq_c");
    isq!(f64, isq_d, "isq_d");
    isq!(f32, isq_e, "isq_e");
    isq!(f64, isq_f, "isq_f");
    // formatting of the added units (labels must be the declared abbreviation / singular / plural)
    macro_rules! fadded {
        ($QT:ty, $D:ty, $U:ty, $bname:expr, $module:expr, $idx:expr, $N:ty, $unit:expr, $vals:expr) => {{
            let pows = join_hex(&base_pows::<$D, $U, f64>());
            for v in $vals {
                let q = { let mut z = <$QT>::new::<$N>(1.0); z.value = v; z };
                let x = q.get::<$N>();
                for (st, sname) in [(DisplayStyle::Abbreviation, "a"), (DisplayStyle::Description, "d")] {
                    let a = q.into_format_args($unit, st);
                    writeln!(cx.out, "fmt f64 {} {} {} {} 0 {} {} {} {} {} {} {}", $bname, $module, $idx, sname,
                        <$N as Conversion<f64>>::coefficient().hex(), <$N as Conversion<f64>>::constant(ConstantOp::Sub).hex(), pows, v.hex(), x.hex(),
                        hex_str(&format!("{}", a)), hex_str(&format!("{}", x))).unwrap();
                }
            }
        }};
    }
    fadded!(uom::si::f64::Length, l::Dimension, uom::si::SI<f64>, "si", "added.length", 0, added_length::vsmoot, added_length::vsmoot, [1.702f64, 3.404, 0.0, 10.0]);
    fadded!(uom::si::f64::Length, l::Dimension, uom::si::SI<f64>, "si", "added.length", 1, added_length::beard_second, added_length::beard_second, [5.0e-9f64, 1.0]);
    fadded!(isq_a::Length, l::Dimension, isq_a::Units, "isq_a", "added.length", 0, added_length::vsmoot, added_length::vsmoot, [1.702e-3f64, 2.0]);
    fadded!(uom::si::f64::ThermodynamicTemperature, tt::Dimension, uom::si::SI<f64>, "si", "added.thermodynamic_temperature", 0, added_temperature::degree_newton,
        added_temperature::degree_newton, [273.15f64, 276.18030303030304, 300.0]);
    // the tuple is applied in order: base-unit abbreviations of a Debug-printed quantity
    let s = format!("{:?}", isq_a::Energy { dimension: PhantomData, units: PhantomData, value: 2.5 });
    writeln!(cx.out, "dbg f64 isq_a energy length,mass,time,electric_current,thermodynamic_temperature,amount_of_substance,luminous_intensity kilometer,gram,hour,milliampere,millikelvin,kilomole,candela {} {}",
        hex_str(&s), hex_str(&format!("{:?}", 2.5f64))).unwrap();
    let s = format!("{:?}", isq_f::ThermalConductivity { dimension: PhantomData, units: PhantomData, value: 2.5 });
    writeln!(cx.out, "dbg f64 isq_f thermal_conductivity length,mass,time,electric_current,thermodynamic_temperature,amount_of_substance,luminous_intensity mile,ton,day,kiloampere,kelvin,mole,kilocandela {} {}",
        hex_str(&s), hex_str(&format!("{:?}", 2.5f64))).unwrap();
}

/// the user system's registry in the dump format of DumpTable.lean
#[inline(never)]
fn run_reg<W: Write>(cx: &mut Cx<W>) {
    macro_rules! r {
        ($cx:ident, $V:ty, $alias:ident, $bname:expr, $module:ident, $Q:ident, [$($unit:ident),*]) => {{
            type D = $module::Dimension;
            let kind = std::any::type_name::<<D as Dimension>::Kind>().rsplit("::").next().unwrap().to_string();
            writeln!($cx.out, "quantity usr.{} {} {} {} {}", stringify!($module), stringify!($Q), hex_str($module::description()), kind, udims::<D>()).unwrap();
            let conv: Vec<String> = vec![$({
                type N = $module::$unit;
                format!("{} {} {} {} {} {}", <N as Conversion<f64>>::coefficient().hex(), <N as Conversion<f64>>::constant(ConstantOp::Add).hex(),
                    <N as Conversion<f64>>::constant(ConstantOp::Sub).hex(), <N as Conversion<f32>>::coefficient().hex(),
                    <N as Conversion<f32>>::constant(ConstantOp::Add).hex(), <N as Conversion<f32>>::constant(ConstantOp::Sub).hex())
            }),*];
            for (i, u) in $module::units().enumerate() {
                let name = format!("{:?}", u).split('(').next().unwrap().to_string();
                writeln!($cx.out, "unit usr.{} {} {} {} {} {} {}", stringify!($module), i, name, hex_str(u.abbreviation()), hex_str(u.singular()), hex_str(u.plural()),
                    conv.get(i).cloned().unwrap_or_default()).unwrap();
            }
        }};
    }
    all_user_units!(r, cx, f64, d64x, "usr-default");
    macro_rules! added {
        ($module:expr, $idx:expr, $N:ty, $name:expr) => {
            writeln!(cx.out, "unit added.{} {} {} {} {} {} {} {} {} {} {} {}", $module, $idx, $name,
                hex_str(<$N as uom::si::Unit>::abbreviation()), hex_str(<$N as uom::si::Unit>::singular()), hex_str(<$N as uom::si::Unit>::plural()),
                <$N as Conversion<f64>>::coefficient().hex(), <$N as Conversion<f64>>::constant(ConstantOp::Add).hex(), <$N as Conversion<f64>>::constant(ConstantOp::Sub).hex(),
                <$N as Conversion<f32>>::coefficient().hex(), <$N as Conversion<f32>>::constant(ConstantOp::Add).hex(), <$N as Conversion<f32>>::constant(ConstantOp::Sub).hex()).unwrap();
        };
    }
    added!("length", 0, added_length::vsmoot, "vsmoot");
    added!("length", 1, added_length::beard_second, "beard_second");
    added!("thermodynamic_temperature", 0, added_temperature::degree_newton, "degree_newton");
}

fn main() {
    silence_panics();
    let stdout = std::io::stdout();
    let mut cx = Cx {
        out: std::io::BufWriter::with_capacity(1 << 20, stdout.lock()),
        seed: env_u64("VERIF_SEED", 1),
        n: env_u64("VERIF_N", if thorough() { 200 } else { 16 }) as usize,
    };
    let mode = std::env::args().nth(1).unwrap_or_else(|| "all".to_string());
    if mode == "reg" {
        run_reg(&mut cx);
    } else {
        let (i, n) = shard();
        // small driver: shard 0 runs everything
        if i == 0 {
            run_conv(&mut cx);
            run_bin(&mut cx);
            run_mad(&mut cx);
            run_dim(&mut cx);
            run_text(&mut cx);
            run_added(&mut cx);
        }
    }
    cx.out.flush().unwrap();
}
