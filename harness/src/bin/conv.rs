//! conv: `new::<N>(v)` / `get::<N>()` / `floor..fract::<N>()` for every unit of every quantity, f32 and
//! f64, over the base-unit catalogue.  One line per (unit, base set, value):
//!
//! conv <V> <base> <module> <unit> <coef> <consA> <consS> <p1:..:p7> <v> <new(v).value> <Q{v}.get()> <new(v).get()>
//! rnd  <V> <base> <module> <unit> <coef> <consA> <consS> <p1:..:p7> <v> <get(v)> <floor> <ceil> <round> <trunc> <fract>
#![allow(non_camel_case_types)]
use std::io::Write;
use std::marker::PhantomData;
use uom::ConstantOp;
use uomh::*;

struct Ctx<W: Write> {
    out: W,
    seed: u64,
    n_random: usize,
    idx: u64,
    shard: (u64, u64),
    only_module: Option<String>,
    lines: String,
}

impl<W: Write> Ctx<W> {
    /// the factors of the base-unit combination: coefficient, exponent, `powi` result
    fn pows<V: Fl>(&mut self, coefs: &[V; 7], dims: &[i32; 7], pows: &[V; 7]) {
        if self.lines == "rnd" || self.shard.0 != 0 {
            return;
        }
        for i in 0..7 {
            writeln!(self.out, "pow {} {} {} {}", V::NAME, coefs[i].hex(), dims[i], pows[i].hex()).unwrap();
        }
    }
    #[allow(clippy::too_many_arguments)]
    fn unit<V: Fl>(
        &mut self,
        base: &str,
        module: &str,
        unit: &str,
        coef: V,
        cons_a: V,
        cons_s: V,
        pows: &[V; 7],
        new: &dyn Fn(V) -> V,
        get: &dyn Fn(V) -> V,
        rnd: Option<&dyn Fn(V) -> [V; 5]>,
    ) {
        self.idx += 1;
        if self.idx % self.shard.1 != self.shard.0 {
            return;
        }
        if let Some(m) = &self.only_module {
            if m != module {
                return;
            }
        }
        let mut rng = Rng::new(self.seed).fork(hash_str(base) ^ hash_str(module).rotate_left(17) ^ hash_str(unit).rotate_left(31) ^ hash_str(V::NAME));
        // neighbours of the coefficient and of the offset are interesting inputs
        let extra = [coef, V::one() / coef, cons_a, -cons_a, V::from_bits64(coef.to_bits64() + 1)];
        let vals = float_values::<V>(&mut rng, self.n_random, &extra);
        let head = format!(
            "{} {} {} {} {} {} {} {}",
            V::NAME,
            base,
            module,
            unit,
            coef.hex(),
            cons_a.hex(),
            cons_s.hex(),
            join_hex(pows)
        );
        for v in vals {
            if self.lines != "rnd" {
                writeln!(self.out, "conv {} {} {} {} {}", head, v.hex(), new(v).hex(), get(v).hex(), get(new(v)).hex()).unwrap();
            }
            if self.lines == "conv" {
                continue;
            }
            if let Some(rnd) = rnd {
                let r = rnd(v);
                writeln!(self.out, "rnd {} {} {} {}", head, v.hex(), get(v).hex(), join_hex(&r).replace(':', " ")).unwrap();
            }
        }
    }
}

macro_rules! conv_q {
    ($ctx:ident, $V:ident, $U:ident, $bname:expr, $module:ident, $Q:ident, [$($unit:ident),*]) => {{
        type D = uom::si::$module::Dimension;
        type QT = uom::si::$module::$Q<$U<$V>, $V>;
        let pows = base_pows::<D, $U<$V>, $V>();
        $ctx.pows::<$V>(&base_coefs::<$U<$V>, $V>(), &dim_exps::<D>(), &pows);
        fn q(v: $V) -> QT {
            QT { dimension: PhantomData, units: PhantomData, value: v }
        }
        $({
            type N = uom::si::$module::$unit;
            $ctx.unit::<$V>(
                $bname,
                stringify!($module),
                stringify!($unit),
                <N as uom::Conversion<$V>>::coefficient(),
                <N as uom::Conversion<$V>>::constant(ConstantOp::Add),
                <N as uom::Conversion<$V>>::constant(ConstantOp::Sub),
                &pows,
                &|v| QT::new::<N>(v).value,
                &|s| q(s).get::<N>(),
                None,
            );
        })*
    }};
}

macro_rules! conv_item {
    ($V:ident, $U:ident, $bname:expr, $module:ident, $Q:ident, [$($unit:ident),*]) => {
        pub mod $module {
            use super::super::*;
            #[inline(never)]
            pub fn run<W: Write>(ctx: &mut Ctx<W>) {
                conv_q!(ctx, $V, $U, $bname, $module, $Q, [$($unit),*]);
            }
        }
    };
}

macro_rules! call_item {
    ($ctx:ident, $module:ident, $Q:ident, [$($unit:ident),*]) => {
        $module::run($ctx);
    };
}

macro_rules! conv_rnd_q {
    ($ctx:ident, $V:ident, $U:ident, $bname:expr, $module:ident, $Q:ident, [$($unit:ident),*]) => {{
        type D = uom::si::$module::Dimension;
        type QT = uom::si::$module::$Q<$U<$V>, $V>;
        let pows = base_pows::<D, $U<$V>, $V>();
        $ctx.pows::<$V>(&base_coefs::<$U<$V>, $V>(), &dim_exps::<D>(), &pows);
        fn q(v: $V) -> QT {
            QT { dimension: PhantomData, units: PhantomData, value: v }
        }
        $({
            type N = uom::si::$module::$unit;
            $ctx.unit::<$V>(
                $bname,
                stringify!($module),
                stringify!($unit),
                <N as uom::Conversion<$V>>::coefficient(),
                <N as uom::Conversion<$V>>::constant(ConstantOp::Add),
                <N as uom::Conversion<$V>>::constant(ConstantOp::Sub),
                &pows,
                &|v| QT::new::<N>(v).value,
                &|s| q(s).get::<N>(),
                Some(&|s| [q(s).floor::<N>().value, q(s).ceil::<N>().value, q(s).round::<N>().value,
                      q(s).trunc::<N>().value, q(s).fract::<N>().value]),
            );
        })*
    }};
}

// a reduced quantity list for the non-default base sets keeps the harness build time in check;
// the conversion code is generic, so the unit only contributes its coefficient and constant
macro_rules! some_quantities {
    ($m:ident, $ctx:ident, $V:ident, $U:ident, $bname:expr) => {
        $m!($ctx, $V, $U, $bname, length, Length, [meter, kilometer, foot, inch, mile, angstrom, light_year, micron]);
        $m!($ctx, $V, $U, $bname, mass, Mass, [kilogram, gram, pound, ounce, ton, dalton, grain]);
        $m!($ctx, $V, $U, $bname, time, Time, [second, minute, hour, day, nanosecond, year]);
        $m!($ctx, $V, $U, $bname, thermodynamic_temperature, ThermodynamicTemperature, [kelvin, degree_celsius, degree_fahrenheit, degree_rankine, millikelvin, kilokelvin]);
        $m!($ctx, $V, $U, $bname, temperature_interval, TemperatureInterval, [kelvin, degree_celsius, degree_fahrenheit, degree_rankine, millikelvin]);
        $m!($ctx, $V, $U, $bname, velocity, Velocity, [meter_per_second, kilometer_per_hour, mile_per_hour, knot, foot_per_second]);
        $m!($ctx, $V, $U, $bname, acceleration, Acceleration, [meter_per_second_squared, standard_gravity, foot_per_second_squared]);
        $m!($ctx, $V, $U, $bname, energy, Energy, [joule, kilowatt_hour, calorie, electronvolt, btu, erg, foot_pound]);
        $m!($ctx, $V, $U, $bname, power, Power, [watt, kilowatt, horsepower, erg_per_second]);
        $m!($ctx, $V, $U, $bname, pressure, Pressure, [pascal, bar, atmosphere, psi, millimeter_of_mercury]);
        $m!($ctx, $V, $U, $bname, force, Force, [newton, dyne, pound_force, kilogram_force]);
        $m!($ctx, $V, $U, $bname, thermal_conductivity, ThermalConductivity, [watt_per_meter_kelvin, kilowatt_per_meter_kelvin, watt_per_meter_degree_celsius]);
        $m!($ctx, $V, $U, $bname, electric_potential, ElectricPotential, [volt, millivolt, kilovolt, abvolt, statvolt]);
        $m!($ctx, $V, $U, $bname, electrical_resistance, ElectricalResistance, [ohm, kiloohm, abohm]);
        $m!($ctx, $V, $U, $bname, capacitance, Capacitance, [farad, microfarad, picofarad]);
        $m!($ctx, $V, $U, $bname, frequency, Frequency, [hertz, kilohertz, cycle_per_minute]);
        $m!($ctx, $V, $U, $bname, area, Area, [square_meter, hectare, acre, square_foot, barn]);
        $m!($ctx, $V, $U, $bname, volume, Volume, [cubic_meter, liter, gallon, cubic_inch, milliliter]);
        $m!($ctx, $V, $U, $bname, mass_density, MassDensity, [kilogram_per_cubic_meter, gram_per_cubic_centimeter, pound_per_cubic_foot]);
        $m!($ctx, $V, $U, $bname, molar_concentration, MolarConcentration, [mole_per_cubic_meter, mole_per_liter, millimole_per_liter]);
        $m!($ctx, $V, $U, $bname, molar_energy, MolarEnergy, [joule_per_mole, kilojoule_per_mole]);
        $m!($ctx, $V, $U, $bname, luminance, Luminance, [candela_per_square_meter, candela_per_square_foot]);
        $m!($ctx, $V, $U, $bname, specific_heat_capacity, SpecificHeatCapacity, [joule_per_kilogram_kelvin, kilojoule_per_kilogram_kelvin, joule_per_gram_degree_celsius]);
        $m!($ctx, $V, $U, $bname, heat_transfer, HeatTransfer, [watt_per_square_meter_kelvin, watt_per_square_meter_degree_celsius]);
        $m!($ctx, $V, $U, $bname, angle, Angle, [radian, degree, revolution]);
        $m!($ctx, $V, $U, $bname, ratio, Ratio, [ratio, percent, part_per_million]);
        $m!($ctx, $V, $U, $bname, information, Information, [bit, byte, kibibyte, kilobyte]);
        $m!($ctx, $V, $U, $bname, catalytic_activity, CatalyticActivity, [katal, enzyme_unit]);
        $m!($ctx, $V, $U, $bname, temperature_coefficient, TemperatureCoefficient, [per_kelvin, ppm_per_kelvin]);
        $m!($ctx, $V, $U, $bname, electric_charge, ElectricCharge, [coulomb, ampere_hour, milliampere_hour, elementary_charge]);
    };
}

#[cfg(feature = "allsi")]
mod si_f64 {
    use uomh::for_each_quantity;
    for_each_quantity!(conv_item, f64, Si, "si");
}
#[cfg(feature = "allsi")]
mod si_f32 {
    use uomh::for_each_quantity;
    for_each_quantity!(conv_item, f32, Si, "si");
}

#[cfg(not(feature = "allsi"))]
fn all_si<W: Write>(_ctx: &mut Ctx<W>) {
    panic!("built without the allsi feature");
}

#[cfg(feature = "allsi")]
fn all_si<W: Write>(ctx: &mut Ctx<W>) {
    {
        use si_f64::*;
        for_each_quantity!(call_item, ctx);
    }
    {
        use si_f32::*;
        for_each_quantity!(call_item, ctx);
    }
}

fn others<W: Write>(ctx: &mut Ctx<W>) {
    some_quantities!(conv_rnd_q, ctx, f64, Si, "si");
    some_quantities!(conv_rnd_q, ctx, f32, Si, "si");
    some_quantities!(conv_rnd_q, ctx, f64, Cgs, "cgs");
    some_quantities!(conv_rnd_q, ctx, f32, Cgs, "cgs");
    some_quantities!(conv_rnd_q, ctx, f64, Kgh, "kgh");
    some_quantities!(conv_rnd_q, ctx, f32, Kgh, "kgh");
    some_quantities!(conv_rnd_q, ctx, f64, Fpm, "fpm");
    some_quantities!(conv_rnd_q, ctx, f32, Fpm, "fpm");
    some_quantities!(conv_rnd_q, ctx, f64, Mmm, "mmm");
    some_quantities!(conv_rnd_q, ctx, f32, Mmm, "mmm");
    some_quantities!(conv_rnd_q, ctx, f64, OnlyL, "onlyl");
    some_quantities!(conv_rnd_q, ctx, f32, OnlyT, "onlyt");
    some_quantities!(conv_rnd_q, ctx, f64, OnlyTh, "onlyth");
}

fn main() {
    let seed = env_u64("VERIF_SEED", 1);
    let n_random = env_u64("VERIF_NRANDOM", if thorough() { 64 } else { 8 }) as usize;
    let stdout = std::io::stdout();
    let mut ctx = Ctx {
        out: std::io::BufWriter::with_capacity(1 << 20, stdout.lock()),
        seed,
        n_random,
        idx: 0,
        shard: shard(),
        only_module: std::env::var("VERIF_ONLY_MODULE").ok(),
        lines: std::env::var("VERIF_LINES").unwrap_or_else(|_| "all".to_string()),
    };
    let which = std::env::args().nth(1).unwrap_or_else(|| "all".to_string());
    if which == "all" || which == "si" {
        all_si(&mut ctx);
    }
    if which == "all" || which == "others" {
        others(&mut ctx);
    }
    ctx.out.flush().unwrap();
}
