//! ops: operator forms of src/system.rs on real quantities.
//!
//! bin <V> <form> <q> <ul> <ur> <lp> <rp> <a> <b> <res>
//!     binary form between Quantity<Dl,Ul,V>{a} and Quantity<Dr,Ur,V>{b}; lp/rp = base powers of Ul/Ur
//!     over the *right* operand's dimension (what change_base uses); res = stored value / bool / ordering
//! mad <V> <q> <u> <ua> <ub> <lpa> <rpa> <lpb> <rpb> <x> <a> <b> <res>        x.mul_add(a, b)
//! from <V> <pair> <ul> <ur> <lp> <rp> <a> <res>                               kind conversion
//! b2 <V> <form> <q> <u> <a> <b> <qres> <rawres>     same-base binary form and the bare-number operation
//! un <V> <form> <q> <u> <a> <qres> <rawres>         unary
//! sc <V> <form> <q> <u> <a> <k> <qres> <rawres>     scaling by a bare number
//! sum <V> <q> <u> <v1:..:vn> <qres> <rawres>
//! zero <V> <which> <q> <u> <qres> <rawres>
#![allow(non_camel_case_types, unused_macros, unused_imports, dead_code)]
use std::io::Write;
use std::marker::PhantomData;
use std::panic::AssertUnwindSafe;
use uom::si::Quantity;
use uomh::*;

pub struct Cx<W: Write> {
    out: W,
    seed: u64,
    n: usize,
    idx: u64,
    shard: (u64, u64),
}

impl<W: Write> Cx<W> {
    /// sharding is per *group* (one call site), so every shard sees whole groups
    fn take(&mut self) -> bool {
        self.idx += 1;
        self.idx % self.shard.1 == self.shard.0
    }
    fn rng(&self, salt: &str) -> Rng {
        Rng::new(self.seed).fork(hash_str(salt))
    }
}

fn g<R>(f: impl FnOnce() -> R) -> Option<R> {
    guarded(AssertUnwindSafe(f))
}

macro_rules! q {
    ($T:ty, $v:expr) => {
        <$T>::from_value($v)
    };
}

/// construct a quantity from its stored value without going through `new`
trait FromValue<V> {
    fn from_value(v: V) -> Self;
}
impl<D, U, V> FromValue<V> for Quantity<D, U, V>
where
    D: uom::si::Dimension + ?Sized,
    U: uom::si::Units<V> + ?Sized,
    V: uom::num::Num + uom::Conversion<V>,
{
    fn from_value(v: V) -> Self {
        Quantity { dimension: PhantomData, units: PhantomData, value: v }
    }
}

fn pairs<V: Val>(rng: &mut Rng, n: usize) -> Vec<(V, V)>
where
    <V as uom::Conversion<V>>::T: Enc,
{
    let mut out = Vec::new();
    for k in 0..n {
        let a = V::gen(rng, k);
        let b = V::gen(rng, (k * 7 + 3) % (n + 5));
        out.push((a.clone(), b.clone()));
        if k % 5 == 0 {
            out.push((a.clone(), a.clone()));
        }
        if k % 7 == 0 {
            out.push((b, a));
        }
    }
    out
}

// ------------------------------------------------------------------------------------------------
// mixed-base binary forms (needs autoconvert when Ul != Ur)

macro_rules! mixed_same_dim {
    ($cx:ident, $V:ty, $m:ident :: $Q:ident, $Ul:ident, $ul:expr, $Ur:ident, $ur:expr) => {{
        if $cx.take() {
            type L = uom::si::$m::$Q<$Ul<$V>, $V>;
            type R = uom::si::$m::$Q<$Ur<$V>, $V>;
            type D = uom::si::$m::Dimension;
            let lp = join_enc(&base_pows::<D, $Ul<$V>, $V>());
            let rp = join_enc(&base_pows::<D, $Ur<$V>, $V>());
            let mut rng = $cx.rng(concat!(stringify!($V), stringify!($m), $ul, $ur));
            for (a, b) in pairs::<$V>(&mut rng, $cx.n) {
                let head = format!("bin {} {{}} {} {} {} {} {} {} {}", <$V as Val>::NAME, stringify!($m), $ul, $ur, lp, rp, a.enc(), b.enc());
                macro_rules! emit {
                    ($form:expr, $e:expr) => {
                        writeln!($cx.out, "{} {}", head.replace("{}", $form), enc_opt(&g(|| $e))).unwrap();
                    };
                }
                emit!("add", (q!(L, a.clone()) + q!(R, b.clone())).value);
                emit!("sub", (q!(L, a.clone()) - q!(R, b.clone())).value);
                emit!("rem", (q!(L, a.clone()) % q!(R, b.clone())).value);
                emit!("adda", { let mut x = q!(L, a.clone()); x += q!(R, b.clone()); x.value });
                emit!("suba", { let mut x = q!(L, a.clone()); x -= q!(R, b.clone()); x.value });
                emit!("rema", { let mut x = q!(L, a.clone()); x %= q!(R, b.clone()); x.value });
                emit!("eq", q!(L, a.clone()) == q!(R, b.clone()));
                emit!("ne", q!(L, a.clone()) != q!(R, b.clone()));
                emit!("lt", q!(L, a.clone()) < q!(R, b.clone()));
                emit!("le", q!(L, a.clone()) <= q!(R, b.clone()));
                emit!("gt", q!(L, a.clone()) > q!(R, b.clone()));
                emit!("ge", q!(L, a.clone()) >= q!(R, b.clone()));
                emit!("pcmp", q!(L, a.clone()).partial_cmp(&q!(R, b.clone())));
            }
        }
    }};
}

/// temperature-kind quantities: no Add/Sub between two of them, but %, comparisons and TT±TI
macro_rules! mixed_temperature {
    ($cx:ident, $V:ty, $Ul:ident, $ul:expr, $Ur:ident, $ur:expr) => {{
        if $cx.take() {
            use uom::si::temperature_interval::TemperatureInterval as TI;
            use uom::si::thermodynamic_temperature::ThermodynamicTemperature as TT;
            type D = uom::si::thermodynamic_temperature::Dimension;
            let lp = join_enc(&base_pows::<D, $Ul<$V>, $V>());
            let rp = join_enc(&base_pows::<D, $Ur<$V>, $V>());
            let mut rng = $cx.rng(concat!(stringify!($V), "tt", $ul, $ur));
            for (a, b) in pairs::<$V>(&mut rng, $cx.n) {
                let head = format!("bin {} {{}} thermodynamic_temperature {} {} {} {} {} {}", <$V as Val>::NAME, $ul, $ur, lp, rp, a.enc(), b.enc());
                macro_rules! emit {
                    ($form:expr, $e:expr) => {
                        writeln!($cx.out, "{} {}", head.replace("{}", $form), enc_opt(&g(|| $e))).unwrap();
                    };
                }
                emit!("tt+ti", (q!(TT<$Ul<$V>, $V>, a.clone()) + q!(TI<$Ur<$V>, $V>, b.clone())).value);
                emit!("tt-ti", (q!(TT<$Ul<$V>, $V>, a.clone()) - q!(TI<$Ur<$V>, $V>, b.clone())).value);
                emit!("tt+=ti", { let mut x = q!(TT<$Ul<$V>, $V>, a.clone()); x += q!(TI<$Ur<$V>, $V>, b.clone()); x.value });
                emit!("tt-=ti", { let mut x = q!(TT<$Ul<$V>, $V>, a.clone()); x -= q!(TI<$Ur<$V>, $V>, b.clone()); x.value });
                emit!("ti+tt", (q!(TI<$Ul<$V>, $V>, a.clone()) + q!(TT<$Ur<$V>, $V>, b.clone())).value);
                emit!("rem", (q!(TT<$Ul<$V>, $V>, a.clone()) % q!(TT<$Ur<$V>, $V>, b.clone())).value);
                emit!("eq", q!(TT<$Ul<$V>, $V>, a.clone()) == q!(TT<$Ur<$V>, $V>, b.clone()));
                emit!("lt", q!(TT<$Ul<$V>, $V>, a.clone()) < q!(TT<$Ur<$V>, $V>, b.clone()));
                emit!("ge", q!(TT<$Ul<$V>, $V>, a.clone()) >= q!(TT<$Ur<$V>, $V>, b.clone()));
                emit!("pcmp", q!(TT<$Ul<$V>, $V>, a.clone()).partial_cmp(&q!(TT<$Ur<$V>, $V>, b.clone())));
            }
        }
    }};
}

macro_rules! mixed_muldiv {
    ($cx:ident, $V:ty, $ml:ident :: $Ql:ident, $mr:ident :: $Qr:ident, $Ul:ident, $ul:expr, $Ur:ident, $ur:expr) => {{
        if $cx.take() {
            type L = uom::si::$ml::$Ql<$Ul<$V>, $V>;
            type R = uom::si::$mr::$Qr<$Ur<$V>, $V>;
            type Dr = uom::si::$mr::Dimension;
            let lp = join_enc(&base_pows::<Dr, $Ul<$V>, $V>());
            let rp = join_enc(&base_pows::<Dr, $Ur<$V>, $V>());
            let mut rng = $cx.rng(concat!(stringify!($V), stringify!($ml), stringify!($mr), $ul, $ur));
            for (a, b) in pairs::<$V>(&mut rng, $cx.n) {
                let head = format!("bin {} {{}} {}.{} {} {} {} {} {} {}", <$V as Val>::NAME, stringify!($ml), stringify!($mr), $ul, $ur, lp, rp, a.enc(), b.enc());
                writeln!($cx.out, "{} {}", head.replace("{}", "mul"), enc_opt(&g(|| (q!(L, a.clone()) * q!(R, b.clone())).value))).unwrap();
                writeln!($cx.out, "{} {}", head.replace("{}", "div"), enc_opt(&g(|| (q!(L, a.clone()) / q!(R, b.clone())).value))).unwrap();
            }
        }
    }};
}

#[cfg(any(feature = "fl", feature = "fl-noauto"))]
macro_rules! mixed_float_only {
    ($cx:ident, $V:ty, $m:ident :: $Q:ident, $ma:ident :: $Qa:ident, $mb:ident :: $Qb:ident, $Ul:ident, $ul:expr, $Ur:ident, $ur:expr, $Ub:ident, $ub:expr) => {{
        if $cx.take() {
            // x: Q<Ul>, a: Qa<Ur>, b: Qb<Ub> with dim(Qb) = dim(Q)+dim(Qa)
            type X = uom::si::$m::$Q<$Ul<$V>, $V>;
            type A = uom::si::$ma::$Qa<$Ur<$V>, $V>;
            type B = uom::si::$mb::$Qb<$Ub<$V>, $V>;
            type Da = uom::si::$ma::Dimension;
            type Db = uom::si::$mb::Dimension;
            let lpa = join_enc(&base_pows::<Da, $Ul<$V>, $V>());
            let rpa = join_enc(&base_pows::<Da, $Ur<$V>, $V>());
            let lpb = join_enc(&base_pows::<Db, $Ul<$V>, $V>());
            let rpb = join_enc(&base_pows::<Db, $Ub<$V>, $V>());
            let mut rng = $cx.rng(concat!(stringify!($V), "mad", stringify!($m), $ul, $ur, $ub));
            for (i, (a, b)) in pairs::<$V>(&mut rng, $cx.n).into_iter().enumerate() {
                // every generator class for `x`; and, for each case, the cancelling addend −(x·a): there a
                // fused multiply-add returns the rounding error of the product, an unfused one returns 0
                let x = <$V as Val>::gen(&mut rng, i);
                for b in [b, -(x * a)] {
                    let r: Option<$V> = g(|| { let r: B2<$Ul<$V>, $V, Db> = q!(X, x).mul_add(q!(A, a), q!(B, b)); r.value });
                    writeln!($cx.out, "mad {} {} {} {} {} {} {} {} {} {} {} {} {}", <$V as Val>::NAME, stringify!($m), $ul, $ur, $ub,
                        lpa, rpa, lpb, rpb, x.enc(), a.enc(), b.enc(), enc_opt(&r)).unwrap();
                }
            }
            // hypot between two X in different base units
            type Xr = uom::si::$m::$Q<$Ur<$V>, $V>;
            type Dx = uom::si::$m::Dimension;
            let lp = join_enc(&base_pows::<Dx, $Ul<$V>, $V>());
            let rp = join_enc(&base_pows::<Dx, $Ur<$V>, $V>());
            for (a, b) in pairs::<$V>(&mut rng, $cx.n) {
                writeln!($cx.out, "bin {} hypot {} {} {} {} {} {} {} {}", <$V as Val>::NAME, stringify!($m), $ul, $ur, lp, rp, a.enc(), b.enc(),
                    enc_opt(&g(|| q!(X, a).hypot(q!(Xr, b)).value))).unwrap();
            }
        }
    }};
}
type B2<U, V, D> = Quantity<D, U, V>;

macro_rules! kind_from {
    ($cx:ident, $V:ty, $ms:ident :: $Qs:ident, $md:ident :: $Qd:ident, $Ul:ident, $ul:expr, $Ur:ident, $ur:expr) => {{
        if $cx.take() {
            // special-kind quantity $Qs and its default-kind twin $Qd, both directions; target in Ul, source in Ur
            type S_l = uom::si::$ms::$Qs<$Ul<$V>, $V>;
            type S_r = uom::si::$ms::$Qs<$Ur<$V>, $V>;
            type D_l = uom::si::$md::$Qd<$Ul<$V>, $V>;
            type D_r = uom::si::$md::$Qd<$Ur<$V>, $V>;
            type Dm = uom::si::$md::Dimension;
            let lp = join_enc(&base_pows::<Dm, $Ul<$V>, $V>());
            let rp = join_enc(&base_pows::<Dm, $Ur<$V>, $V>());
            let mut rng = $cx.rng(concat!(stringify!($V), "from", stringify!($ms), $ul, $ur));
            for (a, _b) in pairs::<$V>(&mut rng, $cx.n) {
                let r1: Option<$V> = g(|| { let t: D_l = q!(S_r, a.clone()).into(); t.value });
                writeln!($cx.out, "from {} {}->{} {} {} {} {} {} {}", <$V as Val>::NAME, stringify!($ms), stringify!($md), $ul, $ur, lp, rp, a.enc(), enc_opt(&r1)).unwrap();
                let r2: Option<$V> = g(|| { let t: S_l = S_l::from(q!(D_r, a.clone())); t.value });
                writeln!($cx.out, "from {} {}->{} {} {} {} {} {} {}", <$V as Val>::NAME, stringify!($md), stringify!($ms), $ul, $ur, lp, rp, a.enc(), enc_opt(&r2)).unwrap();
            }
        }
    }};
}

/// the same for a special-kind quantity that has no named default-kind twin: the default-kind type is
/// spelled as `Quantity<ISQ<…>, U, V>` (exponents in system order L M T I Th N J)
macro_rules! kind_from_isq {
    ($cx:ident, $V:ty, $ms:ident :: $Qs:ident, [$($e:ident),*], $Ul:ident, $ul:expr, $Ur:ident, $ur:expr) => {{
        if $cx.take() {
            use uom::typenum::*;
            type Dd = uom::si::ISQ<$($e),*>;
            type S_l = uom::si::$ms::$Qs<$Ul<$V>, $V>;
            type S_r = uom::si::$ms::$Qs<$Ur<$V>, $V>;
            type D_l = Quantity<Dd, $Ul<$V>, $V>;
            type D_r = Quantity<Dd, $Ur<$V>, $V>;
            let lp = join_enc(&base_pows::<Dd, $Ul<$V>, $V>());
            let rp = join_enc(&base_pows::<Dd, $Ur<$V>, $V>());
            let mut rng = $cx.rng(concat!(stringify!($V), "fromisq", stringify!($ms), $ul, $ur));
            for (a, _b) in pairs::<$V>(&mut rng, $cx.n) {
                let r1: Option<$V> = g(|| { let t: D_l = q!(S_r, a.clone()).into(); t.value });
                writeln!($cx.out, "from {} {}->isq {} {} {} {} {} {}", <$V as Val>::NAME, stringify!($ms), $ul, $ur, lp, rp, a.enc(), enc_opt(&r1)).unwrap();
                let r2: Option<$V> = g(|| { let t: S_l = S_l::from(q!(D_r, a.clone())); t.value });
                writeln!($cx.out, "from {} isq->{} {} {} {} {} {} {}", <$V as Val>::NAME, stringify!($ms), $ul, $ur, lp, rp, a.enc(), enc_opt(&r2)).unwrap();
            }
        }
    }};
}

macro_rules! mixed_all {
    ($cx:ident, $V:ty, $Ul:ident, $ul:expr, $Ur:ident, $ur:expr) => {
        mixed_same_dim!($cx, $V, length::Length, $Ul, $ul, $Ur, $ur);
        mixed_same_dim!($cx, $V, velocity::Velocity, $Ul, $ul, $Ur, $ur);
        mixed_same_dim!($cx, $V, energy::Energy, $Ul, $ul, $Ur, $ur);
        mixed_same_dim!($cx, $V, thermal_conductivity::ThermalConductivity, $Ul, $ul, $Ur, $ur);
        mixed_same_dim!($cx, $V, temperature_interval::TemperatureInterval, $Ul, $ul, $Ur, $ur);
        mixed_same_dim!($cx, $V, electric_potential::ElectricPotential, $Ul, $ul, $Ur, $ur);
        mixed_same_dim!($cx, $V, molar_energy::MolarEnergy, $Ul, $ul, $Ur, $ur);
        mixed_same_dim!($cx, $V, luminance::Luminance, $Ul, $ul, $Ur, $ur);
        mixed_same_dim!($cx, $V, angle::Angle, $Ul, $ul, $Ur, $ur);
        mixed_same_dim!($cx, $V, information_rate::InformationRate, $Ul, $ul, $Ur, $ur);
        mixed_same_dim!($cx, $V, surface_tension::SurfaceTension, $Ul, $ul, $Ur, $ur);
        mixed_temperature!($cx, $V, $Ul, $ul, $Ur, $ur);
        mixed_muldiv!($cx, $V, length::Length, time::Time, $Ul, $ul, $Ur, $ur);
        mixed_muldiv!($cx, $V, force::Force, length::Length, $Ul, $ul, $Ur, $ur);
        mixed_muldiv!($cx, $V, power::Power, thermal_conductivity::ThermalConductivity, $Ul, $ul, $Ur, $ur);
        mixed_muldiv!($cx, $V, electric_charge::ElectricCharge, electric_potential::ElectricPotential, $Ul, $ul, $Ur, $ur);
        mixed_muldiv!($cx, $V, thermodynamic_temperature::ThermodynamicTemperature, heat_capacity::HeatCapacity, $Ul, $ul, $Ur, $ur);
        mixed_muldiv!($cx, $V, amount_of_substance::AmountOfSubstance, molar_energy::MolarEnergy, $Ul, $ul, $Ur, $ur);
        mixed_muldiv!($cx, $V, ratio::Ratio, luminance::Luminance, $Ul, $ul, $Ur, $ur);
        kind_from!($cx, $V, angle::Angle, ratio::Ratio, $Ul, $ul, $Ur, $ur);
        kind_from!($cx, $V, solid_angle::SolidAngle, ratio::Ratio, $Ul, $ul, $Ur, $ur);
        kind_from!($cx, $V, information::Information, ratio::Ratio, $Ul, $ul, $Ur, $ur);
        kind_from!($cx, $V, surface_tension::SurfaceTension, radiant_exposure::RadiantExposure, $Ul, $ul, $Ur, $ur);
        kind_from!($cx, $V, kinematic_viscosity::KinematicViscosity, diffusion_coefficient::DiffusionCoefficient, $Ul, $ul, $Ur, $ur);
        kind_from!($cx, $V, mass_concentration::MassConcentration, mass_density::MassDensity, $Ul, $ul, $Ur, $ur);
        kind_from!($cx, $V, angular_velocity::AngularVelocity, frequency::Frequency, $Ul, $ul, $Ur, $ur);
        kind_from!($cx, $V, information_rate::InformationRate, frequency::Frequency, $Ul, $ul, $Ur, $ur);
        // constituent-concentration kinds with amount-of-substance / temperature exponents (no named twin)
        kind_from_isq!($cx, $V, molar_concentration::MolarConcentration, [N3, Z0, Z0, Z0, Z0, P1, Z0], $Ul, $ul, $Ur, $ur);
        kind_from_isq!($cx, $V, molality::Molality, [Z0, N1, Z0, Z0, Z0, P1, Z0], $Ul, $ul, $Ur, $ur);
        kind_from_isq!($cx, $V, catalytic_activity_concentration::CatalyticActivityConcentration, [N3, Z0, N1, Z0, Z0, P1, Z0], $Ul, $ul, $Ur, $ur);
    };
}

#[cfg(any(feature = "fl", feature = "fl-noauto"))]
macro_rules! mixed_float_all {
    ($cx:ident, $V:ty, $Ul:ident, $ul:expr, $Ur:ident, $ur:expr, $Ub:ident, $ub:expr) => {
        mixed_float_only!($cx, $V, length::Length, length::Length, area::Area, $Ul, $ul, $Ur, $ur, $Ub, $ub);
        mixed_float_only!($cx, $V, force::Force, length::Length, energy::Energy, $Ul, $ul, $Ur, $ur, $Ub, $ub);
        mixed_float_only!($cx, $V, velocity::Velocity, time::Time, length::Length, $Ul, $ul, $Ur, $ur, $Ub, $ub);
        mixed_float_only!($cx, $V, electric_current::ElectricCurrent, electrical_resistance::ElectricalResistance, electric_potential::ElectricPotential, $Ul, $ul, $Ur, $ur, $Ub, $ub);
    };
}

#[cfg(any(feature = "fl", feature = "fl-nostd"))]
macro_rules! mixed_pairs {
    ($m:ident, $cx:ident, $V:ty) => {
        $m!($cx, $V, Si, "si", Cgs, "cgs");
        $m!($cx, $V, Cgs, "cgs", Si, "si");
        $m!($cx, $V, Kgh, "kgh", Fpm, "fpm");
        $m!($cx, $V, Fpm, "fpm", Kgh, "kgh");
        $m!($cx, $V, Si, "si", Kgh, "kgh");
        $m!($cx, $V, Mmm, "mmm", Cgs, "cgs");
        $m!($cx, $V, OnlyTh, "onlyth", Si, "si");
    };
}

macro_rules! same_pairs {
    ($m:ident, $cx:ident, $V:ty) => {
        $m!($cx, $V, Si, "si", Si, "si");
        $m!($cx, $V, Cgs, "cgs", Cgs, "cgs");
        $m!($cx, $V, Kgh, "kgh", Kgh, "kgh");
        $m!($cx, $V, Fpm, "fpm", Fpm, "fpm");
    };
}

#[cfg(any(feature = "fl", feature = "fl-nostd"))]
fn mixed_f64<W: Write>(cx: &mut Cx<W>) {
    mixed_pairs!(mixed_all, cx, f64);
}
#[cfg(any(feature = "fl", feature = "fl-nostd"))]
fn mixed_f32<W: Write>(cx: &mut Cx<W>) {
    mixed_pairs!(mixed_all, cx, f32);
}
#[cfg(feature = "fl")]
fn mixed_float<W: Write>(cx: &mut Cx<W>) {
    mixed_float_all!(cx, f64, Si, "si", Cgs, "cgs", Kgh, "kgh");
    mixed_float_all!(cx, f64, Kgh, "kgh", Fpm, "fpm", Si, "si");
    mixed_float_all!(cx, f32, Cgs, "cgs", Si, "si", Fpm, "fpm");
    mixed_float_all!(cx, f64, Cgs, "cgs", Cgs, "cgs", Cgs, "cgs");
    mixed_float_all!(cx, f32, Si, "si", Si, "si", Si, "si");
}
#[cfg(feature = "wide")]
fn mixed_bigrational<W: Write>(cx: &mut Cx<W>) {
    mixed_pairs!(mixed_all, cx, num_rational::BigRational);
}
#[cfg(feature = "wide")]
fn mixed_bigint<W: Write>(cx: &mut Cx<W>) {
    type V = num_bigint::BigInt;
    mixed_all!(cx, V, Si, "si", Kgh, "kgh");
    mixed_all!(cx, V, Kgh, "kgh", Si, "si");
}

fn same_f64<W: Write>(cx: &mut Cx<W>) {
    same_pairs!(mixed_all, cx, f64);
}
fn same_f32<W: Write>(cx: &mut Cx<W>) {
    same_pairs!(mixed_all, cx, f32);
}
/// `mul_add` and `hypot` (std only) between operands sharing base units: compiles with and without autoconvert
#[cfg(any(feature = "fl", feature = "fl-noauto"))]
fn same_float<W: Write>(cx: &mut Cx<W>) {
    mixed_float_all!(cx, f64, Si, "si", Si, "si", Si, "si");
    mixed_float_all!(cx, f64, Cgs, "cgs", Cgs, "cgs", Cgs, "cgs");
    mixed_float_all!(cx, f32, Kgh, "kgh", Kgh, "kgh", Kgh, "kgh");
    mixed_float_all!(cx, f32, Fpm, "fpm", Fpm, "fpm", Fpm, "fpm");
}
#[cfg(not(any(feature = "fl", feature = "fl-noauto")))]
fn same_float<W: Write>(_cx: &mut Cx<W>) {}

fn main() {
    silence_panics();
    let stdout = std::io::stdout();
    let mut cx = Cx {
        out: std::io::BufWriter::with_capacity(1 << 20, stdout.lock()),
        seed: env_u64("VERIF_SEED", 1),
        n: env_u64("VERIF_N", if thorough() { 400 } else { 40 }) as usize,
        idx: 0,
        shard: shard(),
    };
    let which = std::env::args().nth(1).unwrap_or_else(|| "all".to_string());
    let all = which == "all";
    if all || which == "same" {
        same_f64(&mut cx);
        same_f32(&mut cx);
    }
    if all || which == "samefloat" {
        same_float(&mut cx);
    }
    #[cfg(any(feature = "fl", feature = "fl-nostd"))]
    if all || which == "mixed" {
        mixed_f64(&mut cx);
        mixed_f32(&mut cx);
    }
    #[cfg(feature = "fl")]
    if all || which == "mixed" || which == "float" {
        mixed_float(&mut cx);
    }
    #[cfg(feature = "wide")]
    if all || which == "mixed" || which == "exact" {
        mixed_bigrational(&mut cx);
        mixed_bigint(&mut cx);
    }
    cx.out.flush().unwrap();
}
