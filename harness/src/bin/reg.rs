//! reg: dump of the run-time registry and of the type-level conversion data of every SI unit, in the
//! canonical text form of `/verif/lean/DumpTable.lean`.
#![allow(non_camel_case_types)]
use std::any::type_name;
use std::io::Write;
use uom::si::Units;
use uom::ConstantOp;
use uomh::*;

fn last_seg(s: &str) -> &str {
    s.rsplit("::").next().unwrap_or(s)
}

macro_rules! reg_item {
    ($module:ident, $Q:ident, [$($unit:ident),*]) => {
        pub mod $module {
            use super::super::*;
            #[inline(never)]
            pub fn run<W: Write>(out: &mut W) {
                type D = uom::si::$module::Dimension;
                let kind = last_seg(type_name::<<D as uom::si::Dimension>::Kind>());
                let dims = dim_exps::<D>();
                writeln!(out, "quantity {} {} {} {} {}", stringify!($module), stringify!($Q), hex_str(uom::si::$module::description()),
                    kind, dims.iter().map(|d| d.to_string()).collect::<Vec<_>>().join(",")).unwrap();
                let conv: Vec<(&str, String)> = vec![$((stringify!($unit), {
                    type N = uom::si::$module::$unit;
                    format!("{} {} {} {} {} {}",
                        <N as uom::Conversion<f64>>::coefficient().hex(),
                        <N as uom::Conversion<f64>>::constant(ConstantOp::Add).hex(),
                        <N as uom::Conversion<f64>>::constant(ConstantOp::Sub).hex(),
                        <N as uom::Conversion<f32>>::coefficient().hex(),
                        <N as uom::Conversion<f32>>::constant(ConstantOp::Add).hex(),
                        <N as uom::Conversion<f32>>::constant(ConstantOp::Sub).hex())
                })),*];
                let registry: Vec<uom::si::$module::Units> = uom::si::$module::units().collect();
                if registry.len() != conv.len() {
                    writeln!(out, "mismatch {} registry={} declared={}", stringify!($module), registry.len(), conv.len()).unwrap();
                }
                for (i, u) in registry.iter().enumerate() {
                    let dbg = format!("{:?}", u);
                    let name = dbg.split('(').next().unwrap().to_string();
                    let (tname, c) = conv.get(i).cloned().unwrap_or(("?", "?".to_string()));
                    if tname != name {
                        writeln!(out, "mismatch {} index {} registry={} declared={}", stringify!($module), i, name, tname).unwrap();
                    }
                    writeln!(out, "unit {} {} {} {} {} {} {}", stringify!($module), i, name, hex_str(u.abbreviation()), hex_str(u.singular()),
                        hex_str(u.plural()), c).unwrap();
                }
            }
        }
    };
}

mod items {
    use uomh::for_each_quantity;
    for_each_quantity!(reg_item);
}

macro_rules! call_item {
    ($out:ident, $module:ident, $Q:ident, [$($unit:ident),*]) => {
        items::$module::run($out);
    };
}

fn main() {
    let stdout = std::io::stdout();
    let mut w = std::io::BufWriter::with_capacity(1 << 20, stdout.lock());
    let out = &mut w;
    for_each_quantity!(call_item, out);
    type U = uom::si::SI<f64>;
    writeln!(out, "base length {}", last_seg(type_name::<<U as Units<f64>>::length>())).unwrap();
    writeln!(out, "base mass {}", last_seg(type_name::<<U as Units<f64>>::mass>())).unwrap();
    writeln!(out, "base time {}", last_seg(type_name::<<U as Units<f64>>::time>())).unwrap();
    writeln!(out, "base electric_current {}", last_seg(type_name::<<U as Units<f64>>::electric_current>())).unwrap();
    writeln!(out, "base thermodynamic_temperature {}", last_seg(type_name::<<U as Units<f64>>::thermodynamic_temperature>())).unwrap();
    writeln!(out, "base amount_of_substance {}", last_seg(type_name::<<U as Units<f64>>::amount_of_substance>())).unwrap();
    writeln!(out, "base luminous_intensity {}", last_seg(type_name::<<U as Units<f64>>::luminous_intensity>())).unwrap();
    w.flush().unwrap();
}
