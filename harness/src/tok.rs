//! A self-describing token-level serde data format that hides nothing: every call of the serde data
//! model (including `newtype_struct`, `tuple_struct`, names and lengths) becomes a token, and the
//! deserializer records which `deserialize_*` method the type asked for before answering from tokens.
use serde::de::{self, DeserializeSeed, SeqAccess, Visitor};
use serde::ser::{self, Serialize};
use std::fmt;

#[derive(Clone, Debug, PartialEq)]
pub enum Tok {
    Bool(bool),
    I(i128),
    U(u128),
    F32(u32),
    F64(u64),
    Char(char),
    Str(String),
    Bytes(Vec<u8>),
    None,
    Some(Box<Tok>),
    Unit,
    UnitStruct(String),
    UnitVariant(String, String),
    Newtype(String, Box<Tok>),
    NewtypeVariant(String, String, Box<Tok>),
    Seq(Vec<Tok>),
    Tuple(Vec<Tok>),
    TupleStruct(String, Vec<Tok>),
    Map(Vec<(Tok, Tok)>),
    Struct(String, Vec<(String, Tok)>),
}

#[derive(Debug)]
pub struct Error(pub String);
impl fmt::Display for Error {
    fn fmt(&self, f: &mut fmt::Formatter) -> fmt::Result {
        f.write_str(&self.0)
    }
}
impl std::error::Error for Error {}
impl ser::Error for Error {
    fn custom<T: fmt::Display>(m: T) -> Self {
        Error(m.to_string())
    }
}
impl de::Error for Error {
    fn custom<T: fmt::Display>(m: T) -> Self {
        Error(m.to_string())
    }
}

pub fn to_tok<T: Serialize + ?Sized>(v: &T) -> Result<Tok, Error> {
    v.serialize(Ser)
}

pub struct Ser;
pub struct SerSeq(Vec<Tok>, u8, String);
pub struct SerMap(Vec<(Tok, Tok)>, Option<Tok>);
pub struct SerStruct(String, Vec<(String, Tok)>);

macro_rules! prim {
    ($($f:ident: $t:ty => $e:expr;)*) => {$(fn $f(self, v: $t) -> Result<Tok, Error> { let f = $e; Ok(f(v)) })*};
}

impl ser::Serializer for Ser {
    type Ok = Tok;
    type Error = Error;
    type SerializeSeq = SerSeq;
    type SerializeTuple = SerSeq;
    type SerializeTupleStruct = SerSeq;
    type SerializeTupleVariant = SerSeq;
    type SerializeMap = SerMap;
    type SerializeStruct = SerStruct;
    type SerializeStructVariant = SerStruct;
    prim! {
        serialize_bool: bool => Tok::Bool;
        serialize_i8: i8 => |v| Tok::I(v as i128); serialize_i16: i16 => |v| Tok::I(v as i128);
        serialize_i32: i32 => |v| Tok::I(v as i128); serialize_i64: i64 => |v| Tok::I(v as i128);
        serialize_i128: i128 => Tok::I;
        serialize_u8: u8 => |v| Tok::U(v as u128); serialize_u16: u16 => |v| Tok::U(v as u128);
        serialize_u32: u32 => |v| Tok::U(v as u128); serialize_u64: u64 => |v| Tok::U(v as u128);
        serialize_u128: u128 => Tok::U;
        serialize_f32: f32 => |v: f32| Tok::F32(v.to_bits()); serialize_f64: f64 => |v: f64| Tok::F64(v.to_bits());
        serialize_char: char => Tok::Char;
        serialize_str: &str => |v: &str| Tok::Str(v.to_string());
        serialize_bytes: &[u8] => |v: &[u8]| Tok::Bytes(v.to_vec());
    }
    fn serialize_none(self) -> Result<Tok, Error> {
        Ok(Tok::None)
    }
    fn serialize_some<T: Serialize + ?Sized>(self, v: &T) -> Result<Tok, Error> {
        Ok(Tok::Some(Box::new(to_tok(v)?)))
    }
    fn serialize_unit(self) -> Result<Tok, Error> {
        Ok(Tok::Unit)
    }
    fn serialize_unit_struct(self, n: &'static str) -> Result<Tok, Error> {
        Ok(Tok::UnitStruct(n.to_string()))
    }
    fn serialize_unit_variant(self, n: &'static str, _i: u32, v: &'static str) -> Result<Tok, Error> {
        Ok(Tok::UnitVariant(n.to_string(), v.to_string()))
    }
    fn serialize_newtype_struct<T: Serialize + ?Sized>(self, n: &'static str, v: &T) -> Result<Tok, Error> {
        Ok(Tok::Newtype(n.to_string(), Box::new(to_tok(v)?)))
    }
    fn serialize_newtype_variant<T: Serialize + ?Sized>(self, n: &'static str, _i: u32, var: &'static str, v: &T) -> Result<Tok, Error> {
        Ok(Tok::NewtypeVariant(n.to_string(), var.to_string(), Box::new(to_tok(v)?)))
    }
    fn serialize_seq(self, _len: Option<usize>) -> Result<SerSeq, Error> {
        Ok(SerSeq(Vec::new(), 0, String::new()))
    }
    fn serialize_tuple(self, _len: usize) -> Result<SerSeq, Error> {
        Ok(SerSeq(Vec::new(), 1, String::new()))
    }
    fn serialize_tuple_struct(self, n: &'static str, _len: usize) -> Result<SerSeq, Error> {
        Ok(SerSeq(Vec::new(), 2, n.to_string()))
    }
    fn serialize_tuple_variant(self, n: &'static str, _i: u32, v: &'static str, _len: usize) -> Result<SerSeq, Error> {
        Ok(SerSeq(Vec::new(), 2, format!("{}::{}", n, v)))
    }
    fn serialize_map(self, _len: Option<usize>) -> Result<SerMap, Error> {
        Ok(SerMap(Vec::new(), None))
    }
    fn serialize_struct(self, n: &'static str, _len: usize) -> Result<SerStruct, Error> {
        Ok(SerStruct(n.to_string(), Vec::new()))
    }
    fn serialize_struct_variant(self, n: &'static str, _i: u32, v: &'static str, _len: usize) -> Result<SerStruct, Error> {
        Ok(SerStruct(format!("{}::{}", n, v), Vec::new()))
    }
}

impl SerSeq {
    fn finish(self) -> Tok {
        match self.1 {
            0 => Tok::Seq(self.0),
            1 => Tok::Tuple(self.0),
            _ => Tok::TupleStruct(self.2, self.0),
        }
    }
}
macro_rules! seq_impl {
    ($tr:ident, $m:ident) => {
        impl ser::$tr for SerSeq {
            type Ok = Tok;
            type Error = Error;
            fn $m<T: Serialize + ?Sized>(&mut self, v: &T) -> Result<(), Error> {
                self.0.push(to_tok(v)?);
                Ok(())
            }
            fn end(self) -> Result<Tok, Error> {
                Ok(self.finish())
            }
        }
    };
}
seq_impl!(SerializeSeq, serialize_element);
seq_impl!(SerializeTuple, serialize_element);
seq_impl!(SerializeTupleStruct, serialize_field);
seq_impl!(SerializeTupleVariant, serialize_field);
impl ser::SerializeMap for SerMap {
    type Ok = Tok;
    type Error = Error;
    fn serialize_key<T: Serialize + ?Sized>(&mut self, k: &T) -> Result<(), Error> {
        self.1 = Some(to_tok(k)?);
        Ok(())
    }
    fn serialize_value<T: Serialize + ?Sized>(&mut self, v: &T) -> Result<(), Error> {
        let k = self.1.take().unwrap_or(Tok::Unit);
        self.0.push((k, to_tok(v)?));
        Ok(())
    }
    fn end(self) -> Result<Tok, Error> {
        Ok(Tok::Map(self.0))
    }
}
macro_rules! struct_impl {
    ($tr:ident) => {
        impl ser::$tr for SerStruct {
            type Ok = Tok;
            type Error = Error;
            fn serialize_field<T: Serialize + ?Sized>(&mut self, k: &'static str, v: &T) -> Result<(), Error> {
                self.1.push((k.to_string(), to_tok(v)?));
                Ok(())
            }
            fn end(self) -> Result<Tok, Error> {
                Ok(Tok::Struct(self.0, self.1))
            }
        }
    };
}
struct_impl!(SerializeStruct);
struct_impl!(SerializeStructVariant);

// ------------------------------------------------------------------------------------------------

/// deserializer over a token; `log` receives the name of every `deserialize_*` request, in order
pub struct De<'a> {
    pub tok: &'a Tok,
    pub log: &'a std::cell::RefCell<Vec<String>>,
}

pub fn from_tok<'de, T: de::Deserialize<'de>>(tok: &Tok) -> (Result<T, Error>, Vec<String>) {
    let log = std::cell::RefCell::new(Vec::new());
    let r = T::deserialize(De { tok, log: &log });
    (r, log.into_inner())
}

struct SeqDe<'a> {
    items: std::slice::Iter<'a, Tok>,
    log: &'a std::cell::RefCell<Vec<String>>,
}
impl<'de, 'a> SeqAccess<'de> for SeqDe<'a> {
    type Error = Error;
    fn next_element_seed<T: DeserializeSeed<'de>>(&mut self, seed: T) -> Result<Option<T::Value>, Error> {
        match self.items.next() {
            None => Ok(None),
            Some(t) => seed.deserialize(De { tok: t, log: self.log }).map(Some),
        }
    }
}

impl<'a> De<'a> {
    fn any<'de, V: Visitor<'de>>(self, v: V) -> Result<V::Value, Error> {
        match self.tok {
            Tok::Bool(b) => v.visit_bool(*b),
            Tok::I(i) => {
                if let Ok(x) = i64::try_from(*i) { v.visit_i64(x) } else { v.visit_i128(*i) }
            }
            Tok::U(u) => {
                if let Ok(x) = u64::try_from(*u) { v.visit_u64(x) } else { v.visit_u128(*u) }
            }
            Tok::F32(b) => v.visit_f32(f32::from_bits(*b)),
            Tok::F64(b) => v.visit_f64(f64::from_bits(*b)),
            Tok::Char(c) => v.visit_char(*c),
            Tok::Str(s) => v.visit_str(s),
            Tok::Bytes(b) => v.visit_bytes(b),
            Tok::None => v.visit_none(),
            Tok::Some(t) => v.visit_some(De { tok: t, log: self.log }),
            Tok::Unit | Tok::UnitStruct(_) => v.visit_unit(),
            Tok::Newtype(_, t) => v.visit_newtype_struct(De { tok: t, log: self.log }),
            Tok::Seq(xs) | Tok::Tuple(xs) | Tok::TupleStruct(_, xs) => v.visit_seq(SeqDe { items: xs.iter(), log: self.log }),
            _ => Err(Error("unsupported token".to_string())),
        }
    }
}

macro_rules! req {
    ($($f:ident)*) => {$(
        fn $f<V: Visitor<'de>>(self, v: V) -> Result<V::Value, Error> {
            self.log.borrow_mut().push(stringify!($f).to_string());
            self.any(v)
        }
    )*};
}

impl<'de, 'a> de::Deserializer<'de> for De<'a> {
    type Error = Error;
    req! { deserialize_any deserialize_bool deserialize_i8 deserialize_i16 deserialize_i32 deserialize_i64 deserialize_i128
           deserialize_u8 deserialize_u16 deserialize_u32 deserialize_u64 deserialize_u128 deserialize_f32 deserialize_f64
           deserialize_char deserialize_str deserialize_string deserialize_bytes deserialize_byte_buf deserialize_option
           deserialize_unit deserialize_seq deserialize_map deserialize_identifier deserialize_ignored_any }
    fn deserialize_unit_struct<V: Visitor<'de>>(self, n: &'static str, v: V) -> Result<V::Value, Error> {
        self.log.borrow_mut().push(format!("deserialize_unit_struct({})", n));
        self.any(v)
    }
    fn deserialize_newtype_struct<V: Visitor<'de>>(self, n: &'static str, v: V) -> Result<V::Value, Error> {
        self.log.borrow_mut().push(format!("deserialize_newtype_struct({})", n));
        match self.tok {
            Tok::Newtype(_, _) => self.any(v),
            _ => v.visit_newtype_struct(self),
        }
    }
    fn deserialize_tuple<V: Visitor<'de>>(self, len: usize, v: V) -> Result<V::Value, Error> {
        self.log.borrow_mut().push(format!("deserialize_tuple({})", len));
        self.any(v)
    }
    fn deserialize_tuple_struct<V: Visitor<'de>>(self, n: &'static str, len: usize, v: V) -> Result<V::Value, Error> {
        self.log.borrow_mut().push(format!("deserialize_tuple_struct({},{})", n, len));
        self.any(v)
    }
    fn deserialize_struct<V: Visitor<'de>>(self, n: &'static str, _f: &'static [&'static str], v: V) -> Result<V::Value, Error> {
        self.log.borrow_mut().push(format!("deserialize_struct({})", n));
        self.any(v)
    }
    fn deserialize_enum<V: Visitor<'de>>(self, n: &'static str, _vs: &'static [&'static str], v: V) -> Result<V::Value, Error> {
        self.log.borrow_mut().push(format!("deserialize_enum({})", n));
        self.any(v)
    }
}
