//! Correspondence harness for uom: calls the real crate in-process and prints one case per line in
//! the canonical text form read by the Lean driver (`/verif/lean/Driver.lean`).
#![allow(clippy::all)]
#![allow(non_camel_case_types)]

#[macro_use]
extern crate uom;

#[cfg(feature = "wide-types")]
pub mod tok;

pub mod gen {
    include!("gen/si_gen.rs");
}

use std::fmt::Write as _;
use uom::si::{Dimension, Units};
use uom::typenum::Integer;
use uom::{Conversion, ConversionFactor};

// ------------------------------------------------------------------------------------------------
// deterministic PRNG: every random choice derives from one SplitMix64 state

#[derive(Clone)]
pub struct Rng(pub u64);

impl Rng {
    pub fn new(seed: u64) -> Self {
        Rng(seed ^ 0x9E37_79B9_7F4A_7C15)
    }
    pub fn next(&mut self) -> u64 {
        self.0 = self.0.wrapping_add(0x9E37_79B9_7F4A_7C15);
        let mut z = self.0;
        z = (z ^ (z >> 30)).wrapping_mul(0xBF58_476D_1CE4_E5B9);
        z = (z ^ (z >> 27)).wrapping_mul(0x94D0_49BB_1331_11EB);
        z ^ (z >> 31)
    }
    pub fn below(&mut self, n: u64) -> u64 {
        self.next() % n
    }
    pub fn range_i(&mut self, lo: i64, hi: i64) -> i64 {
        lo + (self.next() % ((hi - lo + 1) as u64)) as i64
    }
    pub fn fork(&self, salt: u64) -> Rng {
        let mut r = Rng(self.0 ^ salt.wrapping_mul(0xD6E8_FEB8_6659_FD93));
        r.next();
        r
    }
}

pub fn hash_str(s: &str) -> u64 {
    let mut h: u64 = 0xcbf2_9ce4_8422_2325;
    for b in s.bytes() {
        h ^= b as u64;
        h = h.wrapping_mul(0x0000_0100_0000_01b3);
    }
    h
}

pub fn env_u64(name: &str, default: u64) -> u64 {
    std::env::var(name).ok().and_then(|s| s.parse().ok()).unwrap_or(default)
}

pub fn thorough() -> bool {
    std::env::var("VERIF_TIER").map(|t| t == "thorough").unwrap_or(false)
}

/// shard selection: `VERIF_SHARD=i/n` keeps the cases whose running index ≡ i (mod n)
pub fn shard() -> (u64, u64) {
    if let Ok(s) = std::env::var("VERIF_SHARD") {
        let mut it = s.split('/');
        let i = it.next().and_then(|x| x.parse().ok()).unwrap_or(0);
        let n = it.next().and_then(|x| x.parse().ok()).unwrap_or(1);
        (i, n)
    } else {
        (0, 1)
    }
}

// ------------------------------------------------------------------------------------------------
// float plumbing

pub trait Fl:
    Copy
    + PartialOrd
    + std::fmt::Debug
    + std::fmt::Display
    + uom::num::Float
    + Conversion<Self, T = Self>
    + ConversionFactor<Self>
    + 'static
{
    const NAME: &'static str;
    const MANT_BITS: u32;
    const EXP_BITS: u32;
    fn from_bits64(b: u64) -> Self;
    fn to_bits64(self) -> u64;
    /// canonical hex: every NaN becomes the positive quiet NaN
    fn hex(self) -> String;
}

impl Fl for f64 {
    const NAME: &'static str = "f64";
    const MANT_BITS: u32 = 52;
    const EXP_BITS: u32 = 11;
    fn from_bits64(b: u64) -> Self {
        f64::from_bits(b)
    }
    fn to_bits64(self) -> u64 {
        self.to_bits()
    }
    fn hex(self) -> String {
        if self.is_nan() {
            "7ff8000000000000".to_string()
        } else {
            format!("{:016x}", self.to_bits())
        }
    }
}

impl Fl for f32 {
    const NAME: &'static str = "f32";
    const MANT_BITS: u32 = 23;
    const EXP_BITS: u32 = 8;
    fn from_bits64(b: u64) -> Self {
        f32::from_bits(b as u32)
    }
    fn to_bits64(self) -> u64 {
        self.to_bits() as u64
    }
    fn hex(self) -> String {
        if self.is_nan() {
            "7fc00000".to_string()
        } else {
            format!("{:08x}", self.to_bits())
        }
    }
}

/// the value mixture of DESIGN §2.3: special values, neighbours, every-binade randoms
pub fn float_values<V: Fl>(rng: &mut Rng, n_random: usize, extra: &[V]) -> Vec<V> {
    let mb = V::MANT_BITS;
    let eb = V::EXP_BITS;
    let sign = 1u64 << (mb + eb);
    let emax = (1u64 << eb) - 1;
    let one = ((emax >> 1) << mb) as u64; // 1.0
    let mut v: Vec<u64> = vec![
        0,
        sign,
        one,
        one | sign,
        one + 1,
        one - 1,
        1,
        sign | 1,
        1u64 << mb,
        (emax << mb) - 1,
        sign | ((emax << mb) - 1),
        emax << mb,
        sign | (emax << mb),
        (emax << mb) | (1 << (mb - 1)),
    ];
    let mut out: Vec<V> = v.drain(..).map(V::from_bits64).collect();
    for k in [0.1f64, 0.5, 1.5, 2.5, -2.5, 3.0, 7.0, 10.0, 100.0, 1000.0, -273.15, 273.15, 459.67, 32.0, 1e-3, 1e6, 1e-9, 4503599627370497.0, 0.3] {
        out.push(V::from(k).unwrap());
    }
    out.extend_from_slice(extra);
    for i in 0..n_random {
        let r = rng.next();
        let bits = match i % 4 {
            // any binade
            0 => {
                let e = rng.below(emax);
                ((r & 1) * sign) | (e << mb) | (rng.next() & ((1 << mb) - 1))
            }
            // moderate magnitudes 2^-40 .. 2^40
            1 | 2 => {
                let e = (emax >> 1) as i64 + rng.range_i(-40, 40);
                ((r & 1) * sign) | ((e as u64) << mb) | (rng.next() & ((1 << mb) - 1))
            }
            // small integers and half-integers
            _ => {
                let k = rng.range_i(-2000, 2000) as f64 / 2.0;
                V::from(k).unwrap().to_bits64()
            }
        };
        out.push(V::from_bits64(bits));
    }
    out
}

// ------------------------------------------------------------------------------------------------
// base-unit catalogue, generic over the storage type

use uom::si::{
    amount_of_substance as aos, electric_current as ec, length as len, luminous_intensity as li, mass,
    thermodynamic_temperature as tt, time,
};

#[macro_export]
macro_rules! base_set {
    ($name:ident, $l:ident, $m:ident, $t:ident, $i:ident, $th:ident, $n:ident, $j:ident) => {
        pub type $name<V> = dyn uom::si::Units<
            V,
            length = uom::si::length::$l,
            mass = uom::si::mass::$m,
            time = uom::si::time::$t,
            electric_current = uom::si::electric_current::$i,
            thermodynamic_temperature = uom::si::thermodynamic_temperature::$th,
            amount_of_substance = uom::si::amount_of_substance::$n,
            luminous_intensity = uom::si::luminous_intensity::$j,
        >;
    };
}

base_set!(Si, meter, kilogram, second, ampere, kelvin, mole, candela);
base_set!(Cgs, centimeter, gram, second, ampere, kelvin, mole, candela);
base_set!(Kgh, kilometer, gram, hour, milliampere, millikelvin, kilomole, candela);
base_set!(Fpm, foot, pound, minute, ampere, degree_rankine, mole, candela);
base_set!(Mmm, millimeter, milligram, millisecond, microampere, kilokelvin, micromole, millicandela);
// identity with one change: isolates a single base position
base_set!(OnlyL, kilometer, kilogram, second, ampere, kelvin, mole, candela);
base_set!(OnlyT, meter, kilogram, minute, ampere, kelvin, mole, candela);
base_set!(OnlyTh, meter, kilogram, second, ampere, millikelvin, mole, candela);

pub const BASE_SETS: &[&str] = &["si", "cgs", "kgh", "fpm", "mmm", "onlyl", "onlyt", "onlyth"];

/// `Uᵢ::coefficient().powi(Dᵢ)` for the seven base quantities, in system order, computed through the
/// crate's own public `ConversionFactor::powi`
pub fn base_pows<D, U, V>() -> [V::T; 7]
where
    D: Dimension + ?Sized,
    U: Units<V> + ?Sized,
    V: Conversion<V>,
{
    [
        <U::length as Conversion<V>>::coefficient().powi(D::L::to_i32()),
        <U::mass as Conversion<V>>::coefficient().powi(D::M::to_i32()),
        <U::time as Conversion<V>>::coefficient().powi(D::T::to_i32()),
        <U::electric_current as Conversion<V>>::coefficient().powi(D::I::to_i32()),
        <U::thermodynamic_temperature as Conversion<V>>::coefficient().powi(D::Th::to_i32()),
        <U::amount_of_substance as Conversion<V>>::coefficient().powi(D::N::to_i32()),
        <U::luminous_intensity as Conversion<V>>::coefficient().powi(D::J::to_i32()),
    ]
}

pub fn base_coefs<U, V>() -> [V::T; 7]
where
    U: Units<V> + ?Sized,
    V: Conversion<V>,
{
    [
        <U::length as Conversion<V>>::coefficient(),
        <U::mass as Conversion<V>>::coefficient(),
        <U::time as Conversion<V>>::coefficient(),
        <U::electric_current as Conversion<V>>::coefficient(),
        <U::thermodynamic_temperature as Conversion<V>>::coefficient(),
        <U::amount_of_substance as Conversion<V>>::coefficient(),
        <U::luminous_intensity as Conversion<V>>::coefficient(),
    ]
}

pub fn dim_exps<D: Dimension + ?Sized>() -> [i32; 7] {
    [
        D::L::to_i32(),
        D::M::to_i32(),
        D::T::to_i32(),
        D::I::to_i32(),
        D::Th::to_i32(),
        D::N::to_i32(),
        D::J::to_i32(),
    ]
}

pub fn join_hex<V: Fl>(xs: &[V]) -> String {
    let mut s = String::new();
    for (i, x) in xs.iter().enumerate() {
        if i > 0 {
            s.push(':');
        }
        s.push_str(&x.hex());
    }
    s
}

pub fn hex_str(s: &str) -> String {
    let mut o = String::with_capacity(2 * s.len() + 1);
    o.push('x');
    for b in s.bytes() {
        write!(o, "{:02x}", b).unwrap();
    }
    o
}

/// run `f`, mapping a panic to `None` (the default panic message is silenced)
pub fn guarded<R>(f: impl FnOnce() -> R + std::panic::UnwindSafe) -> Option<R> {
    std::panic::catch_unwind(f).ok()
}

pub fn silence_panics() {
    std::panic::set_hook(Box::new(|_| {}));
}

// ------------------------------------------------------------------------------------------------
// storage-type plumbing shared by the exact / operator drivers

/// canonical text of a stored value or of a conversion factor
pub trait Enc {
    fn enc(&self) -> String;
}

impl Enc for f32 {
    fn enc(&self) -> String {
        Fl::hex(*self)
    }
}
impl Enc for f64 {
    fn enc(&self) -> String {
        Fl::hex(*self)
    }
}
impl Enc for bool {
    fn enc(&self) -> String {
        (if *self { "1" } else { "0" }).to_string()
    }
}
impl Enc for Option<std::cmp::Ordering> {
    fn enc(&self) -> String {
        match self {
            None => "none",
            Some(std::cmp::Ordering::Less) => "lt",
            Some(std::cmp::Ordering::Equal) => "eq",
            Some(std::cmp::Ordering::Greater) => "gt",
        }
        .to_string()
    }
}
impl Enc for std::cmp::Ordering {
    fn enc(&self) -> String {
        Some(*self).enc()
    }
}
impl Enc for std::num::FpCategory {
    fn enc(&self) -> String {
        format!("{:?}", self).to_lowercase()
    }
}

pub fn enc_opt<T: Enc>(x: &Option<T>) -> String {
    match x {
        Some(v) => v.enc(),
        None => "PANIC".to_string(),
    }
}

pub fn join_enc<T: Enc>(xs: &[T]) -> String {
    xs.iter().map(|x| x.enc()).collect::<Vec<_>>().join(":")
}

/// a storage type under test
pub trait Val: Clone + PartialEq + Enc + uom::num::Num + Conversion<Self> + std::panic::RefUnwindSafe + std::panic::UnwindSafe + 'static
where
    <Self as Conversion<Self>>::T: Enc,
{
    const NAME: &'static str;
    /// value mixture: `k` indexes a fixed list of special values first, then seeded randoms
    fn gen(rng: &mut Rng, k: usize) -> Self;
}

fn gen_float<V: Fl>(rng: &mut Rng, k: usize) -> V {
    let specials = float_values::<V>(&mut Rng::new(0), 0, &[]);
    if k < specials.len() {
        specials[k]
    } else {
        float_values::<V>(rng, 1 + (k % 4), &[]).pop().unwrap()
    }
}

impl Val for f32 {
    const NAME: &'static str = "f32";
    fn gen(rng: &mut Rng, k: usize) -> Self {
        gen_float::<f32>(rng, k)
    }
}
impl Val for f64 {
    const NAME: &'static str = "f64";
    fn gen(rng: &mut Rng, k: usize) -> Self {
        gen_float::<f64>(rng, k)
    }
}

#[cfg(feature = "wide-types")]
pub mod widev {
    use super::*;
    use num_bigint::{BigInt, BigUint};
    use num_rational::{BigRational, Ratio, Rational64};

    macro_rules! prim_int {
        ($($t:ident),*) => {$(
            impl Enc for $t {
                fn enc(&self) -> String { self.to_string() }
            }
            impl Enc for Ratio<$t> {
                fn enc(&self) -> String { format!("{}/{}", self.numer(), self.denom()) }
            }
            impl Val for $t {
                const NAME: &'static str = stringify!($t);
                fn gen(rng: &mut Rng, k: usize) -> Self {
                    let sp: [$t; 9] = [0, 1, 2, 7, 100, $t::MAX, $t::MAX - 1, $t::MIN, $t::MIN + 1];
                    if k < sp.len() { return sp[k]; }
                    match k % 3 {
                        0 => rng.next() as $t,
                        1 => (rng.next() % 2001) as i64 as $t,
                        _ => ((rng.next() % 2001) as i64 - 1000) as $t,
                    }
                }
            }
        )*};
    }
    prim_int!(i32, i64, u32, u64, isize);
    #[cfg(feature = "wide2-types")]
    prim_int!(u8, i8, u16, i16, u128, i128, usize);
    #[cfg(feature = "wide2-types")]
    impl Val for num_rational::Rational32 {
        const NAME: &'static str = "rational32";
        fn gen(rng: &mut Rng, k: usize) -> Self {
            let sp: [(i32, i32); 8] = [(0, 1), (1, 1), (-1, 1), (1, 2), (-7, 3), (1000, 1), (1, 1000), (355, 113)];
            if k < sp.len() {
                return num_rational::Rational32::new(sp[k].0, sp[k].1);
            }
            num_rational::Rational32::new((rng.next() % 2001) as i32 - 1000, (rng.next() % 999) as i32 + 1)
        }
    }
    #[cfg(feature = "wide2-types")]
    impl Val for num_rational::Rational {
        const NAME: &'static str = "rational";
        fn gen(rng: &mut Rng, k: usize) -> Self {
            let sp: [(isize, isize); 8] = [(0, 1), (1, 1), (-1, 1), (1, 2), (-7, 3), (1000, 1), (1, 1000), (355, 113)];
            if k < sp.len() {
                return num_rational::Rational::new(sp[k].0, sp[k].1);
            }
            num_rational::Rational::new((rng.next() % 2001) as isize - 1000, (rng.next() % 999) as isize + 1)
        }
    }

    impl Enc for BigInt {
        fn enc(&self) -> String {
            self.to_string()
        }
    }
    impl Enc for BigUint {
        fn enc(&self) -> String {
            self.to_string()
        }
    }
    impl Enc for Ratio<BigInt> {
        fn enc(&self) -> String {
            format!("{}/{}", self.numer(), self.denom())
        }
    }
    impl Enc for Ratio<BigUint> {
        fn enc(&self) -> String {
            format!("{}/{}", self.numer(), self.denom())
        }
    }

    fn big(rng: &mut Rng, k: usize) -> BigInt {
        let sp: [i64; 8] = [0, 1, -1, 2, 1000, -273, i64::MAX, i64::MIN];
        if k < sp.len() {
            return BigInt::from(sp[k]);
        }
        match k % 3 {
            0 => BigInt::from(rng.next() as i64) * BigInt::from(rng.next()) * BigInt::from(rng.next() | 1),
            1 => BigInt::from((rng.next() % 20001) as i64 - 10000),
            _ => BigInt::from(rng.next() as i64),
        }
    }

    impl Val for BigInt {
        const NAME: &'static str = "bigint";
        fn gen(rng: &mut Rng, k: usize) -> Self {
            big(rng, k)
        }
    }
    impl Val for BigUint {
        const NAME: &'static str = "biguint";
        fn gen(rng: &mut Rng, k: usize) -> Self {
            big(rng, k).magnitude().clone()
        }
    }
    impl Val for Rational64 {
        const NAME: &'static str = "rational64";
        fn gen(rng: &mut Rng, k: usize) -> Self {
            let sp: [(i64, i64); 8] = [(0, 1), (1, 1), (-1, 1), (1, 2), (-7, 3), (1000, 1), (1, 1000), (355, 113)];
            if k < sp.len() {
                return Rational64::new(sp[k].0, sp[k].1);
            }
            Rational64::new((rng.next() % 2001) as i64 - 1000, (rng.next() % 999) as i64 + 1)
        }
    }
    impl Val for BigRational {
        const NAME: &'static str = "bigrational";
        fn gen(rng: &mut Rng, k: usize) -> Self {
            let d = big(rng, k + 3).magnitude().clone() + BigUint::from(1u32);
            BigRational::new(big(rng, k), BigInt::from(d))
        }
    }
}
