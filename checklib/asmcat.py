"""C04: the optimised machine code of quantity-level functions against bare-number reference functions
generated from the Lean model's folded normal form."""
import os
import re
import shutil
import subprocess

from main import HARNESS, LEAN, VERIF, REPO, Problem, cargo_build, bin_path, log, sh, BASE_ENV

ASM = os.path.join(HARNESS, 'asm')

BASES = {
    'si': ('meter', 'kilogram', 'second', 'ampere', 'kelvin', 'mole', 'candela'),
    'cgs': ('centimeter', 'gram', 'second', 'ampere', 'kelvin', 'mole', 'candela'),
    'kgh': ('kilometer', 'gram', 'hour', 'milliampere', 'millikelvin', 'kilomole', 'candela'),
    'fpm': ('foot', 'pound', 'minute', 'ampere', 'degree_rankine', 'mole', 'candela'),
    'mmm': ('millimeter', 'milligram', 'millisecond', 'microampere', 'kilokelvin', 'micromole', 'millicandela'),
}
BQ = ('length', 'mass', 'time', 'electric_current', 'thermodynamic_temperature', 'amount_of_substance', 'luminous_intensity')

UNITS = [('length', 'Length', 'meter'), ('length', 'Length', 'kilometer'), ('length', 'Length', 'foot'),
         ('thermodynamic_temperature', 'ThermodynamicTemperature', 'kelvin'), ('thermodynamic_temperature', 'ThermodynamicTemperature', 'degree_celsius'),
         ('thermodynamic_temperature', 'ThermodynamicTemperature', 'degree_fahrenheit'), ('energy', 'Energy', 'joule'), ('energy', 'Energy', 'kilowatt_hour'),
         ('velocity', 'Velocity', 'kilometer_per_hour'), ('thermal_conductivity', 'ThermalConductivity', 'watt_per_meter_kelvin'),
         ('pressure', 'Pressure', 'psi'), ('time', 'Time', 'hour'), ('time', 'Time', 'second')]
COMBOS = [('f64', 'si'), ('f64', 'kgh'), ('f64', 'cgs'), ('f64', 'mmm'), ('f32', 'si'), ('f32', 'cgs'), ('f32', 'fpm')]
# (V, left base, right base, module, Quantity)
MIXED = [('f64', 'kgh', 'si', 'length', 'Length'), ('f64', 'si', 'kgh', 'length', 'Length'), ('f64', 'cgs', 'si', 'energy', 'Energy'),
         ('f32', 'fpm', 'si', 'velocity', 'Velocity'), ('f64', 'si', 'cgs', 'thermal_conductivity', 'ThermalConductivity'), ('f64', 'cgs', 'cgs', 'energy', 'Energy'),
         ('f64', 'kgh', 'kgh', 'length', 'Length'), ('f32', 'si', 'si', 'length', 'Length')]


def conv_heads(ctx):
    """(V, base, module, unit) -> (coef, consA, consS, pows) as published by the implementation"""
    if not cargo_build(ctx, 'fl', ['conv']):
        return None
    rc, out = sh(bin_path('conv', False, 'fl') + ' others', env={'VERIF_NRANDOM': '0', 'VERIF_LINES': 'conv'})
    heads = {}
    for l in out.splitlines():
        p = l.split(' ')
        if p[0] == 'conv':
            heads.setdefault((p[1], p[2], p[3], p[4]), (p[5], p[6], p[7], p[8]))
    return heads


def base_alias(b):
    return 'B_' + b


def generate(ctx):
    heads = conv_heads(ctx)
    if heads is None:
        return None
    spec = []
    cases = []   # (id, impl source, kind, args)
    for v, b in COMBOS:
        for m, q, u in UNITS:
            h = heads.get((v, b, m, u))
            if not h:
                continue
            coef, ca, cs, pows = h
            ident = '%s_%s_%s_%s' % (v, b, m, u)
            T = 'uom::si::%s::%s<%s<%s>, %s>' % (m, q, base_alias(b), v, v)
            N = 'uom::si::%s::%s' % (m, u)
            spec.append('new new_%s %s %s %s %s' % (ident, v, coef, ca, pows))
            cases.append(('new_' + ident, v, '(v: {V}) -> {V}', '<%s>::new::<%s>(v).value' % (T, N), 'unary'))
            spec.append('get get_%s %s %s %s %s' % (ident, v, coef, cs, pows))
            cases.append(('get_' + ident, v, '(v: {V}) -> {V}', 'q::<%s>(v).get::<%s>()' % (T, N), 'unary'))
    for v, lb, rb, m, q in MIXED:
        hl = heads.get((v, lb, m, [u for mm, qq, u in UNITS if mm == m][0]))
        hr = heads.get((v, rb, m, [u for mm, qq, u in UNITS if mm == m][0]))
        if not hl or not hr:
            continue
        ident = '%s_%s_%s_%s' % (v, lb, rb, m)
        spec.append('chg chg_%s %s %s %s' % (ident, v, hl[3], hr[3]))
        L = 'uom::si::%s::%s<%s<%s>, %s>' % (m, q, base_alias(lb), v, v)
        R = 'uom::si::%s::%s<%s<%s>, %s>' % (m, q, base_alias(rb), v, v)
        for op, sym in (('add', '+'), ('sub', '-'), ('mul', '*'), ('div', '/')):
            cases.append(('%s_%s' % (op, ident), v, '(a: {V}, v: {V}) -> {V}', '(q::<%s>(a) %s q::<%s>(v)).value' % (L, sym, R), ('bin', sym, 'chg_' + ident)))
        for op, sym in (('lt', '<'), ('eq', '=='), ('ge', '>=')):
            cases.append(('%s_%s' % (op, ident), v, '(a: {V}, v: {V}) -> bool', 'q::<%s>(a) %s q::<%s>(v)' % (L, sym, R), ('cmp', sym, 'chg_' + ident)))
        if lb == rb:
            cases.append(('neg_' + ident, v, '(v: {V}) -> {V}', '(-q::<%s>(v)).value' % L, ('neg',)))
            # by-value quantity arguments and result: the call ABI of the wrapper
            cases.append(('abi_' + ident, v, None, None, ('abi', L)))
    # fold in Lean
    p = subprocess.run('lake env lean --run FoldCat.lean', shell=True, cwd=LEAN, input='\n'.join(spec) + '\n', stdout=subprocess.PIPE, stderr=subprocess.PIPE, text=True, env=BASE_ENV)
    folded = {}
    for l in p.stdout.splitlines():
        if l.startswith('BAD') or not l.strip():
            ctx.problems.append(Problem('proof-broken', 'FoldCat.lean could not fold: ' + l))
            continue
        k, expr = l.split(' ', 1)
        folded[k] = expr
    if p.returncode != 0 or not folded:
        ctx.problems.append(Problem('proof-broken', 'FoldCat.lean failed', (p.stderr or p.stdout)[-1500:]))
        return None
    src = ['// GENERATED by checklib/asmcat.py — do not edit', '#![allow(non_camel_case_types, unused)]', 'use std::marker::PhantomData;',
           'use uom::si::{Dimension, Quantity, Units};', '']
    for b, us in BASES.items():
        src.append('pub type %s<V> = dyn Units<V, %s>;' % (base_alias(b), ', '.join('%s = uom::si::%s::%s' % (bq, bq, u) for bq, u in zip(BQ, us))))
    src.append('#[inline(always)] fn q<T: FromValue>(v: T::V) -> T { T::fv(v) }')
    src.append('pub trait FromValue { type V; fn fv(v: Self::V) -> Self; }')
    src.append('impl<D: Dimension + ?Sized, U: Units<V> + ?Sized, V: uom::num::Num + uom::Conversion<V>> FromValue for Quantity<D, U, V> { type V = V; '
               '#[inline(always)] fn fv(v: V) -> Self { Quantity { dimension: PhantomData, units: PhantomData, value: v } } }')
    pairs = []
    for ident, v, sig, impl, kind in cases:
        if kind == 'unary':
            ref = folded.get(ident)
            if ref is None:
                continue
        elif kind[0] == 'bin':
            ref = 'a %s (%s)' % (kind[1], folded[kind[2]])
        elif kind[0] == 'cmp':
            ref = 'a %s (%s)' % (kind[1], folded[kind[2]])
        elif kind[0] == 'neg':
            ref = '-v'
        elif kind[0] == 'abi':
            L = kind[1]
            src.append('#[no_mangle] pub fn impl_%s(a: %s, b: %s) -> %s { a + b }' % (ident, L, L, L))
            src.append('#[no_mangle] pub fn ref_%s(a: %s, b: %s) -> %s { a + b }' % (ident, v, v, v))
            pairs.append(ident)
            continue
        s = sig.replace('{V}', v)
        src.append('#[no_mangle] pub fn impl_%s%s { %s }' % (ident, s, impl))
        src.append('#[no_mangle] pub fn ref_%s%s { %s }' % (ident, s, ref))
        pairs.append(ident)
    os.makedirs(os.path.join(ASM, 'src'), exist_ok=True)
    content = '\n'.join(src) + '\n'
    path = os.path.join(ASM, 'src', 'lib.rs')
    try:
        same = open(path, encoding='utf-8').read() == content
    except OSError:
        same = False
    if not same:
        with open(path, 'w', encoding='utf-8') as f:
            f.write(content)
    shutil.copy(os.path.join(REPO, 'Cargo.lock'), os.path.join(ASM, 'Cargo.lock'))
    return pairs, folded


def parse_asm(text):
    """name -> normalised instruction list; constant-pool labels are replaced by their data"""
    consts = {}
    funcs = {}
    aliases = {}
    cur = None
    cur_const = None
    for line in text.splitlines():
        m = re.match(r'^([A-Za-z_.$][\w.$]*):', line)
        if m:
            name = m.group(1)
            if name.startswith('.LCPI'):
                cur_const = name
                consts[name] = []
                cur = None
            elif name.startswith('.L'):
                if cur is not None:
                    funcs[cur].append('LABEL')
            else:
                cur = name
                funcs[cur] = []
                cur_const = None
            continue
        m = re.match(r'^\s*\.set\s+(\w+),\s*(\w+)', line) or re.match(r'^\s*(\w+)\s*=\s*(\w+)\s*$', line)
        if m and not m.group(1).startswith('.'):
            aliases[m.group(1)] = m.group(2)
            continue
        st = line.strip()
        if not st:
            continue
        if st.startswith('.'):
            if cur_const is not None and re.match(r'\.(quad|long|byte|short|zero)', st):
                consts[cur_const].append(re.sub(r'\s+#.*', '', st))
            if st.startswith('.cfi_endproc') or st.startswith('.size'):
                cur = None
            if st.startswith('.section') or st.startswith('.text'):
                cur_const = None
            continue
        if cur is not None:
            funcs[cur].append(re.sub(r'\s+', ' ', re.sub(r'\s+#.*', '', st)))
    def norm(body):
        out = []
        for ins in body:
            ins = re.sub(r'\.LCPI\d+_\d+', lambda mm: 'CONST[' + ','.join(consts.get(mm.group(0), ['?'])) + ']', ins)
            ins = re.sub(r'\.LBB\d+_\d+', 'LBB', ins)
            out.append(ins)
        return out
    res = {k: norm(v) for k, v in funcs.items()}
    for a, b in aliases.items():
        if b in res:
            res[a] = res[b]
    return res


def build_and_compare(ctx, pairs):
    cmd = ['cargo', 'rustc', '--release', '--offline', '--lib', '--target-dir', os.path.join(HARNESS, 'target', 'asm'), '--', '--emit=asm']
    rc, out = sh(cmd, cwd=ASM, timeout=3600)
    if rc != 0:
        errs = [l for l in out.splitlines() if l.startswith('error')]
        ctx.problems.append(Problem('harness-broken', 'asm catalogue does not build: ' + '; '.join(errs[:3]), out[-3000:]))
        return None
    import glob
    files = sorted(glob.glob(os.path.join(HARNESS, 'target', 'asm', 'release', 'deps', 'asmcat-*.s')), key=os.path.getmtime)
    if not files:
        ctx.problems.append(Problem('harness-broken', 'no asm output'))
        return None
    funcs = parse_asm(open(files[-1], encoding='utf-8').read())
    results = []
    for ident in pairs:
        a = funcs.get('impl_' + ident)
        b = funcs.get('ref_' + ident)
        results.append((ident, a, b, a is not None and a == b))
    return results
