"""What MANIFEST.json claims, per property (edit here, then run `python3-vt tools_manifest.py`)."""
CHECKS = {
    'C03': dict(
        text="Lean 4 theorems about the hand-written soft-float model of to_base/from_base (bit-exact identity for every canonical float incl. -0.0/inf/NaN when coefficient = base factor; three-rounding formulas; accuracy under the standard model of rounding) tied to the code by a bit-exact correspondence run over every unit x f32/f64 x 9 base-unit sets, with the exact-rational error bound evaluated on the implementation's output",
        note="model is hand-written and tied by differential testing (bit-for-bit); powi is a parameter supplied by the implementation; accuracy bounds are checked per case by an exact-rational oracle",
        technique="Lean 4 proof over an executable soft-float model + bit-exact correspondence check"),
    'C16': dict(
        text="Lean 4 theorems (exact-arithmetic specification of rounding in a unit: read-back is exactly op(original), bracketing, trunc+fract, base-unit independence) + bit-exact correspondence of floor/ceil/round/trunc/fract against the soft-float model and an exact-rational oracle on the implementation's output",
        note="float instances are tied by differential testing; theorems are for exact storage (the specification the float results approximate within the C03 bounds)",
        technique="Lean 4 proof (exact specification) + bit-exact correspondence check"),
}
CHECKS.update({
    'C06': dict(
        text="Lean 4 theorems (exact storage, any number of base quantities, any exponents, any non-zero base coefficients): change_base preserves the physical magnitude, hence + − * / comparisons, mul_add, kind conversion and TT±TI compute the raw operation on the physical magnitudes; float change_base is b·R/L up to two roundings (theorem about the soft-float). Tied to the code by a bit-exact (floats) / exact (BigRational, BigInt) correspondence over mixed-base operand pairs with an exact-rational oracle on the implementation's output",
        note="operator bodies are hand-transcribed into the Lean operator table and tied by differential testing; powi is supplied by the implementation; hypot (libm) is a parameter",
        technique="Lean 4 proof (exact field identities + soft-float error bound) + correspondence check"),
    'C07': dict(
        text="Lean 4 theorems: same-base change_base is the bit-exact identity (floats: every canonical value incl. NaN/inf/-0.0; rationals; integers), every same-base binary form equals the raw operation, and by induction over the operation list any history leaves the quantity register equal to the bare-number register (instantiated for f32, f64, BigRational, BigInt, fixed-width integers). Correspondence: every same-base form and seeded histories on 11 storage types in default and non-default base units, quantity result compared with the bare-number operation and with the model's own arithmetic",
        note="the operator table is hand-transcribed and tied by differential testing; forwarded functions (min/max/saturating/abs/signum/sqrt/…) are parameters compared against the storage type's own function",
        technique="Lean 4 proof (identity lemmas + induction over histories) + correspondence check"),
    'C10': dict(
        text="Lean 4 theorems: all comparison forms are functions of one partial_cmp of the left value with the same converted right value (lt/le/gt/ge/eq/ne coherence, NaN unordered, reflexivity of non-NaN, mirror symmetry for floats and exact types, equal values hash equally); correspondence over all ten observables on 11 storage types same-base and on mixed-base float/exact pairs with the exact order of the physical magnitudes as oracle",
        note="comparison bodies are hand-transcribed; Ord::max/min/clamp/cmp are compared against the storage type's own functions",
        technique="Lean 4 proof (decision logic of the comparison table) + correspondence check"),
    'C15': dict(
        text="Lean 4 theorems over the impl_from! list regenerated from src/si/mod.rs on every run: a conversion between kinds exists iff exactly one side is the default kind and the other a non-temperature special kind (decide +kernel on the generated table); exponents untouched; magnitude preserved exactly (exact storage, any base units) and bit-identically (floats, identical base units). Correspondence over 9 special/default quantity pairs, both directions, same and different base units, f32/f64/BigRational/BigInt",
        note="the macro body (change_base over the target dimension) is hand-transcribed; the instance list is generated; negative programs are additionally type-checked by rustc under C02",
        technique="Lean 4 proof (kernel-decided table + field identities) + correspondence check"),
    'C17': dict(
        text="Lean 4 theorems: for operands sharing base units the autoconvert bodies equal the not_autoconvert bodies for every binary form, kind conversion and mul_add (from the same-base identity lemmas). Correspondence: one seeded transcript (same-base operator forms, construction/read-back/rounding) produced by the harness built under {autoconvert on,off}×{std on,off}; transcripts must be byte-identical, differences are violations unless listed (F8); the non-default configurations are also run through the Lean model",
        note="uom is rebuilt under four feature sets; the harness itself links std; rejection of mixed-base operands without autoconvert is a C02 probe",
        technique="Lean 4 proof (on/off operator tables agree) + four-configuration transcript comparison"),
})
CHECKS.update({
    'C08': dict(
        text="Lean 4 theorems: with rational storage both branches of to_base/from_base equal the conversion formula, construct-then-read and read-then-construct are the identity, two offset-free units differ by the ratio of their coefficients; with integer storage the result is the exact rational truncated toward zero (truncation characterised); big-type powi is the integer power. Exact correspondence for BigRational, BigInt, BigUint, Rational64, i32, i64, u32, u64, isize over 82 units × three base-unit sets, including the panic branch (division by a zero ratio, unsigned underflow)",
        note="published coefficients/constants/powers are inputs; fixed-width cases with possibly overflowing intermediates are counted but not judged",
        technique="Lean 4 proof (field identities over ℚ, truncation lemma) + exact correspondence check"),
    'C09': dict(
        text="Kernel-decided table obligations on the table regenerated from src/si every run (offsets exist only on °C (1, 273.15) and °F (5/9, 459.67) of thermodynamic_temperature; temperature_interval declares the same unit names with equal coefficients and no offset; dimensions/kinds) + Lean theorems for exact storage and any base factor: 0 °C = 273.15 K = 32 °F, point ± interval (same and mixed base units), interval linearity, offset applied exactly once. Correspondence: all 24+24 units bit-exact for f32/f64, exact types, TT±TI/TI+TT forms over same and mixed base sets",
        note="type-level exclusions (no TT+TT, no Neg) are C02 probes; float bounds as C03",
        technique="Lean 4 proof (decide +kernel on generated table + field identities) + correspondence check"),
    'C20': dict(
        category='proof',
        text="KNOWN FINDING F5: the property is false of the code. Lean 4 theorems give the exact shape of the defect (stored = real conversion of |z| with zero imaginary part, for every value), refute the full statement by a kernel-evaluated witness (3+4i), and prove the part that holds (non-negative reals). Correspondence: the implementation must match the defect model bit-for-bit; the property oracle fails exactly with the F5 signature, anything else is a new violation",
        note="Complex::norm (libm) is supplied by the harness; the finding is keyed by the call site in known_findings.json",
        technique="Lean 4 proof (defect characterisation + refutation witness) + correspondence check against the defect model"),
})
CHECKS.update({
    'C05': dict(
        text="Kernel-decided (decide +kernel) obligations on the table, prefix list and composition certificates regenerated from src/si on every run, lifted by a proved soundness lemma: every name-composable unit (2 219) has a reading of its identifier (prefixes, unit names, per/square/cubic/squared/cubed) with the quantity's dimension whose value reproduces the declared coefficient within 2^-50; the seven base units and every unit composed of un-prefixed base units have coefficient exactly 1 and no offset; every quantity has a coherent unit; 40 exactly defined anchors and 7 seven-digit anchors; f64/f32 coefficients within 2–8 ulps of the exact declaration; unit partition is complete. Correspondence: exhaustive diff of the run-time registry (order, names, labels, f32/f64 coefficient and constant bits, exponents, kinds) with the table. Known findings F6a/F6b",
        note="the derivation finder is trusted for completeness only (soundness is kernel-checked); anchor lists are hand-written oracles",
        technique="Lean 4 proof by kernel evaluation of regenerated table obligations + exhaustive registry correspondence"),
})
CHECKS.update({
    'C11': dict(
        text="Lean 4 theorems about the transcription of QuantityArguments::fmt and Debug for Quantity (output = storage type's formatting of the converted value, one space, label; abbreviation always / singular iff the converted value is one / plural otherwise; flags reach the output only through the value's formatter; Debug appends exactly one ` <abbr>^<exp>` per non-zero exponent in system order). Correspondence: real output compared with format!(spec, x) of the model-predicted converted value x (bit-exact against from_base) over a spec grid × styles × entry points × values × 7 storage/base combinations, every unit of every quantity, Debug in three base-unit sets",
        note="the theorems are thin (the property is the definition); the storage type's own formatting is the oracle's parameter; labels come from the regenerated table",
        technique="Lean 4 proof (thin) over a transcribed formatter + correspondence check against the storage type's own formatting"),
    'C12': dict(
        text="Lean 4 theorems about the transcription of FromStr: success iff ⟨number⟩ U+0020 ⟨registered label, blanks trimmed⟩ and then = new in that unit; error precedence no-separator > bad-number > unknown-unit (three iff theorems); total; format-then-parse round trip; kernel-decided per-quantity table obligations regenerated every run (a label never denotes two conversions under the first-match rule; no label begins/ends with White_Space). Correspondence: all 7 611 labels × number forms × mutations, foreign labels, random unicode strings, three base/storage combinations, format-then-parse oracle",
        note="V::from_str is a parameter; the White_Space set of str::trim is transcribed; one defect found and fixed (leading blank in a plural name)",
        technique="Lean 4 proof (decision logic of the parser + kernel-decided label tables) + correspondence check"),
})
CHECKS.update({
    'C13': dict(
        text="Lean 4 theorems, parametric in any data format (ser : V → Tok, de : Tok → Option V): a quantity serializes to what its stored value serializes to, deserializes/rejects exactly as the storage type does, and round-trips whenever the storage type does; dimension and base units are phantom. Correspondence: 11 storage types × 5 quantities/base sets × JSON text and the serde_json::Value tree format, serialization and deserialization (accept/reject/value) compared with the storage type's own",
        note="thin theorems over a transcription of the two serde impls; two concrete formats stand for 'every data format'",
        technique="Lean 4 proof (parametric, thin) + correspondence check against the storage type's own (de)serialization"),
    'C14': dict(
        text="Lean 4 theorems about the transcription of both TryFrom impls: NegativeDuration iff strictly negative (−0.0 and NaN are not; floats and integers), NaN/inf give Overflow, Duration::new's carry cannot overflow for any float below 2^64; F10 proved as a theorem (integer storage, base unit longer than a second: always panics); the full accuracy statement is REFUTED by a kernel-evaluated witness (F4: 5 s in minute base → 5.999999999 s). Correspondence: bit-exact against the model over f32/f64 × five time base units and i32/i64/u32/u64 × three, with classification and accuracy oracles; known findings F4, F10, F11",
        note="accuracy holds (and is checked by the oracle) when the time base unit is the second; Duration::new and num-traits casts are transcribed",
        technique="Lean 4 proof (classification theorems, refutation witness) + bit-exact correspondence check"),
    'C18': dict(
        text="Lean 4 theorems: trig/hyperbolic functions are the storage type's function of to_base(x) with base factor 1 (angle, ratio, solid angle are dimensionless: kernel-checked on the regenerated table); inverse functions/exp/log/atan2 re-wrap with radian/ratio whose float coefficient is exactly 1.0 (kernel-evaluated), hence bit-identical results for every canonical value; the constants HALF_TURN = π rad = 180° = ½ r, FULL_TURN = 1 r = 360°, SPHERE = 4π sr = 1 sp are closed soft-float computations evaluated by the kernel for f32 and f64. Correspondence: every function × every angle/ratio unit × edge values, atan2 on like quantities in five base sets, constant read-backs",
        note="libm functions are parameters (oracle: bit-equality with the storage type's function of the stored value)",
        technique="Lean 4 proof (kernel-evaluated constants and identity units + forwarding) + correspondence check"),
})
CHECKS.update({
    'C01': dict(
        text="Lean 4 theorems for any number of base quantities and any integer exponents: *, /, recip, powi, mul_add give exactly sum, difference, negation, product (default kind); sqrt/cbrt are defined iff every exponent is divisible and then give the exact quotient; scalar-on-the-left forms keep the kind; additive/scaling/rounding/sign forms return the left operand's type; a result is the named default-kind quantity of its dimension (interchangeable); 40 textbook identities kernel-decided on the table regenerated from src/si. Correspondence: the real result types read back at run time (to_i32 of each exponent, type_name of the kind) for 600 (thorough: 13 225) pairs × {*, /, mul_add}, every unary/preserving form on all 115 quantities, synthetic vectors with distinct exponents and special kinds; every admissible `let _: C = a*b` binding is type-checked by rustc",
        note="the type-level templates are hand-transcribed (typenum modelled by Int); rustc's trait solver and typenum are the implementation under test",
        technique="Lean 4 proof (integer exponent algebra + kernel-decided identities) + run-time read-back of real result types"),
    'C02': dict(
        text="Lean 4 theorems about the acceptance relation transcribed from the impl headers, marker bounds, explicit temperature impls and the regenerated impl_from!/kind tables: additive forms iff same type with the marker or the TT±TI / TI+TT impls; comparison/ordering/binding/hypot/atan2 iff identical types; foreign units rejected; roots iff divisible; conversions iff reflexive or an impl_from! instance; kernel-decided on the SI: TT+TT, TT−TT, −TT, TI−TT rejected, only the temperature kind lacks Add, all 115×115 quantity pairs of different class rejected for every symmetric form. Correspondence: rustc's verdict on ~9 400 generated probe functions (16 forms × class pairs, positive controls, same-type-other-module pairs) compared with the relation; 9 mixed-base programs under autoconvert on/off",
        note="rustc is the implementation under test; each negative probe sits next to positive controls generated from the same template",
        technique="Lean 4 proof (decision logic stated outright, kernel-decided on generated tables) + rustc probe correspondence"),
})
CHECKS.update({
    'C19': dict(
        text="The algebraic theorems of C01, C03, C06, C08, C11, C12 quantify over any number of base quantities, exponent vector, coefficient, offset, base factor and label table, so they cover whatever the macros are instantiated with (re-exported at arity 4); kernel-decided obligations on the table regenerated from the harness's own system!/quantity!/unit! invocations (labels functional and trim-stable, base units exactly 1, dimension identities, offsets only where declared). Correspondence: the same line protocol and Lean handlers as for the SI run on a harness-declared 4-base system (fractional, large, tiny and offset coefficients; default, non-identity f64 and f32 base tuples), on units added to SI quantities with unit! (incl. absence from registry/parsing) and on ISQ! aliases over six base-unit tuples; the user system's registry is diffed exhaustively with the generated table",
        note="the macro bodies are the same code the SI instantiates; what is new here is the instantiation, which the translator reads from the harness source",
        technique="Lean 4 proof (system-generic theorems + kernel-decided generated table) + correspondence check on a macro-declared system"),
})
CHECKS.update({
    'C04': dict(
        text="PARTIAL. Lean 4 proves what makes the zero-cost claim legal: the layout description regenerated from struct Quantity (repr(transparent), one non-PhantomData field value: V; conversion kernel inline(always)) and that the folded normal forms compute exactly what to_base/from_base/change_base compute for every canonical value (v + (−0.0) vanishes, identity in the own base unit, one folded constant per branch, same-base change_base is the identity). That the optimiser performs the folding, and the call ABI, are shown only by the correspondence: 244 pairs (quantity-level function, bare-number reference generated from the Lean fold with bit-pattern constants) compiled with --release --emit=asm and compared instruction by instruction; size/align assertions and 14 trait capabilities × 13 storage types compared between the quantity and its storage type with rustc",
        note="LLVM code generation and the platform ABI cannot be expressed in the Lean model; x86-64 release profile of the installed toolchain only",
        technique="Lean 4 proof (fold legality + generated layout description) + machine-code equality against model-generated references"),
})
NOT_APPLICABLE = {}
