"""What MANIFEST.json claims, per property (edit here, then run `python3-vt tools_manifest.py`)."""
CHECKS = {
    'C03': dict(
        text="Lean 4 theorems about the hand-written soft-float model of to_base/from_base (bit-exact identity for every canonical float incl. -0.0/inf/NaN when coefficient = base factor; three-rounding formulas; accuracy under the standard model of rounding) tied to the code by a bit-exact correspondence run over every unit x f32/f64 x 9 base-unit sets, with the exact-rational error bound evaluated on the implementation's output",
        note="model is hand-written and tied by differential testing (bit-for-bit); powi is a parameter supplied by the implementation; accuracy bounds are checked per case by an exact-rational oracle",
        technique="Lean 4 proof over an executable soft-float model + bit-exact correspondence check"),
    'C16': dict(
        text="Lean 4 theorems (exact-arithmetic specification of rounding in a unit: read-back is exactly op(original), bracketing, trunc+fract, base-unit independence) + bit-exact correspondence of floor/ceil/round/trunc/fract against the soft-float model and an exact-rational oracle on the implementation's output",
        note="float instances are tied by differential testing; theorems are for exact storage (the specification the float results approximate within the C03 bounds)",
        technique="Lean 4 proof (exact specification) + bit-exact correspondence check"),
}
NOT_APPLICABLE = {}
