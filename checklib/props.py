"""Per-property check specifications (what to build, what to run, how to search)."""
import json
import os
import re
import time

from main import (HARNESS, LEAN, REPO, VERIF, NCPU, Problem, absorb, bin_path, cargo_build, log, pipe, sh, load_table)

SPECS = {}


def spec(pid, **kw):
    SPECS[pid] = kw
    return kw


def std_pipe(ctx, name, features, binname, args='', env=None, shards=None, tier=None, seed=None, release=False):
    if not cargo_build(ctx, features, [binname], release=release):
        return None
    res = pipe(ctx, name, (bin_path(binname, release) + ' ' + args).strip(), env=env, shards=shards, tier=tier, seed=seed)
    absorb(ctx, res, name)
    return res


def search_with(run_fn, seeds=(7, 11, 13)):
    """generic failing-input search: re-run the correspondence at the thorough budget under other seeds,
    keeping only oracle failures (the model's prediction is ignored)"""

    def go(ctx):
        t0 = time.time()
        before = len(ctx.problems)
        for s in seeds:
            if time.time() - t0 > 600:
                break
            sub_problems = ctx.problems
            ctx.problems = []
            try:
                run_fn(ctx, tier='thorough', seed=s)
            finally:
                found = [p for p in ctx.problems if p.failing_input]
                ctx.problems = sub_problems + found
            if found:
                break
        log('search: %d new failing inputs' % (len(ctx.problems) - before))

    return go


# ------------------------------------------------------------------------------------------------
# C03 / C16: conversion fidelity for floats, rounding in a unit


def run_c03(ctx, tier=None, seed=None):
    env = {'VERIF_LINES': 'conv'}
    std_pipe(ctx, 'conv-si', 'fl', 'conv', 'si', env=env, tier=tier, seed=seed)
    std_pipe(ctx, 'conv-bases', 'fl', 'conv', 'others', env=env, tier=tier, seed=seed)


spec('C03',
     run=run_c03,
     search=search_with(run_c03),
     rule='every unit of every SI quantity × {f32,f64} in default base units, 30 quantities × 8 base-unit sets; values: '
          'specials (±0, ±1, 1±ulp, subnormal, max, ±inf, NaN), neighbours of coefficient/offset, seeded per-binade randoms; '
          'a case is non-trivial when the value is finite non-zero and coefficient, base factor or offset is not the identity; '
          'distinct = distinct case lines (hash set in the driver)',
     trusted_base=['powi results are taken from the implementation (ConversionFactor::powi) and fed to the model: powi is a parameter'],
     assumptions=['oracle bounds apply only when every intermediate of the taken branch is a normal number or an exact zero (the property’s own guard)'])


def run_c16(ctx, tier=None, seed=None):
    env = {'VERIF_LINES': 'rnd'}
    std_pipe(ctx, 'rnd-bases', 'fl', 'conv', 'others', env=env, tier=tier, seed=seed)


spec('C16',
     run=run_c16,
     search=search_with(run_c16),
     rule='floor/ceil/round/trunc/fract in 140 units of 30 quantities (incl. both offset temperature scales) × {f32,f64} × 9 base-unit sets; '
          'values as for C03 plus half-integers; non-trivial as for C03',
     trusted_base=['powi results are taken from the implementation'],
     assumptions=['oracle applies when no intermediate over/underflows'])


def replay(ctx, spec_, path):
    with open(path, encoding='utf-8') as f:
        body = json.load(f)
    n = 0
    for p in body.get('problems', []):
        if p.get('cmd') and p.get('line'):
            line = p['line'].split(' :: ', 1)[-1]
            key = ' '.join(line.split(' ')[:10])
            rc, out = sh('cd %s && %s | grep -F -- %s | %s' % (HARNESS, p['cmd'], json.dumps(key), os.path.join(LEAN, '.lake/build/bin/driver')))
            print(out)
            n += 1
            if n >= 5:
                break
    return 0
