"""Per-property check specifications (what to build, what to run, how to search)."""
import json
import os
import re
import time

from main import (HARNESS, LEAN, REPO, VERIF, NCPU, Problem, absorb, bin_path, cargo_build, log, pipe, sh, load_table)

SPECS = {}


def spec(pid, **kw):
    SPECS[pid] = kw
    return kw


def std_pipe(ctx, name, features, binname, args='', env=None, shards=None, tier=None, seed=None, release=False, only=None):
    """build the harness binary against /repo, run it (sharded) into the Lean driver; `only` is an
    extended regex selecting the case lines that belong to the property being checked"""
    if not cargo_build(ctx, features, [binname], release=release):
        return None
    cmd = (bin_path(binname, release, features) + ' ' + args).strip()
    if only:
        cmd += " | { grep -E '%s' || true; }" % only
    res = pipe(ctx, name, cmd, env=env, shards=shards, tier=tier, seed=seed)
    absorb(ctx, res, name)
    return res


def deep(ctx, tier, **kv):
    """extra budget for the thorough tier: the quick tier keeps the harness defaults"""
    return {k: str(v) for k, v in kv.items()} if (tier or ctx.tier) == 'thorough' else {}


def search_with(run_fn, seeds=(7, 11, 13)):
    """generic failing-input search: re-run the correspondence at the thorough budget under other seeds,
    keeping only oracle failures (the model's prediction is ignored)"""

    def go(ctx):
        t0 = time.time()
        before = len(ctx.problems)
        for s in seeds:
            if time.time() - t0 > 600:
                break
            sub_problems = ctx.problems
            ctx.problems = []
            try:
                run_fn(ctx, tier='thorough', seed=s)
            finally:
                found = [p for p in ctx.problems if p.failing_input]
                ctx.problems = sub_problems + found
            if found:
                break
        log('search: %d new failing inputs' % (len(ctx.problems) - before))

    return go


# ------------------------------------------------------------------------------------------------
# C03 / C16: conversion fidelity for floats, rounding in a unit


def run_c03(ctx, tier=None, seed=None):
    env = {'VERIF_LINES': 'conv'}
    std_pipe(ctx, 'conv-si', 'fl,allsi', 'conv', 'si', env=env, tier=tier, seed=seed)
    std_pipe(ctx, 'conv-bases', 'fl', 'conv', 'others', env=env, tier=tier, seed=seed)
    if (tier or ctx.tier) == 'thorough':
        # exhaustive: all 2^32 f32 bit patterns for a rotating subset of (base set, unit) pairs; the
        # harness filters with an f64 re-computation and sends flagged + 1/2^14 sampled patterns to the driver
        std_pipe(ctx, 'sweep32', 'fl', 'sweep', '', env={'VERIF_SWEEP_UNITS': os.environ.get('VERIF_SWEEP_UNITS', '24')},
                 tier=tier, seed=seed, release=True)
        # optimisation level is a configuration too (constant folding of intrinsics, `cfg!(debug_assertions)`): the
        # non-default base-unit lines once more from an optimised build
        std_pipe(ctx, 'conv-bases-release', 'fl', 'conv', 'others', env=env, tier=tier, seed=seed, release=True)


spec('C03',
     run=run_c03,
     search=search_with(run_c03),
     rule='every unit of every SI quantity × {f32,f64} in default base units, 30 quantities × 8 base-unit sets; values: '
          'specials (±0, ±1, 1±ulp, subnormal, max, ±inf, NaN), neighbours of coefficient/offset, seeded per-binade randoms; '
          'a case is non-trivial when the value is finite non-zero and coefficient, base factor or offset is not the identity; '
          'distinct = distinct case lines (hash set in the driver)',
     trusted_base=['the seven powi results of a line are taken from the implementation and fed to the model; separate `pow` lines check each of them '
                   'bit-exactly against the model of exponentiation by squaring (Conv.flPowi) and against the exact rational power',
                   'thorough tier, exhaustive f32 sweep: the in-harness f64 filter is a search aid; it is trusted not to hide a deviation beyond 85% of the '
                   'tolerance (its own error is ~2^-51 relative); every flagged pattern and a systematic 1/16384 sample are judged by the Lean driver'],
     assumptions=['oracle bounds apply only when every intermediate of the taken branch is a normal number or an exact zero (the property’s own guard)'])


def run_c16(ctx, tier=None, seed=None):
    env = {'VERIF_LINES': 'rnd'}
    env.update(deep(ctx, tier, VERIF_NRANDOM=512))
    std_pipe(ctx, 'rnd-bases', 'fl', 'conv', 'others', env=env, tier=tier, seed=seed)
    pow_lines(ctx, tier=tier, seed=seed, exact=False)
    if (tier or ctx.tier) == 'thorough':
        std_pipe(ctx, 'rnd-bases-release', 'fl', 'conv', 'others', env=env, tier=tier, seed=seed, release=True)


spec('C16',
     run=run_c16,
     search=search_with(run_c16),
     rule='floor/ceil/round/trunc/fract in 140 units of 30 quantities (incl. both offset temperature scales) × {f32,f64} × 9 base-unit sets; '
          'values as for C03 plus half-integers; non-trivial as for C03',
     trusted_base=['the powi factors of a line are taken from the implementation; `pow`/`xpow` lines check every factor against the model and the exact power'],
     assumptions=['oracle applies when no intermediate over/underflows'])


# ------------------------------------------------------------------------------------------------
# operator properties

CMP_FORMS = 'eq|ne|lt|le|gt|ge|pcmp|cmp|ordmax|ordmin|clamp:[^ ]*'


def pow_lines(ctx, tier=None, seed=None, exact=True):
    """the factors of every base-unit combination (`coef.powi(exponent)`, which the other lines take from the
    implementation) against the model of exponentiation by squaring and the exact rational power"""
    std_pipe(ctx, 'base-factors', 'fl', 'conv', 'others', env={'VERIF_LINES': 'conv'}, tier=tier, seed=seed, only='^pow ', shards=1)
    if exact:
        std_pipe(ctx, 'base-factors-exact', 'wide', 'convx', 'exact', tier=tier, seed=seed, only='^xpow ', shards=1)


def run_c06(ctx, tier=None, seed=None):
    # mixed-base operand pairs only (ul != ur): floats, BigRational, BigInt
    only = r'^(bin|mad|from) '
    std_pipe(ctx, 'ops-mixed', 'wide', 'ops', 'mixed', tier=tier, seed=seed, only=only)
    pow_lines(ctx, tier=tier, seed=seed)


spec('C06', run=run_c06, search=search_with(run_c06),
     rule='7 ordered pairs of base-unit sets (si,cgs,kgh,fpm,mmm,onlyth) × 11 same-dimension quantities (incl. angle/information/surface-tension kinds, '
          'TT±TI) × 13 forms, 7 mul/div dimension pairs, mul_add and hypot over three base sets, 9 kind-conversion pairs; f32, f64 (bit-exact vs model, '
          'exact-rational oracle), BigRational and BigInt (exact); non-trivial = base sets differ or operands differ',
     trusted_base=['the powi factors of a line are taken from the implementation; `pow`/`xpow` lines check every factor against the model and the exact power', 'hypot is a libm parameter: only the oracle applies'],
     assumptions=['float oracles apply only when change_base stays in the normal range; remainder has no accuracy oracle (discontinuous)'])


def run_c07(ctx, tier=None, seed=None):
    not_cmp = r'^(b2|sc|un|sum|zero) \S+ (?!(%s) )' % CMP_FORMS
    # grep -E has no look-ahead: select by listing the non-comparison forms instead
    forms = 'add|sub|rem|mul|div|adda|suba|rema|mulk|divk|kmul|kdiv|mulka|divka|is_zero|neg|abs|signum|satadd|satsub|fmax|fmin|hypot|atan2|recip|sqrt|cbrt|powi2|powi-3|classify|is_nan|is_infinite|is_finite|is_normal|is_sign_positive|is_sign_negative|mul_add:[^ ]*'
    only = r'^((b2|sc|un) [^ ]+ (%s) |sum |zero )' % forms
    std_pipe(ctx, 'hist-all-types', 'wide', 'hist', '', tier=tier, seed=seed, only=only)
    std_pipe(ctx, 'ops-same-base', 'fl', 'ops', 'same', tier=tier, seed=seed, only=r'^bin [^ ]+ (add|sub|rem|adda|suba|rema|mul|div|tt[^ ]*|ti[^ ]*) ')
    # the operator impls have feature-gated twins: the same cases again without autoconvert
    std_pipe(ctx, 'hist-all-types-noauto', 'wide-noauto', 'hist', '', tier=tier, seed=seed, only=only)
    if (tier or ctx.tier) == 'thorough':
        # the remaining storage types of the crate (u8 i8 u16 i16 u128 i128 usize rational32 rational): a fifth harness build
        std_pipe(ctx, 'ops-same-base-release', 'fl', 'ops', 'same', tier=tier, seed=seed, release=True,
                 only=r'^bin [^ ]+ (add|sub|rem|adda|suba|rema|mul|div|tt[^ ]*|ti[^ ]*) ')
        std_pipe(ctx, 'hist-wide2', 'wide2', 'hist', '', tier=tier, seed=seed, only=r'^(b2|sc|un) (i8|i16|i128|u8|u16|u128|usize|rational32|rational) (%s) [a-z_]+ si ' % forms)  # default base units only: the coefficients of the other base sets (1000, 3600, …) are not representable in 8-bit storage


spec('C07', run=run_c07, search=search_with(run_c07),
     rule='11 storage types × 6 quantities (default and non-default base units: si, cgs, kgh, fpm, mmm; angle, information, temperature-interval kinds) × '
          'every same-base form (arithmetic, assigning, scaling, sign, min/max, saturating, Sum, zero/default/ZERO, classification, recip/sqrt/cbrt/powi/mul_add) '
          'and seeded histories (chains where each step starts from the previous register); values incl. NaN, ±inf, ±0, extreme integers; '
          'non-trivial = operands differ',
     trusted_base=['the bare-number operation is computed by rustc on the storage type (the model recomputes + − × ÷ % and comparisons for every type)'],
     assumptions=['fixed-width rational results are only judged by the model while numerators/denominators stay below 2^31 (the oracle quantity=raw applies always)'])


def run_c10(ctx, tier=None, seed=None):
    std_pipe(ctx, 'hist-cmp', 'wide', 'hist', '', tier=tier, seed=seed, only=r'^b2 [^ ]+ (%s) ' % CMP_FORMS)
    std_pipe(ctx, 'ops-cmp', 'wide', 'ops', 'all', tier=tier, seed=seed, only=r'^bin [^ ]+ (eq|ne|lt|le|gt|ge|pcmp) ')
    # the comparison impls have feature-gated twins: the same-base cases again without autoconvert
    std_pipe(ctx, 'hist-cmp-noauto', 'wide-noauto', 'hist', '', tier=tier, seed=seed, only=r'^b2 [^ ]+ (%s) ' % CMP_FORMS)
    std_pipe(ctx, 'ops-cmp-noauto', 'fl-noauto', 'ops', 'same', tier=tier, seed=seed, only=r'^bin [^ ]+ (eq|ne|lt|le|gt|ge|pcmp) ')
    pow_lines(ctx, tier=tier, seed=seed)
    if (tier or ctx.tier) == 'thorough':
        std_pipe(ctx, 'ops-cmp-release', 'fl', 'ops', 'all', tier=tier, seed=seed, release=True, only=r'^bin [^ ]+ (eq|ne|lt|le|gt|ge|pcmp) ')
        std_pipe(ctx, 'hist-cmp-wide2', 'wide2', 'hist', '', tier=tier, seed=seed, only=r'^b2 (i8|i16|i128|u8|u16|u128|usize|rational32|rational) (%s) [a-z_]+ si ' % CMP_FORMS)


spec('C10', run=run_c10, search=search_with(run_c10),
     rule='all ten comparison observables (== != < <= > >= partial_cmp cmp max min clamp) on 11 storage types same-base (default and non-default base units) and on '
          'f32/f64/BigRational/BigInt mixed-base pairs; values incl. NaN, ±0, ±inf, adjacent floats, extreme integers, equal operands; non-trivial = operands differ or bases differ',
     trusted_base=['the powi factors of a line are taken from the implementation; `pow`/`xpow` lines check every factor against the model and the exact power'],
     assumptions=['mixed-base float comparisons are judged by the oracle only when the magnitudes differ by more than 4u'])


def run_c15(ctx, tier=None, seed=None):
    std_pipe(ctx, 'ops-from', 'wide', 'ops', 'all', tier=tier, seed=seed, only=r'^from ')
    # the same conversions again without autoconvert (the feature-gated twin copies the stored value:
    # only shared base units may compile there)
    std_pipe(ctx, 'ops-from-noauto', 'wide-noauto', 'ops', 'all', tier=tier, seed=seed, only=r'^from ')
    mixed_base_programs(ctx, select='.into()')
    # "a bare number converts to and from a ratio unchanged": all 13 storage types incl. complex, two base-unit sets
    std_pipe(ctx, 'ratio-number', 'wide', 'convx', 'num', tier=tier, seed=seed, shards=1)
    pow_lines(ctx, tier=tier, seed=seed)
    # "no other conversion between quantities exists": rustc's verdict on `let _: B = a.into()` for every ordered
    # pair of classes of one dimension and a sample of the rest
    kind_conversion_probes(ctx, tier=tier, seed=seed)


spec('C15', run=run_c15, search=search_with(run_c15),
     rule='9 special-kind/default-kind quantity pairs (angle, solid angle, information, information rate, angular velocity, surface tension, kinematic viscosity, '
          'mass concentration) × both directions × same and different base-unit sets × f32, f64, BigRational, BigInt; every conversion non-trivial by construction',
     trusted_base=['negative programs (conversions that must not exist) are decided by the Lean theorem from_exists_iff over the regenerated impl_from! list and by rustc: `let _: B = a.into()` for every ordered pair of SI (dimension, kind) classes of one dimension and 300 sampled pairs of different dimension (thorough: all)'],
     assumptions=[])


# ------------------------------------------------------------------------------------------------
# C17: the same seeded transcript under the four feature sets

C17_SETS = ['fl', 'fl-noauto', 'fl-nostd', 'fl-nostd-noauto']
C17_RUNS = [('ops', 'same'), ('conv', 'others')]


def _is_zero_hex(h):
    try:
        return int(h, 16) & ((1 << (4 * len(h) - 1)) - 1) == 0
    except ValueError:
        return False


def run_c17(ctx, tier=None, seed=None):
    from main import load_known, kf_entry
    import hashlib
    import subprocess
    tier = tier or ctx.tier
    seed = ctx.seed if seed is None else seed
    outdir = os.path.join(VERIF, 'build', 'c17')
    os.makedirs(outdir, exist_ok=True)
    # "mixed-base-unit operands are then rejected at compile time"
    mixed_base_programs(ctx)
    files = {}
    from concurrent.futures import ThreadPoolExecutor
    with ThreadPoolExecutor(max_workers=4) as ex:
        oks = list(ex.map(lambda fs: cargo_build(ctx, fs, ['ops', 'conv']), C17_SETS))
    if not all(oks):
        return
    env = dict(os.environ)
    env.update({'VERIF_SEED': str(seed), 'VERIF_TIER': tier, 'VERIF_N': '120' if tier == 'thorough' else '24',
                'VERIF_NRANDOM': '24' if tier == 'thorough' else '4'})
    env.pop('VERIF_SHARD', None)
    jobs = []
    for fs in C17_SETS:
        for b, arg in C17_RUNS:
            path = os.path.join(outdir, '%s.%s.txt' % (fs, b))
            files[(fs, b)] = path
            jobs.append(subprocess.Popen('%s %s > %s' % (bin_path(b, False, fs), arg, path), shell=True, env=env))
    for j in jobs:
        if j.wait() != 0:
            ctx.problems.append(Problem('harness-broken', 'transcript run failed'))
            return
    lines = {k: open(v, encoding='utf-8').read().splitlines() for k, v in files.items()}
    digests = {('%s.%s' % k): hashlib.sha256('\n'.join(v).encode()).hexdigest()[:16] for k, v in lines.items()}
    ctx.extra['transcript_sha256'] = digests
    total = sum(len(v) for v in lines.values())
    ctx.extra['evaluations'] = total
    ctx.extra['distinct_nontrivial'] = len(set(l for k, v in lines.items() if k[0] == 'fl' for l in v))
    ctx.extra['samples'] = [lines[('fl', 'ops')][i] for i in (5, 700)] + [lines[('fl', 'conv')][40]]
    kf = load_known()
    f8 = kf_entry(kf, 'F8')
    allowed = set(tuple(x) for x in (f8 or {}).get('key', {}).get('allowed', []))
    names = ['floor', 'ceil', 'round', 'trunc', 'fract']

    def compare(a, b, what, std_pair):
        la, lb = lines[a], lines[b]
        if len(la) != len(lb):
            ctx.problems.append(Problem('property-fails', '%s: transcripts have different lengths (%d vs %d)' % (what, len(la), len(lb)),
                                        line=(la[:1] or [''])[0], failing_input=True, cmd='%s vs %s' % (files[a], files[b])))
            return
        n_known = 0
        for x, y in zip(la, lb):
            if x == y:
                continue
            fx, fy = x.split(' '), y.split(' ')
            ok = False
            if std_pair and fx[0] == 'rnd' and len(fx) == len(fy) == 16 and fx[:11] == fy[:11]:
                d = [i for i in range(11, 16) if fx[i] != fy[i]]
                ok = all((fx[1], names[i - 11], fx[i], fy[i]) in allowed for i in d)
            if ok:
                n_known += 1
                continue
            ctx.problems.append(Problem('property-fails', '%s: results differ between feature sets %s and %s' % (what, a[0], b[0]),
                                        detail='%s\n%s' % (x, y), line=x, failing_input=True, cmd='%s vs %s' % (files[a], files[b])))
            if sum(1 for p in ctx.problems if p.kind == 'property-fails') > 20:
                break
        if n_known and f8 and f8['id'] not in [k['id'] for k in ctx.known]:
            ctx.known.append(f8)
        ctx.counts['c17:%s:known-differences' % what] = n_known

    # std-only methods (mul_add, hypot) on operands sharing base units: autoconvert on vs off
    sf = {}
    for fs in ('fl', 'fl-noauto'):
        path = os.path.join(outdir, '%s.samefloat.txt' % fs)
        if subprocess.call('%s samefloat > %s' % (bin_path('ops', False, fs), path), shell=True, env=env) != 0:
            ctx.problems.append(Problem('harness-broken', 'transcript run failed (samefloat, %s)' % fs))
            return
        files[(fs, 'samefloat')] = path
        lines[(fs, 'samefloat')] = open(path, encoding='utf-8').read().splitlines()
    ctx.extra['evaluations'] += sum(len(lines[(fs, 'samefloat')]) for fs in ('fl', 'fl-noauto'))
    if not lines[('fl', 'samefloat')]:
        ctx.problems.append(Problem('harness-broken', 'no same-base mul_add/hypot cases'))
    compare(('fl', 'samefloat'), ('fl-noauto', 'samefloat'), 'autoconvert on/off, std, mul_add/hypot', False)
    res = pipe(ctx, 'model-fl-noauto-samefloat', "cat %s" % files[('fl-noauto', 'samefloat')], shards=1, tier=tier, seed=seed)
    absorb(ctx, res, 'model-fl-noauto-samefloat')
    for b, _ in C17_RUNS:
        compare(('fl', b), ('fl-noauto', b), 'autoconvert on/off, std, %s' % b, False)
        compare(('fl-nostd', b), ('fl-nostd-noauto', b), 'autoconvert on/off, no_std, %s' % b, False)
        compare(('fl', b), ('fl-nostd', b), 'std on/off, %s' % b, True)
    # the transcripts of the non-default configurations also go through the model
    for fs in ('fl-noauto', 'fl-nostd'):
        for b, arg in C17_RUNS:
            res = pipe(ctx, 'model-%s-%s' % (fs, b), "cat %s | { grep -E '^(bin|from|conv) ' || true; }" % files[(fs, b)], shards=1, tier=tier, seed=seed)
            absorb(ctx, res, 'model-%s-%s' % (fs, b))
    if tier == 'thorough':
        search_c17(ctx)     # the std / no_std comparison once more in optimised builds


def search_c17(ctx):
    """an obligation broke and the debug transcripts agree: repeat the std / no_std comparison in *optimised* builds
    (constant folding of intrinsics — e.g. `llvm.powi` through the host `pow` — only happens there)"""
    import subprocess
    outdir = os.path.join(VERIF, 'build', 'c17')
    os.makedirs(outdir, exist_ok=True)
    sets = ['fl', 'fl-nostd']
    for fs in sets:
        if not cargo_build(ctx, fs, ['ops', 'conv'], release=True):
            return
    env = dict(os.environ)
    env.update({'VERIF_SEED': str(ctx.seed), 'VERIF_TIER': 'quick', 'VERIF_N': '24', 'VERIF_NRANDOM': '4'})
    env.pop('VERIF_SHARD', None)
    out = {}
    for fs in sets:
        for b, arg in C17_RUNS:
            path = os.path.join(outdir, '%s.%s.release.txt' % (fs, b))
            if subprocess.call('%s %s > %s' % (bin_path(b, True, fs), arg, path), shell=True, env=env) != 0:
                ctx.problems.append(Problem('harness-broken', 'release transcript run failed (%s %s)' % (fs, b)))
                return
            out[(fs, b)] = open(path, encoding='utf-8').read().splitlines()
    from main import load_known, kf_entry
    f8 = kf_entry(load_known(), 'F8')
    allowed = set(tuple(x) for x in (f8 or {}).get('key', {}).get('allowed', []))
    names = ['floor', 'ceil', 'round', 'trunc', 'fract']
    n = 0
    for b, _ in C17_RUNS:
        la, lb = out[('fl', b)], out[('fl-nostd', b)]
        for x, y in zip(la, lb):
            if x == y:
                continue
            fx, fy = x.split(' '), y.split(' ')
            if fx[0] == 'rnd' and len(fx) == len(fy) == 16 and fx[:11] == fy[:11]:
                d = [i for i in range(11, 16) if fx[i] != fy[i]]
                if all((fx[1], names[i - 11], fx[i], fy[i]) in allowed for i in d):
                    continue        # known finding F8
            n += 1
            if n <= 20:
                ctx.problems.append(Problem('property-fails', 'std on/off, %s, optimised build: results differ between feature sets fl and fl-nostd' % b,
                                            detail='%s\n%s' % (x, y), line=x, failing_input=True,
                                            cmd='%s %s (release) vs %s %s (release)' % (bin_path(b, True, 'fl'), _, bin_path(b, True, 'fl-nostd'), _)))
    log('search (release std vs no_std): %d differing lines' % n)


spec('C17', run=run_c17, search=search_c17,
     rule='one seeded transcript per feature set {autoconvert on,off} × {std on,off}: every same-base binary form of 11 quantities × 4 base-unit sets × f32/f64 '
          '(ops same) and construction/read-back/rounding of 140 units × 9 base-unit sets (conv others); transcripts must be byte-identical; the non-default '
          'configurations are additionally run through the Lean model; non-trivial = distinct lines of the default-feature transcript',
     trusted_base=['mixed-base operands being rejected without autoconvert is decided by the C02 rustc probes'],
     assumptions=['the harness itself links std in every configuration; only uom (and num-traits) are built without it'])


# ------------------------------------------------------------------------------------------------
# exact storage, temperature, complex

TEMP = '(thermodynamic_temperature|temperature_interval)'


def run_c08(ctx, tier=None, seed=None):
    if not cargo_build(ctx, 'wide', ['convx']):
        return
    dump = lean_dump(ctx)
    if dump is None:
        return
    # the unit table precedes the cases: what arbitrary-precision storage publishes for a unit is compared with its declaration
    res = pipe(ctx, 'convx-exact', '{ cat %s; %s exact; }' % (dump, bin_path('convx', False, 'wide')), tier=tier, seed=seed,
               env=deep(ctx, tier, VERIF_N=1500))
    absorb(ctx, res, 'convx-exact')


spec('C08', run=run_c08, search=search_with(run_c08),
     rule='BigRational (si, cgs, kgh), BigInt (si, kgh), BigUint, Rational64 (si, cgs), i32, i64 (si, cgs), u32, u64, isize × 82 units of 18 quantities '
          '(incl. offset temperature scales) × values (0, ±1, extremes, seeded; unbounded for the big types); exact comparison of new/get/round-trip with the model, '
          'round-trip identity oracle for rational storage; the error branch (division by a zero ratio, unsigned underflow → panic) is predicted and compared; '
          'non-trivial = stored value differs from the input',
     trusted_base=['the published coefficient/constant/powi of the storage type are inputs (num-rational from_f64 is not re-implemented)'],
     assumptions=['fixed-width cases are judged only while every intermediate numerator/denominator stays below 2^(bits/2-1); others are counted as guarded'])


def run_c09(ctx, tier=None, seed=None):
    # exact storage: the unit table precedes the cases, so that what a rational / integer storage type publishes for a
    # temperature unit (coefficient, both offsets) is compared with the declaration — the model of a line takes the
    # published numbers as given, and an offset lost for one storage class only would otherwise agree with itself
    if cargo_build(ctx, 'wide', ['convx']):
        dump = lean_dump(ctx)
        if dump is not None:
            res = pipe(ctx, 'temp-exact', "{ cat %s; %s exact | { grep -E '%s' || true; }; }" % (
                dump, bin_path('convx', False, 'wide'), '^convx [^ ]+ [^ ]+ %s ' % TEMP), tier=tier, seed=seed)
            absorb(ctx, res, 'temp-exact')
    std_pipe(ctx, 'temp-float-bases', 'fl', 'conv', 'others', env={'VERIF_LINES': 'conv'}, tier=tier, seed=seed, only='^conv [^ ]+ [^ ]+ %s ' % TEMP)
    std_pipe(ctx, 'temp-float-all-units', 'fl,allsi', 'conv', 'si', env={'VERIF_LINES': 'conv'}, tier=tier, seed=seed, only='^conv [^ ]+ [^ ]+ %s ' % TEMP)
    std_pipe(ctx, 'temp-arith', 'wide', 'ops', 'all', tier=tier, seed=seed, only='^bin [^ ]+ (tt|ti)[^ ]* ')
    pow_lines(ctx, tier=tier, seed=seed)
    temperature_programs(ctx, tier=tier, seed=seed)


def temperature_programs(ctx, tier=None, seed=None):
    """"no operation lets an offset be applied twice or to an interval", decided by rustc: every additive / accumulating /
    converting form on the four ordered pairs of {temperature point, temperature interval} (and each with itself)"""
    import probes
    tier = tier or ctx.tier
    seed = ctx.seed if seed is None else seed
    t = load_table()
    if not cargo_build(ctx, 'wide', []):
        return
    rlib, deps = probes.find_rlib('wide')
    if not rlib:
        ctx.problems.append(Problem('harness-broken', 'uom rlib not found'))
        return
    qs = {q['module']: q for q in t['quantities']}
    tt, ti = qs.get('thermodynamic_temperature'), qs.get('temperature_interval')
    if not tt or not ti:
        ctx.problems.append(Problem('translator-broken', 'temperature quantities not found in the table'))
        return
    forms = ['add', 'sub', 'adda', 'suba', 'rem', 'rema', 'satadd', 'satsub', 'sum', 'sumref', 'addref', 'subref', 'addaref', 'from', 'eq', 'lt']
    cases = []
    for a, b in ((tt, tt), (tt, ti), (ti, tt), (ti, ti)):
        for f in forms + (['neg'] if a is b else []):
            cases.append((f, a, b, 1 if a is b else 0))
    run_acc_cases(ctx, cases, rlib, deps, 'probes09', 'temperature-programs', tier, seed)
    ctx.extra['temperature_programs'] = len(cases)


spec('C09', run=run_c09, search=search_with(run_c09),
     rule='all 24 temperature-point and 24 interval units × f32/f64 in SI base units, 6+5 units × 9 base-unit sets (kelvin, millikelvin, kilokelvin, °R bases) × '
          'f32/f64/BigRational/BigInt/…; TT±TI, TT+=TI, TI+TT over same and mixed base sets; values incl. 0, −273.15, 273.15, 459.67, 32; non-trivial as for C03; '
          '66 programs over {point, interval}² × 16 additive / accumulating / converting forms type-checked by rustc against the acceptance relation (no TT+TT, TT+=TT, −TT, TT→TI …)',
     trusted_base=['the powi factors of a line are taken from the implementation; `pow`/`xpow` lines check every factor against the model and the exact power'],
     assumptions=['float oracle bounds as for C03 (ulps at the larger of result and offset term)'])


def run_c20(ctx, tier=None, seed=None):
    if not cargo_build(ctx, 'wide', ['convx']):
        return
    dump = lean_dump(ctx)
    if dump is None:
        return
    # the unit table precedes the cases: what complex storage publishes for a unit is compared with its declaration
    res = pipe(ctx, 'complex', '{ cat %s; %s complex; }' % (dump, bin_path('convx', False, 'wide')), tier=tier, seed=seed,
               env=deep(ctx, tier, VERIF_N=20000))
    absorb(ctx, res, 'complex')


spec('C20', run=run_c20, search=search_with(run_c20),
     rule='Complex64 (si, cgs) and Complex32 (si, kgh) × 82 units × values with zero / non-zero imaginary part and negative real part; the implementation must match '
          'the defect model bit-for-bit (norm supplied by the harness); the oracle is the property; non-trivial = non-zero imaginary part',
     trusted_base=['Complex::norm (libm hypot) is a parameter supplied by the harness'],
     assumptions=[])


# ------------------------------------------------------------------------------------------------
# C05: table coherence; registry correspondence


def lean_dump(ctx):
    """the generated table in registry-dump form (cached on the generated files' content)"""
    import hashlib
    h = hashlib.sha256()
    gen = os.path.join(LEAN, 'Uom', 'Gen')
    for root, _d, files in sorted(os.walk(gen)):
        for f in sorted(files):
            with open(os.path.join(root, f), 'rb') as fh:
                h.update(fh.read())
    for f in ('DumpTable.lean', 'Uom/Model/Coef.lean', 'Uom/Model/SoftFloat.lean', 'Uom/Model/Table.lean'):
        with open(os.path.join(LEAN, f), 'rb') as fh:
            h.update(fh.read())
    path = os.path.join(VERIF, 'build', 'dump_lean_%s.txt' % h.hexdigest()[:16])
    if not os.path.exists(path):
        rc, out = sh(['lake', 'build', 'Uom.Gen.Table', 'Uom.Model.Coef', 'Uom.Model.Num'], cwd=LEAN)
        rc, out = sh('lake env lean --run DumpTable.lean > %s.tmp' % path, cwd=LEAN)
        if rc != 0:
            ctx.problems.append(Problem('proof-broken', 'DumpTable.lean failed', out[-1500:]))
            return None
        os.replace(path + '.tmp', path)
    return path


def registry_diff(ctx, want_kinds=('quantity', 'unit', 'base')):
    """exhaustive comparison of the run-time registry / type-level conversion data with the generated table"""
    if not cargo_build(ctx, 'fl', ['reg']):
        return None
    lp = lean_dump(ctx)
    if lp is None:
        return None
    rc, out = sh(bin_path('reg', False, 'fl'))
    if rc != 0:
        ctx.problems.append(Problem('harness-broken', 'reg dump failed', out[-800:]))
        return None
    rust = out.splitlines()
    with open(lp, encoding='utf-8') as f:
        lean = f.read().splitlines()
    n_mismatch = 0
    for l in rust:
        if l.startswith('mismatch '):
            n_mismatch += 1
            ctx.problems.append(Problem('property-fails', 'run-time registry differs from the declared units: ' + l, line=l, failing_input=True,
                                        cmd=bin_path('reg', False, 'fl'), tag='registry'))
    rust = [l for l in rust if not l.startswith('mismatch ')]
    lean = [l for l in lean if l.split(' ')[0] in ('quantity', 'unit', 'base')]
    key = lambda l: ' '.join(l.split(' ')[:3])
    rd = {key(l): l for l in rust}
    ld = {key(l): l for l in lean}
    diffs = []
    for k in list(rd) + [k for k in ld if k not in rd]:
        if rd.get(k) != ld.get(k):
            diffs.append((k, rd.get(k), ld.get(k)))
    for k, a, b in diffs[:40]:
        ctx.problems.append(Problem('model-differs', 'registry/table dump differs at ' + k, detail='impl:  %s\nmodel: %s' % (a, b), line=a or b,
                                    cmd=bin_path('reg', False, 'fl'), tag='registry-dump'))
    ctx.extra['evaluations'] = ctx.extra.get('evaluations', 0) + len(rust)
    ctx.extra['distinct_nontrivial'] = ctx.extra.get('distinct_nontrivial', 0) + len(set(rust))
    ctx.extra.setdefault('samples', []).extend([rust[1], rust[len(rust) // 2]])
    ctx.extra['registry_rows_compared'] = len(rust)
    ctx.extra['registry_rows_differing'] = len(diffs)
    ctx.extra['exhaustive'] = True
    return rust


def run_c05(ctx, tier=None, seed=None):
    from main import load_known
    registry_diff(ctx)
    t = load_table()
    comp = t.get('compose', {})
    ctx.extra['composable_units'] = comp.get('composable')
    ctx.extra['primitive_units'] = comp.get('primitive')
    ctx.extra['table_obligations'] = 0
    kf = load_known()
    for f in kf['findings']:
        if f['property'] == 'C05' and f['id'] not in [k['id'] for k in ctx.known]:
            ctx.known.append(f)


def search_c05(ctx):
    """a table obligation broke: evaluate the per-row checkers outside the kernel (exact fractions) to
    name the failing unit, and replay it against the implementation's published coefficient"""
    import sys
    from fractions import Fraction as F
    from main import load_known
    sys.path.insert(0, os.path.join(VERIF, 'translate'))
    import translate as T
    t = load_table()
    kf = load_known()
    dev = {}
    misn = set()
    for f in kf['findings']:
        k = f.get('key', {})
        if k.get('kind') == 'coefficient-deviation':
            for u in k['units']:
                dev[(u['module'], u['unit'])] = F(u['bound'])
        if k.get('kind') == 'misnamed-units':
            misn |= set(tuple(x) for x in k['units'])
    reg = {}
    reg_rows = []
    if cargo_build(ctx, 'fl', ['reg']):
        rc, out = sh(bin_path('reg', False, 'fl'))
        for l in out.splitlines():
            p = l.split(' ')
            if p[0] == 'unit' and len(p) >= 8:
                reg[(p[1], p[3])] = p[7]
                reg_rows.append(p)
    prefixes = t['prefixes']

    def coef(qi, ui):
        return F(*t['quantities'][qi]['units'][ui]['coef_exact'])

    def val(c):
        v = F(1)
        for gi, g in enumerate(c):
            for (qi, ui, p, form) in [tuple(x[:4]) for x in g]:
                k = {0: 1, 1: 2, 2: 3, 3: 2, 4: 3}[form]
                x = coef(qi, ui)
                if p >= 0:
                    x *= T.expr_exact(prefixes[t['prefix_order'][p]], prefixes)
                v *= x ** (k if gi == 0 else -k)
        return v

    # registry rows that differ from the table: read the declaration a second, independent way (a plain regular
    # expression over src/si/<module>.rs); when that reading agrees with the table, the run-time registry
    # disagrees with the declaration — the unit is the failing input
    import re as _re
    from main import REPO
    decl_cache = {}

    def declared(module):
        if module not in decl_cache:
            d = {}
            try:
                with open(os.path.join(REPO, 'src', 'si', module + '.rs'), encoding='utf-8') as f:
                    src = f.read()
                for m in _re.finditer(r'@(\w+)\s*:[^;]*;\s*"((?:[^"\\]|\\.)*)"\s*,\s*"((?:[^"\\]|\\.)*)"\s*,\s*"((?:[^"\\]|\\.)*)"\s*;', src):
                    d[m.group(1)] = tuple(bytes(x, 'utf-8').decode('unicode_escape').encode('latin-1').decode('utf-8') if '\\' in x else x for x in m.group(2, 3, 4))
            except OSError:
                pass
            decl_cache[module] = d
        return decl_cache[module]

    def unhex(x):
        return bytes.fromhex(x[1:]).decode('utf-8', 'replace') if x.startswith('x') else x

    table_labels = {(q['module'], u['name']): (u['abbr'], u['sing'], u['plur']) for q in t['quantities'] for u in q['units']} \
        if t['quantities'] and 'abbr' in t['quantities'][0]['units'][0] else {}
    # the diff report is capped, so when the dump differs anywhere every row the implementation publishes is examined
    dump_differs = any(getattr(pr, 'tag', None) == 'registry-dump' for pr in ctx.problems)
    found = 0
    # "lists exactly the declared units": the declared identifiers of each quantity against what `units()` yields
    if dump_differs and reg_rows:
        listed = {}
        for f in reg_rows:
            listed.setdefault(f[1], []).append(f[3])
        for q in t['quantities']:
            declared_names = [u['name'] for u in q['units']]
            got_names = listed.get(q['module'], [])
            if declared_names == got_names:
                continue
            missing = [n for n in declared_names if n not in got_names]
            extra = [n for n in got_names if n not in declared_names]
            twice = sorted(set(n for n in got_names if got_names.count(n) > 1))
            what = []
            if missing:
                what.append('declared but not listed: ' + ', '.join(missing[:6]))
            if extra:
                what.append('listed but not declared: ' + ', '.join(extra[:6]))
            if twice:
                what.append('listed twice: ' + ', '.join(twice[:6]))
            if not what:
                continue        # another order only: the property does not fix the order
            ctx.problems.append(Problem(
                'property-fails', '%s::units() does not list exactly the declared units (%d listed, %d declared): %s' % (
                    q['module'], len(got_names), len(declared_names), '; '.join(what)),
                line='units %s listed=%d declared=%d' % (q['module'], len(got_names), len(declared_names)),
                failing_input=True, cmd=bin_path('reg', False, 'fl'), tag='registry-membership'))
            found += 1
            if found >= 30:
                break
    for f in (reg_rows if dump_differs else []):
        if len(f) < 7 or found >= 30:
            continue
        module, name = f[1], f[3]
        got = tuple(unhex(x) for x in f[4:7])
        want = declared(module).get(name)
        tl = table_labels.get((module, name))
        if want is not None and got != want and (tl is None or tuple(tl) == want):
            ctx.problems.append(Problem(
                'property-fails',
                'unit %s::%s: the run-time registry / Unit trait publishes the labels %r, the declaration says %r' % (module, name, got, want),
                line='unit %s %s registry=%r declared=%r' % (module, name, got, want), failing_input=True,
                cmd=bin_path('reg', False, 'fl'), tag='registry-labels'))
            found += 1
        # the numbers: what `<unit as Conversion<f64>>::coefficient()` / `constant(op)` publish against the exact
        # value of the declaration (correctly rounded by Fraction → float); the sign of a zero is not a value
        if len(f) >= 10 and want is not None and got == want:
            import struct as _st
            decl = next((u for q in t['quantities'] if q['module'] == module for u in q['units'] if u['name'] == name), None)
            if decl is not None:
                def f64(h):
                    return _st.unpack('>d', bytes.fromhex(h))[0]
                exp_c = float(F(*decl['coef_exact']))
                exp_k = float(F(*decl['cons_exact'])) if decl.get('cons_exact') else 0.0
                bad = []
                for what, h, e in (('coefficient()', f[7], exp_c), ('constant(Sub)', f[8], exp_k), ('constant(Add)', f[9], exp_k)):
                    try:
                        v = f64(h)
                    except (ValueError, _st.error):
                        continue
                    if not (abs(v - e) <= 2.5e-15 * max(abs(e), abs(v))):
                        bad.append('%s publishes %r, the declaration says %r' % (what, v, e))
                if bad:
                    ctx.problems.append(Problem(
                        'property-fails', 'unit %s::%s: %s' % (module, name, '; '.join(bad)),
                        line='unit %s %s published=%s declared coef=%s cons=%s' % (module, name, ' '.join(f[7:10]), decl['coef_exact'], decl.get('cons_exact')),
                        failing_input=True, cmd=bin_path('reg', False, 'fl'), tag='registry-values'))
                    found += 1
    for m, u in [tuple(x) for x in t.get('compose', {}).get('misnamed', [])]:
        if (m, u) not in misn:
            ctx.problems.append(Problem('property-fails', 'unit %s::%s: its identifier reads as a composition of another dimension than the quantity has' % (m, u),
                                        line='unit %s %s' % (m, u), failing_input=True, tag='misnamed'))
    for qi, ui, cs in t.get('_certs', []):
        q = t['quantities'][qi]
        name = q['units'][ui]['name']
        c = coef(qi, ui)
        if c == 0:
            continue
        best = min(abs(val(x) / c - 1) for x in cs)
        bound = dev.get((q['module'], name), F(1, 2 ** 50))
        if best > bound:
            ctx.problems.append(Problem(
                'property-fails',
                'unit %s::%s: declared coefficient %s (f64 bits published by the implementation: %s) deviates from its composition by %.3e (allowed %.3e)' % (
                    q['module'], name, float(c), reg.get((q['module'], name), '?'), float(best), float(bound)),
                line='unit %s %s coef=%s/%s composition=%s' % (q['module'], name, c.numerator, c.denominator, float(val(cs[0]))),
                failing_input=True, cmd=bin_path('reg', False, 'fl'), tag='composition'))
    # base units / coherent units / anchors are small: name them by direct evaluation
    for b in t['system']['base']:
        for q in t['quantities']:
            if q['module'] == b['name']:
                for u in q['units']:
                    if u['name'] == b['unit'] and (F(*u['coef_exact']) != 1 or u['cons'] is not None):
                        ctx.problems.append(Problem('property-fails', 'base unit %s::%s does not have coefficient exactly 1 / no offset' % (b['name'], b['unit']),
                                                    line='unit %s %s' % (b['name'], b['unit']), failing_input=True, tag='base-unit'))


spec('C05', run=run_c05, search=search_c05,
     rule='exhaustive: every declared unit (2 537 rows) and quantity (115 rows): run-time registry order, Debug name, three labels, f64 and f32 coefficient/constant bits, '
          'exponents and kind compared with the table the theorems are about; every row is a distinct case',
     trusted_base=['completeness of the name-derivation finder (translate/compose.py): it decides which units are composable; the evidence reports the counts',
                   'the hand-written anchor lists in Props/C05.lean'],
     assumptions=['“composable” means: the identifier splits into ≥ 2 components (prefix, unit names, per/square/cubic/squared/cubed) naming declared units'])


# ------------------------------------------------------------------------------------------------
# C11 / C12: formatting and parsing (the driver is first fed the Lean-generated label/coefficient table)


def text_pipe(ctx, name, mode, features='wide', tier=None, seed=None, env=None):
    if not cargo_build(ctx, features, ['text']):
        return None
    dump = lean_dump(ctx)
    if dump is None:
        return None
    cmd = '{ cat %s; %s %s; }' % (dump, bin_path('text', False, features), mode)
    res = pipe(ctx, name, cmd, tier=tier, seed=seed, env=env)
    absorb(ctx, res, name)
    return res


def run_c11(ctx, tier=None, seed=None):
    text_pipe(ctx, 'fmt-grid', 'fmt', tier=tier, seed=seed)
    text_pipe(ctx, 'fmt-debug', 'dbg', tier=tier, seed=seed)
    text_pipe(ctx, 'fmt-all-units', 'fmtall', features='fl,allsi', tier=tier, seed=seed)


spec('C11', run=run_c11, search=search_with(run_c11),
     rule='42 units of 12 quantities × {f64 si, f64 kgh, f32 cgs, f32 si, i32 si, i64 kgh, BigRational si} × both styles × both entry points (format_args().with, into_format_args) × '
          'spec grid (13 float specs: width, precision, sign, fill/alignment, zero-pad, e/E/Debug/alternate; 10 integer specs incl. x X o b #) × values (1, −1, 1±ulp, value converting to one, 0, NaN, inf, …); '
          'every unit of every quantity (2 537) in both styles under {} {:10} {:?}; Debug of bare quantities in si/kgh/fpm base units; non-trivial: every case',
     trusted_base=['the storage type’s own Display/Debug/LowerExp/… output (format!(spec, x) of the converted value) is the oracle’s parameter', 'labels come from the table validated by the C05 registry diff'],
     assumptions=[])


def run_c12(ctx, tier=None, seed=None):
    text_pipe(ctx, 'parse', 'parse', tier=tier, seed=seed, env=deep(ctx, tier, VERIF_N=3000))
    text_pipe(ctx, 'format-then-parse', 'prt', tier=tier, seed=seed, env=deep(ctx, tier, VERIF_N=3000))


def search_c12(ctx):
    """label obligations broke: name the label by scanning the table (exact), else re-run the cases"""
    from fractions import Fraction as F
    t = load_table()
    for q in t['quantities']:
        seen = {}
        for u in q['units']:
            for l in (u['abbr'], u['sing'], u['plur']):
                if l != l.strip():
                    ctx.problems.append(Problem('property-fails', 'label %r of %s::%s begins or ends with white space: formatting it and parsing the text back gives UnknownUnit' % (l, q['module'], u['name']),
                                                line='label %s %s %r' % (q['module'], u['name'], l), failing_input=True, tag='label-trim'))
                conv = (F(*u['coef_exact']), F(*u['cons_exact']) if u.get('cons_exact') else None)
                if l in seen and seen[l][1] != conv:
                    ctx.problems.append(Problem('property-fails', 'label %r denotes two conversions in %s: units %s and %s' % (l, q['module'], seen[l][0], u['name']),
                                                line='label %s %r %s %s' % (q['module'], l, seen[l][0], u['name']), failing_input=True, tag='label-collision'))
                seen.setdefault(l, (u['name'], conv))
    if not any(p.failing_input for p in ctx.problems):
        search_with(run_c12)(ctx)


spec('C12', run=run_c12, search=search_c12,
     rule='all 7 611 labels of all 115 quantities (f64, default base units) with 14 number forms, 9 mutations per label (double blank, trailing blank, tab, NBSP/U+3000, missing '
          'separator, leading blank, bad number, trailing junk, upper-cased + U+2028), labels of other quantities, empty/blank strings, seeded random strings over a unicode alphabet; '
          '12 quantities additionally in kgh (f64) and cgs (f32) base units; format-then-parse for 42 units × both styles × 3 base/storage combinations; non-trivial: every case',
     trusted_base=['V::from_str of the number part is a parameter (the harness reports it for the part the model splits off)', 'labels/coefficients come from the table validated by the C05 registry diff'],
     assumptions=['format-then-parse oracle: 8u·(|v| + |offset|), when no conversion intermediate over/underflows'])


# ------------------------------------------------------------------------------------------------
# C13 / C14 / C18


def misc_pipe(ctx, name, mode, tier=None, seed=None, env=None, features='wide'):
    if not cargo_build(ctx, features, ['misc']):
        return None
    dump = lean_dump(ctx)
    if dump is None:
        return None
    res = pipe(ctx, name, '{ cat %s; %s %s; }' % (dump, bin_path('misc', False, features), mode), tier=tier, seed=seed, env=env)
    absorb(ctx, res, name)
    return res


def run_c13(ctx, tier=None, seed=None):
    misc_pipe(ctx, 'serde', 'serde', tier=tier, seed=seed, env=deep(ctx, tier, VERIF_N=100000))


spec('C13', run=run_c13, search=search_with(run_c13),
     rule='11 serde-capable storage types × 5 quantities in 5 base-unit sets (incl. temperature and angle kinds) × two data formats (JSON text, serde_json::Value tree): serialization of '
          'seeded values compared with the stored value’s; deserialization of 18 malformed/edge inputs plus every serialized text compared with the storage type’s (accept/reject/value); non-trivial: every case',
     trusted_base=['serde_json’s two Serializer/Deserializer implementations stand for “every serde data format”; the theorems are parametric in the format'],
     assumptions=[])


def run_c14(ctx, tier=None, seed=None):
    misc_pipe(ctx, 'duration', 'dur', tier=tier, seed=seed, env=deep(ctx, tier, VERIF_N=300000))
    # the conversion compares with `<` and takes a remainder: both have feature-gated twins — the float lines again
    # from a build without autoconvert
    misc_pipe(ctx, 'duration-noauto', 'dur', features='fl-noauto', tier=tier, seed=seed, env=deep(ctx, tier, VERIF_N=300000))


spec('C14', run=run_c14, search=search_with(run_c14),
     rule='Time→Duration: f64/f32 × second, millisecond, minute, hour, nanosecond base units × every-binade values, neighbours of integers and of 2^64, subnormals, NaN, ±inf, −0.0; '
          'i32/i64/u32/u64 × second, minute, nanosecond bases; Duration→Time: all-corner Durations (u64::MAX s, 999 999 999 ns, 2^53±1, …) and seeded ones; non-trivial: every case',
     trusted_base=['std::time::Duration::new (carry, overflow panic) and num-traits to_u64/to_u32/from_u64/from_u32 are transcribed'],
     assumptions=['integer-storage model comparison only while no fixed-width intermediate can overflow; the never-panics oracle applies always'])


def run_c18(ctx, tier=None, seed=None):
    misc_pipe(ctx, 'angle-ratio', 'trig', tier=tier, seed=seed, env=deep(ctx, tier, VERIF_N=150000))


spec('C18', run=run_c18, search=search_with(run_c18),
     rule='sin cos tan sinh cosh tanh sin_cos × 7 angle units × {f64 si, f32 kgh}; acos…atanh, exp exp2 ln log log2 log10 exp_m1 ln_1p × 11 ratio units; atan2 on 5 like-quantity '
          'pairs in 5 base-unit sets; values: domain edges ±1, 0, ±0, quarter/half/full turns in each unit, 1e22, NaN, ±inf, every binade; the 8 constant read-backs per float type; non-trivial: every case',
     trusted_base=['libm functions are parameters: the oracle is bit-equality with the storage type’s own function applied to the stored value'],
     assumptions=[])


# ------------------------------------------------------------------------------------------------
# C01 / C02: rustc as the implementation under test


def run_c01(ctx, tier=None, seed=None):
    import probes
    tier = tier or ctx.tier
    seed = ctx.seed if seed is None else seed
    t = load_table()
    n = 115 * 115 if tier == 'thorough' else 600
    roots = None
    if cargo_build(ctx, 'fl', []):
        rlib, deps = probes.find_rlib('fl')
        if rlib:
            roots = probes.accepted_roots(t, rlib, deps, os.path.join(VERIF, 'build', 'probes01'))
            ctx.extra['root_calls_accepted_by_rustc'] = len(roots)
    npairs, ninter = probes.gen_c01(t, seed, n, os.path.join(HARNESS, 'src', 'gen', 'probe01_gen.rs'), roots)
    ctx.extra['pairs_probed'] = npairs
    ctx.extra['interchangeability_bindings_type_checked'] = ninter
    from main import _built
    dump = lean_dump(ctx)
    # the operator impls have feature-gated twins with their own `type Output`: both configurations
    for feats in ('fl', 'fl-noauto'):
        _built.discard((feats, ('probe01',), False))
        if not cargo_build(ctx, feats, ['probe01']):
            # a failing `let _c: C = a * b;` is the property failing: the result type is not the named quantity
            p = ctx.problems[-1]
            errs = re.findall(r'(error\[E\d+\][^\n]*\n\s*--> src/bin/\.\./gen/probe01_gen\.rs:\d+:\d+[^\n]*(?:\n[^\n]*){0,6})', p.detail or '')
            if errs:
                ctx.problems[-1] = Problem('property-fails', 'a result type is not interchangeable with the named default-kind quantity of its dimension (probe does not type-check; features %s)' % feats,
                                           detail=errs[0][:1500], line=errs[0].splitlines()[0], failing_input=True,
                                           cmd='cargo build --features %s --bin probe01 (src/gen/probe01_gen.rs)' % feats, tag='interchangeable')
            continue
        if dump is None:
            return
        res = pipe(ctx, 'result-types' + ('' if feats == 'fl' else '-noauto'), '{ cat %s; %s; }' % (dump, bin_path('probe01', False, feats)), shards=1, tier=tier, seed=seed)
        absorb(ctx, res, 'result-types')


spec('C01', run=run_c01, search=search_with(run_c01, seeds=(7,)),
     rule='quick: 600 seeded ordered pairs of the 115 SI quantities + the diagonal (thorough: all 13 225) × {*, /, mul_add}, every unary/scaling/preserving form on all 115 quantities '
          '(recip, powi for E ∈ {P1,P2,P3,N1,N3,Z0}, admissible sqrt/cbrt, V*q, V/q, + − % neg, *V, /V, assigning forms, abs signum min max floor ceil round trunc fract), 5×5 synthetic '
          'vectors with a distinct exponent in every position and special kinds; exponents read back with to_i32, kind with type_name; every admissible `let _: C = a*b` / `a/b` binding is type-checked; '
          'non-trivial: operands of different dimension',
     trusted_base=['rustc’s trait solver and typenum are the implementation under test, not modelled'],
     assumptions=['f64 storage (the impls are generic in V)'])


def mixed_base_programs(ctx, select=None):
    """programs whose two operands live in different base-unit sets: accepted with autoconvert, rejected
    without (C02, C15 for the kind conversions, C17's compile-time half); `select` filters by substring"""
    import probes
    pdir = os.path.join(VERIF, 'build', 'probes02')
    os.makedirs(pdir, exist_ok=True)
    # mixed base units: accepted with autoconvert, rejected without (C17's compile-time half)
    mixed_src = os.path.join(pdir, 'mixed_%s.rs' % ctx.prop)
    units = 'length = uom::si::length::centimeter, mass = uom::si::mass::gram, time = uom::si::time::second, electric_current = uom::si::electric_current::ampere, ' \
            'thermodynamic_temperature = uom::si::thermodynamic_temperature::kelvin, amount_of_substance = uom::si::amount_of_substance::mole, luminous_intensity = uom::si::luminous_intensity::candela'
    header = ('#![allow(unused)]\ntype Cgs = dyn uom::si::Units<f64, %s>;\ntype L = uom::si::length::Length<Cgs, f64>;\ntype M = uom::si::f64::Length;\n'
              'type AreaC = uom::si::area::Area<Cgs, f64>;\ntype TtC = uom::si::thermodynamic_temperature::ThermodynamicTemperature<Cgs, f64>;\n'
              'type TiC = uom::si::temperature_interval::TemperatureInterval<Cgs, f64>;\ntype StC = uom::si::surface_tension::SurfaceTension<Cgs, f64>;\n'
              'type AngC = uom::si::angle::Angle<Cgs, f64>;\n' % units)
    programs = [('L', 'M', b) for b in ['let _ = a + b;', 'let _ = a - b;', 'let _ = a == b;', 'let _ = a < b;', 'let _ = a * b;', 'let _ = a / b;', 'let _ = a % b;',
                                        'let mut a = a; a += b;', 'let _ = a.partial_cmp(&b);', 'let mut a = a; a -= b;', 'let mut a = a; a %= b;', 'let _ = a != b;',
                                        'let _ = a >= b;', 'let _ = a.hypot(b);']]
    programs += [
        ('L', 'M', 'let _ = a.mul_add(b, <uom::si::f64::Area as uom::num::Zero>::zero());'),
        ('L', 'M', 'let _ = b.mul_add(b, <AreaC as uom::num::Zero>::zero()); let _ = a;'),
        # temperature arithmetic and kind conversions across base-unit sets
        ('TtC', 'uom::si::f64::TemperatureInterval', 'let _ = a + b;'),
        ('TtC', 'uom::si::f64::TemperatureInterval', 'let _ = a - b;'),
        ('TtC', 'uom::si::f64::TemperatureInterval', 'let mut a = a; a += b;'),
        ('TiC', 'uom::si::f64::ThermodynamicTemperature', 'let _ = a + b;'),
        ('StC', 'uom::si::f64::RadiantExposure', 'let _x: StC = b.into(); let _ = a;'),
        ('StC', 'uom::si::f64::RadiantExposure', 'let _x: uom::si::f64::RadiantExposure = a.into(); let _ = b;'),
        ('AngC', 'uom::si::f64::Ratio', 'let _x: AngC = b.into(); let _ = a;'),
        ('AngC', 'uom::si::f64::Ratio', 'let _x: uom::si::f64::Ratio = a.into(); let _ = b;'),
    ]
    if select:
        programs = [p for p in programs if select in p[2]]
    nhead = header.count('\n')
    with open(mixed_src, 'w', encoding='utf-8') as f:
        f.write(header)
        for i, (ta, tb, body) in enumerate(programs):
            f.write('pub fn m%d(a: %s, b: %s) { %s }\n' % (i, ta, tb, body))
    for fs, expect_ok in (('wide', True), ('fl-noauto', False)):
        if not cargo_build(ctx, fs, []):
            continue
        rl, dp = probes.find_rlib(fs)
        bad, other = probes.rustc_rejects(mixed_src, rl, dp)
        for i, (ta, tb, body) in enumerate(programs):
            ok = (i + nhead + 1) not in bad
            if ok != expect_ok:
                ctx.problems.append(Problem('property-fails', 'mixed-base-unit program `fn m%d(a: %s, b: %s) { %s }` %s with feature set %s' % (
                    i, ta, tb, body, 'compiles' if ok else 'is rejected', fs),
                                            line='mixed.rs fn m%d' % i, failing_input=True, cmd='rustc %s' % mixed_src, tag='mixed-base'))
        ctx.extra['mixed_base_programs_%s' % fs] = len(programs)




def run_acc_cases(ctx, cases, rlib, deps, dirname, pipename, tier, seed):
    """type-check one probe function per case with rustc and hand the verdicts to the Lean driver"""
    import probes
    pdir = os.path.join(VERIF, 'build', dirname)
    os.makedirs(pdir, exist_ok=True)
    nfiles = 32
    files = []
    index = []
    for k in range(nfiles):
        part = cases[k::nfiles]
        path = os.path.join(pdir, 'p%02d.rs' % k)
        with open(path, 'w', encoding='utf-8') as f:
            f.write('#![allow(unused)]\n')
            for i, (form, a, b, same) in enumerate(part):
                f.write(probes.probe_fn('f%d' % i, form, a, b) + '\n')
        files.append(path)
        index.append(part)
    results = probes.run_probe_files(files, rlib, deps)
    lines = []
    for k, (bad, other) in enumerate(results):
        if other:
            ctx.problems.append(Problem('harness-broken', 'rustc reported errors without a location in %s' % files[k], '; '.join(other[:3])))
        for i, (form, a, b, same) in enumerate(index[k]):
            obs = 0 if (i + 2) in bad else 1
            lines.append('acc %s %s %s %s %s %d %d %s:%s:%s' % (form, ','.join(map(str, a['dim'])), a['kind'], ','.join(map(str, b['dim'])), b['kind'], same, obs,
                                                         a['module'], b['module'], bad.get(i + 2, '-')))
    cpath = os.path.join(pdir, 'cases.txt')
    with open(cpath, 'w', encoding='utf-8') as f:
        f.write('\n'.join(lines) + '\n')
    dump = lean_dump(ctx)
    if dump is None:
        return False
    res = pipe(ctx, pipename, 'cat %s %s' % (dump, cpath), shards=1, tier=tier, seed=seed)
    absorb(ctx, res, pipename)
    return True


def kind_conversion_probes(ctx, tier=None, seed=None):
    """C15 negatives and positives, decided by rustc: `let _: B = a.into()` for every ordered pair of SI classes of
    one dimension (special kind -> default, default -> special, special -> other special, temperature kind <-> default)
    and a sample of pairs of different dimension"""
    import probes
    import random
    tier = tier or ctx.tier
    seed = ctx.seed if seed is None else seed
    t = load_table()
    if not cargo_build(ctx, 'wide', []):
        return
    rlib, deps = probes.find_rlib('wide')
    if not rlib:
        ctx.problems.append(Problem('harness-broken', 'uom rlib not found'))
        return
    cl = probes.classes(t)
    keys = sorted(cl, key=lambda k: (k[1], k[0]))
    same_dim = [(x, y) for x in keys for y in keys if x != y and x[0] == y[0]]
    others = [(x, y) for x in keys for y in keys if x[0] != y[0]]
    rng = random.Random(seed)
    pairs = same_dim + (others if tier == 'thorough' else rng.sample(others, min(len(others), 300)))
    cases = [('from', cl[x][0], cl[y][0], 0) for x, y in pairs] + [('from', cl[x][0], cl[x][0], 1) for x in keys]
    run_acc_cases(ctx, cases, rlib, deps, 'probes15', 'kind-conversion-programs', tier, seed)
    ctx.extra['kind_conversion_programs'] = len(cases)


def run_c02(ctx, tier=None, seed=None):
    import probes
    import random
    tier = tier or ctx.tier
    seed = ctx.seed if seed is None else seed
    t = load_table()
    if not cargo_build(ctx, 'wide', []):
        return
    rlib, deps = probes.find_rlib('wide')
    if not rlib:
        ctx.problems.append(Problem('harness-broken', 'uom rlib not found'))
        return
    cl = probes.classes(t)
    keys = sorted(cl, key=lambda k: (k[1], k[0]))
    rng = random.Random(seed)
    pairs = [(x, y) for x in keys for y in keys if x != y]
    if tier != 'thorough':
        special = [k for k in keys if k[1] != 'Kind']
        must = [(x, y) for x in special for y in keys if x != y and (x[0] == y[0])] + [(y, x) for x in special for y in keys if x != y and (x[0] == y[0])]
        pairs = list(dict.fromkeys(must + rng.sample(pairs, 400)))
    cases = []   # (form, a, b, same_module)
    for x, y in pairs:
        a, b = cl[x][0], cl[y][0]
        for f in probes.FORMS:
            cases.append((f, a, b, 0))
    for x in keys:            # positive controls and kind-dependent forms on identical types
        a = cl[x][0]
        for f in probes.FORMS + ['sqrt', 'cbrt', 'neg']:
            cases.append((f, a, a, 1))
        for b in cl[x][1:2]:  # same type, other quantity module: foreign units are still rejected
            for f in ('newf', 'getf', 'fmtargs', 'fmtwith', 'floorf', 'letbind', 'add', 'eq', 'from'):
                cases.append((f, a, b, 0))
    if not run_acc_cases(ctx, cases, rlib, deps, 'probes02', 'rustc-verdicts', tier, seed):
        return
    ctx.extra['probe_functions'] = len(cases)
    ctx.extra['class_pairs'] = len(pairs)
    ctx.extra['classes'] = len(keys)
    mixed_base_programs(ctx)


spec('C02', run=run_c02, search=None,
     rule='one probe function per (form, class pair): 26 forms (+ − % += −= %= == < partial_cmp Ord::max let-binding hypot atan2 new::<foreign> get::<foreign> into_format_args(foreign) format_args(foreign).with floor::<foreign> From/Into saturating_add saturating_sub Sum, and the by-reference forms a + &b, a − &b, a += &b, slice.iter().sum()) × '
          '400 seeded + all same-dimension-different-kind ordered pairs of the (dimension, kind) classes of the SI (thorough: all pairs), 29 forms on every class with itself '
          '(positive controls, marker-dependent forms, sqrt/cbrt/neg), same-type-different-module pairs; rustc’s verdict per function (primary error span → function) compared '
          'with the acceptance relation; 24 mixed-base programs (all operator forms, hypot, mul_add, temperature arithmetic, kind conversions) under autoconvert on/off; non-trivial: the two types differ',
     trusted_base=['rustc is the implementation under test; a probe is “rejected” when an error’s primary span lies in its line'],
     assumptions=['f64 storage for all forms except Ord::max and the saturating forms (i32)'])


# ------------------------------------------------------------------------------------------------
# C19: the harness-declared system


def run_c19(ctx, tier=None, seed=None):
    if not cargo_build(ctx, 'fl', ['usr']):
        return
    dump = lean_dump(ctx)
    if dump is None:
        return
    udump = os.path.join(VERIF, 'build', 'dump_usr.txt')
    rc, out = sh(['lake', 'build', 'Uom.Gen.Usr', 'Uom.Model.Coef', 'Uom.Model.Num'], cwd=LEAN)
    rc, out = sh('lake env lean --run DumpUsr.lean > %s' % udump, cwd=LEAN)
    if rc != 0:
        ctx.problems.append(Problem('proof-broken', 'DumpUsr.lean failed', out[-1500:]))
        return
    # exhaustive diff: what the macros produced vs the table generated from the macro invocations
    rc, out = sh(bin_path('usr', False, 'fl') + ' reg')
    rust = out.splitlines()
    lean = open(udump, encoding='utf-8').read().splitlines()
    if rust != lean:
        import difflib
        d = [l for l in difflib.unified_diff(lean, rust, 'model', 'impl', lineterm='', n=0)][:12]
        ctx.problems.append(Problem('model-differs', 'registry of the harness-declared system differs from the table generated from its macro invocations',
                                    detail='\n'.join(d), line=(d[3] if len(d) > 3 else ''), cmd=bin_path('usr', False, 'fl') + ' reg', tag='usr-registry'))
    ctx.extra['usr_registry_rows'] = len(rust)
    res = pipe(ctx, 'user-system', '{ cat %s %s; %s all; }' % (dump, udump, bin_path('usr', False, 'fl')), shards=1, tier=tier, seed=seed)
    absorb(ctx, res, 'user-system')


spec('C19', run=run_c19, search=search_with(run_c19, seeds=(7,)),
     rule='a 4-base system declared in the harness with system!/quantity! (7 quantities, 24 units: fractional 1/3, large 4.8e9, tiny 7.5e-14, two offset units, prefix! coefficients; '
          'default base units, a non-identity f64 base tuple and an f32 one): construction/read-back/round-trip/rounding of every unit, mixed-base + − * / % < == >=, result types, '
          'format/Debug/parse; 3 units added to SI length/temperature with unit! (conversion, absence from registry and FromStr); ISQ! aliases over six base-unit tuples × 5 units + Debug labels; '
          'registry of the user system diffed exhaustively against the table generated from its macro invocations; non-trivial as for the SI drivers',
     trusted_base=['the harness’s own declarations are parsed by the same translator as src/si'],
     assumptions=['f32/f64 storage'])


# ------------------------------------------------------------------------------------------------
# C04: zero cost


STORAGE = [('f32', 'f32'), ('f64', 'f64'), ('i32', 'i32'), ('i64', 'i64'), ('u32', 'u32'), ('u64', 'u64'), ('isize', 'isize'),
           ('bigint', 'uom::num::BigInt'), ('biguint', 'uom::num::BigUint'), ('rational64', 'uom::num::rational::Rational64'), ('bigrational', 'uom::num::BigRational'),
           ('complex32', 'uom::num::complex::Complex32'), ('complex64', 'uom::num::complex::Complex64')]
TRAITS = ['Copy', 'Clone', 'Eq', 'Ord', 'PartialEq', 'PartialOrd', 'core::hash::Hash', 'Default', 'Send', 'Sync', 'Unpin',
          'std::panic::UnwindSafe', 'std::panic::RefUnwindSafe', 'core::fmt::Debug']


def run_c04(ctx, tier=None, seed=None):
    import asmcat
    import probes
    g = asmcat.generate(ctx)
    if g is None:
        return
    pairs, folded = g
    res = asmcat.build_and_compare(ctx, pairs)
    if res is None:
        return
    n_bad = 0
    samples = []
    for ident, a, b, ok in res:
        if len(samples) < 4 and a and len(a) > 2:
            samples.append(dict(function=ident, impl=a[:6], reference=b[:6] if b else None))
        if not ok:
            n_bad += 1
            ctx.problems.append(Problem('property-fails', 'machine code of impl_%s differs from the bare-number reference' % ident,
                                        detail='impl: %s\nref:  %s' % (a, b), line='asm pair %s' % ident, failing_input=True,
                                        cmd='cd /verif/harness/asm && cargo rustc --release --offline --lib -- --emit=asm', tag='asm'))
    ctx.extra['asm_pairs'] = len(res)
    ctx.extra['asm_pairs_identical'] = len(res) - n_bad
    ctx.extra['evaluations'] = ctx.extra.get('evaluations', 0) + len(res)
    ctx.extra['distinct_nontrivial'] = ctx.extra.get('distinct_nontrivial', 0) + len([1 for i, a, b, ok in res if a and len(a) > 2])
    ctx.extra['samples'] = samples
    # size / alignment / trait capabilities: the quantity must have exactly what its storage type has
    if not cargo_build(ctx, 'wide', []):
        return
    rlib, deps = probes.find_rlib('wide')
    pdir = os.path.join(VERIF, 'build', 'probes04')
    os.makedirs(pdir, exist_ok=True)
    path = os.path.join(pdir, 'layout.rs')
    rows = []
    with open(path, 'w', encoding='utf-8') as f:
        f.write('#![allow(unused)]\n')
        for name, ty in STORAGE:
            q = 'uom::si::%s::Energy' % name
            f.write('const _S_%s: () = assert!(core::mem::size_of::<%s>() == core::mem::size_of::<%s>() && core::mem::align_of::<%s>() == core::mem::align_of::<%s>());\n' % (name, q, ty, q, ty))
            rows.append(('layout', name, None))
        for tr in TRAITS:
            t_id = re.sub(r'\W', '_', tr)
            f.write('fn need_%s<T: %s>() {}\n' % (t_id, tr))
            rows.append(None)
            for name, ty in STORAGE:
                f.write('fn q_%s_%s() { need_%s::<uom::si::%s::Energy>(); }\n' % (t_id, name, t_id, name))
                rows.append(('q', tr, name))
                f.write('fn v_%s_%s() { need_%s::<%s>(); }\n' % (t_id, name, t_id, ty))
                rows.append(('v', tr, name))
    bad, other = probes.rustc_rejects(path, rlib, deps)
    if other:
        ctx.problems.append(Problem('harness-broken', 'layout probe: rustc errors without location', '; '.join(other[:3])))
    verdict = {}
    n_layout = 0
    for i, row in enumerate(rows):
        if row is None:
            continue
        ok = (i + 2) not in bad
        if row[0] == 'layout':
            n_layout += 1
            if not ok:
                ctx.problems.append(Problem('property-fails', 'size/alignment of a quantity differs from its storage type %s' % row[1], line='layout %s' % row[1],
                                            failing_input=True, cmd='rustc ' + path, tag='layout'))
        else:
            verdict[row] = ok
            if not ok and bad.get(i + 2) not in ('E0277',):
                ctx.problems.append(Problem('harness-broken', 'trait probe %s failed with %s (not an unsatisfied bound)' % (row, bad.get(i + 2))))
    n_tr = 0
    for tr in TRAITS:
        for name, ty in STORAGE:
            n_tr += 1
            if verdict.get(('q', tr, name)) != verdict.get(('v', tr, name)):
                ctx.problems.append(Problem('property-fails', 'Quantity<_, _, %s>: %s is %s but %s: %s is %s' % (
                    name, tr, verdict.get(('q', tr, name)), ty, tr, verdict.get(('v', tr, name))), line='trait %s %s' % (tr, name),
                    failing_input=True, cmd='rustc ' + path, tag='traits'))
    ctx.extra['layout_assertions'] = n_layout
    ctx.extra['trait_capability_pairs'] = n_tr
    ctx.extra['evaluations'] += n_layout + n_tr


spec('C04', run=run_c04, search=None,
     rule='asm catalogue: new/get of 13 units (identity, multiplicative, affine; both branches) × 7 storage/base-unit combinations, + − * / < == >= neg on same-base and mixed-base '
          'operands in 8 base-unit pairs, by-value quantity arguments (call ABI): optimised machine code of the quantity-level function vs the bare-number reference generated from the '
          'Lean model’s folded normal form (constants as bit patterns), compared instruction by instruction after resolving constant-pool labels; size/align const assertions and '
          '14 trait capabilities × 13 storage types compared between Quantity and the bare storage type via rustc; non-trivial: functions with at least one instruction besides ret',
     trusted_base=['LLVM code generation and the platform ABI are observed, not modelled (why the claim is partial)', 'x86-64 release profile of this toolchain'],
     assumptions=['the reference functions are trusted to be what “the same expression on bare numbers” means; they are generated, not hand-written'])


def replay(ctx, spec_, path):
    with open(path, encoding='utf-8') as f:
        body = json.load(f)
    n = 0
    for p in body.get('problems', []):
        if p.get('cmd') and p.get('line'):
            line = p['line'].split(' :: ', 1)[-1]
            key = ' '.join(line.split(' ')[:10])
            rc, out = sh('cd %s && %s | grep -F -- %s | %s' % (HARNESS, p['cmd'], json.dumps(key), os.path.join(LEAN, '.lake/build/bin/driver')))
            print(out)
            n += 1
            if n >= 5:
                break
    return 0
