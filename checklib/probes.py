"""rustc as the implementation under test: type-level probes for C01 (result types) and C02 (rejections)."""
import json
import os
import random
import subprocess
import glob
from concurrent.futures import ThreadPoolExecutor

from main import HARNESS, VERIF, NCPU, Problem, cargo_build, bin_path, log, sh, BASE_ENV

TN = {0: 'Z0'}
for i in range(1, 40):
    TN[i] = 'P%d' % i
    TN[-i] = 'N%d' % i


def classes(t):
    """(dim, kind) classes of the SI -> list of member quantities"""
    cl = {}
    for q in t['quantities']:
        cl.setdefault((tuple(q['dim']), q['kind']), []).append(q)
    return cl


def alias(q, v='f64'):
    return 'uom::si::%s::%s' % (v, q['name'])


def has(t, kind, marker):
    return marker in t['kinds'][kind]


# ------------------------------------------------------------------------------------------------
# C01


def gen_c01(t, seed, n_pairs, path, roots=None):
    rng = random.Random(seed)
    qs = t['quantities']
    cl = classes(t)
    default_by_dim = {d: ms[0] for (d, k), ms in cl.items() if k == 'Kind'}
    pairs = [(a, b) for a in qs for b in qs]
    if n_pairs < len(pairs):
        # always keep the diagonal and a few fixed textbook pairs; sample the rest
        keep = [(a, a) for a in qs]
        rest = rng.sample(pairs, n_pairs)
        pairs = keep + rest
    stmts = []
    n_inter = 0
    for a, b in pairs:
        A, B = alias(a), alias(b)
        s = ['let a: %s = z(); let b: %s = z();' % (A, B),
             'w(out, "mul", d(&a), d(&b), 0, d(&(a * b)));',
             'w(out, "div", d(&a), d(&b), 0, d(&(a / b)));',
             'w(out, "mul_add", d(&a), d(&b), 0, d(&a.mul_add(b, a * b)));']
        dsum = tuple(x + y for x, y in zip(a['dim'], b['dim']))
        ddif = tuple(x - y for x, y in zip(a['dim'], b['dim']))
        # interchangeable with the default-kind named quantity of that dimension (must type-check)
        if dsum in default_by_dim:
            s.append('let _c: %s = a * b;' % alias(default_by_dim[dsum]))
            n_inter += 1
        if ddif in default_by_dim:
            s.append('let _c: %s = a / b;' % alias(default_by_dim[ddif]))
            n_inter += 1
        stmts.append(' '.join(s))
    # unary forms on every quantity
    for a in qs:
        A = alias(a)
        u0 = 'uom::si::%s::%s' % (a['module'], a['units'][0]['name'])
        s = ['let a: %s = z();' % A,
             'w(out, "recip", d(&a), d(&a), 0, d(&a.recip()));',
             'w(out, "kmul", d(&a), d(&a), 0, d(&(2.0 * a)));',
             'w(out, "kdiv", d(&a), d(&a), 0, d(&(2.0 / a)));']
        for e, ty in ((2, 'P2'), (3, 'P3'), (-1, 'N1'), (-3, 'N3'), (0, 'Z0'), (1, 'P1')):
            s.append('w(out, "powi", d(&a), d(&a), %d, d(&a.powi(%s::new())));' % (e, ty))
        # roots: every quantity for which rustc accepts the call (not only those the model expects)
        if (roots is None and all(x % 2 == 0 for x in a['dim'])) or (roots is not None and (a['module'], 'sqrt') in roots):
            s.append('w(out, "sqrt", d(&a), d(&a), 0, d(&a.sqrt()));')
        if (roots is None and all(x % 3 == 0 for x in a['dim'])) or (roots is not None and (a['module'], 'cbrt') in roots):
            s.append('w(out, "cbrt", d(&a), d(&a), 0, d(&a.cbrt()));')
        keep = ['a * 2.0', 'a / 2.0', 'a % a', 'a.abs()', 'a.signum()', 'a.max(a)', 'a.min(a)',
                'a.floor::<%s>()' % u0, 'a.ceil::<%s>()' % u0, 'a.round::<%s>()' % u0, 'a.trunc::<%s>()' % u0, 'a.fract::<%s>()' % u0,
                '{ let mut x = a; x *= 2.0; x }', '{ let mut x = a; x /= 2.0; x }', '{ let mut x = a; x %= a; x }']
        if has(t, a['kind'], 'Add'):
            keep += ['a + a', 'a - a', '{ let mut x = a; x += a; x }', '{ let mut x = a; x -= a; x }']
        if has(t, a['kind'], 'Neg'):
            keep.append('-a')
        for k in keep:
            s.append('w(out, "keep", d(&a), d(&a), 0, d(&(%s)));' % k)
        stmts.append(' '.join(s))
    # synthetic vectors: a distinct exponent in every base position, default and special kinds
    synth = [((1, 2, 3, -1, -2, -3, 4), 'dyn uom::Kind'), ((-4, 3, -2, 1, 0, 2, -1), 'dyn uom::Kind'), ((2, -1, 4, 3, 1, -2, -3), 'dyn uom::si::marker::AngleKind'),
             ((6, -6, 12, 0, -12, 18, 6), 'dyn uom::si::marker::InformationKind'), ((0, 1, -1, 2, -2, 3, -3), 'dyn uom::si::marker::TemperatureKind')]

    def sty(v, k):
        return 'Quantity<ISQ<%s, %s>, SI<f64>, f64>' % (', '.join(TN[x] for x in v), k)

    for (va, ka) in synth:
        for (vb, kb) in synth:
            stmts.append('let a: %s = z(); let b: %s = z(); w(out, "mul", d(&a), d(&b), 0, d(&(a * b))); w(out, "div", d(&a), d(&b), 0, d(&(a / b))); '
                         'w(out, "mul_add", d(&a), d(&b), 0, d(&a.mul_add(b, a * b)));' % (sty(va, ka), sty(vb, kb)))
        s = 'let a: %s = z(); w(out, "recip", d(&a), d(&a), 0, d(&a.recip())); w(out, "kmul", d(&a), d(&a), 0, d(&(2.0 * a))); w(out, "kdiv", d(&a), d(&a), 0, d(&(2.0 / a))); ' % sty(va, ka)
        s += 'w(out, "powi", d(&a), d(&a), -2, d(&a.powi(N2::new()))); w(out, "keep", d(&a), d(&a), 0, d(&(a * 2.0))); w(out, "keep", d(&a), d(&a), 0, d(&(a % a)));'
        if all(x % 2 == 0 for x in va):
            s += ' w(out, "sqrt", d(&a), d(&a), 0, d(&a.sqrt()));'
        if all(x % 3 == 0 for x in va):
            s += ' w(out, "cbrt", d(&a), d(&a), 0, d(&a.cbrt()));'
        stmts.append(s)
    chunks = [stmts[i:i + 40] for i in range(0, len(stmts), 40)]
    out = ['// GENERATED by checklib/probes.py — do not edit']
    for i, ch in enumerate(chunks):
        out.append('#[inline(never)]\nfn p%d<W: Write>(out: &mut W) {' % i)
        for s in ch:
            out.append('    { %s }' % s)
        out.append('}')
    out.append('fn run<W: Write>(out: &mut W) {')
    for i in range(len(chunks)):
        out.append('    p%d(out);' % i)
    out.append('}')
    content = '\n'.join(out) + '\n'
    try:
        if open(path, encoding='utf-8').read() == content:
            return len(pairs), n_inter
    except OSError:
        pass
    os.makedirs(os.path.dirname(path), exist_ok=True)
    with open(path, 'w', encoding='utf-8') as f:
        f.write(content)
    return len(pairs), n_inter


def accepted_roots(t, rlib, deps, workdir):
    """{(module, 'sqrt'|'cbrt')} for which the call type-checks"""
    os.makedirs(workdir, exist_ok=True)
    path = os.path.join(workdir, 'roots.rs')
    rows = []
    with open(path, 'w', encoding='utf-8') as f:
        f.write('#![allow(unused)]\n')
        for q in t['quantities']:
            for r in ('sqrt', 'cbrt'):
                f.write('pub fn r_%s_%s(a: %s) { let _ = a.%s(); }\n' % (q['module'], r, alias(q), r))
                rows.append((q['module'], r))
    bad, other = rustc_rejects(path, rlib, deps)
    return {row for i, row in enumerate(rows) if (i + 2) not in bad}


# ------------------------------------------------------------------------------------------------
# C02


FORMS = ['add', 'sub', 'rem', 'adda', 'suba', 'rema', 'eq', 'lt', 'pcmp', 'ordmax', 'letbind', 'hypot', 'atan2', 'newf', 'getf', 'from',
         'satadd', 'satsub', 'sum', 'fmtargs', 'fmtwith', 'floorf', 'sumref', 'addref', 'subref', 'addaref']


def probe_fn(name, form, a, b):
    """one probe function; `a`, `b` are quantity records"""
    A, B = alias(a), alias(b)
    Ai, Bi = alias(a, 'i32'), alias(b, 'i32')
    ub = 'uom::si::%s::%s' % (b['module'], b['units'][0]['name'])
    body = {
        'add': 'let _ = a + b;', 'sub': 'let _ = a - b;', 'rem': 'let _ = a % b;',
        'adda': 'let mut a = a; a += b;', 'suba': 'let mut a = a; a -= b;', 'rema': 'let mut a = a; a %= b;',
        'eq': 'let _ = a == b;', 'lt': 'let _ = a < b;', 'pcmp': 'let _ = a.partial_cmp(&b);',
        'letbind': 'let _x: %s = a; let _ = b;' % B,
        'hypot': 'let _ = a.hypot(b);', 'atan2': 'let _ = a.atan2(b);',
        'newf': 'let _ = <%s>::new::<%s>(1.0); let _ = (a, b);' % (A, ub),
        'getf': 'let _ = a.get::<%s>(); let _ = b;' % ub,
        'fmtargs': 'let _ = a.into_format_args(%s, uom::fmt::DisplayStyle::Abbreviation); let _ = b;' % ub,
        'fmtwith': 'let _ = <%s>::format_args(%s, uom::fmt::DisplayStyle::Description).with(a); let _ = b;' % (A, ub),
        'floorf': 'let _ = a.floor::<%s>(); let _ = b;' % ub,
        'from': 'let _x: %s = a.into(); let _ = b;' % B,
        'addref': 'let _ = a + &b;', 'subref': 'let _ = a - &b;', 'addaref': 'let mut a = a; a += &b;',
        'sqrt': 'let _ = a.sqrt(); let _ = b;', 'cbrt': 'let _ = a.cbrt(); let _ = b;', 'neg': 'let _ = -a; let _ = b;',
    }
    if form == 'ordmax':
        return 'pub fn %s(a: %s, b: %s) { let _ = Ord::max(a, b); }' % (name, Ai, Bi)
    if form == 'satadd':
        return 'pub fn %s(a: %s, b: %s) { let _ = uom::num::Saturating::saturating_add(a, b); }' % (name, Ai, Bi)
    if form == 'satsub':
        return 'pub fn %s(a: %s, b: %s) { let _ = uom::num::Saturating::saturating_sub(a, b); }' % (name, Ai, Bi)
    if form == 'sumref':
        return 'pub fn %s(a: %s, b: %s) { let v = [b]; let _: %s = v.iter().sum(); let _ = a; }' % (name, A, B, A)
    if form == 'sum':
        return 'pub fn %s(a: %s, b: %s) { let _: %s = [b].into_iter().sum(); let _ = a; }' % (name, A, B, A)
    return 'pub fn %s(a: %s, b: %s) { %s }' % (name, A, B, body[form])


def find_rlib(features):
    deps = os.path.join(HARNESS, 'target', features, 'debug', 'deps')
    c = sorted(glob.glob(os.path.join(deps, 'libuom-*.rlib')), key=os.path.getmtime)
    return (c[-1] if c else None), deps


def rustc_rejects(src, rlib, deps):
    """type-check `src`; return the set of 1-based line numbers that carry an error's primary span"""
    cmd = ['rustc', '--edition', '2021', '--crate-type', 'lib', '--error-format=json', '--emit=metadata', '-o', src + '.rmeta',
           '-L', 'dependency=' + deps, '--extern', 'uom=' + rlib, '-A', 'warnings', src]
    p = subprocess.run(cmd, stdout=subprocess.PIPE, stderr=subprocess.PIPE, text=True, env=BASE_ENV)
    bad = {}
    other = []
    for line in p.stderr.splitlines():
        try:
            m = json.loads(line)
        except ValueError:
            continue
        if m.get('level') != 'error':
            continue
        spans = [s for s in m.get('spans', []) if s.get('is_primary')]
        if not spans:
            if 'aborting due to' not in m.get('message', ''):
                other.append(m.get('message', ''))
            continue
        for s in spans:
            bad.setdefault(s['line_start'], (m.get('code') or {}).get('code'))
    try:
        os.remove(src + '.rmeta')
    except OSError:
        pass
    return bad, other


def run_probe_files(files, rlib, deps):
    with ThreadPoolExecutor(max_workers=NCPU) as ex:
        return list(ex.map(lambda f: rustc_rejects(f, rlib, deps), files))
