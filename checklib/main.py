"""Check driver framework (see /verif/check and DESIGN.md §4)."""
import hashlib
import json
import os
import re
import shutil
import subprocess
import sys
import time
from concurrent.futures import ThreadPoolExecutor

VERIF = os.path.dirname(os.path.dirname(os.path.abspath(__file__)))
LEAN = os.path.join(VERIF, 'lean')
HARNESS = os.path.join(VERIF, 'harness')
DRIVER = os.path.join(LEAN, '.lake', 'build', 'bin', 'driver')
REPO = os.environ.get('UOM_REPO', '/repo')
NCPU = os.cpu_count() or 4
ALLOWED_AXIOMS = {'propext', 'Classical.choice', 'Quot.sound'}

BASE_ENV = dict(os.environ)
BASE_ENV.update({'CARGO_NET_OFFLINE': 'true', 'CARGO_TERM_COLOR': 'never', 'RUST_BACKTRACE': '0'})


def log(*a):
    print('[check]', *a, file=sys.stderr, flush=True)


def sh(cmd, cwd=None, env=None, timeout=None, stdin=None):
    e = dict(BASE_ENV)
    if env:
        e.update(env)
    p = subprocess.run(cmd, cwd=cwd, env=e, stdout=subprocess.PIPE, stderr=subprocess.STDOUT, timeout=timeout,
                       input=stdin, text=True, shell=isinstance(cmd, str))
    return p.returncode, p.stdout


class Problem:
    """one reason the property is not shown to hold"""

    def __init__(self, kind, what, detail='', line=None, cmd=None, failing_input=False, tag=''):
        self.kind = kind            # translator-broken | proof-broken | model-differs | property-fails | harness-broken
        self.what = what
        self.detail = detail
        self.line = line
        self.cmd = cmd
        self.failing_input = failing_input
        self.tag = tag

    def as_dict(self):
        return {k: v for k, v in self.__dict__.items() if v not in (None, '')}


class Ctx:
    def __init__(self, prop, tier, seed):
        self.prop = prop
        self.tier = tier
        self.seed = seed
        self.t0 = time.time()
        self.problems = []
        self.known = []             # KNOWN-FINDING lines to print
        self.obligations = []       # (theorem, axioms)
        self.pipes = []             # summaries of correspondence runs
        self.samples = []
        self.counts = {}
        self.notes = []
        self.extra = {}
        self.translated = None
        self.checker_cmds = []

    def add_counts(self, c):
        for k, v in c.items():
            self.counts[k] = self.counts.get(k, 0) + v


# ------------------------------------------------------------------------------------------------
# step 1: translator


def translate(ctx):
    rc, out = sh([sys.executable, os.path.join(VERIF, 'translate', 'translate.py')], env={'UOM_REPO': REPO})
    ctx.translated = out.strip()
    if rc != 0:
        m = re.search(r'translator-broken:(\S+)\s*(.*)', out)
        site = m.group(1) if m else 'unknown'
        ctx.problems.append(Problem('translator-broken', 'translator-broken:' + site, out.strip()[-2000:]))
        return False
    log(out.strip())
    return True


def load_table():
    with open(os.path.join(VERIF, 'build', 'table.json'), encoding='utf-8') as f:
        return json.load(f)


# ------------------------------------------------------------------------------------------------
# step 2: Lean


FORBIDDEN = re.compile(r'\b(sorry|admit|native_decide|bv_decide|implemented_by|unsafe)\b|^\s*axiom\s|maxHeartbeats\s+0\b', re.M)


def strip_lean_comments(src):
    out = []
    i = 0
    depth = 0
    n = len(src)
    while i < n:
        if src.startswith('/-', i):
            depth += 1
            i += 2
        elif depth and src.startswith('-/', i):
            depth -= 1
            i += 2
        elif depth:
            i += 1
        elif src.startswith('--', i):
            j = src.find('\n', i)
            i = n if j < 0 else j
        elif src[i] == '"':
            j = i + 1
            while j < n and src[j] != '"':
                j += 2 if src[j] == '\\' else 1
            out.append('""')
            i = j + 1
        else:
            out.append(src[i])
            i += 1
    return ''.join(out)


def lean_sources():
    for root, _dirs, files in os.walk(LEAN):
        if '.lake' in root:
            continue
        for f in files:
            if f.endswith('.lean'):
                yield os.path.join(root, f)


def grep_forbidden(ctx):
    bad = []
    for p in lean_sources():
        with open(p, encoding='utf-8') as f:
            src = strip_lean_comments(f.read())
        for m in FORBIDDEN.finditer(src):
            bad.append('%s: %s' % (os.path.relpath(p, LEAN), m.group(0).strip()))
    if bad:
        ctx.problems.append(Problem('proof-broken', 'forbidden construct in Lean sources', '\n'.join(bad[:20])))
    return not bad


def lake_build(ctx, targets):
    cmd = ['lake', 'build'] + targets
    ctx.checker_cmds.append('cd /verif/lean && ' + ' '.join(cmd))
    t = time.time()
    rc, out = sh(cmd, cwd=LEAN, timeout=3600)
    log('lake build %s rc=%d %.1fs' % (' '.join(targets), rc, time.time() - t))
    if rc != 0:
        errs = re.findall(r'error: ([^\n]*\.lean:\d+:\d+)[^\n]*', out)
        mods = re.findall(r'✖ \[\d+/\d+\] Building (\S+)', out)
        what = 'proof-broken:' + (','.join(sorted(set(mods))) if mods else 'lake build')
        # name the theorems whose proof fails, from the error positions
        names = []
        for e in errs[:10]:
            m = re.match(r'(.*\.lean):(\d+):', e)
            if m:
                nm = theorem_at(os.path.join(LEAN, m.group(1)) if not os.path.isabs(m.group(1)) else m.group(1), int(m.group(2)))
                if nm:
                    names.append(nm)
        if names:
            what += ' theorems=' + ','.join(dict.fromkeys(names))
        ctx.problems.append(Problem('proof-broken', what, out[-4000:]))
        return False
    return True


def theorem_at(path, line):
    try:
        with open(path, encoding='utf-8') as f:
            lines = f.readlines()
    except OSError:
        return None
    for i in range(min(line, len(lines)) - 1, -1, -1):
        m = re.match(r'\s*(?:private\s+|protected\s+)?(?:theorem|lemma|def|instance|example)\s+(\S+)', lines[i])
        if m:
            return m.group(1)
    return None


def props_theorems(prop):
    """names of the theorems declared in Uom/Props/<prop>.lean (namespace Uom.<prop>)"""
    path = os.path.join(LEAN, 'Uom', 'Props', prop + '.lean')
    with open(path, encoding='utf-8') as f:
        src = strip_lean_comments(f.read())
    return re.findall(r'^\s*theorem\s+([A-Za-z0-9_\.\']+)', src, re.M)


def audit(ctx, prop):
    names = props_theorems(prop)
    if not names:
        ctx.problems.append(Problem('proof-broken', 'no theorems in Props/%s.lean' % prop))
        return False
    adir = os.path.join(LEAN, '.lake', 'audit')
    os.makedirs(adir, exist_ok=True)
    apath = os.path.join(adir, 'Audit_%s.lean' % prop)
    with open(apath, 'w', encoding='utf-8') as f:
        f.write('import Uom.Props.%s\n' % prop)
        for n in names:
            f.write('#print axioms Uom.%s.%s\n' % (prop, n))
    cmd = ['lake', 'env', 'lean', apath]
    ctx.checker_cmds.append('cd /verif/lean && lake env lean .lake/audit/Audit_%s.lean   # #print axioms of every theorem' % prop)
    rc, out = sh(cmd, cwd=LEAN, timeout=1800)
    ok = rc == 0
    found = {}
    for m in re.finditer(r"'Uom\.%s\.([^']+)' (depends on axioms: \[([^\]]*)\]|does not depend on any axioms)" % prop, out):
        axs = [a.strip() for a in (m.group(3) or '').replace('\n', ' ').split(',') if a.strip()]
        found[m.group(1)] = axs
    for n in names:
        if n not in found:
            ok = False
            ctx.problems.append(Problem('proof-broken', 'proof-broken: no axiom report for theorem %s' % n, out[-1500:]))
            continue
        extra = [a for a in found[n] if a not in ALLOWED_AXIOMS]
        if extra:
            ok = False
            ctx.problems.append(Problem('proof-broken', 'theorem %s depends on non-standard axioms %s' % (n, extra)))
        ctx.obligations.append((n, found[n]))
    if rc != 0 and ok:
        ctx.problems.append(Problem('proof-broken', 'audit file failed to elaborate', out[-1500:]))
        ok = False
    return ok


def leanchecker(ctx, modules):
    ok = True
    for m in modules:
        cmd = ['lake', 'env', 'leanchecker', m]
        ctx.checker_cmds.append('cd /verif/lean && ' + ' '.join(cmd))
        rc, out = sh(cmd, cwd=LEAN, timeout=3600)
        if rc != 0:
            ok = False
            ctx.problems.append(Problem('proof-broken', 'leanchecker rejects ' + m, out[-1500:]))
    return ok


# ------------------------------------------------------------------------------------------------
# step 3: harness


_built = set()


def cargo_build(ctx, features, bins, release=False):
    key = (features, tuple(bins), release)
    if key in _built:
        return True
    if not os.path.exists(os.path.join(HARNESS, 'Cargo.lock')):
        shutil.copy(os.path.join(REPO, 'Cargo.lock'), os.path.join(HARNESS, 'Cargo.lock'))
    cmd = ['cargo', 'build', '--offline', '--features', features, '--target-dir', os.path.join(HARNESS, 'target', features)]
    if release:
        cmd.append('--release')
    for b in bins:
        cmd += ['--bin', b]
    if not bins:
        cmd.append('--lib')
    t = time.time()
    rc, out = sh(cmd, cwd=HARNESS, timeout=7200)
    log('cargo build %s [%s] rc=%d %.1fs' % (','.join(bins), features, rc, time.time() - t))
    if rc != 0:
        errs = [l for l in out.splitlines() if l.startswith('error')]
        ctx.problems.append(Problem('harness-broken', 'harness does not build against /repo (features %s): %s' % (features, '; '.join(errs[:3])),
                                    out[-4000:]))
        return False
    _built.add(key)
    return True


def bin_path(name, release=False, features='fl'):
    return os.path.join(HARNESS, 'target', features, 'release' if release else 'debug', name)


class PipeResult:
    def __init__(self):
        self.summary = {}
        self.counts = {}
        self.diffs = []
        self.props = []
        self.bads = []
        self.samples = []
        self.errors = []


def _run_shard(cmdline, env):
    e = dict(BASE_ENV)
    e.update(env)
    p = subprocess.run(cmdline, shell=True, env=e, stdout=subprocess.PIPE, stderr=subprocess.PIPE, text=True, executable='/bin/bash')
    return p.returncode, p.stdout, p.stderr


def pipe(ctx, name, harness_cmd, env=None, shards=None, tier=None, seed=None):
    """run `harness_cmd | driver` over `shards` processes; collect the driver's report"""
    shards = shards or NCPU
    env = dict(env or {})
    env['VERIF_SEED'] = str(ctx.seed if seed is None else seed)
    env['VERIF_TIER'] = tier or ctx.tier
    cmdline = 'set -o pipefail; %s | %s' % (harness_cmd, DRIVER)
    res = PipeResult()
    t = time.time()
    with ThreadPoolExecutor(max_workers=NCPU) as ex:
        futs = []
        for i in range(shards):
            e = dict(env)
            e['VERIF_SHARD'] = '%d/%d' % (i, shards)
            futs.append((i, e, ex.submit(_run_shard, cmdline, e)))
        for i, e, fu in futs:
            rc, out, err = fu.result()
            replay_cmd = ' '.join('%s=%s' % (k, v) for k, v in sorted(e.items()) if k.startswith('VERIF_')) + ' ' + harness_cmd
            got_summary = False
            for line in out.splitlines():
                if line.startswith('SUMMARY '):
                    got_summary = True
                    for kv in line.split()[1:]:
                        k, v = kv.split('=')
                        res.summary[k] = res.summary.get(k, 0) + int(v)
                elif line.startswith('COUNT '):
                    parts = line.split(' ')
                    key = ' '.join(parts[1:-1])
                    res.counts[key] = res.counts.get(key, 0) + int(parts[-1])
                elif line.startswith('DIFF '):
                    res.diffs.append((line, replay_cmd))
                elif line.startswith('PROP '):
                    res.props.append((line, replay_cmd))
                elif line.startswith('BAD '):
                    res.bads.append((line, replay_cmd))
                elif line.startswith('SAMPLE '):
                    res.samples.append(line[7:])
            if rc != 0 or not got_summary:
                res.errors.append('shard %d rc=%d: %s' % (i, rc, (err or out)[-600:]))
    res.wall = time.time() - t
    log('pipe %s: %s (%.1fs)' % (name, ' '.join('%s=%s' % kv for kv in sorted(res.summary.items())), res.wall))
    ctx.pipes.append(dict(name=name, cmd=harness_cmd, env={k: v for k, v in env.items()}, shards=shards,
                          summary=res.summary, wall_s=round(res.wall, 2)))
    ctx.add_counts(res.counts)
    ctx.samples.extend(res.samples[:3])
    return res


def absorb(ctx, res, name):
    """turn a PipeResult into Problems (after filtering known findings)"""
    if res.errors:
        ctx.problems.append(Problem('harness-broken', 'correspondence run %s failed' % name, '\n'.join(res.errors[:3])))
    if res.bads:
        ctx.problems.append(Problem('model-differs', 'driver cannot parse harness lines of %s' % name, res.bads[0][0], line=res.bads[0][0], cmd=res.bads[0][1]))
    if not res.errors and res.summary.get('lines', 0) == 0:
        ctx.problems.append(Problem('harness-broken', 'correspondence run %s produced no cases' % name))
    kf = load_known()
    for line, cmd in res.props:
        hit = match_known(kf, ctx.prop, line)
        if hit is not None:
            if hit not in [k['id'] for k in ctx.known]:
                ctx.known.append(kf_entry(kf, hit))
            continue
        tag = line.split(' ')[2] if len(line.split(' ')) > 2 else ''
        ctx.problems.append(Problem('property-fails', line.split(' :: ')[0], line=line, cmd=cmd, failing_input=True, tag=tag))
    for line, cmd in res.diffs:
        tag = line.split(' ')[2] if len(line.split(' ')) > 2 else ''
        ctx.problems.append(Problem('model-differs', line.split(' :: ')[0], line=line, cmd=cmd, tag=tag))


# ------------------------------------------------------------------------------------------------
# known findings


def load_known():
    p = os.path.join(VERIF, 'known_findings.json')
    try:
        with open(p, encoding='utf-8') as f:
            return json.load(f)
    except OSError:
        return {'findings': [], 'fixed': []}


def match_known(kf, prop, line):
    for f in kf.get('findings', []):
        if f.get('property') != prop:
            continue
        rx = f.get('line_regex')
        if rx and re.search(rx, line):
            return f['id']
    return None


def kf_entry(kf, fid):
    for f in kf['findings']:
        if f['id'] == fid:
            return f
    return None


# ------------------------------------------------------------------------------------------------
# verdict / evidence


def write_replay(ctx, problems, no_input):
    os.makedirs(os.path.join(VERIF, 'replays'), exist_ok=True)
    body = dict(property=ctx.prop, tier=ctx.tier, seed=ctx.seed,
                failing_input_found=not no_input,
                no_longer_checks=[p.what for p in problems if not p.failing_input][:20],
                problems=[p.as_dict() for p in ([q for q in problems if q.failing_input][:30]
                                                 + [q for q in problems if not q.failing_input][:10])],
                how_to_replay='run `cmd` of a problem (from /verif/harness, harness binaries in target/debug) and pipe it into '
                              '/verif/lean/.lake/build/bin/driver; the `line` is the case as the implementation produced it')
    h = hashlib.sha256(json.dumps(body, sort_keys=True).encode()).hexdigest()[:12]
    path = os.path.join(VERIF, 'replays', '%s-%s.json' % (ctx.prop, h))
    with open(path, 'w', encoding='utf-8') as f:
        json.dump(body, f, indent=1, ensure_ascii=False)
    return path


def write_evidence(ctx, spec, violations):
    os.makedirs(os.path.join(VERIF, 'evidence'), exist_ok=True)
    ev = sum(p['summary'].get('lines', 0) for p in ctx.pipes) + ctx.extra.get('evaluations', 0)
    nontriv = sum(p['summary'].get('nontrivial', 0) for p in ctx.pipes) + ctx.extra.get('distinct_nontrivial', 0)
    n_ob = len(ctx.obligations) + ctx.extra.get('table_obligations', 0)
    discharged = n_ob if not any(p.kind == 'proof-broken' for p in ctx.problems) else max(
        0, n_ob - sum(1 for p in ctx.problems if p.kind == 'proof-broken'))
    cov = dict(
        obligations=n_ob,
        discharged=discharged,
        checker_cmd=' ; '.join(ctx.checker_cmds) or 'n/a',
        trusted_base=spec.get('trusted_base', []) + COMMON_TRUSTED,
        theorems=[dict(name=n, axioms=a) for n, a in ctx.obligations],
        evaluations=ev,
        distinct_nontrivial=nontriv,
        rule=spec.get('rule', ''),
        samples=(ctx.samples[:6] or ctx.extra.get('samples', []) or ['(no correspondence cases in this run)']),
        traces_validated_against_impl=sum(p['summary'].get('lines', 0) for p in ctx.pipes),
        correspondence_runs=ctx.pipes,
        checks=sum(p['summary'].get('checks', 0) for p in ctx.pipes),
        guarded=sum(p['summary'].get('guard', 0) for p in ctx.pipes),
        model_differs=sum(p['summary'].get('diff', 0) for p in ctx.pipes),
        property_fails=sum(p['summary'].get('prop', 0) for p in ctx.pipes),
        input_distribution=dict(sorted(ctx.counts.items())),
        translator=ctx.translated,
        known_findings=[k['id'] for k in ctx.known],
        problems=[p.as_dict() for p in ctx.problems[:20]],
    )
    cov.update({k: v for k, v in ctx.extra.items() if k not in ('evaluations', 'distinct_nontrivial', 'samples', 'table_obligations')})
    doc = dict(property_id=ctx.prop, tier=ctx.tier, seed=ctx.seed, level=spec.get('level', 'proof'), coverage=cov,
               assumptions=spec.get('assumptions', []), wall_s=round(time.time() - ctx.t0, 2), violations=violations)
    with open(os.path.join(VERIF, 'evidence', ctx.prop + '.json'), 'w', encoding='utf-8') as f:
        json.dump(doc, f, indent=1, ensure_ascii=False)


COMMON_TRUSTED = [
    'Lean 4.33.0 kernel; Mathlib v4.33.0 lemmas (kernel-checked); axioms limited to propext, Classical.choice, Quot.sound (audited by #print axioms on every run)',
    'translator /verif/translate (validated against the run-time registry by the C05 registry diff)',
    'correspondence harness /verif/harness + compiled Lean driver (the compiled driver is trusted to compute what the kernel-checked definitions denote)',
    'modelled, not verified: rustc type checker/trait solver, typenum, LLVM, hardware IEEE-754 (checked bit-for-bit against the soft-float on every run), powi, libm, Display/FromStr of storage types',
]


def finish(ctx, spec):
    # search for a failing input when the tie broke without one
    hard = [p for p in ctx.problems]
    for k in ctx.known:
        print('KNOWN-FINDING: property=%s %s' % (ctx.prop, k['what']))
    if not hard:
        write_evidence(ctx, spec, 0)
        print('OK property=%s tier=%s obligations=%d cases=%d wall=%.1fs' % (
            ctx.prop, ctx.tier, len(ctx.obligations) + ctx.extra.get('table_obligations', 0),
            sum(p['summary'].get('lines', 0) for p in ctx.pipes) + ctx.extra.get('evaluations', 0), time.time() - ctx.t0))
        return 0
    have_input = any(p.failing_input for p in hard)
    if not have_input and spec.get('search'):
        log('tie broken without a failing input (%s); searching…' % hard[0].what)
        try:
            spec['search'](ctx)
        except Exception as ex:  # search is best effort
            log('search failed: %r' % ex)
        have_input = any(p.failing_input for p in ctx.problems)
    ordered = sorted(ctx.problems, key=lambda p: (not p.failing_input,))
    path = write_replay(ctx, ordered, not have_input)
    write_evidence(ctx, spec, len([p for p in ctx.problems if p.failing_input]) or 1)
    for p in ordered[:8]:
        print('  %s: %s' % (p.kind, p.what[:300]))
    print('VIOLATION property=%s replay=%s%s' % (ctx.prop, path, '' if have_input else ' no-failing-input-found'))
    return 1


def main(argv):
    import props
    if not argv or argv[0] in ('-h', '--help'):
        print(__doc__)
        print('properties:', ' '.join(sorted(props.SPECS)))
        return 2
    prop = argv[0]
    tier = os.environ.get('VERIF_TIER', 'quick')
    replay = None
    i = 1
    while i < len(argv):
        if argv[i] == '--tier':
            tier = argv[i + 1]
            i += 2
        elif argv[i] == '--replay':
            replay = argv[i + 1]
            i += 2
        else:
            print('unknown argument', argv[i])
            return 2
    seed = int(os.environ.get('VERIF_SEED', '1'))
    if prop not in props.SPECS:
        print('unknown property', prop)
        return 2
    spec = props.SPECS[prop]
    os.environ['VERIF_TIER'] = tier
    ctx = Ctx(prop, tier, seed)
    if replay:
        return props.replay(ctx, spec, replay)
    ok = translate(ctx)
    if ok:
        grep_forbidden(ctx)
        if lake_build(ctx, ['Uom.Props.' + prop, 'driver']):
            audit(ctx, prop)
            if tier == 'thorough':
                leanchecker(ctx, ['Uom.Props.' + prop])
    # the correspondence runs even when the proof side broke: it is also the search for a failing input
    if os.path.exists(DRIVER) and ok:
        try:
            spec['run'](ctx)
        except Exception as ex:
            import traceback
            traceback.print_exc()
            ctx.problems.append(Problem('harness-broken', 'check driver error: %r' % ex))
    return finish(ctx, spec)
