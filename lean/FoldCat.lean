import Uom.Model.Fold
/-!
Reads catalogue lines on stdin and prints the folded reference expression of each:

    new <id> <V> <coef> <consA> <pows>          ->  <id> <rust expression over v>
    get <id> <V> <coef> <consS> <pows>
    chg <id> <V> <lpows> <rpows>                (change_base of the right operand)
-/
open Uom

def flList? (f : Fmt) (s : String) : Option (List Fl) := (s.splitOn ":").mapM (flOf? f)

partial def loop (h : IO.FS.Stream) (out : IO.FS.Stream) : IO Unit := do
  let line ← h.getLine
  if line.isEmpty then return ()
  let r : Option String := match line.trimAscii.toString.splitOn " " with
    | ["new", id, vt, coef, cons, pows] => do
      let f ← fmtOf? vt
      let fac := baseFactor (flS f) (← flList? f pows)
      some s!"{id} {(foldNew f (← flOf? f coef) (← flOf? f cons) fac).rust f}"
    | ["get", id, vt, coef, cons, pows] => do
      let f ← fmtOf? vt
      let fac := baseFactor (flS f) (← flList? f pows)
      some s!"{id} {(foldGet f (← flOf? f coef) (← flOf? f cons) fac).rust f}"
    | ["chg", id, vt, lp, rp] => do
      let f ← fmtOf? vt
      let l := baseFactor (flS f) (← flList? f lp)
      let r := baseFactor (flS f) (← flList? f rp)
      some s!"{id} {(foldChange f l r).rust f}"
    | _ => none
  match r with
  | some s => out.putStrLn s
  | none => out.putStrLn s!"BAD {line}"
  loop h out

def main : IO Unit := do
  loop (← IO.getStdin) (← IO.getStdout)
