import Uom.Gen.Table
import Uom.Model.Coef
import Uom.Model.Num
/-!
Prints the generated table in the canonical text form of the harness's registry dump
(`/verif/harness/src/bin/reg.rs`), one line per quantity and per unit:

    quantity <module> <name> <desc hex> <kind name> <d1,…,dn>
    unit <module> <index> <name> <abbr hex> <sing hex> <plur hex> <coef f64> <consA f64> <consS f64> <coef f32> <consA f32> <consS f32>
-/
open Uom

def hexOfStr (s : Str) : String :=
  "x" ++ String.join (s.bytes.map fun b => toHex b 2)

def main : IO Unit := do
  let out ← IO.getStdout
  for q in Gen.table do
    let kind := match Gen.kinds[q.kind]? with | some k => toString k.name | none => "?"
    out.putStrLn s!"quantity {q.modName} {q.name} {hexOfStr q.desc} {kind} {",".intercalate (q.dim.map toString)}"
    let mut i := 0
    for u in q.units do
      let h (f : Fmt) (x : Fl) := flHex f x
      out.putStrLn s!"unit {q.modName} {i} {u.name} {hexOfStr u.abbr} {hexOfStr u.sing} {hexOfStr u.plur} {h b64 (u.coefFl b64)} {h b64 (u.consFl b64 true)} {h b64 (u.consFl b64 false)} {h b32 (u.coefFl b32)} {h b32 (u.consFl b32 true)} {h b32 (u.consFl b32 false)}"
      i := i + 1
  let mut ki := 0
  for k in Gen.kinds do
    out.putStrLn s!"kind {ki} {k.name} {",".intercalate (k.markers.map toString)}"
    ki := ki + 1
  for p in Gen.implFrom do
    out.putStrLn s!"implfrom {p.1} {p.2}"
  for b in Gen.system.base do
    out.putStrLn s!"base {b.name} {b.unit}"
