import Uom.Model.Oracle
import Uom.Model.Lines
import Std.Data.HashMap
import Std.Data.HashSet
/-!
# Line-protocol driver

Reads the harness's case lines on stdin, recomputes every observed output with the model
(`Uom.Model.*`), evaluates the property oracles on the *observed* outputs, and prints one line per
problem plus a summary:

    DIFF <lineno> <tag> <detail> :: <line>     model and implementation disagree
    PROP <lineno> <tag> <why> :: <line>        the oracle is false of the implementation's output
    BAD  <lineno> :: <line>                    unparseable line
    COUNT <key> <n>                            input distribution (also the harness's own `tally <key> <n>` lines, summed)
    SAMPLE <line>                              a few of the distinct non-trivial cases, verbatim
    SUMMARY lines= checks= ok= diff= prop= guard= bad= nontrivial=
-/
open Uom

structure Stats where
  lines : Nat := 0
  checks : Nat := 0
  ok : Nat := 0
  diff : Nat := 0
  prop : Nat := 0
  guard : Nat := 0
  bad : Nat := 0
  counts : Std.HashMap String Nat := {}
  nontrivial : Nat := 0
  seen : Std.HashSet UInt64 := {}
  samples : Nat := 0
  /-- problem lines already printed, per tag (so that a frequent known finding cannot hide a different one) -/
  reported : Std.HashMap String Nat := {}

def Stats.bump (s : Stats) (k : String) : Stats :=
  { s with counts := s.counts.insert k (s.counts.getD k 0 + 1) }

partial def loop (h : IO.FS.Stream) (out : IO.FS.Stream) (st : Stats) (tbl : TextTable) (maxReport : Nat) : IO Stats := do
  let line ← h.getLine
  if line.isEmpty then return st
  let line := line.trimAscii.toString
  if line.isEmpty then
    loop h out st tbl maxReport
  else if line.startsWith "unit " || line.startsWith "quantity " || line.startsWith "base " || line.startsWith "kind " || line.startsWith "implfrom " then
    -- table rows (the Lean-generated dump) precede the cases of the text drivers
    match tbl.absorb line with
    | some t => loop h out st t maxReport
    | none =>
      out.putStrLn s!"BAD 0 :: {line}"
      loop h out { st with bad := st.bad + 1 } tbl maxReport
  else if line.startsWith "tally " then
    -- `tally <key> <n>`: the harness reports how much it covered without a case line (exhaustive sweeps)
    match line.splitOn " " with
    | ["tally", k, n] =>
      match n.toNat? with
      | some n => loop h out { st with counts := st.counts.insert k (st.counts.getD k 0 + n) } tbl maxReport
      | none =>
        out.putStrLn s!"BAD 0 :: {line}"
        loop h out { st with bad := st.bad + 1 } tbl maxReport
    | _ =>
      out.putStrLn s!"BAD 0 :: {line}"
      loop h out { st with bad := st.bad + 1 } tbl maxReport
  else
    let lineno := st.lines + 1
    let mut st := { st with lines := lineno }
    match handleLine tbl line with
    | none =>
      st := { st with bad := st.bad + 1 }
      if st.bad ≤ maxReport then out.putStrLn s!"BAD {lineno} :: {line}"
    | some r =>
      for k in r.keys do st := st.bump k
      if r.nontrivial then
        let hsh := hash line
        if !st.seen.contains hsh then
          st := { st with seen := st.seen.insert hsh, nontrivial := st.nontrivial + 1 }
          if st.samples < 3 && st.nontrivial % 97 == 1 then
            st := { st with samples := st.samples + 1 }
            out.putStrLn s!"SAMPLE {line}"
      for o in r.outs do
        st := { st with checks := st.checks + 1 }
        match o with
        | .ok => st := { st with ok := st.ok + 1 }
        | .guard why =>
          st := { st with guard := st.guard + 1 }
          st := st.bump s!"guard:{why}"
        | .diff tag detail =>
          st := { st with diff := st.diff + 1 }
          let n := st.reported.getD s!"D{tag}" 0
          if n < maxReport then
            st := { st with reported := st.reported.insert s!"D{tag}" (n + 1) }
            out.putStrLn s!"DIFF {lineno} {tag} {detail} :: {line}"
        | .prop tag why =>
          st := { st with prop := st.prop + 1 }
          st := st.bump s!"prop:{tag}"
          let n := st.reported.getD s!"P{tag}" 0
          if n < maxReport then
            st := { st with reported := st.reported.insert s!"P{tag}" (n + 1) }
            out.putStrLn s!"PROP {lineno} {tag} {why} :: {line}"
    loop h out st tbl maxReport

def main (_args : List String) : IO UInt32 := do
  let stdin ← IO.getStdin
  let stdout ← IO.getStdout
  let st ← loop stdin stdout {} {} 25
  for (k, n) in st.counts.toList do
    stdout.putStrLn s!"COUNT {k} {n}"
  stdout.putStrLn s!"SUMMARY lines={st.lines} checks={st.checks} ok={st.ok} diff={st.diff} prop={st.prop} guard={st.guard} bad={st.bad} nontrivial={st.nontrivial}"
  return 0
