import Uom.Gen.Usr
import Uom.Model.Coef
import Uom.Model.Num
/-! Prints the model-side table of the harness-declared system (C19) in the registry-dump format. -/
open Uom

def hexOfStr (s : Str) : String :=
  "x" ++ String.join (s.bytes.map fun b => toHex b 2)

def main : IO Unit := do
  let out ← IO.getStdout
  for q in Gen.Usr.table ++ Gen.Usr.added do
    if !q.dim.isEmpty then
      out.putStrLn s!"quantity {q.modName} {q.name} {hexOfStr q.desc} Kind {",".intercalate (q.dim.map toString)}"
    let mut i := 0
    for u in q.units do
      let h (f : Fmt) (x : Fl) := flHex f x
      out.putStrLn s!"unit {q.modName} {i} {u.name} {hexOfStr u.abbr} {hexOfStr u.sing} {hexOfStr u.plur} {h b64 (u.coefFl b64)} {h b64 (u.consFl b64 true)} {h b64 (u.consFl b64 false)} {h b32 (u.coefFl b32)} {h b32 (u.consFl b32 true)} {h b32 (u.consFl b32 false)}"
      i := i + 1
