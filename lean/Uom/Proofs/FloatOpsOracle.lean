import Uom.Proofs.FloatOps
import Uom.Model.Oracle
/-!
# Bridge: the theorems of `FloatOps` in the vocabulary of the executable oracles (`Uom.Model.Oracle`)

`Uom.uro`, `Uom.ratAbs`, `Uom.stdRound` are the import-free definitions the oracles evaluate;
`Uom.Proofs.uro`, `|·|`, `Rat.floor` are what the theorems talk about.
-/

namespace Uom.Proofs
open Uom.Fl

theorem oracle_uro_eq (f : Fmt) : Uom.uro f = Uom.Proofs.uro f := by
  unfold Uom.uro Uom.Proofs.uro; push_cast; rfl

theorem oracle_ratAbs_eq (r : Rat) : Uom.ratAbs r = |r| := by
  unfold Uom.ratAbs
  split
  · next h => exact (abs_of_neg h).symm
  · next h => exact (abs_of_nonneg (not_lt.mp h)).symm

theorem oracle_ratMax_eq (a b : Rat) : Uom.ratMax a b = max a b := by
  unfold Uom.ratMax
  split
  · next h => exact (max_eq_right h.le).symm
  · next h => exact (max_eq_left (not_lt.mp h)).symm

theorem stdRound_zero (x : Rat) : Uom.stdRound 0 x = ((x.floor : Int) : Rat) := rfl
theorem stdRound_one (x : Rat) : Uom.stdRound 1 x = ((-((-x).floor) : Int) : Rat) := rfl

theorem stdRound_two (x : Rat) : Uom.stdRound 2 x = ((ratRoundQ x : Int) : Rat) := by
  unfold ratRoundQ
  by_cases h : x < 0
  · rw [if_pos h]; exact if_pos h
  · rw [if_neg h]; exact if_neg h

theorem stdRound_three (x : Rat) : Uom.stdRound 3 x = ((ratTruncQ x : Int) : Rat) := by
  unfold ratTruncQ
  by_cases h : x < 0
  · rw [if_pos h]; exact if_pos h
  · rw [if_neg h]; exact if_neg h

variable {f : Fmt}

/-- the soft-float `floor/ceil/round/trunc` are the oracle's standard roundings `stdRound 0..3` of the
    operand's exact value (canonical finite operands of a well-formed format) -/
theorem floor_eq_stdRound (hf : f.WF) {x : Fl} (hc : Canonical f x) (hx : x.isFinite = true) :
    (Fl.floor f x).toRat = Uom.stdRound 0 x.toRat := by
  rw [stdRound_zero]; exact (floor_toRat hf hc hx).1

theorem ceil_eq_stdRound (hf : f.WF) {x : Fl} (hc : Canonical f x) (hx : x.isFinite = true) :
    (Fl.ceil f x).toRat = Uom.stdRound 1 x.toRat := by
  rw [stdRound_one]; exact (ceil_toRat hf hc hx).1

theorem round_eq_stdRound (hf : f.WF) {x : Fl} (hc : Canonical f x) (hx : x.isFinite = true) :
    (Fl.round f x).toRat = Uom.stdRound 2 x.toRat := by
  rw [stdRound_two]; exact (round_toRat hf hc hx).1

theorem trunc_eq_stdRound (hf : f.WF) {x : Fl} (hc : Canonical f x) (hx : x.isFinite = true) :
    (Fl.trunc f x).toRat = Uom.stdRound 3 x.toRat := by
  rw [stdRound_three]; exact (trunc_toRat hf hc hx).1

end Uom.Proofs

