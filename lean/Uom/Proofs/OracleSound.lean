import Uom.Proofs.FloatOpsOracle
import Uom.Proofs.FlConvIdentity
import Uom.Proofs.FlCanonical
/-!
# Oracle soundness: the model's own result is never rejected by the executable oracles

`Uom.oracleNew`, `Uom.oracleGet`, `Uom.oracleRoundTrip` (Uom/Model/Oracle.lean) are evaluated by the
differential-testing driver on the *implementation's* output.  Here they are evaluated on the *model's*
output (`toBase (flS f) …`, `fromBase (flS f) …`) and shown never to answer `fail`.

The executable guards (`toBaseNormal`, `fromBaseNormal`) test that every *rounded* intermediate result
is a normal number, whereas `ToBaseOk` / `FromBaseOk` of `KernelFloat` bound the *exact* intermediate
product/quotient from below by `nmin`.  The former does not imply the latter (an exact product just
below `nmin` may round up to `nmin`, and a zero sum is accepted by the guard), so this file first
proves the rounding model under the result-based hypothesis (`roundDy_approx_normal`,
`mul_approx_normal`, `div_approx_normal`), and links the guards to result-based side conditions
`ToBaseOkR` / `FromBaseOkR`.
-/

namespace Uom.Proofs
open Uom Uom.Fl

/-! ## A. one rounding whose *result* is normal -/

theorem approx_zero {u : Rat} (hu0 : 0 ≤ u) (hu1 : u < 1) (k : ℕ) : Approx u k 0 0 := by
  have hp : 0 < 1 - u := by linarith
  have hk1 : (1 - u) ^ k ≤ 1 := pow_le_one₀ hp.le (by linarith)
  exact ⟨1, by simp, by simpa using hk1, by simpa using hk1⟩

theorem Approx.const_mul {u : Rat} {k : ℕ} {a' a : Rat} (c : Rat) (h : Approx u k a' a) :
    Approx u k (c * a') (c * a) := by
  obtain ⟨θ, rfl, h1, h2⟩ := h
  exact ⟨θ, by ring, h1, h2⟩

/-- a multiple `m'·2^n` of `2^n` within half a unit of `T`, with `m' ≥ 2^(p-1)` (the *result* is a
    normal significand), is one rounding of `T` in the sense of `Approx` -/
theorem approx_of_close_normal (T : Rat) (m' n p : Nat) (hp : 1 ≤ p) (hT0 : 0 < T)
    (hm : (2 : Rat) ^ (p - 1) ≤ (m' : Rat))
    (h1 : 2 * ((m' : Rat) * 2 ^ n) ≤ 2 * T + 2 ^ n) (h2 : 2 * T ≤ 2 * ((m' : Rat) * 2 ^ n) + 2 ^ n) :
    Approx (1 / (2 : Rat) ^ p) 1 ((m' : Rat) * 2 ^ n) T := by
  have hp0 : (0 : Rat) < 2 ^ p := by positivity
  have hn0 : (0 : Rat) < 2 ^ n := by positivity
  have hpp : (2 : Rat) ^ p = 2 ^ (p - 1) * 2 := by
    rw [← pow_succ]; congr 1; omega
  set R : Rat := (m' : Rat) * 2 ^ n with hR
  set u : Rat := 1 / (2 : Rat) ^ p with hu
  have hu0 : 0 ≤ u := by rw [hu]; positivity
  have hu1 : u ≤ 1 / 2 := by
    rw [hu]
    have : (2 : Rat) ≤ 2 ^ p := by
      calc (2 : Rat) = 2 ^ 1 := by norm_num
        _ ≤ 2 ^ p := pow_le_pow_right₀ (by norm_num) hp
    exact one_div_le_one_div_of_le (by norm_num) this
  -- `2^n / 2 ≤ u·R`
  have hhalf : (2 : Rat) ^ n / 2 ≤ u * R := by
    have : (2 : Rat) ^ (p - 1) * 2 ^ n ≤ R := by
      rw [hR]; exact mul_le_mul_of_nonneg_right hm hn0.le
    have e : u * ((2 : Rat) ^ (p - 1) * 2 ^ n) = 2 ^ n / 2 := by
      rw [hu, hpp]; field_simp
    calc (2 : Rat) ^ n / 2 = u * ((2 : Rat) ^ (p - 1) * 2 ^ n) := e.symm
      _ ≤ u * R := mul_le_mul_of_nonneg_left this hu0
  have hR0 : 0 ≤ R := by rw [hR]; positivity
  have hlo : R - u * R ≤ T := by linarith
  have hhi : T ≤ R + u * R := by linarith
  refine ⟨R / T, by field_simp, ?_, ?_⟩
  · rw [pow_one, le_div_iff₀ hT0]
    nlinarith [mul_nonneg hu0 (mul_nonneg hu0 hR0)]
  · rw [pow_one, div_mul_eq_mul_div, div_le_one hT0]
    linarith

theorem nmin_eq (f : Fmt) (hp : 1 ≤ f.p) : nmin f = (2 : Rat) ^ f.emin * (2 : Rat) ^ (f.p - 1) := by
  unfold nmin
  rw [← zpow_natCast, ← zpow_add₀ (by norm_num : (2 : Rat) ≠ 0)]
  congr 1; omega

/-- a value `±m'·2^n·2^E` with `n + E = emin` that is at least `nmin` has `m' ≥ 2^(p-1)` -/
theorem mant_ge_of_nmin_le (f : Fmt) (hp : 1 ≤ f.p) (s : Bool) (m' n : Nat) (E : Int)
    (hnE : (n : Int) + E = f.emin)
    (h : nmin f ≤ |sgn s * ((m' : Rat) * 2 ^ n) * (2 : Rat) ^ E|) :
    (2 : Rat) ^ (f.p - 1) ≤ (m' : Rat) := by
  have hE := two_zpow_pos E
  have e : |sgn s * ((m' : Rat) * 2 ^ n) * (2 : Rat) ^ E| = (m' : Rat) * (2 : Rat) ^ f.emin := by
    rw [abs_mul, abs_mul, abs_sgn, one_mul, abs_of_nonneg (by positivity), abs_of_pos hE, ← hnE,
      zpow_add₀ (by norm_num : (2 : Rat) ≠ 0), zpow_natCast]
    ring
  rw [e, nmin_eq f hp] at h
  have hpos := two_zpow_pos f.emin
  have : (2 : Rat) ^ (f.p - 1) * (2 : Rat) ^ f.emin ≤ (m' : Rat) * (2 : Rat) ^ f.emin := by
    linarith [mul_comm ((2 : Rat) ^ f.emin) ((2 : Rat) ^ (f.p - 1))]
  exact le_of_mul_le_mul_right this hpos

/-- **Standard model for `roundDy`, result-based**: if the *result* is finite and of magnitude at least
    `nmin` (i.e. a normal number), it is one rounding of the exact value — including the edge case of an
    exact value just below `nmin` that rounds up to `nmin` (`θ = 1/(1-u)`). -/
theorem roundDy_approx_normal (f : Fmt) (hp : 1 ≤ f.p) (s : Bool) (M : Nat) (E : Int) (hM : 0 < M)
    (hfin : (roundDy f s M E).isFinite = true)
    (hN : nmin f ≤ |(roundDy f s M E).toRat|) :
    Approx (uro f) 1 (roundDy f s M E).toRat (sgn s * (M : Rat) * (2 : Rat) ^ E) := by
  by_cases hnormal : f.emin - E ≤ max ((M.log2 : Int) + 1 - f.p) 0
  · exact approx_of_rel (uro_nonneg f) (uro_lt_one f hp) (roundDy_rel' f hp s M E hM hnormal hfin)
  · obtain ⟨n, hn⟩ : ∃ n : Nat, (n : Int) = f.emin - E := ⟨(f.emin - E).toNat, by omega⟩
    have hn' : (n : Int) = max ((M.log2 : Int) + 1 - f.p) (f.emin - E) := by omega
    have hn0 : 0 < n := by omega
    obtain ⟨m', hval, h1, h2⟩ := roundDy_round f hp s M E n hn' hn0 hfin
    rw [hval] at hN ⊢
    have hm := mant_ge_of_nmin_le f hp s m' n E (by omega) hN
    have h1' : 2 * ((m' : Rat) * 2 ^ n) ≤ 2 * (M : Rat) + 2 ^ n := by exact_mod_cast h1
    have h2' : 2 * (M : Rat) ≤ 2 * ((m' : Rat) * 2 ^ n) + 2 ^ n := by exact_mod_cast h2
    have hA := approx_of_close_normal (M : Rat) m' n f.p hp (by exact_mod_cast hM) hm h1' h2'
    have := hA.const_mul (sgn s * (2 : Rat) ^ E)
    have e1 : sgn s * ((m' : Rat) * 2 ^ n) * (2 : Rat) ^ E =
        sgn s * (2 : Rat) ^ E * ((m' : Rat) * 2 ^ n) := by ring
    have e2 : sgn s * (M : Rat) * (2 : Rat) ^ E = sgn s * (2 : Rat) ^ E * (M : Rat) := by ring
    rw [e1, e2]; exact this

variable {f : Fmt}

/-- `x * y` whose *result* is finite and normal: one rounding of the exact product -/
theorem mul_approx_normal (hp : 1 ≤ f.p) {x y : Fl} (hx : x.isFinite = true) (hy : y.isFinite = true)
    (hfin : (Fl.mul f x y).isFinite = true) (hN : nmin f ≤ |(Fl.mul f x y).toRat|) :
    Approx (uro f) 1 (Fl.mul f x y).toRat (x.toRat * y.toRat) ∧ Ok f (Fl.mul f x y) := by
  cases x with
  | nan => simp [Fl.isFinite] at hx
  | inf s => simp [Fl.isFinite] at hx
  | fin s1 m1 e1 =>
    cases y with
    | nan => simp [Fl.isFinite] at hy
    | inf s => simp [Fl.isFinite] at hy
    | fin s2 m2 e2 =>
      refine ⟨?_, mul_ok s1 s2 m1 m2 e1 e2 hfin⟩
      have hm : m1 * m2 ≠ 0 := by
        intro h0
        have : Fl.mul f (fin s1 m1 e1) (fin s2 m2 e2) = Fl.zero f (s1 != s2) := by
          simp only [Fl.mul, h0, if_true]
        rw [this, toRat_zero, abs_zero] at hN
        linarith [nmin_pos f]
      have h1 : 0 < m1 := Nat.pos_of_ne_zero (fun h => hm (by rw [h, Nat.zero_mul]))
      have h2 : 0 < m2 := Nat.pos_of_ne_zero (fun h => hm (by rw [h, Nat.mul_zero]))
      rw [mul_fin_eq f s1 s2 m1 m2 e1 e2 h1 h2] at hfin hN ⊢
      rw [toRat_mul_toRat]
      exact roundDy_approx_normal f hp _ _ _ (Nat.mul_pos h1 h2) hfin hN

/-- rounding a quotient through a sticky bit, result-based hypothesis -/
theorem roundDy_sticky_approx_normal (f : Fmt) (hp : 1 ≤ f.p) (s : Bool) (q st : Nat) (E : Int) (T : Rat)
    (hq : 2 ^ (f.p + 1) ≤ q)
    (hst : (st = 0 ∧ T = 2 * (q : Rat)) ∨ (st = 1 ∧ 2 * (q : Rat) < T ∧ T < 2 * (q : Rat) + 2))
    (hfin : (roundDy f s (2 * q + st) E).isFinite = true)
    (hN : nmin f ≤ |(roundDy f s (2 * q + st) E).toRat|) :
    Approx (uro f) 1 (roundDy f s (2 * q + st) E).toRat (sgn s * T * (2 : Rat) ^ E) := by
  by_cases hnormal : (2 : Rat) ^ (f.emin + f.p - 1) ≤ T * (2 : Rat) ^ E
  · exact approx_of_rel (uro_nonneg f) (uro_lt_one f hp)
      (roundDy_sticky_rel f hp s q st E T hq hst hnormal hfin)
  · have hlt : T * (2 : Rat) ^ E < (2 : Rat) ^ (f.emin + f.p - 1) := not_le.mp hnormal
    have h2 : (2 : Rat) ≠ 0 := by norm_num
    have hE := two_zpow_pos E
    have hq0 : 0 < q := lt_of_lt_of_le (Nat.two_pow_pos _) hq
    have hM0 : 0 < 2 * q + st := by omega
    have hlogM : f.p + 2 ≤ (2 * q + st).log2 := by
      rw [Nat.le_log2 (by omega)]
      have : 2 ^ (f.p + 2) = 2 * 2 ^ (f.p + 1) := by rw [Nat.pow_succ, Nat.mul_comm]
      omega
    have hleM : 2 ^ (2 * q + st).log2 ≤ 2 * q + st := Nat.log2_self_le (by omega)
    have hst01 : st = 0 ∨ st = 1 := by rcases hst with ⟨h, -⟩ | ⟨h, -⟩ <;> omega
    have hT2q : 2 * (q : Rat) ≤ T := by rcases hst with ⟨-, h⟩ | ⟨-, h, -⟩ <;> linarith
    have hTpos : 0 < T := by
      have : (0 : Rat) < (q : Rat) := by exact_mod_cast hq0
      linarith
    generalize hL : (2 * q + st).log2 = L at hlogM hleM
    have h2q : 2 ^ L ≤ 2 * q := by
      rcases hst01 with h0 | h1
      · omega
      · exact pow_le_even q L (by omega) (by omega)
    have h2q' : (2 : Rat) ^ L ≤ 2 * (q : Rat) := by exact_mod_cast h2q
    have hshift : (L : Int) + E < f.emin + f.p - 1 := by
      have h3 : (2 : Rat) ^ L * (2 : Rat) ^ E ≤ T * (2 : Rat) ^ E :=
        mul_le_mul_of_nonneg_right (by linarith) hE.le
      have h4 : (2 : Rat) ^ ((L : Int) + E) < (2 : Rat) ^ (f.emin + f.p - 1) := by
        rw [zpow_add₀ h2, zpow_natCast]; linarith
      exact (zpow_lt_zpow_iff_right₀ (by norm_num : (1 : Rat) < 2)).mp h4
    obtain ⟨n, hn⟩ : ∃ n : Nat, (n : Int) = f.emin - E := ⟨(f.emin - E).toNat, by omega⟩
    have hn' : (n : Int) = max (((2 * q + st).log2 : Int) + 1 - f.p) (f.emin - E) := by
      rw [hL]; omega
    have hn2 : 2 ≤ n := by omega
    obtain ⟨m', hval, h1, h2'⟩ := roundDy_round f hp s (2 * q + st) E n hn' (by omega) hfin
    rw [hval] at hN ⊢
    have hm := mant_ge_of_nmin_le f hp s m' n E (by omega) hN
    have hclose : 2 * ((m' : Rat) * 2 ^ n) ≤ 2 * T + 2 ^ n ∧ 2 * T ≤ 2 * ((m' : Rat) * 2 ^ n) + 2 ^ n := by
      rcases hst with ⟨hs0, hT⟩ | ⟨hs1, hTlo, hThi⟩
      · subst hs0
        have h1' : 2 * ((m' : Rat) * 2 ^ n) ≤ 2 * (2 * (q : Rat) + 0) + 2 ^ n := by exact_mod_cast h1
        have h2'' : 2 * (2 * (q : Rat) + 0) ≤ 2 * ((m' : Rat) * 2 ^ n) + 2 ^ n := by exact_mod_cast h2'
        rw [hT]; constructor <;> linarith
      · subst hs1
        obtain ⟨g1, g2⟩ := sticky_nat q m' n hn2 h1 h2'
        have g1' : 2 * ((m' : Rat) * 2 ^ n) ≤ 2 * (2 * (q : Rat)) + 2 ^ n := by exact_mod_cast g1
        have g2' : 2 * (2 * (q : Rat) + 2) ≤ 2 * ((m' : Rat) * 2 ^ n) + 2 ^ n := by exact_mod_cast g2
        constructor <;> linarith
    have hA := approx_of_close_normal T m' n f.p hp hTpos hm hclose.1 hclose.2
    have := hA.const_mul (sgn s * (2 : Rat) ^ E)
    have e1 : sgn s * ((m' : Rat) * 2 ^ n) * (2 : Rat) ^ E =
        sgn s * (2 : Rat) ^ E * ((m' : Rat) * 2 ^ n) := by ring
    have e2 : sgn s * T * (2 : Rat) ^ E = sgn s * (2 : Rat) ^ E * T := by ring
    rw [e1, e2]; exact this

/-- `x / y` whose *result* is finite and normal: one correct rounding of the exact quotient -/
theorem div_approx_normal (hp : 1 ≤ f.p) {x y : Fl} (hx : x.isFinite = true) (hy : y.isFinite = true)
    (hfin : (Fl.div f x y).isFinite = true) (hN : nmin f ≤ |(Fl.div f x y).toRat|) :
    Approx (uro f) 1 (Fl.div f x y).toRat (x.toRat / y.toRat) ∧ Ok f (Fl.div f x y) := by
  cases x with
  | nan => simp [Fl.isFinite] at hx
  | inf s => simp [Fl.isFinite] at hx
  | fin s1 m1 e1 =>
    cases y with
    | nan => simp [Fl.isFinite] at hy
    | inf s => simp [Fl.isFinite] at hy
    | fin s2 m2 e2 =>
      have h2 : 0 < m2 := by
        rcases Nat.eq_zero_or_pos m2 with h | h
        · subst h
          exfalso
          by_cases h1 : m1 = 0 <;> simp [Fl.div, h1, Fl.isFinite] at hfin
        · exact h
      have h1 : 0 < m1 := by
        rcases Nat.eq_zero_or_pos m1 with h | h
        · subst h
          exfalso
          have : Fl.div f (fin s1 0 e1) (fin s2 m2 e2) = Fl.zero f (s1 != s2) := by
            simp only [Fl.div, h2.ne', if_false, if_true]
          rw [this, toRat_zero, abs_zero] at hN
          linarith [nmin_pos f]
        · exact h
      obtain ⟨q, st, k, heq, hst, hq⟩ := divDy_spec f.p m1 m2 h1 h2
      have hOk : Ok f (Fl.div f (fin s1 m1 e1) (fin s2 m2 e2)) := by
        rw [div_fin_eq f s1 s2 m1 m2 e1 e2 h1 h2] at hfin ⊢
        exact roundDy_ok f _ _ _ hfin
      refine ⟨?_, hOk⟩
      rw [div_fin_eq f s1 s2 m1 m2 e1 e2 h1 h2, heq] at hfin hN ⊢
      simp only at hfin hN ⊢
      have hm2 : (0 : Rat) < (m2 : Rat) := by exact_mod_cast h2
      rw [toRat_div_toRat s1 s2 m1 m2 e1 e2 k h2]
      set T : Rat := 2 * ((m1 : Rat) * 2 ^ k) / (m2 : Rat) with hT
      refine roundDy_sticky_approx_normal f hp _ q st _ T hq ?_ hfin hN
      rcases hst with ⟨hs0, hx⟩ | ⟨hs1, hlo, hhi⟩
      · left; refine ⟨hs0, ?_⟩
        have : (m1 : Rat) * 2 ^ k = (q : Rat) * (m2 : Rat) := by exact_mod_cast hx
        rw [hT, this]; field_simp
      · right; refine ⟨hs1, ?_, ?_⟩
        · have : (q : Rat) * (m2 : Rat) < (m1 : Rat) * 2 ^ k := by exact_mod_cast hlo
          rw [hT, lt_div_iff₀ hm2]; linarith
        · have : (m1 : Rat) * 2 ^ k < ((q : Rat) + 1) * (m2 : Rat) := by exact_mod_cast hhi
          rw [hT, div_lt_iff₀ hm2]; linarith

/-! ## B. the executable guards and the result-based side conditions -/

theorem isNormal_isFinite {x : Fl} (h : Fl.isNormal f x = true) : x.isFinite = true := by
  cases x <;> simp_all [Fl.isNormal, Fl.isFinite]

theorem isNormal_not_isZero {x : Fl} (h : Fl.isNormal f x = true) : x.isZero = false := by
  cases x with
  | nan => rfl
  | inf s => rfl
  | fin s m e =>
    simp only [Fl.isNormal, decide_eq_true_eq] at h
    have : 0 < 2 ^ (f.p - 1) := Nat.two_pow_pos _
    cases m with
    | zero => omega
    | succ k => rfl

/-- a normal float (significand `≥ 2^(p-1)`, exponent `≥ emin`) has magnitude at least `nmin` -/
theorem nmin_le_of_isNormal (hp : 1 ≤ f.p) {x : Fl} (hok : Ok f x) (h : Fl.isNormal f x = true) :
    nmin f ≤ |x.toRat| := by
  cases x with
  | nan => exact hok.elim
  | inf s => exact hok.elim
  | fin s m e =>
    simp only [Fl.isNormal, decide_eq_true_eq] at h
    simp only [Ok] at hok
    rw [toRat_fin, abs_mul, abs_mul, abs_sgn, one_mul, abs_of_nonneg (Nat.cast_nonneg _),
      abs_of_pos (two_zpow_pos _), nmin_eq f hp]
    have h1 : (2 : Rat) ^ (f.p - 1) ≤ (m : Rat) := by exact_mod_cast h
    have h2 : (2 : Rat) ^ f.emin ≤ (2 : Rat) ^ e := zpow_le_zpow_right₀ (by norm_num) hok
    calc (2 : Rat) ^ f.emin * (2 : Rat) ^ (f.p - 1) ≤ (2 : Rat) ^ e * (m : Rat) :=
          mul_le_mul h2 h1 (by positivity) (two_zpow_pos e).le
      _ = (m : Rat) * (2 : Rat) ^ e := mul_comm _ _

theorem toRat_of_isZero {x : Fl} (h : x.isZero = true) : x.toRat = 0 := by
  cases x with
  | nan => rfl
  | inf s => rfl
  | fin s m e =>
    cases m with
    | zero => exact (toRat_fin_eq_zero_iff s 0 e).mpr rfl
    | succ k => simp [Fl.isZero] at h

theorem toRat_ne_zero {x : Fl} (hfin : x.isFinite = true) (h : x.isZero = false) : x.toRat ≠ 0 := by
  cases x with
  | nan => simp [Fl.isFinite] at hfin
  | inf s => simp [Fl.isFinite] at hfin
  | fin s m e =>
    intro h0
    have := (toRat_fin_eq_zero_iff s m e).mp h0
    subst this
    simp [Fl.isZero] at h

theorem isZero_of_toRat {x : Fl} (hfin : x.isFinite = true) (h : x.toRat = 0) : x.isZero = true := by
  cases hz : x.isZero with
  | true => rfl
  | false => exact absurd h (toRat_ne_zero hfin hz)

theorem isZero_isFinite {x : Fl} (h : x.isZero = true) : x.isFinite = true := by
  cases x with
  | nan => simp [Fl.isZero] at h
  | inf s => simp [Fl.isZero] at h
  | fin s m e => rfl

theorem mul_of_isZero_left {x y : Fl} (hx : x.isZero = true) (hy : y.isFinite = true) :
    ∃ s, Fl.mul f x y = Fl.zero f s := by
  cases x with
  | nan => simp [Fl.isZero] at hx
  | inf s => simp [Fl.isZero] at hx
  | fin s1 m1 e1 =>
    cases y with
    | nan => simp [Fl.isFinite] at hy
    | inf s => simp [Fl.isFinite] at hy
    | fin s2 m2 e2 =>
      cases m1 with
      | zero => exact ⟨s1 != s2, by simp [Fl.mul]⟩
      | succ k => simp [Fl.isZero] at hx

theorem div_of_isZero_left {x y : Fl} (hx : x.isZero = true) (hy : y.isFinite = true)
    (hy0 : y.isZero = false) : ∃ s, Fl.div f x y = Fl.zero f s := by
  cases x with
  | nan => simp [Fl.isZero] at hx
  | inf s => simp [Fl.isZero] at hx
  | fin s1 m1 e1 =>
    cases y with
    | nan => simp [Fl.isFinite] at hy
    | inf s => simp [Fl.isFinite] at hy
    | fin s2 m2 e2 =>
      cases m1 with
      | zero =>
        cases m2 with
        | zero => simp [Fl.isZero] at hy0
        | succ j => exact ⟨s1 != s2, by simp [Fl.div]⟩
      | succ k => simp [Fl.isZero] at hx

theorem isZero_zero (s : Bool) : (Fl.zero f s).isZero = true := rfl

theorem add_isFinite_right {x y : Fl} (h : (Fl.add f x y).isFinite = true) : y.isFinite = true := by
  cases y with
  | fin s m e => rfl
  | nan => cases x <;> simp [Fl.add, Fl.isFinite] at h
  | inf b =>
    cases x with
    | nan => simp [Fl.add, Fl.isFinite] at h
    | inf a => by_cases hab : a = b <;> simp [Fl.add, Fl.isFinite, hab] at h
    | fin s m e => simp [Fl.add, Fl.isFinite] at h

theorem sub_isFinite_right {x y : Fl} (h : (Fl.sub f x y).isFinite = true) : y.isFinite = true := by
  have := add_isFinite_right h
  cases y <;> simp_all [Fl.neg, Fl.isFinite]

/-- `toBaseNormal`, spelled out over `Fl` -/
theorem toBaseNormal_eq (c : ConvCase) (fac : Fl) :
    toBaseNormal c fac =
      if Fl.ge c.coef fac = true then
        (okAdd (Fl.add c.fmt c.v c.consA) && Fl.isNormal c.fmt (Fl.div c.fmt c.coef fac) &&
          okMul c.fmt (Fl.add c.fmt c.v c.consA) (Fl.div c.fmt c.coef fac)
            (Fl.mul c.fmt (Fl.add c.fmt c.v c.consA) (Fl.div c.fmt c.coef fac)))
      else
        (okAdd (Fl.add c.fmt c.v c.consA) &&
          okMul c.fmt (Fl.add c.fmt c.v c.consA) c.coef (Fl.mul c.fmt (Fl.add c.fmt c.v c.consA) c.coef) &&
          (Fl.isNormal c.fmt (Fl.div c.fmt (Fl.mul c.fmt (Fl.add c.fmt c.v c.consA) c.coef) fac) ||
            ((Fl.div c.fmt (Fl.mul c.fmt (Fl.add c.fmt c.v c.consA) c.coef) fac).isZero &&
              (Fl.mul c.fmt (Fl.add c.fmt c.v c.consA) c.coef).isZero))) := rfl

/-- `fromBaseNormal`, spelled out over `Fl` -/
theorem fromBaseNormal_eq (c : ConvCase) (fac : Fl) :
    fromBaseNormal c fac =
      if Fl.lt c.coef fac = true then
        (Fl.isNormal c.fmt (Fl.div c.fmt fac c.coef) &&
          okMul c.fmt c.v (Fl.div c.fmt fac c.coef) (Fl.mul c.fmt c.v (Fl.div c.fmt fac c.coef)) &&
          okAdd (Fl.sub c.fmt (Fl.mul c.fmt c.v (Fl.div c.fmt fac c.coef)) c.consS))
      else
        (Fl.isNormal c.fmt (Fl.div c.fmt c.coef fac) &&
          (Fl.isNormal c.fmt (Fl.div c.fmt c.v (Fl.div c.fmt c.coef fac)) ||
            ((Fl.div c.fmt c.v (Fl.div c.fmt c.coef fac)).isZero && c.v.isZero)) &&
          okAdd (Fl.sub c.fmt (Fl.div c.fmt c.v (Fl.div c.fmt c.coef fac)) c.consS)) := rfl

/-- result-based side conditions of `toBase (flS f) coef c fac v`: what `toBaseNormal` actually checks.
    Differences from `ToBaseOk`: the `nmin` bounds are on the *computed* quotient/products, and the
    product conditions are only required when the rounded sum `v ⊕ c` is non-zero. -/
structure ToBaseOkR (f : Fmt) (coef c fac v : Fl) : Prop where
  hv : Ok f v
  hc : Ok f c
  hcoef : coef.isFinite = true
  hfac : fac.isFinite = true
  hfac0 : fac.isZero = false
  sum : (Fl.add f v c).isFinite = true
  quot₁ : Fl.ge coef fac = true →
    (Fl.div f coef fac).isFinite = true ∧ nmin f ≤ |(Fl.div f coef fac).toRat|
  prod₁ : Fl.ge coef fac = true → (Fl.add f v c).isZero = false →
    (Fl.mul f (Fl.add f v c) (Fl.div f coef fac)).isFinite = true ∧
      nmin f ≤ |(Fl.mul f (Fl.add f v c) (Fl.div f coef fac)).toRat|
  prod₂ : ¬ Fl.ge coef fac = true → (Fl.add f v c).isZero = false →
    (Fl.mul f (Fl.add f v c) coef).isFinite = true ∧ nmin f ≤ |(Fl.mul f (Fl.add f v c) coef).toRat|
  quot₂ : ¬ Fl.ge coef fac = true → (Fl.add f v c).isZero = false →
    (Fl.div f (Fl.mul f (Fl.add f v c) coef) fac).isFinite = true ∧
      nmin f ≤ |(Fl.div f (Fl.mul f (Fl.add f v c) coef) fac).toRat|

/-- result-based side conditions of the scaled part of `fromBase (flS f) coef c fac v` -/
structure FromBaseOkR (f : Fmt) (coef fac v : Fl) : Prop where
  hv : v.isFinite = true
  hcoef : coef.isFinite = true
  hfac : fac.isFinite = true
  quot₁ : Fl.lt coef fac = true →
    (Fl.div f fac coef).isFinite = true ∧ nmin f ≤ |(Fl.div f fac coef).toRat|
  prod₁ : Fl.lt coef fac = true → v.isZero = false →
    (Fl.mul f v (Fl.div f fac coef)).isFinite = true ∧ nmin f ≤ |(Fl.mul f v (Fl.div f fac coef)).toRat|
  quot₂ : ¬ Fl.lt coef fac = true →
    (Fl.div f coef fac).isFinite = true ∧ nmin f ≤ |(Fl.div f coef fac).toRat|
  div₂ : ¬ Fl.lt coef fac = true → v.isZero = false →
    (Fl.div f v (Fl.div f coef fac)).isFinite = true ∧ nmin f ≤ |(Fl.div f v (Fl.div f coef fac)).toRat|

theorem normal_pair (hf : f.WF) {x : Fl} (hc : Canonical f x) (h : Fl.isNormal f x = true) :
    x.isFinite = true ∧ nmin f ≤ |x.toRat| :=
  ⟨isNormal_isFinite h, nmin_le_of_isNormal hf.hp (ok_of_canonical hc (isNormal_isFinite h)) h⟩

/-- **guard link, `to_base`**: the executable guard implies the result-based side conditions -/
theorem toBaseOkR_of_guard (c : ConvCase) (fac : Fl) (hf : c.fmt.WF)
    (hv : Ok c.fmt c.v) (hcA : Canonical c.fmt c.consA)
    (hcoef : c.coef.isFinite = true) (hcoef0 : c.coef.isZero = false)
    (hfac : fac.isFinite = true) (hfac0 : fac.isZero = false)
    (hg : toBaseNormal c fac = true) : ToBaseOkR c.fmt c.coef c.consA fac c.v := by
  rw [toBaseNormal_eq] at hg
  have hdivc := fun x y => Fl.div_canonical hf x y
  have hmulc := fun x y => Fl.mul_canonical hf x y
  by_cases hge : Fl.ge c.coef fac = true
  · rw [if_pos hge] at hg
    simp only [Bool.and_eq_true, okAdd, okMul, Bool.or_eq_true] at hg
    obtain ⟨⟨hs, hk⟩, hr⟩ := hg
    have hkn := normal_pair hf (hdivc _ _) hk
    refine ⟨hv, ok_of_canonical hcA (add_isFinite_right hs), hcoef, hfac, hfac0, hs,
      fun _ => hkn, fun _ hz => ?_, fun h => absurd hge h, fun h => absurd hge h⟩
    rcases hr with hr | ⟨-, hr | hr⟩
    · exact normal_pair hf (hmulc _ _) hr
    · rw [hz] at hr; exact absurd hr (by decide)
    · rw [isNormal_not_isZero hk] at hr; exact absurd hr (by decide)
  · rw [if_neg hge] at hg
    simp only [Bool.and_eq_true, okAdd, okMul, Bool.or_eq_true] at hg
    obtain ⟨⟨hs, ht⟩, hr⟩ := hg
    refine ⟨hv, ok_of_canonical hcA (add_isFinite_right hs), hcoef, hfac, hfac0, hs,
      fun h => absurd h hge, fun h => absurd h hge, fun _ hz => ?_, fun _ hz => ?_⟩
    · rcases ht with ht | ⟨-, ht | ht⟩
      · exact normal_pair hf (hmulc _ _) ht
      · rw [hz] at ht; exact absurd ht (by decide)
      · rw [hcoef0] at ht; exact absurd ht (by decide)
    · have htn : Fl.isNormal c.fmt (Fl.mul c.fmt (Fl.add c.fmt c.v c.consA) c.coef) = true := by
        rcases ht with ht | ⟨-, ht | ht⟩
        · exact ht
        · rw [hz] at ht; exact absurd ht (by decide)
        · rw [hcoef0] at ht; exact absurd ht (by decide)
      rcases hr with hr | ⟨-, hr⟩
      · exact normal_pair hf (hdivc _ _) hr
      · rw [isNormal_not_isZero htn] at hr; exact absurd hr (by decide)

/-- **guard link, `from_base`** (scaled part; the final subtraction only has to be finite) -/
theorem fromBaseOkR_of_guard (c : ConvCase) (fac : Fl) (hf : c.fmt.WF)
    (hvfin : c.v.isFinite = true) (hcoef : c.coef.isFinite = true) (hfac : fac.isFinite = true)
    (hg : fromBaseNormal c fac = true) :
    FromBaseOkR c.fmt c.coef fac c.v ∧
      (Fl.isFinite (fromBase (flS c.fmt) c.coef c.consS fac c.v) = true) := by
  rw [fromBaseNormal_eq] at hg
  rw [fromBase_flS]
  have hdivc := fun x y => Fl.div_canonical hf x y
  have hmulc := fun x y => Fl.mul_canonical hf x y
  by_cases hlt : Fl.lt c.coef fac = true
  · rw [if_pos hlt] at hg ⊢
    simp only [Bool.and_eq_true, okAdd, okMul, Bool.or_eq_true] at hg
    obtain ⟨⟨hk, ht⟩, hr⟩ := hg
    refine ⟨⟨hvfin, hcoef, hfac, fun _ => normal_pair hf (hdivc _ _) hk, fun _ hz => ?_,
      fun h => absurd hlt h, fun h => absurd hlt h⟩, hr⟩
    rcases ht with ht | ⟨-, ht | ht⟩
    · exact normal_pair hf (hmulc _ _) ht
    · rw [hz] at ht; exact absurd ht (by decide)
    · rw [isNormal_not_isZero hk] at ht; exact absurd ht (by decide)
  · rw [if_neg hlt] at hg ⊢
    simp only [Bool.and_eq_true, okAdd, Bool.or_eq_true] at hg
    obtain ⟨⟨hk, ht⟩, hr⟩ := hg
    refine ⟨⟨hvfin, hcoef, hfac, fun h => absurd h hlt, fun h => absurd h hlt,
      fun _ => normal_pair hf (hdivc _ _) hk, fun _ hz => ?_⟩, hr⟩
    rcases ht with ht | ⟨-, ht⟩
    · exact normal_pair hf (hdivc _ _) ht
    · rw [hz] at ht; exact absurd ht (by decide)

/-! ## C. accuracy under the result-based side conditions -/

theorem not_isZero_of_nmin_le {x : Fl} (h : nmin f ≤ |x.toRat|) : x.isZero = false := by
  cases hz : x.isZero with
  | false => rfl
  | true =>
    rw [toRat_of_isZero hz, abs_zero] at h
    linarith [nmin_pos f]

/-- **`to_base` on floats under the guard's own conditions: three roundings** -/
theorem toBase_flS_approx_R (hp : 1 ≤ f.p) {coef c fac v : Fl} (H : ToBaseOkR f coef c fac v) :
    Approx (uro f) 3 (Fl.toRat (toBase (flS f) coef c fac v))
      ((v.toRat + c.toRat) * coef.toRat / fac.toRat) ∧
    Ok f (toBase (flS f) coef c fac v) := by
  have hu0 := uro_nonneg f
  have hu1 := uro_lt_one f hp
  rw [toBase_flS]
  obtain ⟨ha, haok⟩ := add_approx hp H.hv H.hc H.sum
  by_cases hz : (Fl.add f v c).isZero = true
  · have hs0 : v.toRat + c.toRat = 0 := (Approx.eq_zero_iff hu1 ha).mp (toRat_of_isZero hz)
    rw [hs0, zero_mul, zero_div]
    split
    next h =>
      obtain ⟨s, hs⟩ := mul_of_isZero_left (f := f) hz (H.quot₁ h).1
      rw [hs, toRat_zero]; exact ⟨approx_zero hu0 hu1 3, ok_zero f s⟩
    next h =>
      obtain ⟨s, hs⟩ := mul_of_isZero_left (f := f) hz H.hcoef
      rw [hs]
      obtain ⟨s', hs'⟩ := div_of_isZero_left (f := f) (isZero_zero s) H.hfac H.hfac0
      rw [hs', toRat_zero]; exact ⟨approx_zero hu0 hu1 3, ok_zero f s'⟩
  · have hz' : (Fl.add f v c).isZero = false := by simpa using hz
    split
    next h =>
      obtain ⟨hq, -⟩ := div_approx_normal hp H.hcoef H.hfac (H.quot₁ h).1 (H.quot₁ h).2
      obtain ⟨hm, hmok⟩ := mul_approx_normal hp haok.isFinite (H.quot₁ h).1 (H.prod₁ h hz').1
        (H.prod₁ h hz').2
      refine ⟨?_, hmok⟩
      have := Approx.trans hu1 hm (Approx.mul hu0 hu1 ha hq)
      rwa [← mul_div_assoc] at this
    next h =>
      obtain ⟨hm, -⟩ := mul_approx_normal hp haok.isFinite H.hcoef (H.prod₂ h hz').1 (H.prod₂ h hz').2
      obtain ⟨hd, hdok⟩ := div_approx_normal hp (H.prod₂ h hz').1 H.hfac (H.quot₂ h hz').1
        (H.quot₂ h hz').2
      refine ⟨?_, hdok⟩
      have h2 : Approx (uro f) (1 + (1 + 0)) (Fl.mul f (Fl.add f v c) coef).toRat
          ((v.toRat + c.toRat) * coef.toRat) :=
        Approx.trans hu1 hm (Approx.mul hu0 hu1 ha (Approx.refl _))
      exact Approx.trans hu1 hd (Approx.div hu0 hu1 h2 (Approx.refl _))

/-- scaled part of `from_base` under the guard's own conditions: two roundings -/
theorem fromBaseScaledF_approx_R (hp : 1 ≤ f.p) {coef fac v : Fl} (H : FromBaseOkR f coef fac v) :
    Approx (uro f) 2 (fromBaseScaledF f coef fac v).toRat (v.toRat * fac.toRat / coef.toRat) ∧
    Ok f (fromBaseScaledF f coef fac v) := by
  have hu0 := uro_nonneg f
  have hu1 := uro_lt_one f hp
  unfold fromBaseScaledF
  by_cases hz : v.isZero = true
  · rw [toRat_of_isZero hz, zero_mul, zero_div]
    split
    next h =>
      obtain ⟨s, hs⟩ := mul_of_isZero_left (f := f) hz (H.quot₁ h).1
      rw [hs, toRat_zero]; exact ⟨approx_zero hu0 hu1 2, ok_zero f s⟩
    next h =>
      obtain ⟨s, hs⟩ := div_of_isZero_left (f := f) hz (H.quot₂ h).1
        (not_isZero_of_nmin_le (H.quot₂ h).2)
      rw [hs, toRat_zero]; exact ⟨approx_zero hu0 hu1 2, ok_zero f s⟩
  · have hz' : v.isZero = false := by simpa using hz
    split
    next h =>
      obtain ⟨hq, -⟩ := div_approx_normal hp H.hfac H.hcoef (H.quot₁ h).1 (H.quot₁ h).2
      obtain ⟨hm, hmok⟩ := mul_approx_normal hp H.hv (H.quot₁ h).1 (H.prod₁ h hz').1 (H.prod₁ h hz').2
      refine ⟨?_, hmok⟩
      have := Approx.trans hu1 hm (Approx.mul hu0 hu1 (Approx.refl _) hq)
      rwa [← mul_div_assoc] at this
    next h =>
      obtain ⟨hq, -⟩ := div_approx_normal hp H.hcoef H.hfac (H.quot₂ h).1 (H.quot₂ h).2
      obtain ⟨hd, hdok⟩ := div_approx_normal hp H.hv (H.quot₂ h).1 (H.div₂ h hz').1 (H.div₂ h hz').2
      refine ⟨?_, hdok⟩
      have := Approx.trans hu1 hd (Approx.div hu0 hu1 (Approx.refl _) hq)
      rwa [div_div_eq_mul_div] at this

/-- subtracting a constant from a `k`-rounding approximation: absolute error
    `|(yh ⊖ c) − (y − c)| ≤ ρ_k·|y|·(1+u) + u·|y − c|` -/
theorem sub_abs_le_of_approx (hp : 1 ≤ f.p) {k : ℕ} {yf c : Fl} {y : Rat}
    (hs : Approx (uro f) k yf.toRat y) (hsok : Ok f yf) (hc : Ok f c)
    (hfin : (Fl.sub f yf c).isFinite = true) :
    |(Fl.sub f yf c).toRat - (y - c.toRat)| ≤
      ((1 - uro f) ^ (-(k : ℤ)) - 1) * |y| * (1 + uro f) + uro f * |y - c.toRat| := by
  have hu0 := uro_nonneg f
  have hu1 := uro_lt_one f hp
  obtain ⟨⟨δ, hδ, hδu⟩, -⟩ := sub_rel_ok hp hsok hc hfin
  set yh := yf.toRat with hyh
  set r := (Fl.sub f yf c).toRat with hr'
  have h1 : |yh - y| ≤ ((1 - uro f) ^ (-(k : ℤ)) - 1) * |y| := Approx.abs_sub_le' hu0 hu1 hs
  have h2 : |r - (yh - c.toRat)| ≤ uro f * |yh - c.toRat| := by
    have e : r - (yh - c.toRat) = δ * (yh - c.toRat) := by rw [hδ]; ring
    rw [e, abs_mul]
    exact mul_le_mul_of_nonneg_right hδu (abs_nonneg _)
  have h3 : |yh - c.toRat| ≤ |yh - y| + |y - c.toRat| := by
    have : yh - c.toRat = (yh - y) + (y - c.toRat) := by ring
    rw [this]; exact abs_add_le _ _
  have h4 : |r - (y - c.toRat)| ≤ |r - (yh - c.toRat)| + |yh - y| := by
    have : r - (y - c.toRat) = (r - (yh - c.toRat)) + (yh - y) := by ring
    rw [this]; exact abs_add_le _ _
  have h5 : uro f * |yh - c.toRat| ≤ uro f * (|yh - y| + |y - c.toRat|) :=
    mul_le_mul_of_nonneg_left h3 hu0
  have h6 : |yh - y| * (1 + uro f) ≤ ((1 - uro f) ^ (-(k : ℤ)) - 1) * |y| * (1 + uro f) :=
    mul_le_mul_of_nonneg_right h1 (by linarith)
  calc |r - (y - c.toRat)| ≤ uro f * (|yh - y| + |y - c.toRat|) + |yh - y| := by linarith
    _ = |yh - y| * (1 + uro f) + uro f * |y - c.toRat| := by ring
    _ ≤ _ := by linarith

/-- **`from_base` on floats under the guard's own conditions, oracle form**:
    `|result − (y − c)| ≤ u·(3|y| + 2|y − c|)` (in fact `u·(3|y| + |y − c|)`), `y = v·fac/coef` -/
theorem fromBase_flS_abs_le_R (h4 : 4 ≤ f.p) {coef c fac v : Fl} (H : FromBaseOkR f coef fac v)
    (hc : Ok f c) (hfin : (Fl.isFinite (fromBase (flS f) coef c fac v)) = true) :
    |Fl.toRat (fromBase (flS f) coef c fac v) - (v.toRat * fac.toRat / coef.toRat - c.toRat)| ≤
      uro f * (3 * |v.toRat * fac.toRat / coef.toRat|
        + 2 * |v.toRat * fac.toRat / coef.toRat - c.toRat|) := by
  have hp : 1 ≤ f.p := by omega
  have hu0 := uro_nonneg f
  have hu := uro_le_sixteenth h4
  rw [fromBase_flS_eq] at hfin ⊢
  obtain ⟨hs, hsok⟩ := fromBaseScaledF_approx_R hp H
  have h := sub_abs_le_of_approx hp hs hsok hc hfin
  have h3 := rho2_mul_le hu0 (by linarith : uro f ≤ 1 / 7)
  set y := v.toRat * fac.toRat / coef.toRat with hy
  have hB : ((1 - uro f) ^ (-((2 : ℕ) : ℤ)) - 1) * |y| * (1 + uro f) ≤ 3 * uro f * |y| := by
    calc _ = ((1 - uro f) ^ (-(2 : ℤ)) - 1) * (1 + uro f) * |y| := by push_cast; ring
      _ ≤ _ := mul_le_mul_of_nonneg_right h3 (abs_nonneg _)
  have hE : 0 ≤ uro f * |y - c.toRat| := mul_nonneg hu0 (abs_nonneg _)
  calc _ ≤ _ := h
    _ ≤ 3 * uro f * |y| + uro f * |y - c.toRat| := by linarith
    _ ≤ _ := by linarith

/-- `ρ₅·(1+u) ≤ 7u` for `u ≤ 1/16` -/
theorem rho5_mul_le {u : Rat} (hu0 : 0 ≤ u) (hu : u ≤ 1 / 16) :
    ((1 - u) ^ (-(5 : ℤ)) - 1) * (1 + u) ≤ 7 * u := by
  have hq : 0 < (1 - u) ^ 5 := pow_pos (by linarith) 5
  have hd : 0 ≤ 1 / 16 - u := by linarith
  have key : (1 - (1 - u) ^ 5) * (1 + u) ≤ 7 * u * (1 - u) ^ 5 := by
    have e : (1 - u) ^ 5 = 1 - 5 * u + 10 * u ^ 2 - 10 * u ^ 3 + 5 * u ^ 4 - u ^ 5 := by ring
    rw [e]
    nlinarith [mul_nonneg hu0 hd, mul_nonneg (pow_nonneg hu0 3) hd, mul_nonneg (pow_nonneg hu0 5) hd,
      pow_nonneg hu0 3, pow_nonneg hu0 5]
  have e : (1 - u) ^ (-(5 : ℤ)) - 1 = (1 - (1 - u) ^ 5) / (1 - u) ^ 5 := by
    rw [zpow_neg, zpow_ofNat, inv_eq_one_div, div_sub_one hq.ne']
  rw [e, div_mul_eq_mul_div, div_le_iff₀ hq]; exact key

/-! ## D. the identity branch -/

theorem sval_inj {s1 s2 : Bool} {a b : Nat} (ha : a ≠ 0) (h : sval s1 a = sval s2 b) :
    s1 = s2 ∧ a = b := by
  unfold sval at h
  cases s1 <;> cases s2 <;> simp only [Bool.false_eq_true, if_false, if_true] at h
  · exact ⟨rfl, by omega⟩
  · exfalso; omega
  · exfalso; omega
  · exact ⟨rfl, by omega⟩

/-- canonical floats that compare equal are bit-identical, unless they are zeros -/
theorem canonical_eq_of_cmp (hp : 1 ≤ f.p) {x y : Fl} (hx : Canonical f x) (hy : Canonical f y)
    (hxfin : x.isFinite = true) (hx0 : x.isZero = false) (h : Fl.cmp x y = some 0) : x = y := by
  cases x with
  | nan => simp [Fl.isFinite] at hxfin
  | inf s => simp [Fl.isFinite] at hxfin
  | fin s1 m1 e1 =>
    cases y with
    | nan => simp [Fl.cmp] at h
    | inf b => cases b <;> simp [Fl.cmp] at h
    | fin s2 m2 e2 =>
      have hm1 : m1 ≠ 0 := by
        intro h0; subst h0; simp [Fl.isZero] at hx0
      have hpp := two_pow_pred_add f.p hp
      rw [cmp_fin, Option.some.injEq] at h
      have hab : sval s1 (m1 * 2 ^ (e1 - min e1 e2).toNat) = sval s2 (m2 * 2 ^ (e2 - min e1 e2).toNat) := by
        split_ifs at h with h1 h2 <;> first | exact h2 | exact absurd h (by decide)
      have hA0 : m1 * 2 ^ (e1 - min e1 e2).toNat ≠ 0 :=
        Nat.mul_ne_zero hm1 (Nat.pos_iff_ne_zero.mp (Nat.two_pow_pos _))
      obtain ⟨hs, hAB⟩ := sval_inj hA0 hab
      subst hs
      have hx' := (canonical_fin_iff s1 m1 e1).mp hx
      have hy' := (canonical_fin_iff s1 m2 e2).mp hy
      rcases le_or_gt e1 e2 with hle | hgt
      · rw [min_eq_left hle] at hAB
        simp only [Int.sub_self, Int.toNat_zero, Nat.pow_zero, Nat.mul_one] at hAB
        by_cases hee : e2 = e1
        · subst hee
          simp only [Int.sub_self, Int.toNat_zero, Nat.pow_zero, Nat.mul_one] at hAB
          rw [hAB]
        · exfalso
          have hP : 1 < 2 ^ (e2 - e1).toNat := Nat.one_lt_two_pow (by omega)
          have hmul : m2 * 2 ≤ m2 * 2 ^ (e2 - e1).toNat := Nat.mul_le_mul_left m2 hP
          generalize m2 * 2 ^ (e2 - e1).toNat = t at *
          omega
      · rw [min_eq_right hgt.le] at hAB
        simp only [Int.sub_self, Int.toNat_zero, Nat.pow_zero, Nat.mul_one] at hAB
        exfalso
        have hP : 1 < 2 ^ (e1 - e2).toNat := Nat.one_lt_two_pow (by omega)
        have hmul : m1 * 2 ≤ m1 * 2 ^ (e1 - e2).toNat := Nat.mul_le_mul_left m1 hP
        generalize m1 * 2 ^ (e1 - e2).toNat = t at *
        omega

theorem foldl_mul_canonical (hf : f.WF) (ps : List Fl) (init : Fl) (h : Canonical f init) :
    Canonical f (ps.foldl (Fl.mul f) init) := by
  induction ps generalizing init with
  | nil => exact h
  | cons p ps ih => exact ih _ (Fl.mul_canonical hf _ _)

/-- the base factor (a left fold of products starting from `1.0`) is canonical -/
theorem baseFactor_canonical (hf : f.WF) (ps : List Fl) :
    Canonical f (baseFactor (flS f) ps : Fl) :=
  foldl_mul_canonical hf ps _ (Fl.one_canonical hf)

theorem eq_zero_of_isZero {c : Fl} (hc : Canonical f c) (hz : c.isZero = true) :
    c = Fl.zero f c.signBit := by
  cases c with
  | nan => simp [Fl.isZero] at hz
  | inf s => simp [Fl.isZero] at hz
  | fin s m e =>
    cases m with
    | zero => rw [canonical_zero_exp hc]; rfl
    | succ k => simp [Fl.isZero] at hz

/-- identity branch of `oracleNew`: `coef` compares equal to the base factor and the constant is `-0.0` -/
theorem toBase_isId (hf : f.WF) {coef cA fac v : Fl} (hv : Canonical f v) (hcoef : Canonical f coef)
    (hfac : Canonical f fac) (hcA : Canonical f cA) (hcmp : Fl.cmp coef fac = some 0)
    (hz : cA.isZero = true) (hsign : cA.signBit = true)
    (hfin : coef.isFinite = true) (h0 : coef.isZero = false) :
    toBase (flS f) coef cA fac v = v := by
  have := canonical_eq_of_cmp hf.hp hcoef hfac hfin h0 hcmp
  subst this
  rw [eq_zero_of_isZero hcA hz, hsign]
  exact Fl.toBase_id' hf v coef hv hfin h0

/-- identity branch of `oracleGet`: `coef` compares equal to the base factor and the constant is `+0.0` -/
theorem fromBase_isId (hf : f.WF) {coef cS fac v : Fl} (hv : Canonical f v) (hcoef : Canonical f coef)
    (hfac : Canonical f fac) (hcS : Canonical f cS) (hcmp : Fl.cmp coef fac = some 0)
    (hz : cS.isZero = true) (hsign : cS.signBit = false)
    (hfin : coef.isFinite = true) (h0 : coef.isZero = false) :
    fromBase (flS f) coef cS fac v = v := by
  have := canonical_eq_of_cmp hf.hp hcoef hfac hfin h0 hcmp
  subst this
  rw [eq_zero_of_isZero hcS hz, hsign]
  exact Fl.fromBase_id' hf v coef hv hfin h0

/-! ## E. the oracles never reject the model's own result -/

/-- the shape of `oracleNew`: it can only answer `fail` if the identity clause, the finiteness of the
    result or the `4u` bound is violated -/
theorem oracleNew_not_fail (c : ConvCase) (obs : Fl)
    (hid : Fl.cmp c.coef (baseFactor (flS c.fmt) c.pows) = some 0 → c.consA.isZero = true →
      c.coef.isFinite = true → c.coef.isZero = false → obs = c.v)
    (hgen : c.v.isFinite = true → c.coef.isFinite = true →
      Fl.isFinite (baseFactor (flS c.fmt) c.pows) = true → c.coef.isZero = false →
      Fl.isZero (baseFactor (flS c.fmt) c.pows) = false →
      toBaseNormal c (baseFactor (flS c.fmt) c.pows) = true →
      obs.isFinite = true ∧
        |obs.toRat - (c.v.toRat + c.consA.toRat) * c.coef.toRat
            / Fl.toRat (baseFactor (flS c.fmt) c.pows)| ≤
          4 * Proofs.uro c.fmt * |(c.v.toRat + c.consA.toRat) * c.coef.toRat
            / Fl.toRat (baseFactor (flS c.fmt) c.pows)|)
    (why : String) : oracleNew c obs ≠ .fail why := by
  intro h
  unfold oracleNew at h
  simp only [oracle_ratAbs_eq, oracle_uro_eq] at h
  split at h
  · next hid' =>
    simp only [Bool.and_eq_true, beq_iff_eq, Bool.not_eq_true'] at hid'
    obtain ⟨⟨⟨h1, h2⟩, h3⟩, h4⟩ := hid'
    rw [if_pos (hid h1 h2 h3 h4)] at h
    cases h
  · split at h
    · cases h
    · next hg1 =>
      split at h
      · cases h
      · next hg2 =>
        simp only [Bool.or_eq_true, Bool.and_eq_true, Bool.not_eq_true', not_or, Bool.not_eq_false,
          Bool.not_eq_true] at hg1 hg2
        obtain ⟨⟨⟨⟨hv, hc⟩, hfa⟩, hc0⟩, hf0⟩ := hg1
        obtain ⟨hfin, hb⟩ := hgen hv hc hfa hc0 hf0 hg2
        split at h
        · next hnf => rw [hfin] at hnf; exact absurd hnf (by decide)
        · cases h

/-- **`oracleNew` never rejects the model's own `to_base`.**
    Hypotheses: well-formed format with `p ≥ 4`; the stored value, the coefficient and the constant are
    canonical (what `ofBits` produces); a zero constant is `-0.0` (`constant(ConstantOp::Add)` of a unit
    without offset — with `+0.0` the statement is false, see `oracleNew_unsound_poszero`). -/
theorem oracleNew_sound (c : ConvCase) (hf : c.fmt.WF) (h4 : 4 ≤ c.fmt.p)
    (hv : Canonical c.fmt c.v) (hcoef : Canonical c.fmt c.coef) (hcA : Canonical c.fmt c.consA)
    (hA : c.consA.isZero = true → c.consA.signBit = true) (why : String) :
    oracleNew c (toBase (flS c.fmt) c.coef c.consA (baseFactor (flS c.fmt) c.pows) c.v) ≠ .fail why := by
  refine oracleNew_not_fail c _ ?_ ?_ why
  · intro h1 h2 h3 h4'
    exact toBase_isId hf hv hcoef (baseFactor_canonical hf c.pows) hcA h1 h2 (hA h2) h3 h4'
  · intro hvf hcf hff hc0 hf0 hg
    have H := toBaseOkR_of_guard c _ hf (ok_of_canonical hv hvf) hcA hcf hc0 hff hf0 hg
    obtain ⟨hap, hok⟩ := toBase_flS_approx_R hf.hp H
    exact ⟨hok.isFinite, approx3_abs_le h4 hap⟩

/-- the shape of `oracleGet` -/
theorem oracleGet_not_fail (c : ConvCase) (obs : Fl)
    (hid : Fl.cmp c.coef (baseFactor (flS c.fmt) c.pows) = some 0 → c.consS.isZero = true →
      c.coef.isFinite = true → c.coef.isZero = false → obs = c.v)
    (hgen : c.v.isFinite = true → c.coef.isFinite = true →
      Fl.isFinite (baseFactor (flS c.fmt) c.pows) = true → c.coef.isZero = false →
      Fl.isZero (baseFactor (flS c.fmt) c.pows) = false →
      fromBaseNormal c (baseFactor (flS c.fmt) c.pows) = true →
      obs.isFinite = true ∧
        |obs.toRat - (c.v.toRat * Fl.toRat (baseFactor (flS c.fmt) c.pows) / c.coef.toRat
            - c.consS.toRat)| ≤
          Proofs.uro c.fmt *
            (3 * |c.v.toRat * Fl.toRat (baseFactor (flS c.fmt) c.pows) / c.coef.toRat|
              + 2 * |c.v.toRat * Fl.toRat (baseFactor (flS c.fmt) c.pows) / c.coef.toRat
                - c.consS.toRat|))
    (why : String) : oracleGet c obs ≠ .fail why := by
  intro h
  unfold oracleGet at h
  simp only [oracle_ratAbs_eq, oracle_uro_eq] at h
  split at h
  · next hid' =>
    simp only [Bool.and_eq_true, beq_iff_eq, Bool.not_eq_true'] at hid'
    obtain ⟨⟨⟨h1, h2⟩, h3⟩, h4⟩ := hid'
    rw [if_pos (hid h1 h2 h3 h4)] at h
    cases h
  · split at h
    · cases h
    · next hg1 =>
      split at h
      · cases h
      · next hg2 =>
        simp only [Bool.or_eq_true, Bool.and_eq_true, Bool.not_eq_true', not_or, Bool.not_eq_false,
          Bool.not_eq_true] at hg1 hg2
        obtain ⟨⟨⟨⟨hv, hc⟩, hfa⟩, hc0⟩, hf0⟩ := hg1
        obtain ⟨hfin, hb⟩ := hgen hv hc hfa hc0 hf0 hg2
        split at h
        · next hnf => rw [hfin] at hnf; exact absurd hnf (by decide)
        · cases h

/-- **`oracleGet` never rejects the model's own `from_base`.**
    A zero constant must be `+0.0` (`constant(ConstantOp::Sub)` of a unit without offset). -/
theorem oracleGet_sound (c : ConvCase) (hf : c.fmt.WF) (h4 : 4 ≤ c.fmt.p)
    (hv : Canonical c.fmt c.v) (hcoef : Canonical c.fmt c.coef) (hcS : Canonical c.fmt c.consS)
    (hS : c.consS.isZero = true → c.consS.signBit = false) (why : String) :
    oracleGet c (fromBase (flS c.fmt) c.coef c.consS (baseFactor (flS c.fmt) c.pows) c.v) ≠ .fail why := by
  refine oracleGet_not_fail c _ ?_ ?_ why
  · intro h1 h2 h3 h4'
    exact fromBase_isId hf hv hcoef (baseFactor_canonical hf c.pows) hcS h1 h2 (hS h2) h3 h4'
  · intro hvf hcf hff hc0 hf0 hg
    obtain ⟨H, hfin⟩ := fromBaseOkR_of_guard c _ hf hvf hcf hff hg
    have hcSfin : c.consS.isFinite = true := by
      rw [fromBase_flS_eq] at hfin; exact sub_isFinite_right hfin
    exact ⟨hfin, fromBase_flS_abs_le_R h4 H (ok_of_canonical hcS hcSfin) hfin⟩

/-- **round trip on floats under the guards' own conditions, oracle form**: for a unit whose two
    constants have the same value `k`, `|get(new(v)) − v| ≤ 8u·(|v| + |k|)` -/
theorem roundtrip_flS_abs_le_R (h4 : 4 ≤ f.p) {coef cA cS fac v : Fl}
    (hcoef0 : coef.toRat ≠ 0) (hfac0 : fac.toRat ≠ 0) (hcc : cA.toRat = cS.toRat)
    (H1 : ToBaseOkR f coef cA fac v) (H2 : FromBaseOkR f coef fac (toBase (flS f) coef cA fac v))
    (hcS : Ok f cS)
    (hfin : Fl.isFinite (fromBase (flS f) coef cS fac (toBase (flS f) coef cA fac v)) = true) :
    |Fl.toRat (fromBase (flS f) coef cS fac (toBase (flS f) coef cA fac v)) - v.toRat| ≤
      8 * uro f * (|v.toRat| + |cA.toRat|) := by
  have hp : 1 ≤ f.p := by omega
  have hu0 := uro_nonneg f
  have hu1 := uro_lt_one f hp
  have hu := uro_le_sixteenth h4
  obtain ⟨hA, -⟩ := toBase_flS_approx_R hp H1
  obtain ⟨hs, hsok⟩ := fromBaseScaledF_approx_R hp H2
  have hC : Approx (uro f) (3 + 0 + 0)
      (Fl.toRat (toBase (flS f) coef cA fac v) * fac.toRat / coef.toRat)
      ((v.toRat + cA.toRat) * coef.toRat / fac.toRat * fac.toRat / coef.toRat) :=
    Approx.div hu0 hu1 (Approx.mul hu0 hu1 hA (Approx.refl _)) (Approx.refl _)
  have e : (v.toRat + cA.toRat) * coef.toRat / fac.toRat * fac.toRat / coef.toRat =
      v.toRat + cA.toRat := by field_simp
  rw [e] at hC
  have h5 : Approx (uro f) 5 (fromBaseScaledF f coef fac (toBase (flS f) coef cA fac v)).toRat
      (v.toRat + cA.toRat) := Approx.trans hu1 hs hC
  rw [fromBase_flS_eq] at hfin ⊢
  have h := sub_abs_le_of_approx hp h5 hsok hcS hfin
  rw [← hcc] at h
  have e2 : v.toRat + cA.toRat - cA.toRat = v.toRat := by ring
  rw [e2] at h
  simp only [Nat.cast_ofNat] at h
  have h7 := rho5_mul_le hu0 hu
  have htri : |v.toRat + cA.toRat| ≤ |v.toRat| + |cA.toRat| := abs_add_le _ _
  have hB : ((1 - uro f) ^ (-(5 : ℤ)) - 1) * |v.toRat + cA.toRat| * (1 + uro f) ≤
      7 * uro f * (|v.toRat| + |cA.toRat|) := by
    calc _ = ((1 - uro f) ^ (-(5 : ℤ)) - 1) * (1 + uro f) * |v.toRat + cA.toRat| := by ring
      _ ≤ 7 * uro f * |v.toRat + cA.toRat| := mul_le_mul_of_nonneg_right h7 (abs_nonneg _)
      _ ≤ _ := mul_le_mul_of_nonneg_left htri (by linarith)
  have hk0 : 0 ≤ uro f * |cA.toRat| := mul_nonneg hu0 (abs_nonneg _)
  calc _ ≤ _ := h
    _ ≤ 7 * uro f * (|v.toRat| + |cA.toRat|) + uro f * |v.toRat| := by linarith
    _ ≤ _ := by linarith

/-- the shape of `oracleRoundTrip` -/
theorem oracleRoundTrip_not_fail (c : ConvCase) (obs : Fl)
    (hid : Fl.cmp c.coef (baseFactor (flS c.fmt) c.pows) = some 0 → c.consS.isZero = true →
      c.coef.isFinite = true → c.coef.isZero = false → obs = c.v)
    (hgen : c.v.isFinite = true → c.coef.isFinite = true →
      Fl.isFinite (baseFactor (flS c.fmt) c.pows) = true → c.coef.isZero = false →
      Fl.isZero (baseFactor (flS c.fmt) c.pows) = false →
      toBaseNormal c (baseFactor (flS c.fmt) c.pows) = true →
      fromBaseNormal { c with v := toBase (flS c.fmt) c.coef c.consA (baseFactor (flS c.fmt) c.pows) c.v }
        (baseFactor (flS c.fmt) c.pows) = true →
      obs.isFinite = true ∧
        |obs.toRat - c.v.toRat| ≤ 8 * Proofs.uro c.fmt * (|c.v.toRat| + |c.consA.toRat|))
    (why : String) : oracleRoundTrip c obs ≠ .fail why := by
  intro h
  unfold oracleRoundTrip at h
  simp only [oracle_ratAbs_eq, oracle_uro_eq] at h
  split at h
  · next hid' =>
    simp only [Bool.and_eq_true, beq_iff_eq, Bool.not_eq_true'] at hid'
    obtain ⟨⟨⟨h1, h2⟩, h3⟩, h4⟩ := hid'
    rw [if_pos (hid h1 h2 h3 h4)] at h
    cases h
  · split at h
    · cases h
    · next hg1 =>
      split at h
      · cases h
      · next hg2 =>
        simp only [Bool.or_eq_true, Bool.and_eq_true, Bool.not_eq_true', not_or, Bool.not_eq_false,
          Bool.not_eq_true] at hg1 hg2
        obtain ⟨⟨⟨⟨hv, hc⟩, hfa⟩, hc0⟩, hf0⟩ := hg1
        obtain ⟨hfin, hb⟩ := hgen hv hc hfa hc0 hf0 hg2.1 hg2.2
        split at h
        · next hnf => rw [hfin] at hnf; exact absurd hnf (by decide)
        · cases h

/-- **`oracleRoundTrip` never rejects the model's own `get(new(v))`.**
    Besides the hypotheses of `oracleNew_sound` / `oracleGet_sound`: the two constants of the unit have
    the same value, and are zero together (the oracle's identity clause only inspects `consS`). -/
theorem oracleRoundTrip_sound (c : ConvCase) (hf : c.fmt.WF) (h4 : 4 ≤ c.fmt.p)
    (hv : Canonical c.fmt c.v) (hcoef : Canonical c.fmt c.coef)
    (hcA : Canonical c.fmt c.consA) (hcS : Canonical c.fmt c.consS)
    (hA : c.consA.isZero = true → c.consA.signBit = true)
    (hS : c.consS.isZero = true → c.consS.signBit = false)
    (hAS : c.consS.isZero = true → c.consA.isZero = true)
    (hcc : c.consA.toRat = c.consS.toRat) (why : String) :
    oracleRoundTrip c (fromBase (flS c.fmt) c.coef c.consS (baseFactor (flS c.fmt) c.pows)
      (toBase (flS c.fmt) c.coef c.consA (baseFactor (flS c.fmt) c.pows) c.v)) ≠ .fail why := by
  refine oracleRoundTrip_not_fail c _ ?_ ?_ why
  · intro h1 h2 h3 h4'
    have hfc := baseFactor_canonical hf c.pows
    rw [toBase_isId hf hv hcoef hfc hcA h1 (hAS h2) (hA (hAS h2)) h3 h4']
    exact fromBase_isId hf hv hcoef hfc hcS h1 h2 (hS h2) h3 h4'
  · intro hvf hcf hff hc0 hf0 hg1 hg2
    have H1 := toBaseOkR_of_guard c _ hf (ok_of_canonical hv hvf) hcA hcf hc0 hff hf0 hg1
    obtain ⟨-, hok⟩ := toBase_flS_approx_R hf.hp H1
    obtain ⟨H2, hfin⟩ := fromBaseOkR_of_guard
      { c with v := toBase (flS c.fmt) c.coef c.consA (baseFactor (flS c.fmt) c.pows) c.v } _ hf
      hok.isFinite hcf hff hg2
    have hcSfin : c.consS.isFinite = true := by
      rw [fromBase_flS_eq] at hfin; exact sub_isFinite_right hfin
    exact ⟨hfin, roundtrip_flS_abs_le_R h4 (toRat_ne_zero hcf hc0) (toRat_ne_zero hff hf0) hcc H1 H2
      (ok_of_canonical hcS hcSfin) hfin⟩

/-! ## F. C16: `oracleStdRounding` (ops 0–3: floor, ceil, round, trunc) -/

/-- `oracleStdRounding` with the integer-rounding step abstracted: `r` is the standard rounding of the
    exact value of `g`, `ri` the float handed to `new` -/
def oracleStdCore (c : ConvCase) (r : Rat) (ri g obs : Fl) : Verdict :=
  let S := flS c.fmt
  let f := baseFactor S c.pows
  if !(g.isFinite && c.coef.isFinite && f.isFinite) || c.coef.isZero || f.isZero then .guard "non-finite"
  else
    let exact := (r + c.consA.toRat) * c.coef.toRat / f.toRat
    if !(toBaseNormal { c with v := ri } f) then .guard "overflow/underflow"
    else if !obs.isFinite then .fail "non-finite result"
    else if ratAbs (obs.toRat - exact) ≤ 4 * Uom.uro c.fmt * ratAbs exact then .pass
    else .fail "result is not the construction of the standard rounding of the value read in the unit"

theorem oracleStdRounding_zero (c : ConvCase) (g obs : Fl) :
    oracleStdRounding c 0 g obs = oracleStdCore c (stdRound 0 g.toRat) (Fl.floor c.fmt g) g obs := rfl
theorem oracleStdRounding_one (c : ConvCase) (g obs : Fl) :
    oracleStdRounding c 1 g obs = oracleStdCore c (stdRound 1 g.toRat) (Fl.ceil c.fmt g) g obs := rfl
theorem oracleStdRounding_two (c : ConvCase) (g obs : Fl) :
    oracleStdRounding c 2 g obs = oracleStdCore c (stdRound 2 g.toRat) (Fl.round c.fmt g) g obs := rfl
theorem oracleStdRounding_three (c : ConvCase) (g obs : Fl) :
    oracleStdRounding c 3 g obs = oracleStdCore c (stdRound 3 g.toRat) (Fl.trunc c.fmt g) g obs := rfl
theorem oracleStdRounding_four (c : ConvCase) (g obs : Fl) :
    oracleStdRounding c 4 g obs =
      oracleStdCore c (g.toRat - stdRound 3 g.toRat) (Fl.fract c.fmt g) g obs := rfl

/-- the shape of `oracleStdRounding` -/
theorem oracleStdCore_not_fail (c : ConvCase) (g obs ri : Fl) (r : Rat)
    (hgen : g.isFinite = true → c.coef.isFinite = true →
      Fl.isFinite (baseFactor (flS c.fmt) c.pows) = true → c.coef.isZero = false →
      Fl.isZero (baseFactor (flS c.fmt) c.pows) = false →
      toBaseNormal { c with v := ri } (baseFactor (flS c.fmt) c.pows) = true →
      obs.isFinite = true ∧
        |obs.toRat - (r + c.consA.toRat) * c.coef.toRat / Fl.toRat (baseFactor (flS c.fmt) c.pows)| ≤
          4 * Proofs.uro c.fmt *
            |(r + c.consA.toRat) * c.coef.toRat / Fl.toRat (baseFactor (flS c.fmt) c.pows)|)
    (why : String) : oracleStdCore c r ri g obs ≠ .fail why := by
  intro h
  unfold oracleStdCore at h
  simp only [oracle_ratAbs_eq, oracle_uro_eq] at h
  split at h
  · cases h
  · next hg1 =>
    split at h
    · cases h
    · next hg2 =>
      simp only [Bool.or_eq_true, Bool.and_eq_true, Bool.not_eq_true', not_or, Bool.not_eq_false,
        Bool.not_eq_true] at hg1 hg2
      obtain ⟨⟨⟨⟨hv, hc⟩, hfa⟩, hc0⟩, hf0⟩ := hg1
      obtain ⟨hfin, hb⟩ := hgen hv hc hfa hc0 hf0 hg2
      split at h
      · next hnf => rw [hfin] at hnf; exact absurd hnf (by decide)
      · cases h

/-- generic step: `new(ri)` under the guard is within `4u` of the exact construction of `ri`'s value -/
theorem stdRounding_step (c : ConvCase) (hf : c.fmt.WF) (h4 : 4 ≤ c.fmt.p)
    (hcA : Canonical c.fmt c.consA) (ri : Fl) (r : Rat) (hok : Ok c.fmt ri) (hval : ri.toRat = r)
    (hcf : c.coef.isFinite = true) (hff : Fl.isFinite (baseFactor (flS c.fmt) c.pows) = true)
    (hc0 : c.coef.isZero = false) (hf0 : Fl.isZero (baseFactor (flS c.fmt) c.pows) = false)
    (hg : toBaseNormal { c with v := ri } (baseFactor (flS c.fmt) c.pows) = true) :
    Fl.isFinite (toBase (flS c.fmt) c.coef c.consA (baseFactor (flS c.fmt) c.pows) ri) = true ∧
      |Fl.toRat (toBase (flS c.fmt) c.coef c.consA (baseFactor (flS c.fmt) c.pows) ri) -
          (r + c.consA.toRat) * c.coef.toRat / Fl.toRat (baseFactor (flS c.fmt) c.pows)| ≤
        4 * Proofs.uro c.fmt *
          |(r + c.consA.toRat) * c.coef.toRat / Fl.toRat (baseFactor (flS c.fmt) c.pows)| := by
  have H := toBaseOkR_of_guard { c with v := ri } _ hf hok hcA hcf hc0 hff hf0 hg
  obtain ⟨hap, hok'⟩ := toBase_flS_approx_R hf.hp H
  rw [← hval]
  exact ⟨hok'.isFinite, approx3_abs_le h4 hap⟩

/-- **`oracleStdRounding` never rejects the model's own `new(op(g))`** for `op` = floor (0), ceil (1),
    round (2), trunc (3) and any canonical value `g` read in the unit. -/
theorem oracleStdRounding_sound (c : ConvCase) (hf : c.fmt.WF) (h4 : 4 ≤ c.fmt.p)
    (hcA : Canonical c.fmt c.consA) (g : Fl) (hg : Canonical c.fmt g) (why : String) :
    oracleStdRounding c 0 g
        (toBase (flS c.fmt) c.coef c.consA (baseFactor (flS c.fmt) c.pows) (Fl.floor c.fmt g)) ≠ .fail why ∧
    oracleStdRounding c 1 g
        (toBase (flS c.fmt) c.coef c.consA (baseFactor (flS c.fmt) c.pows) (Fl.ceil c.fmt g)) ≠ .fail why ∧
    oracleStdRounding c 2 g
        (toBase (flS c.fmt) c.coef c.consA (baseFactor (flS c.fmt) c.pows) (Fl.round c.fmt g)) ≠ .fail why ∧
    oracleStdRounding c 3 g
        (toBase (flS c.fmt) c.coef c.consA (baseFactor (flS c.fmt) c.pows) (Fl.trunc c.fmt g)) ≠ .fail why := by
  refine ⟨?_, ?_, ?_, ?_⟩
  · rw [oracleStdRounding_zero]
    refine oracleStdCore_not_fail c g _ (Fl.floor c.fmt g) (stdRound 0 g.toRat) ?_ why
    intro hgf hcf hff hc0 hf0 hgd
    exact stdRounding_step c hf h4 hcA _ _ (floor_ok hf hg hgf) (floor_eq_stdRound hf hg hgf)
      hcf hff hc0 hf0 hgd
  · rw [oracleStdRounding_one]
    refine oracleStdCore_not_fail c g _ (Fl.ceil c.fmt g) (stdRound 1 g.toRat) ?_ why
    intro hgf hcf hff hc0 hf0 hgd
    exact stdRounding_step c hf h4 hcA _ _ (ceil_ok hf hg hgf) (ceil_eq_stdRound hf hg hgf)
      hcf hff hc0 hf0 hgd
  · rw [oracleStdRounding_two]
    refine oracleStdCore_not_fail c g _ (Fl.round c.fmt g) (stdRound 2 g.toRat) ?_ why
    intro hgf hcf hff hc0 hf0 hgd
    exact stdRounding_step c hf h4 hcA _ _ (round_ok hf hg hgf) (round_eq_stdRound hf hg hgf)
      hcf hff hc0 hf0 hgd
  · rw [oracleStdRounding_three]
    refine oracleStdCore_not_fail c g _ (Fl.trunc c.fmt g) (stdRound 3 g.toRat) ?_ why
    intro hgf hcf hff hc0 hf0 hgd
    exact stdRounding_step c hf h4 hcA _ _ (trunc_ok hf hg hgf) (trunc_eq_stdRound hf hg hgf)
      hcf hff hc0 hf0 hgd

/-! ## G. the gap between the executable guards and `ToBaseOk` / `FromBaseOk`, made precise -/

/-- a normal *result* bounds the *exact* value from below by `nmin·(1−u)` (not by `nmin`) -/
theorem exact_ge_of_approx_one (hp : 1 ≤ f.p) {r x : Rat} (h : Approx (uro f) 1 r x)
    (hN : nmin f ≤ |r|) : nmin f * (1 - uro f) ≤ |x| := by
  have hu1 := uro_lt_one f hp
  obtain ⟨θ, rfl, h1, h2⟩ := h
  rw [pow_one] at h1 h2
  have hθ0 : 0 < θ := lt_of_lt_of_le (by linarith) h1
  rw [abs_mul, abs_of_pos hθ0] at hN
  calc nmin f * (1 - uro f) ≤ |x| * θ * (1 - uro f) :=
        mul_le_mul_of_nonneg_right hN (by linarith)
    _ = |x| * (θ * (1 - uro f)) := by ring
    _ ≤ |x| * 1 := mul_le_mul_of_nonneg_left h2 (abs_nonneg _)
    _ = |x| := by ring

theorem mul_exact_ge (hp : 1 ≤ f.p) {x y : Fl} (hx : x.isFinite = true) (hy : y.isFinite = true)
    (hfin : (Fl.mul f x y).isFinite = true) (hN : nmin f ≤ |(Fl.mul f x y).toRat|) :
    nmin f * (1 - uro f) ≤ |x.toRat * y.toRat| :=
  exact_ge_of_approx_one hp (mul_approx_normal hp hx hy hfin hN).1 hN

theorem div_exact_ge (hp : 1 ≤ f.p) {x y : Fl} (hx : x.isFinite = true) (hy : y.isFinite = true)
    (hfin : (Fl.div f x y).isFinite = true) (hN : nmin f ≤ |(Fl.div f x y).toRat|) :
    nmin f * (1 - uro f) ≤ |x.toRat / y.toRat| :=
  exact_ge_of_approx_one hp (div_approx_normal hp hx hy hfin hN).1 hN

/-- `ToBaseOk` follows from the guard's conditions *plus* a non-zero rounded sum and the four bounds on
    the exact intermediate values (which the guard only gives up to the factor `1 − u`) -/
theorem ToBaseOkR.toBaseOk {coef c fac v : Fl} (H : ToBaseOkR f coef c fac v)
    (hs : (Fl.add f v c).isZero = false)
    (hq₁ : Fl.ge coef fac = true → nmin f ≤ |coef.toRat / fac.toRat|)
    (hp₁ : Fl.ge coef fac = true → nmin f ≤ |(Fl.add f v c).toRat * (Fl.div f coef fac).toRat|)
    (hp₂ : ¬ Fl.ge coef fac = true → nmin f ≤ |(Fl.add f v c).toRat * coef.toRat|)
    (hq₂ : ¬ Fl.ge coef fac = true → nmin f ≤ |(Fl.mul f (Fl.add f v c) coef).toRat / fac.toRat|) :
    ToBaseOk f coef c fac v :=
  ⟨H.hv, H.hc, H.hcoef, H.hfac, H.sum, fun h => ⟨(H.quot₁ h).1, hq₁ h⟩,
    fun h => ⟨(H.prod₁ h hs).1, hp₁ h⟩, fun h => ⟨(H.prod₂ h hs).1, hp₂ h⟩,
    fun h => ⟨(H.quot₂ h hs).1, hq₂ h⟩⟩

theorem FromBaseOkR.fromBaseOk {coef fac v : Fl} (H : FromBaseOkR f coef fac v)
    (hv0 : v.isZero = false)
    (hq₁ : Fl.lt coef fac = true → nmin f ≤ |fac.toRat / coef.toRat|)
    (hp₁ : Fl.lt coef fac = true → nmin f ≤ |v.toRat * (Fl.div f fac coef).toRat|)
    (hq₂ : ¬ Fl.lt coef fac = true → nmin f ≤ |coef.toRat / fac.toRat|)
    (hd₂ : ¬ Fl.lt coef fac = true → nmin f ≤ |v.toRat / (Fl.div f coef fac).toRat|) :
    FromBaseOk f coef fac v :=
  ⟨H.hv, H.hcoef, H.hfac, fun h => ⟨(H.quot₁ h).1, hq₁ h⟩, fun h => ⟨(H.prod₁ h hv0).1, hp₁ h⟩,
    fun h => ⟨(H.quot₂ h).1, hq₂ h⟩, fun h => ⟨(H.div₂ h hv0).1, hd₂ h⟩⟩

/-- what the guard *does* give for the exact intermediate values: the bounds of `ToBaseOk` weakened
    by the factor `1 − u` -/
theorem ToBaseOkR.exact_bounds (hp : 1 ≤ f.p) {coef c fac v : Fl} (H : ToBaseOkR f coef c fac v)
    (hs : (Fl.add f v c).isZero = false) :
    (Fl.ge coef fac = true →
      nmin f * (1 - uro f) ≤ |coef.toRat / fac.toRat| ∧
      nmin f * (1 - uro f) ≤ |(Fl.add f v c).toRat * (Fl.div f coef fac).toRat|) ∧
    (¬ Fl.ge coef fac = true →
      nmin f * (1 - uro f) ≤ |(Fl.add f v c).toRat * coef.toRat| ∧
      nmin f * (1 - uro f) ≤ |(Fl.mul f (Fl.add f v c) coef).toRat / fac.toRat|) :=
  ⟨fun h => ⟨div_exact_ge hp H.hcoef H.hfac (H.quot₁ h).1 (H.quot₁ h).2,
      mul_exact_ge hp H.sum (H.quot₁ h).1 (H.prod₁ h hs).1 (H.prod₁ h hs).2⟩,
    fun h => ⟨mul_exact_ge hp H.sum H.hcoef (H.prod₂ h hs).1 (H.prod₂ h hs).2,
      div_exact_ge hp (H.prod₂ h hs).1 H.hfac (H.quot₂ h hs).1 (H.quot₂ h hs).2⟩⟩

def _root_.Uom.Verdict.isFail : Verdict → Bool
  | .fail _ => true
  | _ => false

theorem exists_of_isFail {v : Verdict} (h : v.isFail = true) : ∃ why, v = .fail why := by
  cases v with
  | pass => simp [Verdict.isFail] at h
  | fail w => exact ⟨w, rfl⟩
  | guard w => simp [Verdict.isFail] at h

/-- binary32 witness: a unit with `coef = 0.5`, no offset, and `v = (2^24 − 1)·2^-149`: the exact
    product `v·0.5 = 2^-126 − 2^-150` is a tie that rounds (to even) up to `nmin = 2^-126` -/
def cexGap : ConvCase where
  fmt := b32
  coef := Fl.fin false (2 ^ 23) (-24)
  consA := Fl.zero b32 true
  consS := Fl.zero b32 false
  pows := []
  v := Fl.fin false (2 ^ 24 - 1) (-149)

/-- **the guard does not imply `ToBaseOk`**: for `cexGap` (canonical inputs) `toBaseNormal` holds but
    the exact product is below `nmin`. (`oracleNew_sound` still applies to it.) -/
theorem guard_not_toBaseOk :
    Canonical cexGap.fmt cexGap.v ∧ Canonical cexGap.fmt cexGap.coef ∧
    toBaseNormal cexGap (baseFactor (flS cexGap.fmt) cexGap.pows) = true ∧
      ¬ ToBaseOk cexGap.fmt cexGap.coef cexGap.consA (baseFactor (flS cexGap.fmt) cexGap.pows) cexGap.v := by
  refine ⟨Or.inl (by decide), Or.inl (by decide), by decide +kernel, fun H => ?_⟩
  have hge : ¬ Fl.ge cexGap.coef (baseFactor (flS cexGap.fmt) cexGap.pows) = true := by decide +kernel
  have h := (H.prod₂ hge).2
  have hadd : Fl.add cexGap.fmt cexGap.v cexGap.consA = Fl.fin false (2 ^ 24 - 1) (-149) := by
    decide +kernel
  rw [hadd] at h
  simp only [cexGap, toRat_fin, nmin, sgn, b32] at h
  norm_num at h

/-- witness for the sign hypotheses on zero constants: with `consA = +0.0` (resp. `consS = -0.0`) the
    model's `new(-0.0) = +0.0` is rejected by the identity clause -/
def cexPosZero : ConvCase where
  fmt := b32
  coef := Fl.one b32
  consA := Fl.zero b32 false
  consS := Fl.zero b32 true
  pows := []
  v := Fl.zero b32 true

theorem oracleNew_unsound_poszero :
    Canonical cexPosZero.fmt cexPosZero.v ∧ Canonical cexPosZero.fmt cexPosZero.coef ∧
    Canonical cexPosZero.fmt cexPosZero.consA ∧
    ∃ why, oracleNew cexPosZero (toBase (flS cexPosZero.fmt) cexPosZero.coef cexPosZero.consA
      (baseFactor (flS cexPosZero.fmt) cexPosZero.pows) cexPosZero.v) = .fail why :=
  ⟨zero_canonical true, one_canonical b32_wf, zero_canonical false,
    exists_of_isFail (by decide +kernel)⟩

theorem oracleGet_unsound_negzero :
    Canonical cexPosZero.fmt cexPosZero.v ∧ Canonical cexPosZero.fmt cexPosZero.coef ∧
    Canonical cexPosZero.fmt cexPosZero.consS ∧
    ∃ why, oracleGet cexPosZero (fromBase (flS cexPosZero.fmt) cexPosZero.coef cexPosZero.consS
      (baseFactor (flS cexPosZero.fmt) cexPosZero.pows) cexPosZero.v) = .fail why :=
  ⟨zero_canonical true, one_canonical b32_wf, zero_canonical true,
    exists_of_isFail (by decide +kernel)⟩

end Uom.Proofs

