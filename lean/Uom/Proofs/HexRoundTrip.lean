import Uom.Model.Num
import Uom.Proofs.FlCanonical
/-!
# Hexadecimal interchange text round trip

The harness exchanges floating-point values as fixed-width hexadecimal bit patterns
(`flHex` prints, `flOf?` parses).  This file proves

1. `parseHex? (toHex n w) = some n` for every `n`, `w` (string level);
2. `flOf? f (flHex f x) = some (ofBits f (toBits f x))`;
3. `ofBits f (toBits f x) = x` for every canonical `x` (bits level);
4. hence `flOf? f (flHex f x) = some x` for every canonical `x`, in particular for `b64`, `b32`.

Core Lean only.
-/
namespace Uom

/-! ### 1. string level -/

/-- one step of the parser of `parseHex?` -/
def hexStep (acc : Option Nat) (c : Char) : Option Nat :=
  match acc, hexDigit? c with
  | some a, some d => some (a * 16 + d)
  | _, _ => none

theorem parseHex?_eq (s : String) :
    parseHex? s = if s.isEmpty then none else s.toList.foldl hexStep (some 0) := by
  unfold parseHex?
  rw [String.foldl_eq_foldl_toList]
  rfl

theorem hexDigit?_digitChar : ∀ d, d < 16 → hexDigit? (Nat.digitChar d) = some d := by decide

theorem hexStep_digitChar (a d : Nat) (hd : d < 16) :
    hexStep (some a) (Nat.digitChar d) = some (a * 16 + d) := by
  unfold hexStep
  rw [hexDigit?_digitChar d hd]

/-- leading zeros do not change the accumulator `0` -/
theorem foldl_hexStep_zeros (k : Nat) :
    (List.replicate k '0').foldl hexStep (some 0) = some 0 := by
  induction k with
  | zero => rfl
  | succ k ih =>
    rw [List.replicate_succ, List.foldl_cons]
    have : hexStep (some 0) '0' = some 0 := by decide
    rw [this, ih]

/-- the digits of `n` parse back to `n` -/
theorem foldl_hexStep_toDigits (n : Nat) :
    (Nat.toDigits 16 n).foldl hexStep (some 0) = some n := by
  induction n using Nat.strongRecOn with
  | _ n ih =>
    rw [Nat.toDigits_eq_if (by decide)]
    by_cases h : n < 16
    · rw [if_pos h, List.foldl_cons, List.foldl_nil, hexStep_digitChar 0 n h]
      congr 1; omega
    · rw [if_neg h, List.foldl_append, ih (n / 16) (by omega), List.foldl_cons, List.foldl_nil,
        hexStep_digitChar _ _ (Nat.mod_lt _ (by decide))]
      congr 1; omega

/-- 1. printing `n` in hexadecimal (any minimal width) and parsing gives `n` back -/
theorem parseHex?_toHex (n w : Nat) : parseHex? (toHex n w) = some n := by
  rw [parseHex?_eq]
  unfold toHex
  simp only []
  have hne : ¬ (String.ofList (List.replicate (w - (Nat.toDigits 16 n).length) '0'
      ++ Nat.toDigits 16 n)).isEmpty = true := by
    rw [String.isEmpty_iff, String.ofList_eq_empty_iff]
    intro h
    have h0 : (List.replicate (w - (Nat.toDigits 16 n).length) '0'
      ++ Nat.toDigits 16 n).length = 0 := by rw [h]; rfl
    rw [List.length_append] at h0
    have := @Nat.length_toDigits_pos 16 n
    omega
  rw [if_neg hne, String.toList_ofList, List.foldl_append, foldl_hexStep_zeros,
    foldl_hexStep_toDigits]

/-! ### 2. value level, unconditionally -/

theorem flOf?_flHex (f : Fmt) (x : Fl) :
    flOf? f (flHex f x) = some (Fl.ofBits f (Fl.toBits f x)) := by
  unfold flOf? flHex
  rw [parseHex?_toHex]
  rfl

/-! ### 3. bits level: decoding after encoding -/

namespace Fl

variable {f : Fmt}

/-- the three fields of `sg·(F·X) + E·F + fr` -/
theorem fields (F X sg E fr : Nat) (hfr : fr < F) (hE : E < X) :
    (sg * (F * X) + E * F + fr) % F = fr ∧
      (sg * (F * X) + E * F + fr) / F % X = E ∧
      (sg * (F * X) + E * F + fr) / (F * X) = sg := by
  have hF : 0 < F := by omega
  have hX : 0 < X := by omega
  have hb : sg * (F * X) + E * F + fr = F * (X * sg + E) + fr := by
    rw [Nat.mul_add, Nat.mul_comm E, Nat.mul_comm sg, Nat.mul_assoc]
  have hdiv : (F * (X * sg + E) + fr) / F = X * sg + E := by
    rw [Nat.mul_add_div hF, Nat.div_eq_of_lt hfr, Nat.add_zero]
  rw [hb]
  refine ⟨?_, ?_, ?_⟩
  · rw [Nat.mul_add_mod, Nat.mod_eq_of_lt hfr]
  · rw [hdiv, Nat.mul_add_mod, Nat.mod_eq_of_lt hE]
  · rw [← Nat.div_div_eq_div_mul, hdiv, Nat.mul_add_div hX, Nat.div_eq_of_lt hE, Nat.add_zero]

theorem sign_decode (s : Bool) : ((if s = true then 1 else 0) % 2 == 1) = s := by
  cases s <;> rfl

theorem sign_bit_eq (W : Nat) (s : Bool) :
    (if s = true then W else 0) = (if s = true then 1 else 0) * W := by
  cases s <;> simp

/-- decoding a pattern given by its sign, exponent field and fraction field -/
theorem ofBits_fields (hp : 1 ≤ f.p) (hw : f.p < f.w) (s : Bool) (E fr : Nat)
    (hfr : fr < 2 ^ (f.p - 1)) (hE : E < 2 ^ (f.w - f.p)) :
    ofBits f ((if s = true then 2 ^ (f.w - 1) else 0) + E * 2 ^ (f.p - 1) + fr) =
      if (E == 2 ^ (f.w - f.p) - 1) = true then (if (fr == 0) = true then inf s else nan)
      else if (E == 0) = true then fin s fr f.emin
      else fin s (fr + 2 ^ (f.p - 1)) (f.emin + (E : Int) - 1) := by
  have hW : 2 ^ (f.p - 1) * 2 ^ (f.w - f.p) = 2 ^ (f.w - 1) := by
    rw [← Nat.pow_add]; congr 1; omega
  obtain ⟨h1, h2, h3⟩ := fields (2 ^ (f.p - 1)) (2 ^ (f.w - f.p)) (if s = true then 1 else 0) E fr hfr hE
  rw [hW, ← sign_bit_eq] at h1 h2 h3
  unfold ofBits
  simp only []
  rw [h1, h2, h3, sign_decode]

theorem two_le_expField (hw : f.p < f.w) : 2 ≤ 2 ^ (f.w - f.p) := by
  have : 2 ^ 1 ≤ 2 ^ (f.w - f.p) := Nat.pow_le_pow_right (by decide) (by omega)
  omega

theorem ofBits_toBits_nan (hp2 : 2 ≤ f.p) (hw : f.p < f.w) : ofBits f (toBits f nan) = nan := by
  have hX := two_le_expField hw
  have hq0 : 0 < 2 ^ (f.p - 2) := Nat.two_pow_pos _
  have hq : 2 ^ (f.p - 2) < 2 ^ (f.p - 1) := Nat.pow_lt_pow_right (by decide) (by omega)
  have h := ofBits_fields (f := f) (by omega) hw false (2 ^ (f.w - f.p) - 1) (2 ^ (f.p - 2)) hq
    (by omega)
  have h0 : ¬ ((2 ^ (f.p - 2) == 0) = true) := by
    simp only [beq_iff_eq]; omega
  rw [if_neg (by decide : ¬ (false = true)), Nat.zero_add, if_pos (beq_self_eq_true _),
    if_neg h0] at h
  exact h

theorem ofBits_toBits_inf (hp : 1 ≤ f.p) (hw : f.p < f.w) (s : Bool) :
    ofBits f (toBits f (inf s)) = inf s := by
  have hX := two_le_expField hw
  have h := ofBits_fields (f := f) hp hw s (2 ^ (f.w - f.p) - 1) 0 (Nat.two_pow_pos _) (by omega)
  rw [Nat.add_zero, if_pos (beq_self_eq_true (2 ^ (f.w - f.p) - 1)),
    if_pos (beq_self_eq_true 0)] at h
  exact h

theorem ofBits_toBits_subnormal (hp : 1 ≤ f.p) (hw : f.p < f.w) (s : Bool) (m : Nat)
    (hm : m < 2 ^ (f.p - 1)) : ofBits f (toBits f (fin s m f.emin)) = fin s m f.emin := by
  have hX := two_le_expField hw
  have h := ofBits_fields (f := f) hp hw s 0 m hm (by omega)
  have h0 : ¬ ((0 == 2 ^ (f.w - f.p) - 1) = true) := by
    simp only [beq_iff_eq]; omega
  rw [Nat.zero_mul, Nat.add_zero, if_neg h0, if_pos (beq_self_eq_true 0)] at h
  show ofBits f (if m < 2 ^ (f.p - 1) then (if s = true then 2 ^ (f.w - 1) else 0) + m else _) = _
  rw [if_pos hm]
  exact h

theorem ofBits_toBits_normal (hp : 1 ≤ f.p) (hw : f.p < f.w)
    (hexp : f.emax = f.emin + ((2 ^ (f.w - f.p) : Nat) : Int) - 3) (s : Bool) (m : Nat) (e : Int)
    (hm1 : 2 ^ (f.p - 1) ≤ m) (hm2 : m < 2 ^ f.p) (he1 : f.emin ≤ e) (he2 : e ≤ f.emax) :
    ofBits f (toBits f (fin s m e)) = fin s m e := by
  have h2p := two_pow_pred_add f.p hp
  have hE : ∃ E : Nat, (e - f.emin + 1).toNat = E ∧ (E : Int) = e - f.emin + 1 :=
    ⟨(e - f.emin + 1).toNat, rfl, by omega⟩
  obtain ⟨E, hE1, hE2⟩ := hE
  have h := ofBits_fields (f := f) hp hw s E (m - 2 ^ (f.p - 1)) (by omega) (by omega)
  have h1 : ¬ ((E == 2 ^ (f.w - f.p) - 1) = true) := by
    simp only [beq_iff_eq]; omega
  have h0 : ¬ ((E == 0) = true) := by
    simp only [beq_iff_eq]; omega
  rw [if_neg h1, if_neg h0, Nat.sub_add_cancel hm1] at h
  have he : f.emin + (E : Int) - 1 = e := by omega
  rw [he] at h
  show ofBits f (if m < 2 ^ (f.p - 1) then _ else
    (if s = true then 2 ^ (f.w - 1) else 0) + (e - f.emin + 1).toNat * 2 ^ (f.p - 1)
      + (m - 2 ^ (f.p - 1))) = _
  rw [if_neg (by omega), hE1]
  exact h

/-- 3. `ofBits ∘ toBits` is the identity on canonical values.  `2 ≤ p` is needed for the NaN
    pattern (fraction `2^(p-2)`, which must be a nonzero fraction below `2^(p-1)`). -/
theorem ofBits_toBits (hp2 : 2 ≤ f.p) (hw : f.p < f.w)
    (hexp : f.emax = f.emin + ((2 ^ (f.w - f.p) : Nat) : Int) - 3) {x : Fl}
    (hx : Canonical f x) : ofBits f (toBits f x) = x := by
  cases x with
  | nan => exact ofBits_toBits_nan hp2 hw
  | inf s => exact ofBits_toBits_inf (by omega) hw s
  | fin s m e =>
    rcases (canonical_fin_iff s m e).mp hx with ⟨h1, h2, h3, h4⟩ | ⟨h1, h2⟩
    · exact ofBits_toBits_normal (by omega) hw hexp s m e h1 h2 h3 h4
    · subst h2; exact ofBits_toBits_subnormal (by omega) hw s m h1

theorem ofBits_toBits_b64 {x : Fl} (hx : Canonical b64 x) : ofBits b64 (toBits b64 x) = x :=
  ofBits_toBits (f := b64) (by decide) (by decide) b64_exp hx

theorem ofBits_toBits_b32 {x : Fl} (hx : Canonical b32 x) : ofBits b32 (toBits b32 x) = x :=
  ofBits_toBits (f := b32) (by decide) (by decide) b32_exp hx

end Fl

/-! ### 4. text round trip on canonical values -/

/-- 4. printing a canonical value as hexadecimal interchange text and parsing it gives it back -/
theorem flOf?_flHex_canonical {f : Fmt} (hp2 : 2 ≤ f.p) (hw : f.p < f.w)
    (hexp : f.emax = f.emin + ((2 ^ (f.w - f.p) : Nat) : Int) - 3) {x : Fl}
    (hx : Fl.Canonical f x) : flOf? f (flHex f x) = some x := by
  rw [flOf?_flHex, Fl.ofBits_toBits hp2 hw hexp hx]

theorem flOf?_flHex_b64 {x : Fl} (hx : Fl.Canonical b64 x) : flOf? b64 (flHex b64 x) = some x :=
  flOf?_flHex_canonical (f := b64) (by decide) (by decide) b64_exp hx

theorem flOf?_flHex_b32 {x : Fl} (hx : Fl.Canonical b32 x) : flOf? b32 (flHex b32 x) = some x :=
  flOf?_flHex_canonical (f := b32) (by decide) (by decide) b32_exp hx

end Uom

