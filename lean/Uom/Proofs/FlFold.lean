import Uom.Model.Conv
import Uom.Proofs.FlConvIdentity
import Uom.Proofs.FlCanonical
/-!
# The conversion kernel over floats, folded to the expressions the compiler emits

For units without a constant term the `+ (−0.0)` / `− (+0.0)` of `to_base` / `from_base` vanish
bit-exactly, leaving a single multiplication or division by the (constant-folded) ratio.
Core Lean only.
-/
namespace Uom
namespace Fl

variable {f : Fmt}

/-! ### definitional unfoldings of the kernel over `flS f` -/

theorem toBase_fl_unfold (coef c fac v : Fl) :
    toBase (flS f) coef c fac v =
      if Fl.ge coef fac = true then mul f (add f v c) (div f coef fac)
      else div f (mul f (add f v c) coef) fac := rfl

theorem fromBase_fl_unfold (coef c fac v : Fl) :
    fromBase (flS f) coef c fac v =
      if Fl.lt coef fac = true then sub f (mul f v (div f fac coef)) c
      else sub f (div f v (div f coef fac)) c := rfl

theorem changeBase_fl_unfold (l r v : Fl) :
    changeBase (flS f) l r v =
      if Fl.ge r l = true then mul f v (div f r l) else div f v (div f l r) := rfl

/-! ### 6–7. `to_base`, no constant term -/

/-- 6. `coef ≥ fac`: `(v + (−0)) * (coef / fac) = v * (coef / fac)` -/
theorem toBase_fold_ge (hf : f.WF) (v coef fac : Fl) (hv : Canonical f v)
    (hge : Fl.ge coef fac = true) :
    toBase (flS f) coef (zero f true) fac v = mul f v (div f coef fac) := by
  rw [toBase_fl_unfold, if_pos hge, add_negzero hf v hv]

/-- 7. `coef < fac` (or unordered): `((v + (−0)) * coef) / fac = (v * coef) / fac` -/
theorem toBase_fold_lt (hf : f.WF) (v coef fac : Fl) (hv : Canonical f v)
    (hlt : Fl.ge coef fac = false) :
    toBase (flS f) coef (zero f true) fac v = div f (mul f v coef) fac := by
  rw [toBase_fl_unfold, hlt, if_neg (by decide), add_negzero hf v hv]

/-- 7'. … and with base factor `1.0` the division vanishes too -/
theorem toBase_fold_lt_one (hf : f.WF) (v coef : Fl) (hv : Canonical f v)
    (hlt : Fl.ge coef (one f) = false) :
    toBase (flS f) coef (zero f true) (one f) v = mul f v coef := by
  rw [toBase_fold_lt hf v coef (one f) hv hlt, div_one hf _ (mul_canonical hf v coef)]

/-! ### 8. `from_base`, no constant term -/

/-- 8a. `coef < fac`: `v * (fac / coef) − (+0) = v * (fac / coef)` (no hypothesis on `v`) -/
theorem fromBase_fold_lt (hf : f.WF) (v coef fac : Fl) (hlt : Fl.lt coef fac = true) :
    fromBase (flS f) coef (zero f false) fac v = mul f v (div f fac coef) := by
  rw [fromBase_fl_unfold, if_pos hlt, sub_poszero hf _ (mul_canonical hf _ _)]

/-- 8b. `coef ≥ fac` (or unordered): `v / (coef / fac) − (+0) = v / (coef / fac)` -/
theorem fromBase_fold_ge (hf : f.WF) (v coef fac : Fl) (hge : Fl.lt coef fac = false) :
    fromBase (flS f) coef (zero f false) fac v = div f v (div f coef fac) := by
  rw [fromBase_fl_unfold, hge, if_neg (by decide), sub_poszero hf _ (div_canonical hf _ _)]

/-! ### 9. `change_base` -/

theorem changeBase_fold_ge (v l r : Fl) (hge : Fl.ge r l = true) :
    changeBase (flS f) l r v = mul f v (div f r l) := by
  rw [changeBase_fl_unfold, if_pos hge]

theorem changeBase_fold_lt (v l r : Fl) (hlt : Fl.ge r l = false) :
    changeBase (flS f) l r v = div f v (div f l r) := by
  rw [changeBase_fl_unfold, hlt, if_neg (by decide)]

/-! ### 10. affine units (constant term `c`) -/

theorem toBase_affine_ge (v coef c fac : Fl) (hge : Fl.ge coef fac = true) :
    toBase (flS f) coef c fac v = mul f (add f v c) (div f coef fac) := by
  rw [toBase_fl_unfold, if_pos hge]

theorem toBase_affine_lt (v coef c fac : Fl) (hlt : Fl.ge coef fac = false) :
    toBase (flS f) coef c fac v = div f (mul f (add f v c) coef) fac := by
  rw [toBase_fl_unfold, hlt, if_neg (by decide)]

theorem fromBase_affine_lt (v coef c fac : Fl) (hlt : Fl.lt coef fac = true) :
    fromBase (flS f) coef c fac v = sub f (mul f v (div f fac coef)) c := by
  rw [fromBase_fl_unfold, if_pos hlt]

theorem fromBase_affine_ge (v coef c fac : Fl) (hge : Fl.lt coef fac = false) :
    fromBase (flS f) coef c fac v = sub f (div f v (div f coef fac)) c := by
  rw [fromBase_fl_unfold, hge, if_neg (by decide)]

/-- 10. `coef = fac = k` finite nonzero (e.g. degree Celsius over kelvin): `to_base` is `v + c`,
    bit-exact, for every `v` and `c` -/
theorem toBase_affine_self (hf : f.WF) (v c : Fl) (s : Bool) (m : Nat) (e : Int) (hm : m ≠ 0) :
    toBase (flS f) (fin s m e) c (fin s m e) v = add f v c := by
  rw [toBase_affine_ge v _ c _ (ge_self_fin s m e), div_self hf s m e hm,
    mul_one hf _ (add_canonical hf v c)]

/-- 10'. `coef = fac = k` finite nonzero: `from_base` is `v − c`, for canonical `v` -/
theorem fromBase_affine_self (hf : f.WF) (v c : Fl) (hv : Canonical f v) (s : Bool) (m : Nat)
    (e : Int) (hm : m ≠ 0) :
    fromBase (flS f) (fin s m e) c (fin s m e) v = sub f v c := by
  rw [fromBase_affine_ge v _ c _ (lt_self_fin s m e), div_self hf s m e hm, div_one hf v hv]

theorem toBase_affine_self' (hf : f.WF) (v c k : Fl)
    (hfin : k.isFinite = true) (hnz : k.isZero = false) :
    toBase (flS f) k c k v = add f v c := by
  obtain ⟨s, m, e, rfl, hm⟩ := exists_fin_of_finite_nonzero k hfin hnz
  exact toBase_affine_self hf v c s m e hm

theorem fromBase_affine_self' (hf : f.WF) (v c k : Fl) (hv : Canonical f v)
    (hfin : k.isFinite = true) (hnz : k.isZero = false) :
    fromBase (flS f) k c k v = sub f v c := by
  obtain ⟨s, m, e, rfl, hm⟩ := exists_fin_of_finite_nonzero k hfin hnz
  exact fromBase_affine_self hf v c hv s m e hm

/-- the kernel preserves canonical form: whatever the unit, `to_base` / `from_base` /
    `change_base` return canonical values -/
theorem toBase_canonical (hf : f.WF) (v coef c fac : Fl) :
    Canonical f (toBase (flS f) coef c fac v) := by
  rw [toBase_fl_unfold]
  by_cases h : Fl.ge coef fac = true
  · rw [if_pos h]; exact mul_canonical hf _ _
  · rw [if_neg h]; exact div_canonical hf _ _

theorem fromBase_canonical (hf : f.WF) (v coef c fac : Fl) :
    Canonical f (fromBase (flS f) coef c fac v) := by
  rw [fromBase_fl_unfold]
  by_cases h : Fl.lt coef fac = true
  · rw [if_pos h]; exact sub_canonical hf _ _
  · rw [if_neg h]; exact sub_canonical hf _ _

theorem changeBase_canonical (hf : f.WF) (v l r : Fl) :
    Canonical f (changeBase (flS f) l r v) := by
  rw [changeBase_fl_unfold]
  by_cases h : Fl.ge r l = true
  · rw [if_pos h]; exact mul_canonical hf _ _
  · rw [if_neg h]; exact div_canonical hf _ _

end Fl
end Uom

#print axioms Uom.Fl.toBase_fold_ge
#print axioms Uom.Fl.toBase_fold_lt
#print axioms Uom.Fl.toBase_fold_lt_one
#print axioms Uom.Fl.fromBase_fold_lt
#print axioms Uom.Fl.fromBase_fold_ge
#print axioms Uom.Fl.changeBase_fold_ge
#print axioms Uom.Fl.changeBase_fold_lt
#print axioms Uom.Fl.toBase_affine_self
#print axioms Uom.Fl.fromBase_affine_self
#print axioms Uom.Fl.toBase_canonical
#print axioms Uom.Fl.fromBase_canonical
#print axioms Uom.Fl.changeBase_canonical
