import Uom.Proofs.OracleSound
import Uom.Proofs.HexRoundTrip
import Uom.Model.OpsOracle
/-!
# Operator-oracle soundness: the model's own result is never rejected by `oracleBinFl` / `oracleFromFl`

`Uom.oracleBinFl` (Uom/Model/OpsOracle.lean) is evaluated by the differential-testing driver on the
*implementation's* printed result.  Here it is evaluated on the *model's* printed result
(`Tri.showRes (flTy name f) (binOpOn (flTy name f) form l r a b)`) and shown never to answer `fail`,
for every binary form, unconditionally (`oracleBinFl_sound`, `oracleBinFl_sound_raw`;
`oracleFromFl_sound` for the kind conversions).

History (section I).  An earlier version of the oracle excused a non-finite observation only if
`|exact| ≥ MAX`, `exact` being the *exact* physical result, whereas the floating-point operation
overflows when the result computed from the *rounded* re-based operand reaches `MAX + ulp/2`.  That
version (`oracleBinFlOld`, kept here verbatim) could reject the model: section I has kernel-checked
binary32 witnesses (canonical operands, every guard satisfied) for each of `+ − × ÷` on which the
model answers `±inf` and the old oracle answers `fail "non-finite result"`.  The escape now reads
`|exact| + tol ≥ MAX`; section D proves that whenever the model's final operation overflows the exact
result is within `tol` of `MAX`, and `oracleBinFl_fail_imp_old` shows that the repair loses no other
rejection.

As in `OracleSound`, the executable guard `changeBaseNormal` tests that the *rounded* intermediate
results are normal, which does not imply the `nmin` bounds on the exact intermediates of
`ChangeBaseOk`; the accuracy theorems are therefore re-proved under the result-based `ChangeBaseOkR`.
-/

namespace Uom.Proofs
open Uom Uom.Fl

variable {f : Fmt}

/-! ## A. the executable guard and the result-based side conditions of `change_base` -/

/-- `changeBaseNormal`, spelled out over `Fl` -/
theorem changeBaseNormal_eq (f : Fmt) (l r b : Fl) :
    changeBaseNormal f l r b =
      if Fl.ge r l = true then
        (Fl.isNormal f (Fl.div f r l) &&
          okMul f b (Fl.div f r l) (Fl.mul f b (Fl.div f r l)))
      else
        (Fl.isNormal f (Fl.div f l r) &&
          (Fl.isNormal f (Fl.div f b (Fl.div f l r)) ||
            ((Fl.div f b (Fl.div f l r)).isZero && b.isZero))) := rfl

/-- result-based side conditions of `changeBase (flS f) l r v`: what `changeBaseNormal` actually
    checks.  Differences from `ChangeBaseOk`: the `nmin` bounds are on the *computed* quotient /
    product, and the second operation is only constrained when `v` is non-zero. -/
structure ChangeBaseOkR (f : Fmt) (l r v : Fl) : Prop where
  hv : v.isFinite = true
  hl : l.isFinite = true
  hr : r.isFinite = true
  quot₁ : Fl.ge r l = true →
    (Fl.div f r l).isFinite = true ∧ nmin f ≤ |(Fl.div f r l).toRat|
  prod₁ : Fl.ge r l = true → v.isZero = false →
    (Fl.mul f v (Fl.div f r l)).isFinite = true ∧ nmin f ≤ |(Fl.mul f v (Fl.div f r l)).toRat|
  quot₂ : ¬ Fl.ge r l = true →
    (Fl.div f l r).isFinite = true ∧ nmin f ≤ |(Fl.div f l r).toRat|
  div₂ : ¬ Fl.ge r l = true → v.isZero = false →
    (Fl.div f v (Fl.div f l r)).isFinite = true ∧ nmin f ≤ |(Fl.div f v (Fl.div f l r)).toRat|

/-- **guard link, `change_base`**: the executable guard implies the result-based side conditions -/
theorem changeBaseOkR_of_guard (hf : f.WF) {l r b : Fl}
    (hb : b.isFinite = true) (hl : l.isFinite = true) (hr : r.isFinite = true)
    (hg : changeBaseNormal f l r b = true) : ChangeBaseOkR f l r b := by
  rw [changeBaseNormal_eq] at hg
  have hdivc := fun x y => Fl.div_canonical hf x y
  have hmulc := fun x y => Fl.mul_canonical hf x y
  by_cases hge : Fl.ge r l = true
  · rw [if_pos hge] at hg
    simp only [Bool.and_eq_true, okMul, Bool.or_eq_true] at hg
    obtain ⟨hk, ht⟩ := hg
    refine ⟨hb, hl, hr, fun _ => normal_pair hf (hdivc _ _) hk, fun _ hz => ?_,
      fun h => absurd hge h, fun h => absurd hge h⟩
    rcases ht with ht | ⟨-, ht | ht⟩
    · exact normal_pair hf (hmulc _ _) ht
    · rw [hz] at ht; exact absurd ht (by decide)
    · rw [isNormal_not_isZero hk] at ht; exact absurd ht (by decide)
  · rw [if_neg hge] at hg
    simp only [Bool.and_eq_true, Bool.or_eq_true] at hg
    obtain ⟨hk, ht⟩ := hg
    refine ⟨hb, hl, hr, fun h => absurd h hge, fun h => absurd h hge,
      fun _ => normal_pair hf (hdivc _ _) hk, fun _ hz => ?_⟩
    rcases ht with ht | ⟨-, ht⟩
    · exact normal_pair hf (hdivc _ _) ht
    · rw [hz] at ht; exact absurd ht (by decide)

/-- **`change_base` on floats under the guard's own conditions: two roundings**, and the result is
    finite with exponent `≥ emin` -/
theorem changeBase_flS_approx_R (hp : 1 ≤ f.p) {l r v : Fl} (H : ChangeBaseOkR f l r v) :
    Approx (uro f) 2 (Fl.toRat (changeBase (flS f) l r v)) (v.toRat * r.toRat / l.toRat) ∧
    Ok f (changeBase (flS f) l r v) := by
  have hu0 := uro_nonneg f
  have hu1 := uro_lt_one f hp
  rw [changeBase_flS]
  by_cases hz : v.isZero = true
  · rw [toRat_of_isZero hz, zero_mul, zero_div]
    split
    next h =>
      obtain ⟨s, hs⟩ := mul_of_isZero_left (f := f) hz (H.quot₁ h).1
      rw [hs, toRat_zero]; exact ⟨approx_zero hu0 hu1 2, ok_zero f s⟩
    next h =>
      obtain ⟨s, hs⟩ := div_of_isZero_left (f := f) hz (H.quot₂ h).1
        (not_isZero_of_nmin_le (H.quot₂ h).2)
      rw [hs, toRat_zero]; exact ⟨approx_zero hu0 hu1 2, ok_zero f s⟩
  · have hz' : v.isZero = false := by simpa using hz
    split
    next h =>
      obtain ⟨hq, -⟩ := div_approx_normal hp H.hr H.hl (H.quot₁ h).1 (H.quot₁ h).2
      obtain ⟨hm, hmok⟩ := mul_approx_normal hp H.hv (H.quot₁ h).1 (H.prod₁ h hz').1 (H.prod₁ h hz').2
      refine ⟨?_, hmok⟩
      have := Approx.trans hu1 hm (Approx.mul hu0 hu1 (Approx.refl _) hq)
      rwa [← mul_div_assoc] at this
    next h =>
      obtain ⟨hq, -⟩ := div_approx_normal hp H.hl H.hr (H.quot₂ h).1 (H.quot₂ h).2
      obtain ⟨hd, hdok⟩ := div_approx_normal hp H.hv (H.quot₂ h).1 (H.div₂ h hz').1 (H.div₂ h hz').2
      refine ⟨?_, hdok⟩
      have := Approx.trans hu1 hd (Approx.div hu0 hu1 (Approx.refl _) hq)
      rwa [div_div_eq_mul_div] at this

/-- `change_base` alone under the guard's conditions: within `3u` (the C15 oracle's tolerance) -/
theorem changeBase_flS_abs_le_R (h4 : 4 ≤ f.p) {l r b : Fl} (H : ChangeBaseOkR f l r b) :
    |Fl.toRat (changeBase (flS f) l r b) - b.toRat * r.toRat / l.toRat| ≤
      3 * uro f * |b.toRat * r.toRat / l.toRat| := by
  have hp : 1 ≤ f.p := by omega
  have hu0 := uro_nonneg f
  have hu := uro_le_sixteenth h4
  have h := Approx.abs_sub_le' hu0 (uro_lt_one f hp) (changeBase_flS_approx_R hp H).1
  have h3 := rho2_le hu0 (by linarith : uro f ≤ 1 / 5)
  calc _ ≤ ((1 - uro f) ^ (-((2 : ℕ) : ℤ)) - 1) * |b.toRat * r.toRat / l.toRat| := h
    _ ≤ 3 * uro f * |b.toRat * r.toRat / l.toRat| :=
        mul_le_mul_of_nonneg_right (by simpa using h3) (abs_nonneg _)

/-! ## B. `oracleBinFl` restated: two guards, then one check per operator -/

/-- largest finite number `(2^p − 1)·2^emax` -/
def maxFin (f : Fmt) : Rat := Fl.toRat (Fl.fin false (2 ^ f.p - 1) f.emax)

/-- the inner `val` check of `oracleBinFl`, on the parsed observation -/
def valCheck (f : Fmt) (exact tol : Rat) (needNormal : Bool) (o : Option Fl) : Verdict :=
  match o with
  | none => .fail "result is not a value"
  | some o =>
    if !o.isFinite then
      (if ratAbs exact + tol ≥ maxFin f then .guard "overflow/underflow" else .fail "non-finite result")
    else if needNormal && !(Fl.isNormal f o || (o.isZero && exact = 0)) then .guard "overflow/underflow"
    else if ratAbs (o.toRat - exact) ≤ tol then .pass
    else .fail "result is more than a few u away from the exact physical result"

/-- the inner `cmpv` check of `oracleBinFl` -/
def cmpCheck (f : Fmt) (same : Bool) (A B : Rat) (expect : Int → Bool) (obs : String) : Verdict :=
  if !same && ratAbs (A - B) ≤ 4 * Uom.uro f * ratMax (ratAbs A) (ratAbs B) then .guard "magnitudes within 4u"
  else
    let c : Int := if A < B then -1 else if A = B then 0 else 1
    let e := if expect c then "1" else "0"
    if obs == e then .pass else .fail "comparison disagrees with the order of the physical magnitudes"

def pcmpCheck (f : Fmt) (same : Bool) (A B : Rat) (obs : String) : Verdict :=
  if !same && ratAbs (A - B) ≤ 4 * Uom.uro f * ratMax (ratAbs A) (ratAbs B) then .guard "magnitudes within 4u"
  else
    let c : Int := if A < B then -1 else if A = B then 0 else 1
    if parseOrd? obs == some (some c) then .pass else .fail "partial_cmp disagrees with the order of the physical magnitudes"

/-- `oracleBinFl` past its two guards -/
def binCore (f : Fmt) (op : RawBin) (l r a b : Fl) (obs : String) : Verdict :=
  let u := Uom.uro f
  let A := a.toRat
  let B := b.toRat * r.toRat / l.toRat
  let same := Fl.cmp l r == some 0
  match op with
  | .add => valCheck f (A + B) (u * (3 * ratAbs B + 2 * ratAbs (A + B))) false (flOf? f obs)
  | .sub => valCheck f (A - B) (u * (3 * ratAbs B + 2 * ratAbs (A - B))) false (flOf? f obs)
  | .mul => valCheck f (A * B) (4 * u * ratAbs (A * B)) true (flOf? f obs)
  | .div => if B = 0 then .guard "division by zero" else valCheck f (A / B) (4 * u * ratAbs (A / B)) true (flOf? f obs)
  | .rem => .guard "remainder is discontinuous"
  | .eq => cmpCheck f same A B (· == 0) obs
  | .ne => cmpCheck f same A B (· != 0) obs
  | .lt => cmpCheck f same A B (· == -1) obs
  | .le => cmpCheck f same A B (· != 1) obs
  | .gt => cmpCheck f same A B (· == 1) obs
  | .ge => cmpCheck f same A B (· != -1) obs
  | .pcmp => pcmpCheck f same A B obs

theorem oracleBinFl_eq (f : Fmt) (op : RawBin) (l r a b : Fl) (obs : String) :
    oracleBinFl f op l r a b obs =
      if (!(a.isFinite && b.isFinite && l.isFinite && r.isFinite) || l.isZero || r.isZero) = true then
        .guard "non-finite"
      else if (!(changeBaseNormal f l r b)) = true then .guard "overflow/underflow"
      else binCore f op l r a b obs := by
  cases op <;> rfl

/-! ## C. value forms under the guard's conditions -/

/-- `a ⊕ ŷ`, `ŷ` a two-rounding approximation of `y`: `|(a ⊕ ŷ) − (A + y)| ≤ u·(3|y| + |A + y|)` -/
theorem add_abs_le_of_approx2 (h4 : 4 ≤ f.p) {a yf : Fl} {y : Rat}
    (hs : Approx (uro f) 2 yf.toRat y) (hyok : Ok f yf) (ha : Ok f a)
    (hfin : (Fl.add f a yf).isFinite = true) :
    |(Fl.add f a yf).toRat - (a.toRat + y)| ≤ uro f * (3 * |y| + |a.toRat + y|) := by
  have hp : 1 ≤ f.p := by omega
  have hu0 := uro_nonneg f
  have hu1 := uro_lt_one f hp
  have hu := uro_le_sixteenth h4
  obtain ⟨⟨δ, hδ, hδu⟩, -⟩ := add_rel_ok hp ha hyok hfin
  have hB : |yf.toRat - y| ≤ ((1 - uro f) ^ (-(2 : ℤ)) - 1) * |y| := by
    simpa using Approx.abs_sub_le' hu0 hu1 hs
  have h := abs_add_round_le (A := a.toRat) hu0 hδu hB
  rw [← hδ] at h
  have h3 := rho2_mul_le hu0 (by linarith : uro f ≤ 1 / 7)
  have hB' : ((1 - uro f) ^ (-(2 : ℤ)) - 1) * |y| * (1 + uro f) ≤ 3 * uro f * |y| := by
    calc _ = ((1 - uro f) ^ (-(2 : ℤ)) - 1) * (1 + uro f) * |y| := by ring
      _ ≤ _ := mul_le_mul_of_nonneg_right h3 (abs_nonneg _)
  calc _ ≤ _ := h
    _ ≤ 3 * uro f * |y| + uro f * |a.toRat + y| := by linarith
    _ = _ := by ring

theorem Approx.neg' {u : Rat} {k : ℕ} {a' a : Rat} (h : Approx u k a' a) : Approx u k (-a') (-a) := by
  obtain ⟨θ, rfl, h1, h2⟩ := h
  exact ⟨θ, by ring, h1, h2⟩

/-- `a ⊖ ŷ`: `|(a ⊖ ŷ) − (A − y)| ≤ u·(3|y| + |A − y|)` -/
theorem sub_abs_le_of_approx2 (h4 : 4 ≤ f.p) {a yf : Fl} {y : Rat}
    (hs : Approx (uro f) 2 yf.toRat y) (hyok : Ok f yf) (ha : Ok f a)
    (hfin : (Fl.sub f a yf).isFinite = true) :
    |(Fl.sub f a yf).toRat - (a.toRat - y)| ≤ uro f * (3 * |y| + |a.toRat - y|) := by
  have hs' : Approx (uro f) 2 (Fl.neg yf).toRat (-y) := by rw [toRat_neg]; exact hs.neg'
  have := add_abs_le_of_approx2 h4 hs' (ok_neg hyok) ha hfin
  rwa [abs_neg, ← sub_eq_add_neg] at this

/-- `a + change_base(b)` under the guard's conditions: within `u·(3|B| + |A+B|)` -/
theorem add_mixed_abs_le_R (h4 : 4 ≤ f.p) {l r a b : Fl} (H : ChangeBaseOkR f l r b) (ha : Ok f a)
    (hfin : (Fl.add f a (changeBase (flS f) l r b)).isFinite = true) :
    |(Fl.add f a (changeBase (flS f) l r b)).toRat - (a.toRat + b.toRat * r.toRat / l.toRat)| ≤
      uro f * (3 * |b.toRat * r.toRat / l.toRat| + |a.toRat + b.toRat * r.toRat / l.toRat|) := by
  obtain ⟨hs, hok⟩ := changeBase_flS_approx_R (by omega) H
  exact add_abs_le_of_approx2 h4 hs hok ha hfin

/-- `a - change_base(b)` under the guard's conditions: within `u·(3|B| + |A−B|)` -/
theorem sub_mixed_abs_le_R (h4 : 4 ≤ f.p) {l r a b : Fl} (H : ChangeBaseOkR f l r b) (ha : Ok f a)
    (hfin : (Fl.sub f a (changeBase (flS f) l r b)).isFinite = true) :
    |(Fl.sub f a (changeBase (flS f) l r b)).toRat - (a.toRat - b.toRat * r.toRat / l.toRat)| ≤
      uro f * (3 * |b.toRat * r.toRat / l.toRat| + |a.toRat - b.toRat * r.toRat / l.toRat|) := by
  obtain ⟨hs, hok⟩ := changeBase_flS_approx_R (by omega) H
  exact sub_abs_le_of_approx2 h4 hs hok ha hfin

/-- `a * change_base(b)` whose *result* is normal: within `4u·|A·B|` -/
theorem mul_mixed_abs_le_R (h4 : 4 ≤ f.p) {l r a b : Fl} (H : ChangeBaseOkR f l r b)
    (ha : a.isFinite = true)
    (hfin : (Fl.mul f a (changeBase (flS f) l r b)).isFinite = true)
    (hN : nmin f ≤ |(Fl.mul f a (changeBase (flS f) l r b)).toRat|) :
    |(Fl.mul f a (changeBase (flS f) l r b)).toRat - a.toRat * (b.toRat * r.toRat / l.toRat)| ≤
      4 * uro f * |a.toRat * (b.toRat * r.toRat / l.toRat)| := by
  have hp : 1 ≤ f.p := by omega
  have hu0 := uro_nonneg f
  have hu1 := uro_lt_one f hp
  obtain ⟨hs, hok⟩ := changeBase_flS_approx_R hp H
  obtain ⟨hm, -⟩ := mul_approx_normal hp ha hok.isFinite hfin hN
  exact approx3_abs_le h4 (Approx.trans hu1 hm (Approx.mul hu0 hu1 (Approx.refl _) hs))

/-- `a / change_base(b)` whose *result* is normal: within `4u·|A/B|` -/
theorem div_mixed_abs_le_R (h4 : 4 ≤ f.p) {l r a b : Fl} (H : ChangeBaseOkR f l r b)
    (ha : a.isFinite = true)
    (hfin : (Fl.div f a (changeBase (flS f) l r b)).isFinite = true)
    (hN : nmin f ≤ |(Fl.div f a (changeBase (flS f) l r b)).toRat|) :
    |(Fl.div f a (changeBase (flS f) l r b)).toRat - a.toRat / (b.toRat * r.toRat / l.toRat)| ≤
      4 * uro f * |a.toRat / (b.toRat * r.toRat / l.toRat)| := by
  have hp : 1 ≤ f.p := by omega
  have hu0 := uro_nonneg f
  have hu1 := uro_lt_one f hp
  obtain ⟨hs, hok⟩ := changeBase_flS_approx_R hp H
  obtain ⟨hm, -⟩ := div_approx_normal hp ha hok.isFinite hfin hN
  exact approx3_abs_le h4 (Approx.trans hu1 hm (Approx.div hu0 hu1 (Approx.refl _) hs))


/-! ## D. when does the final operation overflow?  (why the escape `|exact| + tol ≥ MAX` is sound) -/

/-- overflow threshold `MAX + ulp/2 = (2^p − 1/2)·2^emax`, doubled -/
def thr2 (f : Fmt) : Rat := ((2 : Rat) ^ (f.p + 1) - 1) * (2 : Rat) ^ f.emax

theorem maxFin_eq (f : Fmt) : maxFin f = ((2 : Rat) ^ f.p - 1) * (2 : Rat) ^ f.emax := by
  unfold maxFin
  rw [toRat_fin]
  have h1 : 1 ≤ 2 ^ f.p := Nat.one_le_two_pow
  simp only [sgn, Bool.false_eq_true, if_false, one_mul]
  push_cast [Nat.cast_sub h1]
  ring

theorem two_maxFin_le_thr2 (f : Fmt) : 2 * maxFin f ≤ thr2 f := by
  rw [maxFin_eq, thr2, pow_succ]
  have := (two_zpow_pos f.emax).le
  nlinarith

/-- **`roundDy` overflows only at or above `MAX + ulp/2`** -/
theorem roundDy_overflow (hf : f.WF) (s : Bool) (M : Nat) (E : Int) (hM : 0 < M)
    (h : (roundDy f s M E).isFinite = false) : thr2 f ≤ 2 * (M : Rat) * (2 : Rat) ^ E := by
  have h2 : (2 : Rat) ≠ 0 := by norm_num
  have hE := two_zpow_pos E
  have hL : ((2 : Rat) ^ M.log2) ≤ (M : Rat) := by exact_mod_cast Nat.log2_self_le hM.ne'
  have hmin := hf.hmin
  have hmax := hf.hmax
  have hp := hf.hp
  -- `2^(emax+p) ≤ M·2^E` suffices
  have key : (f.emax : Int) + f.p ≤ (M.log2 : Int) + E → thr2 f ≤ 2 * (M : Rat) * (2 : Rat) ^ E := by
    intro hle
    have h3 : (2 : Rat) ^ ((f.emax : Int) + f.p) ≤ (2 : Rat) ^ ((M.log2 : Int) + E) :=
      zpow_le_zpow_right₀ (by norm_num) hle
    rw [zpow_add₀ h2, zpow_add₀ h2, zpow_natCast, zpow_natCast] at h3
    have h4 : (2 : Rat) ^ M.log2 * (2 : Rat) ^ E ≤ (M : Rat) * (2 : Rat) ^ E :=
      mul_le_mul_of_nonneg_right hL hE.le
    have h5 := two_zpow_pos f.emax
    unfold thr2
    rw [pow_succ]
    nlinarith
  by_cases hsh : max ((M.log2 : Int) + 1 - f.p) (f.emin - E) ≤ 0
  · unfold roundDy at h
    simp only [if_pos hsh] at h
    split at h
    · next hk => exact key (by omega)
    · simp [isFinite] at h
  · have hsh' : 0 < max ((M.log2 : Int) + 1 - f.p) (f.emin - E) := by omega
    rw [roundDy_eq_of_pos f s M E hsh'] at h
    obtain ⟨n, hn⟩ : ∃ n : Nat, (n : Int) = max ((M.log2 : Int) + 1 - f.p) (f.emin - E) :=
      ⟨(max ((M.log2 : Int) + 1 - f.p) (f.emin - E)).toNat, by omega⟩
    rw [← hn] at h
    simp only [Int.toNat_natCast] at h
    split at h
    · next hc =>
      split at h
      · next he =>
        -- `rnd M n = 2^p`, `E + n ≥ emax`
        have hs := (rnd_spec M n).1
        rw [hc] at hs
        have hs' : 2 * ((2 : Rat) ^ f.p * 2 ^ n) ≤ 2 * (M : Rat) + 2 ^ n := by exact_mod_cast hs
        have he' : (2 : Rat) ^ f.emax ≤ (2 : Rat) ^ ((n : Int) + E) :=
          zpow_le_zpow_right₀ (by norm_num) (by omega)
        rw [zpow_add₀ h2, zpow_natCast] at he'
        have hn0 : (0 : Rat) < 2 ^ n := by positivity
        have hpp : (1 : Rat) ≤ 2 ^ f.p := one_le_pow₀ (by norm_num)
        unfold thr2
        rw [pow_succ]
        have h6 : (2 ^ f.p * 2 - 1 : Rat) * (2 ^ n * 2 ^ E) ≤ 2 * (M : Rat) * 2 ^ E := by
          have : (2 ^ f.p * 2 - 1 : Rat) * 2 ^ n ≤ 2 * (M : Rat) := by linarith
          calc (2 ^ f.p * 2 - 1 : Rat) * (2 ^ n * 2 ^ E) = ((2 ^ f.p * 2 - 1 : Rat) * 2 ^ n) * 2 ^ E := by ring
            _ ≤ 2 * (M : Rat) * 2 ^ E := mul_le_mul_of_nonneg_right this hE.le
        have h7 : (2 ^ f.p * 2 - 1 : Rat) * 2 ^ f.emax ≤ (2 ^ f.p * 2 - 1 : Rat) * (2 ^ n * 2 ^ E) :=
          mul_le_mul_of_nonneg_left he' (by linarith)
        linarith
      · simp [isFinite] at h
    · split at h
      · next he => exact key (by omega)
      · simp [isFinite] at h


theorem abs_sgn_mul (s : Bool) (x : Rat) : |sgn s * x| = |x| := by
  rw [abs_mul, abs_sgn, one_mul]

/-- `x * y` overflows only if `|x·y| ≥ MAX + ulp/2` -/
theorem mul_overflow (hf : f.WF) {x y : Fl} (hx : x.isFinite = true) (hy : y.isFinite = true)
    (h : (Fl.mul f x y).isFinite = false) : thr2 f ≤ 2 * |x.toRat * y.toRat| := by
  cases x with
  | nan => simp [Fl.isFinite] at hx
  | inf s => simp [Fl.isFinite] at hx
  | fin s1 m1 e1 =>
    cases y with
    | nan => simp [Fl.isFinite] at hy
    | inf s => simp [Fl.isFinite] at hy
    | fin s2 m2 e2 =>
      have hm : m1 * m2 ≠ 0 := by
        intro h0
        have : Fl.mul f (fin s1 m1 e1) (fin s2 m2 e2) = Fl.zero f (s1 != s2) := by
          simp only [Fl.mul, h0, if_true]
        rw [this] at h; simp [Fl.zero, Fl.isFinite] at h
      have h1 : 0 < m1 := Nat.pos_of_ne_zero (fun h => hm (by rw [h, Nat.zero_mul]))
      have h2 : 0 < m2 := Nat.pos_of_ne_zero (fun h => hm (by rw [h, Nat.mul_zero]))
      rw [mul_fin_eq f s1 s2 m1 m2 e1 e2 h1 h2] at h
      have := roundDy_overflow hf _ _ _ (Nat.mul_pos h1 h2) h
      rw [toRat_mul_toRat, mul_assoc, abs_sgn_mul,
        abs_of_nonneg (mul_nonneg (Nat.cast_nonneg _) (two_zpow_pos _).le)]
      linarith

/-- `x + y` overflows only if `|x + y| ≥ MAX + ulp/2` -/
theorem add_overflow (hf : f.WF) {x y : Fl} (hx : x.isFinite = true) (hy : y.isFinite = true)
    (h : (Fl.add f x y).isFinite = false) : thr2 f ≤ 2 * |x.toRat + y.toRat| := by
  cases x with
  | nan => simp [Fl.isFinite] at hx
  | inf s => simp [Fl.isFinite] at hx
  | fin s1 m1 e1 =>
    cases y with
    | nan => simp [Fl.isFinite] at hy
    | inf s => simp [Fl.isFinite] at hy
    | fin s2 m2 e2 =>
      rw [add_fin_eq] at h
      rw [toRat_add_toRat]
      generalize sval s1 (m1 * 2 ^ (e1 - min e1 e2).toNat) + sval s2 (m2 * 2 ^ (e2 - min e1 e2).toNat)
        = v at h ⊢
      unfold roundInt at h
      split at h
      · simp [Fl.zero, Fl.isFinite] at h
      · next hv =>
        have := roundDy_overflow hf _ _ _ (Int.natAbs_pos.mpr hv) h
        have e : ((v.natAbs : Nat) : Rat) = |(v : Rat)| := by
          rw [Nat.cast_natAbs, Int.cast_abs]
        rw [abs_mul, abs_of_pos (two_zpow_pos _), ← e]
        linarith

theorem sub_overflow (hf : f.WF) {x y : Fl} (hx : x.isFinite = true) (hy : y.isFinite = true)
    (h : (Fl.sub f x y).isFinite = false) : thr2 f ≤ 2 * |x.toRat - y.toRat| := by
  have hy' : (Fl.neg y).isFinite = true := by cases y <;> simp_all [Fl.neg, Fl.isFinite]
  have := add_overflow hf hx hy' h
  rwa [toRat_neg, ← sub_eq_add_neg] at this


/-- arithmetic of the sticky quotient: `T ≥ M − 1`, `M ≥ 4P`, `(2P−1)Z ≤ 2MY` ⇒ `(P−1)Z ≤ TY` -/
theorem sticky_overflow_arith {P Y Z Mr T : Rat} (hP : 1 ≤ P) (hY : 0 < Y) (hZ : 0 < Z)
    (hM : 4 * P ≤ Mr) (hT : Mr - 1 ≤ T) (h : (2 * P - 1) * Z ≤ 2 * Mr * Y) : (P - 1) * Z ≤ T * Y := by
  have h1 : 0 ≤ (Mr - 4 * P) * Y := mul_nonneg (by linarith) hY.le
  have h2 : (4 * P - 1) * ((2 * P - 1) * Z) ≤ (4 * P - 1) * (2 * Mr * Y) :=
    mul_le_mul_of_nonneg_left h (by linarith)
  have h3 : 0 ≤ P * Z := mul_nonneg (by linarith) hZ.le
  have h4 : 4 * P * ((P - 1) * Z) ≤ 4 * P * ((Mr - 1) * Y) := by nlinarith
  have h5 : (P - 1) * Z ≤ (Mr - 1) * Y := le_of_mul_le_mul_left h4 (by linarith)
  exact le_trans h5 (mul_le_mul_of_nonneg_right hT hY.le)

/-- `x / y` (`y ≠ 0`) overflows only if `|x/y| ≥ MAX` -/
theorem div_overflow (hf : f.WF) {x y : Fl} (hx : x.isFinite = true) (hy : y.isFinite = true)
    (hy0 : y.isZero = false) (h : (Fl.div f x y).isFinite = false) :
    maxFin f ≤ |x.toRat / y.toRat| := by
  cases x with
  | nan => simp [Fl.isFinite] at hx
  | inf s => simp [Fl.isFinite] at hx
  | fin s1 m1 e1 =>
    cases y with
    | nan => simp [Fl.isFinite] at hy
    | inf s => simp [Fl.isFinite] at hy
    | fin s2 m2 e2 =>
      have h2 : 0 < m2 := by
        rcases Nat.eq_zero_or_pos m2 with h0 | h0
        · subst h0; simp [Fl.isZero] at hy0
        · exact h0
      have h1 : 0 < m1 := by
        rcases Nat.eq_zero_or_pos m1 with h0 | h0
        · subst h0
          have : Fl.div f (fin s1 0 e1) (fin s2 m2 e2) = Fl.zero f (s1 != s2) := by
            simp only [Fl.div, h2.ne', if_false, if_true]
          rw [this] at h; simp [Fl.zero, Fl.isFinite] at h
        · exact h0
      obtain ⟨q, st, k, heq, hst, hq⟩ := divDy_spec f.p m1 m2 h1 h2
      rw [div_fin_eq f s1 s2 m1 m2 e1 e2 h1 h2, heq] at h
      simp only at h
      have hq0 : 0 < q := lt_of_lt_of_le (Nat.two_pow_pos _) hq
      have hov := roundDy_overflow hf _ _ _ (by omega : 0 < 2 * q + st) h
      have hm2 : (0 : Rat) < (m2 : Rat) := by exact_mod_cast h2
      rw [toRat_div_toRat s1 s2 m1 m2 e1 e2 k h2, maxFin_eq]
      set T : Rat := 2 * ((m1 : Rat) * 2 ^ k) / (m2 : Rat) with hT
      have hTM : ((2 * q + st : Nat) : Rat) - 1 ≤ T := by
        rcases hst with ⟨hs0, hx⟩ | ⟨hs1, hlo, -⟩
        · have : (m1 : Rat) * 2 ^ k = (q : Rat) * (m2 : Rat) := by exact_mod_cast hx
          rw [hT, this, hs0]; push_cast; field_simp; linarith
        · have : (q : Rat) * (m2 : Rat) < (m1 : Rat) * 2 ^ k := by exact_mod_cast hlo
          have : 2 * (q : Rat) < T := by rw [hT, lt_div_iff₀ hm2]; linarith
          rw [hs1]; push_cast; linarith
      have hM4 : 4 * (2 : Rat) ^ f.p ≤ ((2 * q + st : Nat) : Rat) := by
        have : 4 * 2 ^ f.p ≤ 2 * q + st := by
          have : 2 ^ (f.p + 1) = 2 * 2 ^ f.p := by rw [Nat.pow_succ, Nat.mul_comm]
          omega
        exact_mod_cast this
      have hT0 : 0 ≤ T := by
        have : (1 : Rat) ≤ 2 ^ f.p := one_le_pow₀ (by norm_num)
        linarith
      have hE := two_zpow_pos (e1 - e2 + (-(k : Int) - 1))
      rw [mul_assoc, abs_sgn_mul, abs_of_nonneg (mul_nonneg hT0 hE.le)]
      refine sticky_overflow_arith (one_le_pow₀ (by norm_num)) hE (two_zpow_pos f.emax) hM4 hTM ?_
      have : thr2 f = (2 * (2 : Rat) ^ f.p - 1) * (2 : Rat) ^ f.emax := by
        unfold thr2; rw [pow_succ]; ring
      rw [← this]; exact hov


/-! ### whenever the model's final operation overflows, the exact physical result is within the
oracle's tolerance of `MAX` -/

section escape
variable {l r a b : Fl}

/-- `+` overflows ⇒ `MAX ≤ |A+B| + 3u|B|` -/
theorem add_escape (hf : f.WF) (h4 : 4 ≤ f.p) (H : ChangeBaseOkR f l r b) (ha : a.isFinite = true)
    (h : (Fl.add f a (changeBase (flS f) l r b)).isFinite = false) :
    maxFin f ≤ |a.toRat + b.toRat * r.toRat / l.toRat| + 3 * uro f * |b.toRat * r.toRat / l.toRat| := by
  obtain ⟨-, hok⟩ := changeBase_flS_approx_R hf.hp H
  have h1 := add_overflow hf ha hok.isFinite h
  have h2 := changeBase_flS_abs_le_R h4 H
  have h3 := two_maxFin_le_thr2 f
  set C := Fl.toRat (changeBase (flS f) l r b)
  set B := b.toRat * r.toRat / l.toRat
  have h5 : |a.toRat + C| ≤ |a.toRat + B| + |C - B| := by
    have : a.toRat + C = (a.toRat + B) + (C - B) := by ring
    rw [this]; exact abs_add_le _ _
  linarith

/-- `−` overflows ⇒ `MAX ≤ |A−B| + 3u|B|` -/
theorem sub_escape (hf : f.WF) (h4 : 4 ≤ f.p) (H : ChangeBaseOkR f l r b) (ha : a.isFinite = true)
    (h : (Fl.sub f a (changeBase (flS f) l r b)).isFinite = false) :
    maxFin f ≤ |a.toRat - b.toRat * r.toRat / l.toRat| + 3 * uro f * |b.toRat * r.toRat / l.toRat| := by
  obtain ⟨-, hok⟩ := changeBase_flS_approx_R hf.hp H
  have h1 := sub_overflow hf ha hok.isFinite h
  have h2 := changeBase_flS_abs_le_R h4 H
  have h3 := two_maxFin_le_thr2 f
  set C := Fl.toRat (changeBase (flS f) l r b)
  set B := b.toRat * r.toRat / l.toRat
  have h5 : |a.toRat - C| ≤ |a.toRat - B| + |C - B| := by
    have : a.toRat - C = (a.toRat - B) + -(C - B) := by ring
    rw [this]; exact le_trans (abs_add_le _ _) (by rw [abs_neg])
  linarith

/-- two roundings cost at most `3u`, for a product or quotient with an exact factor -/
theorem approx2_abs_le (h4 : 4 ≤ f.p) {xh x : Rat} (h : Approx (uro f) 2 xh x) :
    |xh| ≤ |x| + 3 * uro f * |x| := by
  have hp : 1 ≤ f.p := by omega
  have hu0 := uro_nonneg f
  have hu := uro_le_sixteenth h4
  have h1 := Approx.abs_sub_le' hu0 (uro_lt_one f hp) h
  have h3 := rho2_le hu0 (by linarith : uro f ≤ 1 / 5)
  have h2 : |xh - x| ≤ 3 * uro f * |x| := by
    calc _ ≤ ((1 - uro f) ^ (-((2 : ℕ) : ℤ)) - 1) * |x| := h1
      _ ≤ 3 * uro f * |x| := mul_le_mul_of_nonneg_right (by simpa using h3) (abs_nonneg _)
  have h5 : |xh| ≤ |x| + |xh - x| := by
    have : xh = x + (xh - x) := by ring
    conv_lhs => rw [this]
    exact abs_add_le _ _
  linarith

/-- `×` overflows ⇒ `MAX ≤ |A·B| + 3u|A·B|` -/
theorem mul_escape (hf : f.WF) (h4 : 4 ≤ f.p) (H : ChangeBaseOkR f l r b) (ha : a.isFinite = true)
    (h : (Fl.mul f a (changeBase (flS f) l r b)).isFinite = false) :
    maxFin f ≤ |a.toRat * (b.toRat * r.toRat / l.toRat)|
      + 3 * uro f * |a.toRat * (b.toRat * r.toRat / l.toRat)| := by
  have hu0 := uro_nonneg f
  have hu1 := uro_lt_one f hf.hp
  obtain ⟨hs, hok⟩ := changeBase_flS_approx_R hf.hp H
  have h1 := mul_overflow hf ha hok.isFinite h
  have h2 := approx2_abs_le h4 (Approx.mul hu0 hu1 (Approx.refl a.toRat) hs)
  have h3 := two_maxFin_le_thr2 f
  linarith

/-- `÷` overflows (`B ≠ 0`) ⇒ `MAX ≤ |A/B| + 3u|A/B|` -/
theorem div_escape (hf : f.WF) (h4 : 4 ≤ f.p) (H : ChangeBaseOkR f l r b) (ha : a.isFinite = true)
    (hB : b.toRat * r.toRat / l.toRat ≠ 0)
    (h : (Fl.div f a (changeBase (flS f) l r b)).isFinite = false) :
    maxFin f ≤ |a.toRat / (b.toRat * r.toRat / l.toRat)|
      + 3 * uro f * |a.toRat / (b.toRat * r.toRat / l.toRat)| := by
  have hu0 := uro_nonneg f
  have hu1 := uro_lt_one f hf.hp
  obtain ⟨hs, hok⟩ := changeBase_flS_approx_R hf.hp H
  have hc0 : Fl.isZero (changeBase (flS f) l r b) = false := by
    cases hz : Fl.isZero (changeBase (flS f) l r b) with
    | false => rfl
    | true => exact absurd (toRat_of_isZero hz) (Approx.ne_zero hu1 hs hB)
  have h1 := div_overflow hf ha hok.isFinite hc0 h
  have h2 := approx2_abs_le h4 (Approx.div hu0 hu1 (Approx.refl a.toRat) hs)
  linarith

end escape

/-! ## E. the value check never rejects the model's result -/

/-- the shape of `valCheck`: a finite observation is only rejected if it violates the tolerance, and
    when `needNormal` is set the tolerance is only consulted for a normal result or an exact zero -/
theorem valCheck_not_fail {exact tol : Rat} {needNormal : Bool} {m : Fl}
    (hfin : m.isFinite = true)
    (hb : (needNormal = true → Fl.isNormal f m = true ∨ (m.isZero = true ∧ exact = 0)) →
      |m.toRat - exact| ≤ tol) (why : String) :
    valCheck f exact tol needNormal (some m) ≠ .fail why := by
  intro h
  simp only [valCheck, oracle_ratAbs_eq] at h
  split at h
  · next hnf => rw [hfin] at hnf; exact absurd hnf (by decide)
  · split at h
    · cases h
    · next hn =>
      split at h
      · cases h
      · next hlt =>
        apply hlt
        apply hb
        intro hnn
        rw [hnn] at hn
        have hn' : Fl.isNormal f m = false → m.isZero = true ∧ exact = 0 := by simpa using hn
        cases hN : Fl.isNormal f m with
        | true => exact Or.inl rfl
        | false => exact Or.inr (hn' hN)

/-- the shape of `oracleBinFl`: past the two guards it is `binCore` -/
theorem oracleBinFl_not_fail_of_core {op : RawBin} {l r a b : Fl} {obs why : String}
    (hcore : a.isFinite = true → b.isFinite = true → l.isFinite = true → r.isFinite = true →
      l.isZero = false → r.isZero = false → changeBaseNormal f l r b = true →
      binCore f op l r a b obs ≠ .fail why) :
    oracleBinFl f op l r a b obs ≠ .fail why := by
  rw [oracleBinFl_eq]
  split
  · intro h; cases h
  · next hg1 =>
    split
    · intro h; cases h
    · next hg2 =>
      simp only [Bool.or_eq_true, Bool.and_eq_true, Bool.not_eq_true', not_or, Bool.not_eq_false,
        Bool.not_eq_true] at hg1 hg2
      obtain ⟨⟨⟨⟨⟨ha, hb⟩, hl⟩, hr⟩, hl0⟩, hr0⟩ := hg1
      exact hcore ha hb hl hr hl0 hr0 hg2


/-- a non-finite observation is excused when `|exact| + tol ≥ MAX` -/
theorem valCheck_not_fail_of_escape {exact tol : Rat} {needNormal : Bool} {m : Fl}
    (hfin : m.isFinite = false) (hesc : maxFin f ≤ |exact| + tol) (why : String) :
    valCheck f exact tol needNormal (some m) ≠ .fail why := by
  intro h
  simp only [valCheck, hfin, Bool.not_false, if_true, oracle_ratAbs_eq] at h
  rw [if_pos hesc] at h
  cases h

section valforms
variable {l r a b : Fl}

theorem binCore_add_sound (hf : f.WF) (h4 : 4 ≤ f.p) (hca : Canonical f a)
    (ha : a.isFinite = true) (hb : b.isFinite = true) (hl : l.isFinite = true) (hr : r.isFinite = true)
    (hg : changeBaseNormal f l r b = true) {obs : String}
    (hobs : flOf? f obs = some (Fl.add f a (changeBase (flS f) l r b))) (why : String) :
    binCore f .add l r a b obs ≠ .fail why := by
  have H := changeBaseOkR_of_guard hf hb hl hr hg
  have h0 := mul_nonneg (uro_nonneg f) (abs_nonneg (a.toRat + b.toRat * r.toRat / l.toRat))
  show valCheck f _ _ false (flOf? f obs) ≠ _
  rw [hobs]
  cases hfin : (Fl.add f a (changeBase (flS f) l r b)).isFinite with
  | true =>
    refine valCheck_not_fail hfin (fun _ => ?_) why
    simp only [oracle_ratAbs_eq, oracle_uro_eq]
    have h := add_mixed_abs_le_R h4 H (ok_of_canonical hca ha) hfin
    calc _ ≤ _ := h
      _ ≤ _ := by linarith
  | false =>
    refine valCheck_not_fail_of_escape hfin ?_ why
    simp only [oracle_ratAbs_eq, oracle_uro_eq]
    have h1 := add_escape hf h4 H ha hfin
    linarith

theorem binCore_sub_sound (hf : f.WF) (h4 : 4 ≤ f.p) (hca : Canonical f a)
    (ha : a.isFinite = true) (hb : b.isFinite = true) (hl : l.isFinite = true) (hr : r.isFinite = true)
    (hg : changeBaseNormal f l r b = true) {obs : String}
    (hobs : flOf? f obs = some (Fl.sub f a (changeBase (flS f) l r b))) (why : String) :
    binCore f .sub l r a b obs ≠ .fail why := by
  have H := changeBaseOkR_of_guard hf hb hl hr hg
  have h0 := mul_nonneg (uro_nonneg f) (abs_nonneg (a.toRat - b.toRat * r.toRat / l.toRat))
  show valCheck f _ _ false (flOf? f obs) ≠ _
  rw [hobs]
  cases hfin : (Fl.sub f a (changeBase (flS f) l r b)).isFinite with
  | true =>
    refine valCheck_not_fail hfin (fun _ => ?_) why
    simp only [oracle_ratAbs_eq, oracle_uro_eq]
    have h := sub_mixed_abs_le_R h4 H (ok_of_canonical hca ha) hfin
    calc _ ≤ _ := h
      _ ≤ _ := by linarith
  | false =>
    refine valCheck_not_fail_of_escape hfin ?_ why
    simp only [oracle_ratAbs_eq, oracle_uro_eq]
    have h1 := sub_escape hf h4 H ha hfin
    linarith

theorem binCore_mul_sound (hf : f.WF) (h4 : 4 ≤ f.p)
    (ha : a.isFinite = true) (hb : b.isFinite = true) (hl : l.isFinite = true) (hr : r.isFinite = true)
    (hg : changeBaseNormal f l r b = true) {obs : String}
    (hobs : flOf? f obs = some (Fl.mul f a (changeBase (flS f) l r b))) (why : String) :
    binCore f .mul l r a b obs ≠ .fail why := by
  have H := changeBaseOkR_of_guard hf hb hl hr hg
  show valCheck f _ _ true (flOf? f obs) ≠ _
  rw [hobs]
  cases hfin : (Fl.mul f a (changeBase (flS f) l r b)).isFinite with
  | true =>
    refine valCheck_not_fail hfin (fun hn => ?_) why
    simp only [oracle_ratAbs_eq, oracle_uro_eq]
    rcases hn rfl with hN | ⟨hz, he⟩
    · exact mul_mixed_abs_le_R h4 H ha hfin (normal_pair hf (Fl.mul_canonical hf _ _) hN).2
    · rw [toRat_of_isZero hz, he]; simp
  | false =>
    refine valCheck_not_fail_of_escape hfin ?_ why
    simp only [oracle_ratAbs_eq, oracle_uro_eq]
    have h1 := mul_escape hf h4 H ha hfin
    have h2 := mul_nonneg (uro_nonneg f) (abs_nonneg (a.toRat * (b.toRat * r.toRat / l.toRat)))
    linarith

theorem binCore_div_sound (hf : f.WF) (h4 : 4 ≤ f.p)
    (ha : a.isFinite = true) (hb : b.isFinite = true) (hl : l.isFinite = true) (hr : r.isFinite = true)
    (hg : changeBaseNormal f l r b = true) {obs : String}
    (hobs : flOf? f obs = some (Fl.div f a (changeBase (flS f) l r b))) (why : String) :
    binCore f .div l r a b obs ≠ .fail why := by
  have H := changeBaseOkR_of_guard hf hb hl hr hg
  show (if b.toRat * r.toRat / l.toRat = 0 then Verdict.guard "division by zero"
    else valCheck f _ _ true (flOf? f obs)) ≠ _
  split
  · intro h; cases h
  · next hB =>
    rw [hobs]
    cases hfin : (Fl.div f a (changeBase (flS f) l r b)).isFinite with
    | true =>
      refine valCheck_not_fail hfin (fun hn => ?_) why
      simp only [oracle_ratAbs_eq, oracle_uro_eq]
      rcases hn rfl with hN | ⟨hz, he⟩
      · exact div_mixed_abs_le_R h4 H ha hfin (normal_pair hf (Fl.div_canonical hf _ _) hN).2
      · rw [toRat_of_isZero hz, he]; simp
    | false =>
      refine valCheck_not_fail_of_escape hfin ?_ why
      simp only [oracle_ratAbs_eq, oracle_uro_eq]
      have h1 := div_escape hf h4 H ha hB hfin
      have h2 := mul_nonneg (uro_nonneg f) (abs_nonneg (a.toRat / (b.toRat * r.toRat / l.toRat)))
      linarith

end valforms

/-! ## F. comparison forms -/

section cmpforms
variable {l r a b : Fl}

/-- mixed-base comparison under the guard's conditions: a gap of more than `3u·|B|` decides it -/
theorem cmp_mixed_sound_R' (h4 : 4 ≤ f.p) (H : ChangeBaseOkR f l r b) (ha : a.isFinite = true)
    (hgap : 3 * uro f * |b.toRat * r.toRat / l.toRat| < |a.toRat - b.toRat * r.toRat / l.toRat|) :
    Fl.cmp a (changeBase (flS f) l r b) =
      some (if a.toRat < b.toRat * r.toRat / l.toRat then -1
        else if a.toRat = b.toRat * r.toRat / l.toRat then 0 else 1) := by
  have hp : 1 ≤ f.p := by omega
  rw [cmp_toRat ha (changeBase_flS_approx_R hp H).2.isFinite]
  have he := changeBase_flS_abs_le_R h4 H
  set A := a.toRat
  set B := b.toRat * r.toRat / l.toRat
  set C := Fl.toRat (changeBase (flS f) l r b)
  have hlt : |C - B| < |A - B| := lt_of_le_of_lt he hgap
  have hC := abs_lt.mp (lt_of_le_of_lt (le_refl _) hlt)
  rcases lt_trichotomy A B with h | h | h
  · have h1 : |A - B| = B - A := by rw [abs_of_neg (by linarith)]; ring
    have h2 : A < C := by linarith [hC.1]
    simp only [h, h2, if_true]
  · exfalso
    rw [h, sub_self, abs_zero] at hlt
    exact absurd hlt (not_lt.mpr (abs_nonneg _))
  · have h1 : |A - B| = A - B := abs_of_pos (by linarith)
    have h2 : C < A := by linarith [hC.2]
    simp only [h.not_gt, h2.not_gt, h.ne', h2.ne', if_false]

/-- … in particular a gap of more than `4u·max(|A|,|B|)` (the oracle's band) -/
theorem cmp_mixed_sound_R (h4 : 4 ≤ f.p) (H : ChangeBaseOkR f l r b) (ha : a.isFinite = true)
    (hgap : 4 * uro f * max |a.toRat| |b.toRat * r.toRat / l.toRat| <
      |a.toRat - b.toRat * r.toRat / l.toRat|) :
    Fl.cmp a (changeBase (flS f) l r b) =
      some (if a.toRat < b.toRat * r.toRat / l.toRat then -1
        else if a.toRat = b.toRat * r.toRat / l.toRat then 0 else 1) := by
  refine cmp_mixed_sound_R' h4 H ha (lt_of_le_of_lt ?_ hgap)
  have hu0 := uro_nonneg f
  have hB0 := abs_nonneg (b.toRat * r.toRat / l.toRat)
  have hmax : |b.toRat * r.toRat / l.toRat| ≤ max |a.toRat| |b.toRat * r.toRat / l.toRat| :=
    le_max_right _ _
  calc 3 * uro f * |b.toRat * r.toRat / l.toRat| ≤ 4 * uro f * |b.toRat * r.toRat / l.toRat| := by
        nlinarith [mul_nonneg hu0 hB0]
    _ ≤ _ := mul_le_mul_of_nonneg_left hmax (by linarith)

/-- identical base factors (`l == r` as floats): `change_base` is the bit-exact identity, so the
    comparison is exact with no band -/
theorem cmp_same_exact (hf : f.WF) (hcb : Canonical f b) (hcl : Canonical f l) (hcr : Canonical f r)
    (ha : a.isFinite = true) (hb : b.isFinite = true) (hl : l.isFinite = true)
    (hl0 : l.isZero = false) (hsame : Fl.cmp l r = some 0) :
    Fl.cmp a (changeBase (flS f) l r b) =
      some (if a.toRat < b.toRat * r.toRat / l.toRat then -1
        else if a.toRat = b.toRat * r.toRat / l.toRat then 0 else 1) := by
  have hlr := canonical_eq_of_cmp hf.hp hcl hcr hl hl0 hsame
  subst hlr
  rw [Fl.changeBase_id' hf b l hcb hl hl0, cmp_toRat ha hb]
  have : b.toRat * l.toRat / l.toRat = b.toRat := by
    field_simp [toRat_ne_zero hl hl0]
  rw [this]

/-- **the comparison the model computes is the exact one whenever the oracle does not guard** -/
theorem cmp_changeBase_exact (hf : f.WF) (h4 : 4 ≤ f.p)
    (hcb : Canonical f b) (hcl : Canonical f l) (hcr : Canonical f r)
    (ha : a.isFinite = true) (hb : b.isFinite = true) (hl : l.isFinite = true) (hr : r.isFinite = true)
    (hl0 : l.isZero = false) (hg : changeBaseNormal f l r b = true)
    (hband : (Fl.cmp l r == some 0) = true ∨
      4 * uro f * max |a.toRat| |b.toRat * r.toRat / l.toRat| <
        |a.toRat - b.toRat * r.toRat / l.toRat|) :
    Fl.cmp a (changeBase (flS f) l r b) =
      some (if a.toRat < b.toRat * r.toRat / l.toRat then -1
        else if a.toRat = b.toRat * r.toRat / l.toRat then 0 else 1) := by
  rcases hband with hs | hgap
  · exact cmp_same_exact hf hcb hcl hcr ha hb hl hl0 (by simpa using hs)
  · exact cmp_mixed_sound_R h4 (changeBaseOkR_of_guard hf hb hl hr hg) ha hgap

end cmpforms

/-- the shape of `cmpCheck` -/
theorem cmpCheck_not_fail {same : Bool} {A B : Rat} {expect : Int → Bool} {obs : String}
    (h : (same = true ∨ 4 * uro f * max |A| |B| < |A - B|) →
      obs = if expect (if A < B then -1 else if A = B then 0 else 1) = true then "1" else "0")
    (why : String) : cmpCheck f same A B expect obs ≠ .fail why := by
  intro hc
  simp only [cmpCheck, oracle_ratAbs_eq, oracle_uro_eq, oracle_ratMax_eq] at hc
  split at hc
  · cases hc
  · next hband =>
    have hb' : same = true ∨ 4 * uro f * max |A| |B| < |A - B| := by
      cases same with
      | true => exact Or.inl rfl
      | false => right; simpa using hband
    rw [h hb'] at hc
    simp at hc

/-- the shape of `pcmpCheck` -/
theorem pcmpCheck_not_fail {same : Bool} {A B : Rat} {obs : String}
    (h : (same = true ∨ 4 * uro f * max |A| |B| < |A - B|) →
      parseOrd? obs = some (some (if A < B then -1 else if A = B then 0 else 1)))
    (why : String) : pcmpCheck f same A B obs ≠ .fail why := by
  intro hc
  simp only [pcmpCheck, oracle_ratAbs_eq, oracle_uro_eq, oracle_ratMax_eq] at hc
  split at hc
  · cases hc
  · next hband =>
    have hb' : same = true ∨ 4 * uro f * max |A| |B| < |A - B| := by
      cases same with
      | true => exact Or.inl rfl
      | false => right; simpa using hband
    rw [h hb'] at hc
    simp at hc


/-! ## G. the oracle on the model's own printed result -/

section final
variable {l r a b : Fl}

theorem threeway_cases (A B : Rat) :
    (if A < B then (-1 : Int) else if A = B then 0 else 1) = -1 ∨
    (if A < B then (-1 : Int) else if A = B then 0 else 1) = 0 ∨
    (if A < B then (-1 : Int) else if A = B then 0 else 1) = 1 := by
  split
  · exact Or.inl rfl
  · split
    · exact Or.inr (Or.inl rfl)
    · exact Or.inr (Or.inr rfl)

/-- a Boolean read off `Fl.cmp a (change_base b)` that agrees with `expect` on `-1, 0, 1` is accepted -/
theorem cmpCheck_model_sound (hf : f.WF) (h4 : 4 ≤ f.p)
    (hcb : Canonical f b) (hcl : Canonical f l) (hcr : Canonical f r)
    (ha : a.isFinite = true) (hb : b.isFinite = true) (hl : l.isFinite = true) (hr : r.isFinite = true)
    (hl0 : l.isZero = false) (hg : changeBaseNormal f l r b = true)
    (mb : Option Int → Bool) (expect : Int → Bool)
    (hag : mb (some (-1)) = expect (-1) ∧ mb (some 0) = expect 0 ∧ mb (some 1) = expect 1)
    (why : String) :
    cmpCheck f (Fl.cmp l r == some 0) a.toRat (b.toRat * r.toRat / l.toRat) expect
      (if mb (Fl.cmp a (changeBase (flS f) l r b)) = true then "1" else "0") ≠ .fail why := by
  refine cmpCheck_not_fail (fun hband => ?_) why
  rw [cmp_changeBase_exact hf h4 hcb hcl hcr ha hb hl hr hl0 hg hband]
  have hc := threeway_cases a.toRat (b.toRat * r.toRat / l.toRat)
  generalize (if a.toRat < b.toRat * r.toRat / l.toRat then (-1 : Int)
    else if a.toRat = b.toRat * r.toRat / l.toRat then 0 else 1) = c at hc
  rcases hc with rfl | rfl | rfl
  · rw [hag.1]
  · rw [hag.2.1]
  · rw [hag.2.2]

/-- `partial_cmp`: the printed ordering parses back to the exact three-way comparison -/
theorem pcmpCheck_model_sound (name : String) (hf : f.WF) (h4 : 4 ≤ f.p)
    (hcb : Canonical f b) (hcl : Canonical f l) (hcr : Canonical f r)
    (ha : a.isFinite = true) (hb : b.isFinite = true) (hl : l.isFinite = true) (hr : r.isFinite = true)
    (hl0 : l.isZero = false) (hg : changeBaseNormal f l r b = true) (why : String) :
    pcmpCheck f (Fl.cmp l r == some 0) a.toRat (b.toRat * r.toRat / l.toRat)
      (Res.show (flTy name f) (.ord (Fl.cmp a (changeBase (flS f) l r b)))) ≠ .fail why := by
  refine pcmpCheck_not_fail (fun hband => ?_) why
  rw [cmp_changeBase_exact hf h4 hcb hcl hcr ha hb hl hr hl0 hg hband]
  have hc := threeway_cases a.toRat (b.toRat * r.toRat / l.toRat)
  generalize (if a.toRat < b.toRat * r.toRat / l.toRat then (-1 : Int)
    else if a.toRat = b.toRat * r.toRat / l.toRat then 0 else 1) = c at hc
  rcases hc with rfl | rfl | rfl <;> rfl


/-- what the model prints for each raw operation -/
theorem showRes_val (name : String) (op : RawBin) (x : Fl) :
    Tri.showRes (flTy name f) (rawBin (flTy name f) op a x) = some
      (match op with
        | .add => flHex f (Fl.add f a x)
        | .sub => flHex f (Fl.sub f a x)
        | .rem => flHex f (Fl.fmod f a x)
        | .mul => flHex f (Fl.mul f a x)
        | .div => flHex f (Fl.div f a x)
        | .eq => if (Fl.cmp a x == some 0) = true then "1" else "0"
        | .ne => if (Fl.cmp a x != some 0) = true then "1" else "0"
        | .lt => if (Fl.cmp a x == some (-1)) = true then "1" else "0"
        | .le => if (Fl.cmp a x == some (-1) || Fl.cmp a x == some 0) = true then "1" else "0"
        | .gt => if (Fl.cmp a x == some 1) = true then "1" else "0"
        | .ge => if (Fl.cmp a x == some 1 || Fl.cmp a x == some 0) = true then "1" else "0"
        | .pcmp => Res.show (flTy name f) (.ord (Fl.cmp a x))) := by
  cases op <;> rfl

/-- **Operator-oracle soundness, raw-operation form.**  `oracleBinFl` evaluated on what the model
    itself prints for `a ⊙ change_base(b)` never answers `fail`, whatever the operation and whether or
    not the final operation overflows.
    Hypotheses: well-formed interchange format with `p ≥ 4`; the stored values and base factors are
    canonical (what `ofBits` and the soft-float operations produce). -/
theorem oracleBinFl_sound_raw (name : String) (hf : f.WF) (h4 : 4 ≤ f.p) (hw : f.p < f.w)
    (hexp : f.emax = f.emin + ((2 ^ (f.w - f.p) : Nat) : Int) - 3)
    (hca : Canonical f a) (hcb : Canonical f b) (hcl : Canonical f l) (hcr : Canonical f r)
    (op : RawBin) (obs : String)
    (hobs : Tri.showRes (flTy name f) (rawBin (flTy name f) op a (changeBase (flS f) l r b)) = some obs)
    (why : String) : oracleBinFl f op l r a b obs ≠ .fail why := by
  apply oracleBinFl_not_fail_of_core
  intro ha hb hl hr hl0 _ hg
  have hhex : ∀ {x : Fl}, Canonical f x → flOf? f (flHex f x) = some x :=
    fun hx => flOf?_flHex_canonical (by omega) hw hexp hx
  rw [showRes_val] at hobs
  cases op with
  | add =>
    injection hobs with hobs; subst hobs
    exact binCore_add_sound hf h4 hca ha hb hl hr hg (hhex (Fl.add_canonical hf _ _)) why
  | sub =>
    injection hobs with hobs; subst hobs
    exact binCore_sub_sound hf h4 hca ha hb hl hr hg (hhex (Fl.sub_canonical hf _ _)) why
  | mul =>
    injection hobs with hobs; subst hobs
    exact binCore_mul_sound hf h4 ha hb hl hr hg (hhex (Fl.mul_canonical hf _ _)) why
  | div =>
    injection hobs with hobs; subst hobs
    exact binCore_div_sound hf h4 ha hb hl hr hg (hhex (Fl.div_canonical hf _ _)) why
  | rem => intro h; cases h
  | eq =>
    injection hobs with hobs; subst hobs
    exact cmpCheck_model_sound hf h4 hcb hcl hcr ha hb hl hr hl0 hg (fun c => c == some 0)
      (fun c : Int => c == 0) (by decide) why
  | ne =>
    injection hobs with hobs; subst hobs
    exact cmpCheck_model_sound hf h4 hcb hcl hcr ha hb hl hr hl0 hg (fun c => c != some 0)
      (fun c : Int => c != 0) (by decide) why
  | lt =>
    injection hobs with hobs; subst hobs
    exact cmpCheck_model_sound hf h4 hcb hcl hcr ha hb hl hr hl0 hg (fun c => c == some (-1))
      (fun c : Int => c == -1) (by decide) why
  | le =>
    injection hobs with hobs; subst hobs
    exact cmpCheck_model_sound hf h4 hcb hcl hcr ha hb hl hr hl0 hg
      (fun c => c == some (-1) || c == some 0) (fun c : Int => c != 1) (by decide) why
  | gt =>
    injection hobs with hobs; subst hobs
    exact cmpCheck_model_sound hf h4 hcb hcl hcr ha hb hl hr hl0 hg (fun c => c == some 1)
      (fun c : Int => c == 1) (by decide) why
  | ge =>
    injection hobs with hobs; subst hobs
    exact cmpCheck_model_sound hf h4 hcb hcl hcr ha hb hl hr hl0 hg
      (fun c => c == some 1 || c == some 0) (fun c : Int => c != -1) (by decide) why
  | pcmp =>
    injection hobs with hobs; subst hobs
    exact pcmpCheck_model_sound name hf h4 hcb hcl hcr ha hb hl hr hl0 hg why

/-- **Operator-oracle soundness**, in the form the driver uses (`handleBin` of Uom/Model/Lines.lean):
    for every quantity-level binary form, the oracle applied to the model's printed result of
    `binOpOn` never fails. -/
theorem oracleBinFl_sound (name : String) (hf : f.WF) (h4 : 4 ≤ f.p) (hw : f.p < f.w)
    (hexp : f.emax = f.emin + ((2 ^ (f.w - f.p) : Nat) : Int) - 3)
    (hca : Canonical f a) (hcb : Canonical f b) (hcl : Canonical f l) (hcr : Canonical f r)
    (form : BinForm) (obs : String)
    (hobs : Tri.showRes (flTy name f) (binOpOn (flTy name f) form l r a b) = some obs)
    (why : String) : oracleBinFl f form.raw l r a b obs ≠ .fail why :=
  oracleBinFl_sound_raw name hf h4 hw hexp hca hcb hcl hcr form.raw obs hobs why

/-! ### the four value forms and the comparison forms, spelled out -/

theorem oracleBinFl_add_sound (hf : f.WF) (h4 : 4 ≤ f.p) (hw : f.p < f.w)
    (hexp : f.emax = f.emin + ((2 ^ (f.w - f.p) : Nat) : Int) - 3)
    (hca : Canonical f a) (hcb : Canonical f b) (hcl : Canonical f l) (hcr : Canonical f r)
    (why : String) :
    oracleBinFl f .add l r a b (flHex f (Fl.add f a (changeBase (flS f) l r b))) ≠ .fail why :=
  oracleBinFl_sound_raw "" hf h4 hw hexp hca hcb hcl hcr .add _ rfl why

theorem oracleBinFl_sub_sound (hf : f.WF) (h4 : 4 ≤ f.p) (hw : f.p < f.w)
    (hexp : f.emax = f.emin + ((2 ^ (f.w - f.p) : Nat) : Int) - 3)
    (hca : Canonical f a) (hcb : Canonical f b) (hcl : Canonical f l) (hcr : Canonical f r)
    (why : String) :
    oracleBinFl f .sub l r a b (flHex f (Fl.sub f a (changeBase (flS f) l r b))) ≠ .fail why :=
  oracleBinFl_sound_raw "" hf h4 hw hexp hca hcb hcl hcr .sub _ rfl why

theorem oracleBinFl_mul_sound (hf : f.WF) (h4 : 4 ≤ f.p) (hw : f.p < f.w)
    (hexp : f.emax = f.emin + ((2 ^ (f.w - f.p) : Nat) : Int) - 3)
    (hca : Canonical f a) (hcb : Canonical f b) (hcl : Canonical f l) (hcr : Canonical f r)
    (why : String) :
    oracleBinFl f .mul l r a b (flHex f (Fl.mul f a (changeBase (flS f) l r b))) ≠ .fail why :=
  oracleBinFl_sound_raw "" hf h4 hw hexp hca hcb hcl hcr .mul _ rfl why

theorem oracleBinFl_div_sound (hf : f.WF) (h4 : 4 ≤ f.p) (hw : f.p < f.w)
    (hexp : f.emax = f.emin + ((2 ^ (f.w - f.p) : Nat) : Int) - 3)
    (hca : Canonical f a) (hcb : Canonical f b) (hcl : Canonical f l) (hcr : Canonical f r)
    (why : String) :
    oracleBinFl f .div l r a b (flHex f (Fl.div f a (changeBase (flS f) l r b))) ≠ .fail why :=
  oracleBinFl_sound_raw "" hf h4 hw hexp hca hcb hcl hcr .div _ rfl why

/-- comparison forms: `obs` is `"1"`/`"0"` according to the Boolean the model computes -/
theorem oracleBinFl_cmp_sound (name : String) (hf : f.WF) (h4 : 4 ≤ f.p) (hw : f.p < f.w)
    (hexp : f.emax = f.emin + ((2 ^ (f.w - f.p) : Nat) : Int) - 3)
    (hca : Canonical f a) (hcb : Canonical f b) (hcl : Canonical f l) (hcr : Canonical f r)
    (op : RawBin) (bres : Bool)
    (hres : rawBin (flTy name f) op a (changeBase (flS f) l r b) = .ok (.bool bres)) (why : String) :
    oracleBinFl f op l r a b (if bres = true then "1" else "0") ≠ .fail why := by
  refine oracleBinFl_sound_raw name hf h4 hw hexp hca hcb hcl hcr op _ ?_ why
  rw [hres]; rfl

/-- `partial_cmp`: `obs` is `"lt" | "eq" | "gt" | "none"` as the model prints it -/
theorem oracleBinFl_pcmp_sound (name : String) (hf : f.WF) (h4 : 4 ≤ f.p) (hw : f.p < f.w)
    (hexp : f.emax = f.emin + ((2 ^ (f.w - f.p) : Nat) : Int) - 3)
    (hca : Canonical f a) (hcb : Canonical f b) (hcl : Canonical f l) (hcr : Canonical f r)
    (why : String) :
    oracleBinFl f .pcmp l r a b
      (Res.show (flTy name f) (.ord (Fl.cmp a (changeBase (flS f) l r b)))) ≠ .fail why :=
  oracleBinFl_sound_raw name hf h4 hw hexp hca hcb hcl hcr .pcmp _ rfl why

end final

/-- binary64 / binary32 instances (`f64`, `f32` of the driver) -/
theorem oracleBinFl_sound_f64 {l r a b : Fl}
    (hca : Canonical b64 a) (hcb : Canonical b64 b) (hcl : Canonical b64 l) (hcr : Canonical b64 r)
    (form : BinForm) (obs : String)
    (hobs : Tri.showRes (flTy "f64" b64) (binOpOn (flTy "f64" b64) form l r a b) = some obs)
    (why : String) : oracleBinFl b64 form.raw l r a b obs ≠ .fail why :=
  oracleBinFl_sound "f64" b64_wf (by decide) (by decide) b64_exp hca hcb hcl hcr form obs hobs why

theorem oracleBinFl_sound_f32 {l r a b : Fl}
    (hca : Canonical b32 a) (hcb : Canonical b32 b) (hcl : Canonical b32 l) (hcr : Canonical b32 r)
    (form : BinForm) (obs : String)
    (hobs : Tri.showRes (flTy "f32" b32) (binOpOn (flTy "f32" b32) form l r a b) = some obs)
    (why : String) : oracleBinFl b32 form.raw l r a b obs ≠ .fail why :=
  oracleBinFl_sound "f32" b32_wf (by decide) (by decide) b32_exp hca hcb hcl hcr form obs hobs why

/-! ## H. C15: `oracleFromFl` (kind conversion = `change_base` alone) -/

/-- **`oracleFromFl` never rejects the model's own kind conversion.**  `sameBase` is the driver's
    "the two base-unit sets are identical" flag; when it is set the two base factors are the same
    finite non-zero float (hypothesis `hsame`) and `change_base` is the bit-exact identity. -/
theorem oracleFromFl_sound (hf : f.WF) (h4 : 4 ≤ f.p) {l r a : Fl} (hca : Canonical f a)
    (sameBase : Bool)
    (hsame : sameBase = true → l = r ∧ l.isFinite = true ∧ l.isZero = false) (why : String) :
    oracleFromFl f sameBase l r a (kindFromOn (flS f) l r a) ≠ .fail why := by
  intro h
  unfold oracleFromFl kindFromOn at h
  simp only [oracle_ratAbs_eq, oracle_uro_eq] at h
  split at h
  · next hs =>
    obtain ⟨rfl, hl, hl0⟩ := hsame hs
    rw [Fl.changeBase_id' hf a l hca hl hl0] at h
    simp at h
  · split at h
    · cases h
    · next hg1 =>
      split at h
      · cases h
      · next hg2 =>
        simp only [Bool.or_eq_true, Bool.and_eq_true, Bool.not_eq_true', not_or, Bool.not_eq_false,
          Bool.not_eq_true] at hg1 hg2
        obtain ⟨⟨⟨⟨ha, hl⟩, hr⟩, -⟩, -⟩ := hg1
        have H := changeBaseOkR_of_guard hf ha hl hr hg2
        split at h
        · next hnf =>
          rw [(changeBase_flS_approx_R hf.hp H).2.isFinite] at hnf
          exact absurd hnf (by decide)
        · split at h
          · cases h
          · next hlt => exact hlt (changeBase_flS_abs_le_R h4 H)


/-! ## I. history: the earlier overflow escape `|exact| ≥ MAX` could reject the model

The earlier `val` let a non-finite observation through only if `|exact| ≥ MAX`, `exact` being the
*exact* physical result `A ⊙ B·R/L`.  The implementation (and the model) overflow when the correctly
rounded `a ⊙ change_base(b)` exceeds `MAX`; since `change_base(b)` carries up to two rounding errors,
the exact physical result can then still be (slightly) below `MAX`. -/

/-- the oracle as it was before the repair (verbatim, except for the name) -/
def oracleBinFlOld (f : Fmt) (op : RawBin) (l r a b : Fl) (obs : String) : Verdict :=
  if !(a.isFinite && b.isFinite && l.isFinite && r.isFinite) || l.isZero || r.isZero then .guard "non-finite"
  else if !(changeBaseNormal f l r b) then .guard "overflow/underflow"
  else
    let u := Uom.uro f
    let A := a.toRat
    let B := b.toRat * r.toRat / l.toRat
    let same := Fl.cmp l r == some 0
    let val (exact tol : Rat) (needNormal : Bool) : Verdict :=
      match flOf? f obs with
      | none => .fail "result is not a value"
      | some o =>
        if !o.isFinite then (if ratAbs exact ≥ Fl.toRat (Fl.fin false (2 ^ f.p - 1) f.emax) then .guard "overflow/underflow" else .fail "non-finite result")
        else if needNormal && !(Fl.isNormal f o || (o.isZero && exact = 0)) then .guard "overflow/underflow"
        else if ratAbs (o.toRat - exact) ≤ tol then .pass
        else .fail "result is more than a few u away from the exact physical result"
    let cmpv (expect : Int → Bool) : Verdict :=
      if !same && ratAbs (A - B) ≤ 4 * u * ratMax (ratAbs A) (ratAbs B) then .guard "magnitudes within 4u"
      else
        let c : Int := if A < B then -1 else if A = B then 0 else 1
        let e := if expect c then "1" else "0"
        if obs == e then .pass else .fail "comparison disagrees with the order of the physical magnitudes"
    match op with
    | .add => val (A + B) (u * (3 * ratAbs B + 2 * ratAbs (A + B))) false
    | .sub => val (A - B) (u * (3 * ratAbs B + 2 * ratAbs (A - B))) false
    | .mul => val (A * B) (4 * u * ratAbs (A * B)) true
    | .div => if B = 0 then .guard "division by zero" else val (A / B) (4 * u * ratAbs (A / B)) true
    | .rem => .guard "remainder is discontinuous"
    | .eq => cmpv (· == 0)
    | .ne => cmpv (· != 0)
    | .lt => cmpv (· == -1)
    | .le => cmpv (· != 1)
    | .gt => cmpv (· == 1)
    | .ge => cmpv (· != -1)
    | .pcmp =>
      if !same && ratAbs (A - B) ≤ 4 * u * ratMax (ratAbs A) (ratAbs B) then .guard "magnitudes within 4u"
      else
        let c : Int := if A < B then -1 else if A = B then 0 else 1
        if parseOrd? obs == some (some c) then .pass else .fail "partial_cmp disagrees with the order of the physical magnitudes"

/-- the old inner `val` check, on the parsed observation -/
def valCheckOld (f : Fmt) (exact tol : Rat) (needNormal : Bool) (o : Option Fl) : Verdict :=
  match o with
  | none => .fail "result is not a value"
  | some o =>
    if !o.isFinite then
      (if ratAbs exact ≥ maxFin f then .guard "overflow/underflow" else .fail "non-finite result")
    else if needNormal && !(Fl.isNormal f o || (o.isZero && exact = 0)) then .guard "overflow/underflow"
    else if ratAbs (o.toRat - exact) ≤ tol then .pass
    else .fail "result is more than a few u away from the exact physical result"

/-- `binCore` with `valCheckOld` in place of `valCheck` -/
def binCoreOld (f : Fmt) (op : RawBin) (l r a b : Fl) (obs : String) : Verdict :=
  let u := Uom.uro f
  let A := a.toRat
  let B := b.toRat * r.toRat / l.toRat
  let same := Fl.cmp l r == some 0
  match op with
  | .add => valCheckOld f (A + B) (u * (3 * ratAbs B + 2 * ratAbs (A + B))) false (flOf? f obs)
  | .sub => valCheckOld f (A - B) (u * (3 * ratAbs B + 2 * ratAbs (A - B))) false (flOf? f obs)
  | .mul => valCheckOld f (A * B) (4 * u * ratAbs (A * B)) true (flOf? f obs)
  | .div => if B = 0 then .guard "division by zero" else valCheckOld f (A / B) (4 * u * ratAbs (A / B)) true (flOf? f obs)
  | .rem => .guard "remainder is discontinuous"
  | .eq => cmpCheck f same A B (· == 0) obs
  | .ne => cmpCheck f same A B (· != 0) obs
  | .lt => cmpCheck f same A B (· == -1) obs
  | .le => cmpCheck f same A B (· != 1) obs
  | .gt => cmpCheck f same A B (· == 1) obs
  | .ge => cmpCheck f same A B (· != -1) obs
  | .pcmp => pcmpCheck f same A B obs

theorem oracleBinFlOld_eq (f : Fmt) (op : RawBin) (l r a b : Fl) (obs : String) :
    oracleBinFlOld f op l r a b obs =
      if (!(a.isFinite && b.isFinite && l.isFinite && r.isFinite) || l.isZero || r.isZero) = true then
        .guard "non-finite"
      else if (!(changeBaseNormal f l r b)) = true then .guard "overflow/underflow"
      else binCoreOld f op l r a b obs := by
  cases op <;> rfl

/-- on finite observations the two checks coincide -/
theorem valCheck_eq_old_of_finite {exact tol : Rat} {needNormal : Bool} {m : Fl}
    (hfin : m.isFinite = true) :
    valCheck f exact tol needNormal (some m) = valCheckOld f exact tol needNormal (some m) := by
  simp only [valCheck, valCheckOld, hfin, Bool.not_true, Bool.false_eq_true, if_false]

/-- the repaired check only turns some `fail "non-finite result"` into `guard` -/
theorem valCheck_fail_imp_old {exact tol : Rat} (htol : 0 ≤ tol) {needNormal : Bool} {o : Option Fl}
    {why : String} (h : valCheck f exact tol needNormal o = .fail why) :
    valCheckOld f exact tol needNormal o = .fail why := by
  cases o with
  | none => exact h
  | some m =>
    cases hfin : m.isFinite with
    | true => rwa [valCheck_eq_old_of_finite hfin] at h
    | false =>
      simp only [valCheck, valCheckOld, hfin, Bool.not_false, if_true] at h ⊢
      split at h
      · cases h
      · next hlt =>
        rw [if_neg]
        · exact h
        · intro hge; exact hlt (le_trans hge (by linarith))

/-- **the repair loses no rejection**: whatever the patched oracle rejects, the old one rejected too -/
theorem oracleBinFl_fail_imp_old {l r a b : Fl} {op : RawBin} {obs why : String}
    (h : oracleBinFl f op l r a b obs = .fail why) : oracleBinFlOld f op l r a b obs = .fail why := by
  rw [oracleBinFlOld_eq]
  rw [oracleBinFl_eq] at h
  split at h
  · cases h
  · next hg1 =>
    rw [if_neg hg1]
    split at h
    · cases h
    · next hg2 =>
      rw [if_neg hg2]
      have hu0 : 0 ≤ Uom.uro f := by rw [oracle_uro_eq]; exact uro_nonneg f
      have hab : ∀ x : Rat, 0 ≤ ratAbs x := fun x => by rw [oracle_ratAbs_eq]; exact abs_nonneg x
      cases op with
      | add =>
        exact valCheck_fail_imp_old (mul_nonneg hu0 (add_nonneg (mul_nonneg (by norm_num) (hab _))
          (mul_nonneg (by norm_num) (hab _)))) h
      | sub =>
        exact valCheck_fail_imp_old (mul_nonneg hu0 (add_nonneg (mul_nonneg (by norm_num) (hab _))
          (mul_nonneg (by norm_num) (hab _)))) h
      | mul => exact valCheck_fail_imp_old (mul_nonneg (mul_nonneg (by norm_num) hu0) (hab _)) h
      | div =>
        change (if b.toRat * r.toRat / l.toRat = 0 then Verdict.guard "division by zero"
          else valCheck f _ _ true (flOf? f obs)) = _ at h
        show (if b.toRat * r.toRat / l.toRat = 0 then Verdict.guard "division by zero"
          else valCheckOld f _ _ true (flOf? f obs)) = _
        split at h
        · cases h
        · next hB =>
          rw [if_neg hB]
          exact valCheck_fail_imp_old (mul_nonneg (mul_nonneg (by norm_num) hu0) (hab _)) h
      | rem => exact h
      | eq => exact h
      | ne => exact h
      | lt => exact h
      | le => exact h
      | gt => exact h
      | ge => exact h
      | pcmp => exact h

/-- the old oracle for the value forms as a function of the *parsed* observation (string-free) -/
def oracleValOldO (f : Fmt) (op : RawBin) (l r a b : Fl) (o : Option Fl) : Verdict :=
  if !(a.isFinite && b.isFinite && l.isFinite && r.isFinite) || l.isZero || r.isZero then .guard "non-finite"
  else if !(changeBaseNormal f l r b) then .guard "overflow/underflow"
  else
    let u := Uom.uro f
    let A := a.toRat
    let B := b.toRat * r.toRat / l.toRat
    match op with
    | .add => valCheckOld f (A + B) (u * (3 * ratAbs B + 2 * ratAbs (A + B))) false o
    | .sub => valCheckOld f (A - B) (u * (3 * ratAbs B + 2 * ratAbs (A - B))) false o
    | .mul => valCheckOld f (A * B) (4 * u * ratAbs (A * B)) true o
    | .div => if B = 0 then .guard "division by zero" else valCheckOld f (A / B) (4 * u * ratAbs (A / B)) true o
    | _ => .guard "not a value form"

theorem oracleBinFlOld_add_eq (l r a b : Fl) (obs : String) :
    oracleBinFlOld f .add l r a b obs = oracleValOldO f .add l r a b (flOf? f obs) := rfl
theorem oracleBinFlOld_sub_eq (l r a b : Fl) (obs : String) :
    oracleBinFlOld f .sub l r a b obs = oracleValOldO f .sub l r a b (flOf? f obs) := rfl
theorem oracleBinFlOld_mul_eq (l r a b : Fl) (obs : String) :
    oracleBinFlOld f .mul l r a b obs = oracleValOldO f .mul l r a b (flOf? f obs) := rfl
theorem oracleBinFlOld_div_eq (l r a b : Fl) (obs : String) :
    oracleBinFlOld f .div l r a b obs = oracleValOldO f .div l r a b (flOf? f obs) := rfl

/-- a binary32 operator case: base factors `l`, `r`, stored values `a`, `b` -/
structure OpsCase where
  l : Fl
  r : Fl
  a : Fl
  b : Fl

def OpsCase.Canon (c : OpsCase) : Prop :=
  Canonical b32 c.l ∧ Canonical b32 c.r ∧ Canonical b32 c.a ∧ Canonical b32 c.b

/-- `L = 2^24 − 1`, `R = 2^24` (so `R/L` rounds up to `1 + 2^-23`), `b = 1.75·2^127`,
    `a = 16777196·2^101`: `a + change_base(b) = MAX + 2^103` is a tie that rounds to `+inf`, while
    `A + B·R/L < MAX` -/
def cexAdd : OpsCase where
  l := Fl.fin false (2 ^ 24 - 1) 0
  r := Fl.fin false (2 ^ 23) 1
  a := Fl.fin false 16777196 101
  b := Fl.fin false 14680064 104

def cexSub : OpsCase := { cexAdd with a := Fl.fin true 16777196 101 }

/-- `L = 3`, `R = 1`: `change_base(b) = b/3` rounded up; `a·(b/3)` just reaches the overflow
    threshold while `A·B/3` stays below `MAX` -/
def cexMul : OpsCase where
  l := Fl.fin false (3 * 2 ^ 22) (-22)
  r := Fl.one b32
  a := Fl.fin false 16774850 82
  b := Fl.fin false 12584686 0

/-- `R/L = 11184813/11184811` rounds *down* to `1 + 2^-23`, and `a = 2^128·change_base(b)` -/
def cexDiv : OpsCase where
  l := Fl.fin false 11184811 0
  r := Fl.fin false 11184813 0
  a := Fl.fin false 8388611 68
  b := Fl.fin false 8388610 (-60)

theorem cex_canonical : cexAdd.Canon ∧ cexSub.Canon ∧ cexMul.Canon ∧ cexDiv.Canon := by
  refine ⟨⟨?_, ?_, ?_, ?_⟩, ⟨?_, ?_, ?_, ?_⟩, ⟨?_, ?_, ?_, ?_⟩, ⟨?_, ?_, ?_, ?_⟩⟩ <;>
    exact Or.inl (by decide)

/-- **`+`: the model's `+inf` was rejected by the old escape.** -/
theorem oracleBinFlOld_rejects_overflow_add :
    binOpOn (flTy "f32" b32) .add cexAdd.l cexAdd.r cexAdd.a cexAdd.b = .ok (.val (Fl.inf false)) ∧
    ∃ why, oracleBinFlOld b32 .add cexAdd.l cexAdd.r cexAdd.a cexAdd.b (flHex b32 (Fl.inf false)) =
      .fail why := by
  constructor
  · have h : Fl.add b32 cexAdd.a (changeBase (flS b32) cexAdd.l cexAdd.r cexAdd.b) = Fl.inf false := by
      decide +kernel
    show Tri.ok (Res.val (Fl.add b32 cexAdd.a (changeBase (flS b32) cexAdd.l cexAdd.r cexAdd.b))) = _
    rw [h]; rfl
  · rw [oracleBinFlOld_add_eq, flOf?_flHex_b32 (x := Fl.inf false) trivial]
    exact exists_of_isFail (by decide +kernel)


/-- **`−`: the model's `−inf` was rejected by the old escape.** -/
theorem oracleBinFlOld_rejects_overflow_sub :
    binOpOn (flTy "f32" b32) .sub cexSub.l cexSub.r cexSub.a cexSub.b = .ok (.val (Fl.inf true)) ∧
    ∃ why, oracleBinFlOld b32 .sub cexSub.l cexSub.r cexSub.a cexSub.b (flHex b32 (Fl.inf true)) =
      .fail why := by
  constructor
  · have h : Fl.sub b32 cexSub.a (changeBase (flS b32) cexSub.l cexSub.r cexSub.b) = Fl.inf true := by
      decide +kernel
    show Tri.ok (Res.val (Fl.sub b32 cexSub.a (changeBase (flS b32) cexSub.l cexSub.r cexSub.b))) = _
    rw [h]; rfl
  · rw [oracleBinFlOld_sub_eq, flOf?_flHex_b32 (x := Fl.inf true) trivial]
    exact exists_of_isFail (by decide +kernel)

/-- **`×`: the model's `+inf` was rejected by the old escape.** -/
theorem oracleBinFlOld_rejects_overflow_mul :
    binOpOn (flTy "f32" b32) .mul cexMul.l cexMul.r cexMul.a cexMul.b = .ok (.val (Fl.inf false)) ∧
    ∃ why, oracleBinFlOld b32 .mul cexMul.l cexMul.r cexMul.a cexMul.b (flHex b32 (Fl.inf false)) =
      .fail why := by
  constructor
  · have h : Fl.mul b32 cexMul.a (changeBase (flS b32) cexMul.l cexMul.r cexMul.b) = Fl.inf false := by
      decide +kernel
    show Tri.ok (Res.val (Fl.mul b32 cexMul.a (changeBase (flS b32) cexMul.l cexMul.r cexMul.b))) = _
    rw [h]; rfl
  · rw [oracleBinFlOld_mul_eq, flOf?_flHex_b32 (x := Fl.inf false) trivial]
    exact exists_of_isFail (by decide +kernel)

/-- **`÷`: the model's `+inf` was rejected by the old escape.** -/
theorem oracleBinFlOld_rejects_overflow_div :
    binOpOn (flTy "f32" b32) .div cexDiv.l cexDiv.r cexDiv.a cexDiv.b = .ok (.val (Fl.inf false)) ∧
    ∃ why, oracleBinFlOld b32 .div cexDiv.l cexDiv.r cexDiv.a cexDiv.b (flHex b32 (Fl.inf false)) =
      .fail why := by
  constructor
  · have h : Fl.div b32 cexDiv.a (changeBase (flS b32) cexDiv.l cexDiv.r cexDiv.b) = Fl.inf false := by
      decide +kernel
    show Tri.ok (Res.val (Fl.div b32 cexDiv.a (changeBase (flS b32) cexDiv.l cexDiv.r cexDiv.b))) = _
    rw [h]; rfl
  · rw [oracleBinFlOld_div_eq, flOf?_flHex_b32 (x := Fl.inf false) trivial]
    exact exists_of_isFail (by decide +kernel)


/-- … and the patched oracle answers `guard` on the same four cases -/
theorem oracleBinFl_guards_overflow_cases (why : String) :
    oracleBinFl b32 .add cexAdd.l cexAdd.r cexAdd.a cexAdd.b (flHex b32 (Fl.inf false)) ≠ .fail why ∧
    oracleBinFl b32 .sub cexSub.l cexSub.r cexSub.a cexSub.b (flHex b32 (Fl.inf true)) ≠ .fail why ∧
    oracleBinFl b32 .mul cexMul.l cexMul.r cexMul.a cexMul.b (flHex b32 (Fl.inf false)) ≠ .fail why ∧
    oracleBinFl b32 .div cexDiv.l cexDiv.r cexDiv.a cexDiv.b (flHex b32 (Fl.inf false)) ≠ .fail why := by
  obtain ⟨⟨a1, a2, a3, a4⟩, ⟨s1, s2, s3, s4⟩, ⟨m1, m2, m3, m4⟩, ⟨d1, d2, d3, d4⟩⟩ := cex_canonical
  have hobs : ∀ {form : BinForm} {c : OpsCase} {x : Fl},
      binOpOn (flTy "f32" b32) form c.l c.r c.a c.b = .ok (.val x) →
      Tri.showRes (flTy "f32" b32) (binOpOn (flTy "f32" b32) form c.l c.r c.a c.b) =
        some (flHex b32 x) := fun h => by rw [h]; rfl
  exact ⟨oracleBinFl_sound_f32 a3 a4 a1 a2 .add _ (hobs oracleBinFlOld_rejects_overflow_add.1) why,
    oracleBinFl_sound_f32 s3 s4 s1 s2 .sub _ (hobs oracleBinFlOld_rejects_overflow_sub.1) why,
    oracleBinFl_sound_f32 m3 m4 m1 m2 .mul _ (hobs oracleBinFlOld_rejects_overflow_mul.1) why,
    oracleBinFl_sound_f32 d3 d4 d1 d2 .div _ (hobs oracleBinFlOld_rejects_overflow_div.1) why⟩

end Uom.Proofs

