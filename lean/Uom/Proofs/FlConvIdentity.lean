import Uom.Model.Conv
import Uom.Proofs.FlIdentity
/-!
# The conversion kernel is the bit-exact identity when the unit coefficient equals the base factor

`to_base`, `from_base`, `change_base` over the float storage algebra `flS f`, with `coef = f = c`
(finite, nonzero, canonical) and no constant term (`-0.0` / `+0.0`).  Core Lean only.
-/
namespace Uom
namespace Fl

variable {f : Fmt}

theorem cmp_self_fin (s : Bool) (m : Nat) (e : Int) : cmp (fin s m e) (fin s m e) = some 0 := by
  simp [cmp]

theorem ge_self_fin (s : Bool) (m : Nat) (e : Int) : Fl.ge (fin s m e) (fin s m e) = true := by
  simp [Fl.ge, cmp_self_fin]

theorem lt_self_fin (s : Bool) (m : Nat) (e : Int) : Fl.lt (fin s m e) (fin s m e) = false := by
  simp [Fl.lt, cmp_self_fin]

/-- 8. `to_base` with `coefficient = base factor = c`, constant `-0.0`: `(v + (−0)) * (c / c) = v` -/
theorem toBase_id (hf : f.WF) (v : Fl) (hv : Canonical f v) (s : Bool) (m : Nat) (e : Int)
    (hm : m ≠ 0) :
    toBase (flS f) (fin s m e) (zero f true) (fin s m e) v = v := by
  show (if Fl.ge (fin s m e) (fin s m e) = true
      then mul f (add f v (zero f true)) (div f (fin s m e) (fin s m e))
      else div f (mul f (add f v (zero f true)) (fin s m e)) (fin s m e)) = v
  rw [if_pos (ge_self_fin s m e), div_self hf s m e hm, add_negzero hf v hv, mul_one hf v hv]

/-- 9. `from_base` with `coefficient = base factor = c`, constant `+0.0`: `v / (c / c) − (+0) = v` -/
theorem fromBase_id (hf : f.WF) (v : Fl) (hv : Canonical f v) (s : Bool) (m : Nat) (e : Int)
    (hm : m ≠ 0) :
    fromBase (flS f) (fin s m e) (zero f false) (fin s m e) v = v := by
  show (if Fl.lt (fin s m e) (fin s m e) = true
      then sub f (mul f v (div f (fin s m e) (fin s m e))) (zero f false)
      else sub f (div f v (div f (fin s m e) (fin s m e))) (zero f false)) = v
  rw [lt_self_fin s m e, if_neg (by decide), div_self hf s m e hm, div_one hf v hv,
    sub_poszero hf v hv]

/-- 10. `change_base` between units with the same base factor `c`: `v * (c / c) = v` -/
theorem changeBase_id (hf : f.WF) (v : Fl) (hv : Canonical f v) (s : Bool) (m : Nat) (e : Int)
    (hm : m ≠ 0) :
    changeBase (flS f) (fin s m e) (fin s m e) v = v := by
  show (if Fl.ge (fin s m e) (fin s m e) = true
      then mul f v (div f (fin s m e) (fin s m e))
      else div f v (div f (fin s m e) (fin s m e))) = v
  rw [if_pos (ge_self_fin s m e), div_self hf s m e hm, mul_one hf v hv]

/-- a finite nonzero value is `fin s m e` with `m ≠ 0` -/
theorem exists_fin_of_finite_nonzero (c : Fl) (hfin : c.isFinite = true) (hnz : c.isZero = false) :
    ∃ s m e, c = fin s m e ∧ m ≠ 0 := by
  cases c with
  | nan => simp [isFinite] at hfin
  | inf a => simp [isFinite] at hfin
  | fin s m e =>
    refine ⟨s, m, e, rfl, ?_⟩
    intro h
    subst h
    simp [isZero] at hnz

/-- 8'. `toBase_id` stated with the `isFinite` / `isZero` predicates -/
theorem toBase_id' (hf : f.WF) (v c : Fl) (hv : Canonical f v)
    (hfin : c.isFinite = true) (hnz : c.isZero = false) :
    toBase (flS f) c (zero f true) c v = v := by
  obtain ⟨s, m, e, rfl, hm⟩ := exists_fin_of_finite_nonzero c hfin hnz
  exact toBase_id hf v hv s m e hm

/-- 9'. `fromBase_id` stated with the `isFinite` / `isZero` predicates -/
theorem fromBase_id' (hf : f.WF) (v c : Fl) (hv : Canonical f v)
    (hfin : c.isFinite = true) (hnz : c.isZero = false) :
    fromBase (flS f) c (zero f false) c v = v := by
  obtain ⟨s, m, e, rfl, hm⟩ := exists_fin_of_finite_nonzero c hfin hnz
  exact fromBase_id hf v hv s m e hm

/-- 10'. `changeBase_id` stated with the `isFinite` / `isZero` predicates -/
theorem changeBase_id' (hf : f.WF) (v c : Fl) (hv : Canonical f v)
    (hfin : c.isFinite = true) (hnz : c.isZero = false) :
    changeBase (flS f) c c v = v := by
  obtain ⟨s, m, e, rfl, hm⟩ := exists_fin_of_finite_nonzero c hfin hnz
  exact changeBase_id hf v hv s m e hm

end Fl
end Uom

#print axioms Uom.Fl.toBase_id
#print axioms Uom.Fl.fromBase_id
#print axioms Uom.Fl.changeBase_id
#print axioms Uom.Fl.toBase_id'
#print axioms Uom.Fl.fromBase_id'
#print axioms Uom.Fl.changeBase_id'
