import Uom.Proofs.DurPowOracleSound
/-!
# Discharging `PowNormal` from what `oraclePowFl` itself checks

`DurPowOracleSound.oraclePowFl_sound` needs `PowNormal f c e`: every intermediate of the by-squaring
`powi` is a normal number.  Here this is derived from the normality of the *result* alone (which the
oracle checks: it answers `guard` otherwise), so that the soundness statement has no normality
hypothesis left.

The argument: the implementation never forms a product that is not used in the result, and along the
computation magnitudes are monotone (all `≥ 1` when the base is `≥ 1`, all `≤ 1` and decreasing when the
base is `≤ 1`); rounding to nearest is monotone and fixes representable numbers, so
`|fl(a·b)| ≤ |a|` when `|b| ≤ 1` and `|fl(a·b)| ≥ 1` when `|a|,|b| ≥ 1`.
-/

namespace Uom.PowNormalDischarge
open Uom Uom.Fl Uom.Proofs Uom.DurPowOracleSound

/-! ## 1. exponentiation by squaring: a good result forces good intermediates -/

section abstract
variable {α : Type} (mul : α → α → α) (I G : α → Prop)

theorem loop1_back
    (hI : ∀ a b, I a → I b → I (mul a b))
    (hG : ∀ a b, I a → I b → G (mul a b) → G a ∧ G b) :
    ∀ (fuel : Nat) (base : α) (exp : Nat), I base → exp ≠ 0 → exp < 2 ^ fuel →
      I (powLoop1 mul fuel base exp).1 ∧ (powLoop1 mul fuel base exp).2 % 2 = 1 ∧
      (powLoop1 mul fuel base exp).2 ≤ exp ∧
      (G (powLoop1 mul fuel base exp).1 → G base ∧ Loop1N mul G fuel base exp) := by
  intro fuel
  induction fuel with
  | zero => intro base exp _ h0 hlt; simp at hlt; exact absurd hlt h0
  | succ fuel ih =>
    intro base exp ib h0 hlt
    unfold powLoop1 Loop1N
    by_cases hev : exp % 2 = 0
    · rw [if_pos hev, if_pos hev]
      obtain ⟨h1, h2, h3, h4⟩ := ih (mul base base) (exp / 2) (hI _ _ ib ib) (by omega)
        (by rw [Nat.pow_succ] at hlt; omega)
      refine ⟨h1, h2, by omega, fun hg => ?_⟩
      obtain ⟨g2, hN⟩ := h4 hg
      exact ⟨(hG _ _ ib ib g2).1, g2, hN⟩
    · rw [if_neg hev, if_neg hev]
      exact ⟨ib, by omega, le_refl _, fun hg => ⟨hg, trivial⟩⟩

theorem loop2_back
    (hI : ∀ a b, I a → I b → I (mul a b))
    (hG : ∀ a b, I a → I b → G (mul a b) → G a ∧ G b) :
    ∀ (fuel : Nat) (base acc : α) (exp : Nat), I base → I acc → exp < 2 ^ fuel →
      G (powLoop2 mul fuel base acc exp) →
      G acc ∧ (exp > 1 → G base) ∧ Loop2N mul G fuel base acc exp := by
  intro fuel
  induction fuel with
  | zero =>
    intro base acc exp _ _ hlt hg
    have : exp = 0 := by simpa using hlt
    subst this
    exact ⟨by simpa [powLoop2] using hg, by omega, trivial⟩
  | succ fuel ih =>
    intro base acc exp ib ia hlt hg
    unfold powLoop2 at hg
    unfold Loop2N
    by_cases hgt : exp > 1
    · rw [if_pos hgt] at hg ⊢
      have ib2 := hI _ _ ib ib
      have hlt2 : exp / 2 < 2 ^ fuel := by rw [Nat.pow_succ] at hlt; omega
      by_cases hodd : (exp / 2) % 2 = 1
      · simp only [hodd, if_true] at hg ⊢
        have ia2 := hI _ _ ia ib2
        obtain ⟨ga2, _, hN⟩ := ih (mul base base) (mul acc (mul base base)) (exp / 2) ib2 ia2 hlt2 hg
        obtain ⟨ga, gb2⟩ := hG _ _ ia ib2 ga2
        exact ⟨ga, fun _ => (hG _ _ ib ib gb2).1, gb2, ga2, hN⟩
      · have hev : (exp / 2) % 2 = 0 := by omega
        simp only [hodd, if_false] at hg ⊢
        obtain ⟨ga, hb2, hN⟩ := ih (mul base base) acc (exp / 2) ib2 ia hlt2 hg
        have gb2 : G (mul base base) := hb2 (by omega)
        exact ⟨ga, fun _ => (hG _ _ ib ib gb2).1, gb2, ga, hN⟩
    · rw [if_neg hgt] at hg ⊢
      exact ⟨hg, fun h => absurd h hgt, trivial⟩

/-- **a good result forces good intermediates**: when an invariant `I` is preserved by the products and
    a product of `I`-values is good only if both factors are, a good `powNat one mul base exp`
    (`exp ≠ 0`) means every product formed on the way (and `base`) was good. -/
theorem powN_of_result
    (hI : ∀ a b, I a → I b → I (mul a b))
    (hG : ∀ a b, I a → I b → G (mul a b) → G a ∧ G b)
    (one base : α) (exp : Nat) (h0 : exp ≠ 0) (h64 : exp < 2 ^ 64) (ib : I base)
    (hg : G (powNat one mul base exp)) : PowN mul G base exp := by
  rw [powNat_eq, if_neg h0] at hg
  obtain ⟨i1, hodd, hle, hback⟩ := loop1_back mul I G hI hG 64 base exp ib h0 h64
  unfold PowN
  by_cases he1 : (powLoop1 mul 64 base exp).2 = 1
  · rw [if_pos he1] at hg
    obtain ⟨gb, hN⟩ := hback hg
    exact ⟨gb, hN, fun h => absurd he1 h⟩
  · rw [if_neg he1] at hg
    obtain ⟨ga, _, hN2⟩ := loop2_back mul I G hI hG 64 _ _ _ i1 i1 (lt_of_le_of_lt hle h64) hg
    obtain ⟨gb, hN⟩ := hback ga
    exact ⟨gb, hN, fun _ => hN2⟩

end abstract

/-! ## 2. rounding to nearest is monotone against a representable bound -/

theorem nat_round_le {m' M K P : Nat} (hP : 0 < P) (h1 : 2 * (m' * P) ≤ 2 * M + P) (h : M ≤ K * P) :
    m' ≤ K := by
  by_contra hlt
  have h2 : (K + 1) * P ≤ m' * P := Nat.mul_le_mul_right P (by omega)
  rw [Nat.add_mul, Nat.one_mul] at h2
  omega

theorem nat_round_ge {m' M K P : Nat} (hP : 0 < P) (h2 : 2 * M ≤ 2 * (m' * P) + P) (h : K * P ≤ M) :
    K ≤ m' := by
  by_contra hlt
  have h3 : (m' + 1) * P ≤ K * P := Nat.mul_le_mul_right P (by omega)
  rw [Nat.add_mul, Nat.one_mul] at h3
  omega

theorem abs_toRat_fin (s : Bool) (m : Nat) (e : Int) :
    |(fin s m e).toRat| = (m : Rat) * (2 : Rat) ^ e := by
  rw [toRat_fin, abs_mul, abs_mul, abs_sgn, one_mul, abs_of_nonneg (Nat.cast_nonneg _),
    abs_of_pos (two_zpow_pos _)]

variable {f : Fmt}

theorem roundDy_not_nan (s : Bool) (M : Nat) (E : Int) : (roundDy f s M E).isNan = false := by
  unfold roundDy
  simp only []
  repeat' split
  all_goals rfl

/-- the bound `m·2^e` (`m < 2^p`, `e ≤ emax`) is below the overflow threshold -/
theorem no_overflow_of_le (hf : f.WF) (s : Bool) (M : Nat) (E : Int) (hM : 0 < M)
    (m : Nat) (e : Int) (hm : m < 2 ^ f.p) (he2 : e ≤ f.emax)
    (h : (M : Rat) * (2 : Rat) ^ E ≤ (m : Rat) * (2 : Rat) ^ e) :
    (roundDy f s M E).isFinite = true := by
  by_contra hnf
  have hnf' : (roundDy f s M E).isFinite = false := by simpa using hnf
  have := roundDy_overflow hf s M E hM hnf'
  unfold thr2 at this
  have hm' : (m : Rat) + 1 ≤ (2 : Rat) ^ f.p := by exact_mod_cast hm
  have he' : (2 : Rat) ^ e ≤ (2 : Rat) ^ f.emax := zpow_le_zpow_right₀ (by norm_num) he2
  have hpos := two_zpow_pos f.emax
  have hpe := two_zpow_pos e
  have h3 : (m : Rat) * (2 : Rat) ^ e ≤ ((2 : Rat) ^ f.p - 1) * (2 : Rat) ^ f.emax :=
    mul_le_mul (by linarith) he' hpe.le (by linarith [Nat.cast_nonneg (α := Rat) m])
  rw [pow_succ] at this
  nlinarith

/-- **monotonicity (upper)**: an exact value below a representable `m·2^e` rounds to at most `m·2^e` -/
theorem roundDy_abs_le (hf : f.WF) (s : Bool) (M : Nat) (E : Int) (hM : 0 < M)
    (m : Nat) (e : Int) (hm : m < 2 ^ f.p) (he1 : f.emin ≤ e) (he2 : e ≤ f.emax)
    (h : (M : Rat) * (2 : Rat) ^ E ≤ (m : Rat) * (2 : Rat) ^ e) :
    (roundDy f s M E).isFinite = true ∧ |(roundDy f s M E).toRat| ≤ (m : Rat) * (2 : Rat) ^ e := by
  have hfin := no_overflow_of_le hf s M E hM m e hm he2 h
  refine ⟨hfin, ?_⟩
  have h2 : (2 : Rat) ≠ 0 := by norm_num
  have hE := two_zpow_pos E
  by_cases hsh : max ((M.log2 : Int) + 1 - f.p) (f.emin - E) ≤ 0
  · rw [roundDy_exact f s M E hsh hfin, mul_assoc, abs_sgn_mul,
      abs_of_nonneg (mul_nonneg (Nat.cast_nonneg _) hE.le)]
    exact h
  · obtain ⟨n, hn⟩ : ∃ n : Nat, (n : Int) = max ((M.log2 : Int) + 1 - f.p) (f.emin - E) :=
      ⟨(max ((M.log2 : Int) + 1 - f.p) (f.emin - E)).toNat, by omega⟩
    have hn0 : 0 < n := by omega
    obtain ⟨m', hval, h1, -⟩ := roundDy_round f hf.hp s M E n hn hn0 hfin
    -- the unit of the result is not above `2^e`
    have hle : E + (n : Int) ≤ e := by
      by_contra hgt
      have hnb : (n : Int) = (M.log2 : Int) + 1 - f.p := by omega
      have hL : ((2 : Rat) ^ M.log2) ≤ (M : Rat) := by exact_mod_cast Nat.log2_self_le hM.ne'
      have h3 : (2 : Rat) ^ (e + (f.p : Int)) ≤ (2 : Rat) ^ ((M.log2 : Int) + E) :=
        zpow_le_zpow_right₀ (by norm_num) (by omega)
      rw [zpow_add₀ h2, zpow_add₀ h2, zpow_natCast, zpow_natCast] at h3
      have h4 : (2 : Rat) ^ M.log2 * (2 : Rat) ^ E ≤ (M : Rat) * (2 : Rat) ^ E :=
        mul_le_mul_of_nonneg_right hL hE.le
      have hm' : (m : Rat) < (2 : Rat) ^ f.p := by exact_mod_cast hm
      have h5 : (m : Rat) * (2 : Rat) ^ e < (2 : Rat) ^ e * (2 : Rat) ^ f.p := by
        rw [mul_comm]; exact mul_lt_mul_of_pos_left hm' (two_zpow_pos e)
      linarith
    obtain ⟨D, hD⟩ : ∃ D : Nat, (D : Int) = e - E - n := ⟨(e - E - n).toNat, by omega⟩
    have he : (2 : Rat) ^ e = (2 : Rat) ^ D * (2 : Rat) ^ n * (2 : Rat) ^ E := by
      have : e = (D : Int) + (n : Int) + E := by omega
      rw [this, zpow_add₀ h2, zpow_add₀ h2, zpow_natCast, zpow_natCast]
    have hMK : M ≤ (m * 2 ^ D) * 2 ^ n := by
      have h6 : (M : Rat) * (2 : Rat) ^ E ≤ ((m : Rat) * 2 ^ D * 2 ^ n) * (2 : Rat) ^ E := by
        rw [he] at h; linarith [h, mul_assoc ((m : Rat)) ((2 : Rat) ^ D * 2 ^ n) ((2 : Rat) ^ E)]
      have h7 := le_of_mul_le_mul_right h6 hE
      exact_mod_cast h7
    have hmK : m' ≤ m * 2 ^ D := nat_round_le (Nat.two_pow_pos n) h1 hMK
    have hmK' : (m' : Rat) ≤ (m : Rat) * 2 ^ D := by exact_mod_cast hmK
    rw [hval, mul_assoc, abs_sgn_mul, abs_of_nonneg (by positivity), he]
    have hn2 : (0 : Rat) < 2 ^ n := by positivity
    calc (m' : Rat) * 2 ^ n * (2 : Rat) ^ E ≤ ((m : Rat) * 2 ^ D) * 2 ^ n * (2 : Rat) ^ E :=
          mul_le_mul_of_nonneg_right (mul_le_mul_of_nonneg_right hmK' hn2.le) hE.le
      _ = (m : Rat) * ((2 : Rat) ^ D * 2 ^ n * (2 : Rat) ^ E) := by ring

/-- **monotonicity (lower)**, against a power of two in the normal range: an exact value `≥ 2^t`
    (`2^t ≥ nmin`) rounds to at least `2^t` -/
theorem roundDy_abs_ge_pow2 (hp : 1 ≤ f.p) (s : Bool) (M : Nat) (E : Int) (hM : 0 < M)
    (t : Int) (ht : f.emin + f.p - 1 ≤ t) (h : (2 : Rat) ^ t ≤ (M : Rat) * (2 : Rat) ^ E)
    (hfin : (roundDy f s M E).isFinite = true) :
    (2 : Rat) ^ t ≤ |(roundDy f s M E).toRat| := by
  have h2 : (2 : Rat) ≠ 0 := by norm_num
  have hE := two_zpow_pos E
  by_cases hsh : max ((M.log2 : Int) + 1 - f.p) (f.emin - E) ≤ 0
  · rw [roundDy_exact f s M E hsh hfin, mul_assoc, abs_sgn_mul,
      abs_of_nonneg (mul_nonneg (Nat.cast_nonneg _) hE.le)]
    exact h
  · obtain ⟨n, hn⟩ : ∃ n : Nat, (n : Int) = max ((M.log2 : Int) + 1 - f.p) (f.emin - E) :=
      ⟨(max ((M.log2 : Int) + 1 - f.p) (f.emin - E)).toNat, by omega⟩
    have hn0 : 0 < n := by omega
    obtain ⟨m', hval, -, h2'⟩ := roundDy_round f hp s M E n hn hn0 hfin
    -- `t ≤ log2 M + E`
    have htl : t ≤ (M.log2 : Int) + E := by
      have hlt : (M : Rat) < (2 : Rat) ^ (M.log2 + 1) := by
        have : M < 2 ^ (M.log2 + 1) := Nat.lt_log2_self
        exact_mod_cast this
      have : (2 : Rat) ^ t < (2 : Rat) ^ (((M.log2 + 1 : Nat) : Int) + E) := by
        rw [zpow_add₀ h2, zpow_natCast]
        exact lt_of_le_of_lt h (mul_lt_mul_of_pos_right hlt hE)
      have := (zpow_lt_zpow_iff_right₀ (by norm_num : (1 : Rat) < 2)).mp this
      push_cast at this
      omega
    have hnb : (n : Int) = (M.log2 : Int) + 1 - f.p := by omega
    have hlog : M.log2 = (f.p - 1) + n := by omega
    have hKM : 2 ^ (f.p - 1) * 2 ^ n ≤ M := by
      rw [← Nat.pow_add, ← hlog]; exact Nat.log2_self_le hM.ne'
    have hK : 2 ^ (f.p - 1) ≤ m' := nat_round_ge (Nat.two_pow_pos n) h2' hKM
    have hK' : (2 : Rat) ^ (f.p - 1) ≤ (m' : Rat) := by exact_mod_cast hK
    rw [hval, mul_assoc, abs_sgn_mul, abs_of_nonneg (by positivity)]
    have hn2 : (0 : Rat) < 2 ^ n := by positivity
    have h3 : (2 : Rat) ^ t ≤ (2 : Rat) ^ ((M.log2 : Int) + E) :=
      zpow_le_zpow_right₀ (by norm_num) htl
    have h4 : (2 : Rat) ^ ((M.log2 : Int) + E) = (2 : Rat) ^ (f.p - 1) * 2 ^ n * (2 : Rat) ^ E := by
      rw [zpow_add₀ h2, zpow_natCast, hlog, pow_add]
    calc (2 : Rat) ^ t ≤ (2 : Rat) ^ (f.p - 1) * 2 ^ n * (2 : Rat) ^ E := by rw [← h4]; exact h3
      _ ≤ (m' : Rat) * 2 ^ n * (2 : Rat) ^ E :=
          mul_le_mul_of_nonneg_right (mul_le_mul_of_nonneg_right hK' hn2.le) hE.le

/-! ## 3. products of canonical floats: magnitudes -/

theorem canonical_fin_bounds (hf : f.WF) {s : Bool} {m : Nat} {e : Int}
    (hc : Canonical f (fin s m e)) : m < 2 ^ f.p ∧ f.emin ≤ e ∧ e ≤ f.emax := by
  have hp := hf.hp
  have h1 := hf.hmin
  have h2 := hf.hmax
  have h3 := two_pow_pred_lt f.p hp
  simp only [Canonical] at hc
  rcases hc with ⟨_, hm, he1, he2⟩ | ⟨hm, he⟩
  · exact ⟨hm, he1, he2⟩
  · exact ⟨by omega, by omega, by omega⟩

theorem nmin_le_one (hf : f.WF) : nmin f ≤ 1 := by
  unfold nmin
  have h1 := hf.hmin
  calc (2 : Rat) ^ (f.emin + f.p - 1) ≤ (2 : Rat) ^ (0 : Int) :=
        zpow_le_zpow_right₀ (by norm_num) (by omega)
    _ = 1 := zpow_zero _

/-- a canonical finite float of magnitude at least `nmin` is normal -/
theorem isNormal_of_nmin_le (hf : f.WF) {x : Fl} (hc : Canonical f x) (hfin : x.isFinite = true)
    (h : nmin f ≤ |x.toRat|) : Fl.isNormal f x = true := by
  cases x with
  | nan => simp [Fl.isFinite] at hfin
  | inf s => simp [Fl.isFinite] at hfin
  | fin s m e =>
    simp only [Fl.isNormal, decide_eq_true_eq]
    by_contra hlt
    simp only [Canonical] at hc
    rcases hc with ⟨hm, _⟩ | ⟨hm, he⟩
    · exact hlt hm
    · subst he
      rw [abs_toRat_fin, nmin_eq f hf.hp] at h
      have hm' : (m : Rat) < (2 : Rat) ^ (f.p - 1) := by exact_mod_cast hm
      have hpos := two_zpow_pos f.emin
      have : (m : Rat) * (2 : Rat) ^ f.emin < (2 : Rat) ^ (f.p - 1) * (2 : Rat) ^ f.emin :=
        mul_lt_mul_of_pos_right hm' hpos
      linarith [mul_comm ((2 : Rat) ^ f.emin) ((2 : Rat) ^ (f.p - 1))]

theorem cast_mul_zpow (m1 m2 : Nat) (e1 e2 : Int) :
    ((m1 * m2 : Nat) : Rat) * (2 : Rat) ^ (e1 + e2) =
      ((m1 : Rat) * (2 : Rat) ^ e1) * ((m2 : Rat) * (2 : Rat) ^ e2) := by
  rw [zpow_add₀ (by norm_num : (2 : Rat) ≠ 0)]; push_cast; ring

/-- `|fl(a·b)| ≤ |a|` when `|b| ≤ 1` (`a` representable) -/
theorem mul_small_left (hf : f.WF) {a b : Fl} (ha : Canonical f a) (fa : a.isFinite = true)
    (fb : b.isFinite = true) (hb1 : |b.toRat| ≤ 1) :
    (Fl.mul f a b).isFinite = true ∧ |(Fl.mul f a b).toRat| ≤ |a.toRat| := by
  cases a with
  | nan => simp [Fl.isFinite] at fa
  | inf s => simp [Fl.isFinite] at fa
  | fin s1 m1 e1 =>
    cases b with
    | nan => simp [Fl.isFinite] at fb
    | inf s => simp [Fl.isFinite] at fb
    | fin s2 m2 e2 =>
      by_cases h0 : m1 * m2 = 0
      · have : Fl.mul f (fin s1 m1 e1) (fin s2 m2 e2) = Fl.zero f (s1 != s2) := by
          simp only [Fl.mul, h0, if_true]
        rw [this, toRat_zero, abs_zero]
        exact ⟨rfl, abs_nonneg _⟩
      · have h1 : 0 < m1 := Nat.pos_of_ne_zero (fun h => h0 (by rw [h, Nat.zero_mul]))
        have h2 : 0 < m2 := Nat.pos_of_ne_zero (fun h => h0 (by rw [h, Nat.mul_zero]))
        obtain ⟨hm, he1, he2⟩ := canonical_fin_bounds hf ha
        rw [mul_fin_eq f s1 s2 m1 m2 e1 e2 h1 h2, abs_toRat_fin]
        rw [abs_toRat_fin] at hb1
        refine roundDy_abs_le hf _ _ _ (Nat.mul_pos h1 h2) m1 e1 hm he1 he2 ?_
        rw [cast_mul_zpow]
        have : (0 : Rat) ≤ (m1 : Rat) * (2 : Rat) ^ e1 :=
          mul_nonneg (Nat.cast_nonneg _) (two_zpow_pos e1).le
        calc ((m1 : Rat) * (2 : Rat) ^ e1) * ((m2 : Rat) * (2 : Rat) ^ e2)
            ≤ ((m1 : Rat) * (2 : Rat) ^ e1) * 1 := mul_le_mul_of_nonneg_left hb1 this
          _ = _ := mul_one _

/-- `|fl(a·b)| ≤ |b|` when `|a| ≤ 1` (`b` representable) -/
theorem mul_small_right (hf : f.WF) {a b : Fl} (hb : Canonical f b) (fa : a.isFinite = true)
    (fb : b.isFinite = true) (ha1 : |a.toRat| ≤ 1) :
    (Fl.mul f a b).isFinite = true ∧ |(Fl.mul f a b).toRat| ≤ |b.toRat| := by
  cases a with
  | nan => simp [Fl.isFinite] at fa
  | inf s => simp [Fl.isFinite] at fa
  | fin s1 m1 e1 =>
    cases b with
    | nan => simp [Fl.isFinite] at fb
    | inf s => simp [Fl.isFinite] at fb
    | fin s2 m2 e2 =>
      by_cases h0 : m1 * m2 = 0
      · have : Fl.mul f (fin s1 m1 e1) (fin s2 m2 e2) = Fl.zero f (s1 != s2) := by
          simp only [Fl.mul, h0, if_true]
        rw [this, toRat_zero, abs_zero]
        exact ⟨rfl, abs_nonneg _⟩
      · have h1 : 0 < m1 := Nat.pos_of_ne_zero (fun h => h0 (by rw [h, Nat.zero_mul]))
        have h2 : 0 < m2 := Nat.pos_of_ne_zero (fun h => h0 (by rw [h, Nat.mul_zero]))
        obtain ⟨hm, he1, he2⟩ := canonical_fin_bounds hf hb
        rw [mul_fin_eq f s1 s2 m1 m2 e1 e2 h1 h2, abs_toRat_fin]
        rw [abs_toRat_fin] at ha1
        refine roundDy_abs_le hf _ _ _ (Nat.mul_pos h1 h2) m2 e2 hm he1 he2 ?_
        rw [cast_mul_zpow]
        have : (0 : Rat) ≤ (m2 : Rat) * (2 : Rat) ^ e2 :=
          mul_nonneg (Nat.cast_nonneg _) (two_zpow_pos e2).le
        calc ((m1 : Rat) * (2 : Rat) ^ e1) * ((m2 : Rat) * (2 : Rat) ^ e2)
            ≤ 1 * ((m2 : Rat) * (2 : Rat) ^ e2) := mul_le_mul_of_nonneg_right ha1 this
          _ = _ := one_mul _

/-- `|fl(a·b)| ≥ 1` when `|a|, |b| ≥ 1` and the product does not overflow -/
theorem mul_big (hf : f.WF) {a b : Fl} (fa : a.isFinite = true) (fb : b.isFinite = true)
    (ha1 : 1 ≤ |a.toRat|) (hb1 : 1 ≤ |b.toRat|) (hfin : (Fl.mul f a b).isFinite = true) :
    1 ≤ |(Fl.mul f a b).toRat| := by
  cases a with
  | nan => simp [Fl.isFinite] at fa
  | inf s => simp [Fl.isFinite] at fa
  | fin s1 m1 e1 =>
    cases b with
    | nan => simp [Fl.isFinite] at fb
    | inf s => simp [Fl.isFinite] at fb
    | fin s2 m2 e2 =>
      rw [abs_toRat_fin] at ha1 hb1
      have h1 : 0 < m1 := by
        rcases Nat.eq_zero_or_pos m1 with h | h
        · rw [h] at ha1; simp at ha1; linarith
        · exact h
      have h2 : 0 < m2 := by
        rcases Nat.eq_zero_or_pos m2 with h | h
        · rw [h] at hb1; simp at hb1; linarith
        · exact h
      rw [mul_fin_eq f s1 s2 m1 m2 e1 e2 h1 h2] at hfin ⊢
      have hmin := hf.hmin
      have := roundDy_abs_ge_pow2 hf.hp (s1 != s2) (m1 * m2) (e1 + e2) (Nat.mul_pos h1 h2) 0
        (by omega) (by
          rw [cast_mul_zpow, zpow_zero]
          calc (1 : Rat) = 1 * 1 := (mul_one 1).symm
            _ ≤ _ := mul_le_mul ha1 hb1 (by norm_num) (by linarith)) hfin
      rwa [zpow_zero] at this

theorem mul_isFinite_inv {a b : Fl} (h : (Fl.mul f a b).isFinite = true) :
    a.isFinite = true ∧ b.isFinite = true := by
  cases a with
  | nan => simp [Fl.mul, Fl.isFinite] at h
  | inf s1 =>
    cases b with
    | nan => simp [Fl.mul, Fl.isFinite] at h
    | inf s2 => simp [Fl.mul, Fl.isFinite] at h
    | fin s2 m2 e2 =>
      by_cases h0 : m2 = 0 <;> simp [Fl.mul, Fl.isFinite, h0] at h
  | fin s1 m1 e1 =>
    cases b with
    | nan => simp [Fl.mul, Fl.isFinite] at h
    | inf s2 =>
      by_cases h0 : m1 = 0 <;> simp [Fl.mul, Fl.isFinite, h0] at h
    | fin s2 m2 e2 => exact ⟨rfl, rfl⟩

/-! ## 4. the two invariants -/

/-- "small": canonical, finite, magnitude at most 1 -/
def Sm (f : Fmt) (x : Fl) : Prop := Canonical f x ∧ x.isFinite = true ∧ |x.toRat| ≤ 1

/-- "big": canonical, not NaN, magnitude at least 1 if finite (so `±∞` is big) -/
def Bg (f : Fmt) (x : Fl) : Prop :=
  Canonical f x ∧ x.isNan = false ∧ (x.isFinite = true → 1 ≤ |x.toRat|)

abbrev Nrm (f : Fmt) (x : Fl) : Prop := Fl.isNormal f x = true

theorem sm_mul (hf : f.WF) (a b : Fl) (ha : Sm f a) (hb : Sm f b) : Sm f (Fl.mul f a b) := by
  obtain ⟨ca, fa, a1⟩ := ha
  obtain ⟨cb, fb, b1⟩ := hb
  obtain ⟨h1, h2⟩ := mul_small_left hf ca fa fb b1
  exact ⟨mul_canonical hf a b, h1, le_trans h2 a1⟩

theorem sm_good (hf : f.WF) (a b : Fl) (ha : Sm f a) (hb : Sm f b) (h : Nrm f (Fl.mul f a b)) :
    Nrm f a ∧ Nrm f b := by
  obtain ⟨ca, fa, a1⟩ := ha
  obtain ⟨cb, fb, b1⟩ := hb
  obtain ⟨h1, h2⟩ := mul_small_left hf ca fa fb b1
  obtain ⟨_, h3⟩ := mul_small_right hf cb fa fb a1
  have hn := nmin_le_of_isNormal hf.hp (mul_isFinite_ok fa fb h1) h
  exact ⟨isNormal_of_nmin_le hf ca fa (le_trans hn h2), isNormal_of_nmin_le hf cb fb (le_trans hn h3)⟩

theorem bg_ne_zero {x : Fl} (hx : Bg f x) : x.isZero = false := by
  cases hz : x.isZero
  · rfl
  · have := hx.2.2 (isZero_isFinite hz)
    rw [toRat_of_isZero hz, abs_zero] at this
    linarith

theorem bg_mul (hf : f.WF) (a b : Fl) (ha : Bg f a) (hb : Bg f b) : Bg f (Fl.mul f a b) := by
  refine ⟨mul_canonical hf a b, ?_, fun hfin => ?_⟩
  · have za := bg_ne_zero ha
    have zb := bg_ne_zero hb
    have na := ha.2.1
    have nb := hb.2.1
    cases a with
    | nan => simp [Fl.isNan] at na
    | inf s1 =>
      cases b with
      | nan => simp [Fl.isNan] at nb
      | inf s2 => rfl
      | fin s2 m2 e2 =>
        have : m2 ≠ 0 := by rintro rfl; simp [Fl.isZero] at zb
        simp [Fl.mul, this, Fl.isNan]
    | fin s1 m1 e1 =>
      cases b with
      | nan => simp [Fl.isNan] at nb
      | inf s2 =>
        have : m1 ≠ 0 := by rintro rfl; simp [Fl.isZero] at za
        simp [Fl.mul, this, Fl.isNan]
      | fin s2 m2 e2 =>
        simp only [Fl.mul]
        split
        · rfl
        · exact roundDy_not_nan _ _ _
  · obtain ⟨fa, fb⟩ := mul_isFinite_inv hfin
    exact mul_big hf fa fb (ha.2.2 fa) (hb.2.2 fb) hfin

theorem bg_good (hf : f.WF) (a b : Fl) (ha : Bg f a) (hb : Bg f b) (h : Nrm f (Fl.mul f a b)) :
    Nrm f a ∧ Nrm f b := by
  obtain ⟨fa, fb⟩ := mul_isFinite_inv (isNormal_isFinite h)
  have h1 := nmin_le_one hf
  exact ⟨isNormal_of_nmin_le hf ha.1 fa (le_trans h1 (ha.2.2 fa)),
    isNormal_of_nmin_le hf hb.1 fb (le_trans h1 (hb.2.2 fb))⟩

/-- **a normal `powNat` result means every intermediate was normal** (base canonical, not NaN) -/
theorem powN_normal_of_result (hf : f.WF) (x : Fl) (hx : Canonical f x) (hnan : x.isNan = false)
    (n : Nat) (h0 : n ≠ 0) (h64 : n < 2 ^ 64)
    (hg : Fl.isNormal f (powNat (Fl.one f) (Fl.mul f) x n) = true) :
    PowN (Fl.mul f) (fun y => Fl.isNormal f y = true) x n := by
  by_cases hs : x.isFinite = true ∧ |x.toRat| ≤ 1
  · exact powN_of_result (Fl.mul f) (Sm f) (Nrm f) (sm_mul hf) (sm_good hf) (Fl.one f) x n h0 h64
      ⟨hx, hs.1, hs.2⟩ hg
  · refine powN_of_result (Fl.mul f) (Bg f) (Nrm f) (bg_mul hf) (bg_good hf) (Fl.one f) x n h0 h64
      ⟨hx, hnan, fun hfin => ?_⟩ hg
    by_contra hlt
    exact hs ⟨hfin, le_of_lt (not_le.mp hlt)⟩

/-! ## 5. `oraclePowFl` without a normality hypothesis -/

theorem recip_not_nan {c : Fl} (hc : c.isFinite = true) (hz : c.isZero = false) :
    (Fl.recip f c).isNan = false := by
  cases c with
  | nan => simp [Fl.isFinite] at hc
  | inf s => simp [Fl.isFinite] at hc
  | fin s m e =>
    have hm : 0 < m := by
      rcases Nat.eq_zero_or_pos m with h | h
      · subst h; simp [Fl.isZero] at hz
      · exact h
    unfold Fl.recip Fl.one
    rw [div_fin_eq f _ _ _ _ _ _ (Nat.two_pow_pos _) hm]
    exact roundDy_not_nan _ _ _

/-- a normal `powi` result means every intermediate was normal: `PowNormal` holds -/
theorem powNormal_of_result (hf : f.WF) (c : Fl) (hc : Canonical f c) (hfin : c.isFinite = true)
    (hz : c.isZero = false) (e : Int) (h0 : e ≠ 0) (he : e.natAbs < 2 ^ 64)
    (hn : Fl.isNormal f (flPowi f c e) = true) : PowNormal f c e := by
  unfold flPowi at hn
  rw [if_neg h0] at hn
  unfold PowNormal
  by_cases hneg : e < 0
  · rw [if_pos hneg] at hn ⊢
    exact powN_normal_of_result hf _ (recip_canonical hf c) (recip_not_nan hfin hz) _ (by omega)
      (by omega) hn
  · rw [if_neg hneg] at hn ⊢
    have hnan : c.isNan = false := by cases c <;> simp_all [Fl.isFinite, Fl.isNan]
    exact powN_normal_of_result hf c hc hnan _ (by omega) (by omega) hn

/-- **Soundness of `oraclePowFl` on the model's own `powi`, no normality hypothesis.**  For every
    canonical `c` (NaN, infinities, zeros, subnormals included) and every exponent whose error count is
    small against the precision, the oracle does not answer `.prop`: either it guards (non-finite or
    zero `c`, non-finite or non-normal result) or — the result being normal — every intermediate of the
    by-squaring computation was normal (`powNormal_of_result`) and `oraclePowFl_sound` applies. -/
theorem oraclePowFl_sound' (hf : f.WF) (c : Fl) (hc : Canonical f c) (e : Int)
    (he : e.natAbs < 2 ^ 64) (hsmall : (powErr e : Rat) * Uom.uro f ≤ 1 / 2) :
    NotProp (oraclePowFl f c e (flPowi f c e)) := by
  by_cases hg : (!(c.isFinite && (flPowi f c e).isFinite) || c.isZero) = true
  · unfold oraclePowFl; rw [if_pos hg]; exact notProp_guard _
  · by_cases hn : Fl.isNormal f (flPowi f c e) = true
    · by_cases h0 : e = 0
      · subst h0
        refine oraclePowFl_notProp_of_le f c 0 _ (fun _ => ?_)
        have : flPowi f c 0 = Fl.one f := by simp [flPowi]
        rw [this, Uom.DurationAcc.one_toRat hf.hp, zpow_zero, sub_self, abs_zero, oracle_uro_eq]
        have := uro_nonneg f
        positivity
      · have hfin : c.isFinite = true := by
          cases hcf : c.isFinite
          · simp [hcf] at hg
          · rfl
        have hz : c.isZero = false := by
          cases hcz : c.isZero
          · rfl
          · simp [hcz] at hg
        exact oraclePowFl_sound hf.hp c e he (powNormal_of_result hf c hc hfin hz e h0 he hn) hsmall
    · unfold oraclePowFl
      rw [if_neg hg]
      simp only []
      rw [if_pos (by simpa using hn)]
      exact notProp_guard _

/-- binary32, `|e| ≤ 2^20` -/
theorem oraclePowFl_sound'_b32 (c : Fl) (hc : Canonical b32 c) (e : Int) (he : e.natAbs ≤ 2 ^ 20) :
    NotProp (oraclePowFl b32 c e (flPowi b32 c e)) := by
  refine oraclePowFl_sound' b32_wf c hc e (lt_of_le_of_lt he (by norm_num)) ?_
  have h1 : ((powErr e : Nat) : Rat) ≤ 2 ^ 21 := by
    have : powErr e ≤ 2 ^ 21 := le_trans (powErr_le e) (by omega)
    exact_mod_cast this
  have hu : Uom.uro b32 = 1 / 2 ^ 24 := by unfold Uom.uro; norm_num [b32]
  rw [hu]
  calc ((powErr e : Nat) : Rat) * (1 / 2 ^ 24) ≤ 2 ^ 21 * (1 / 2 ^ 24) :=
        mul_le_mul_of_nonneg_right h1 (by norm_num)
    _ ≤ 1 / 2 := by norm_num

/-- binary64, `|e| < 2^31` (every `i32` exponent) -/
theorem oraclePowFl_sound'_b64 (c : Fl) (hc : Canonical b64 c) (e : Int) (he : e.natAbs < 2 ^ 31) :
    NotProp (oraclePowFl b64 c e (flPowi b64 c e)) := by
  refine oraclePowFl_sound' b64_wf c hc e (lt_trans he (by norm_num)) ?_
  have h1 : ((powErr e : Nat) : Rat) ≤ 2 ^ 32 := by
    have : powErr e ≤ 2 ^ 32 := le_trans (powErr_le e) (by omega)
    exact_mod_cast this
  rw [uro_b64]
  calc ((powErr e : Nat) : Rat) * (1 / 2 ^ 53) ≤ 2 ^ 32 * (1 / 2 ^ 53) :=
        mul_le_mul_of_nonneg_right h1 (by norm_num)
    _ ≤ 1 / 2 := by norm_num

/-- the task statement, for both formats of the library: `|e| ≤ 2^20` -/
theorem oraclePowFl_sound'_std (hstd : f = b32 ∨ f = b64) (c : Fl) (hc : Canonical f c) (e : Int)
    (he : e.natAbs ≤ 2 ^ 20) : NotProp (oraclePowFl f c e (flPowi f c e)) := by
  rcases hstd with rfl | rfl
  · exact oraclePowFl_sound'_b32 c hc e he
  · exact oraclePowFl_sound'_b64 c hc e (lt_of_le_of_lt he (by norm_num))

/-! ### the corner cases of the case analysis do occur (binary32, kernel-checked)

In each of them an intermediate is *not* normal — `PowNormal` is false — and the oracle guards because
the result is not normal either, as `powNormal_of_result` says it must. -/

/-- subnormal `c = 2^-149`, `e = -1`: `recip c` overflows to `+∞`; the oracle guards ("non-finite") -/
theorem corner_subnormal_recip :
    (Fl.recip b32 (Fl.ofBits b32 1)).isFinite = false ∧
    (flPowi b32 (Fl.ofBits b32 1) (-1)).isFinite = false ∧
    isProp (oraclePowFl b32 (Fl.ofBits b32 1) (-1) (flPowi b32 (Fl.ofBits b32 1) (-1))) = false := by
  refine ⟨?_, ?_, ?_⟩ <;> decide +kernel

/-- huge `c = 2^127`, `e = -3`: `recip c = 2^-127` is subnormal, and so is (a fortiori) the result -/
theorem corner_huge_recip :
    Fl.isNormal b32 (Fl.recip b32 (Fl.ofBits b32 0x7f000000)) = false ∧
    Fl.isNormal b32 (flPowi b32 (Fl.ofBits b32 0x7f000000) (-3)) = false ∧
    isProp (oraclePowFl b32 (Fl.ofBits b32 0x7f000000) (-3)
      (flPowi b32 (Fl.ofBits b32 0x7f000000) (-3))) = false := by
  refine ⟨?_, ?_, ?_⟩ <;> decide +kernel

/-- subnormal `c = 2^-127`, `e = 1` and `e = 2`: the running base is not normal, nor is the result -/
theorem corner_subnormal_base :
    Fl.isNormal b32 (Fl.ofBits b32 0x00400000) = false ∧
    Fl.isNormal b32 (flPowi b32 (Fl.ofBits b32 0x00400000) 1) = false ∧
    Fl.isNormal b32 (flPowi b32 (Fl.ofBits b32 0x00400000) 2) = false ∧
    isProp (oraclePowFl b32 (Fl.ofBits b32 0x00400000) 2
      (flPowi b32 (Fl.ofBits b32 0x00400000) 2)) = false := by
  refine ⟨?_, ?_, ?_, ?_⟩ <;> decide +kernel

end Uom.PowNormalDischarge

#print axioms Uom.PowNormalDischarge.powN_of_result
#print axioms Uom.PowNormalDischarge.roundDy_abs_le
#print axioms Uom.PowNormalDischarge.roundDy_abs_ge_pow2
#print axioms Uom.PowNormalDischarge.powNormal_of_result
#print axioms Uom.PowNormalDischarge.oraclePowFl_sound'
#print axioms Uom.PowNormalDischarge.oraclePowFl_sound'_b32
#print axioms Uom.PowNormalDischarge.oraclePowFl_sound'_b64
#print axioms Uom.PowNormalDischarge.oraclePowFl_sound'_std
#print axioms Uom.PowNormalDischarge.corner_subnormal_recip
#print axioms Uom.PowNormalDischarge.corner_huge_recip
#print axioms Uom.PowNormalDischarge.corner_subnormal_base
