import Mathlib.Tactic.Ring
import Mathlib.Tactic.Linarith
import Mathlib.Tactic.Positivity
import Mathlib.Tactic.FieldSimp
import Mathlib.Algebra.Order.Field.Basic
/-!
# Layer 1: relative-error algebra and the conversion kernel with rounded operations

Generic over a linearly ordered field `K`.  `Approx u k xh x` says that `xh` is `x` after at most `k`
roundings of unit round-off `u` (Higham's `θ_k` / `γ_k` calculus in multiplicative form).
-/

set_option linter.unusedSectionVars false

namespace Uom.Proofs

variable {K : Type*} [Field K] [LinearOrder K] [IsStrictOrderedRing K]

/-- `xh` equals `x` up to `k` roundings of unit round-off `u`:  xh = x·θ with (1-u)^k ≤ θ ≤ (1-u)^-k. -/
def Approx (u : K) (k : ℕ) (xh x : K) : Prop :=
  ∃ θ : K, xh = x * θ ∧ (1 - u) ^ k ≤ θ ∧ θ * (1 - u) ^ k ≤ 1

namespace Approx
variable {u : K} {j k : ℕ} {a a' b b' : K}

theorem refl (x : K) : Approx u 0 x x := ⟨1, by simp, by simp, by simp⟩

theorem mul (_hu0 : 0 ≤ u) (hu1 : u < 1) (ha : Approx u j a' a) (hb : Approx u k b' b) :
    Approx u (j + k) (a' * b') (a * b) := by
  obtain ⟨s, rfl, hs1, hs2⟩ := ha
  obtain ⟨t, rfl, ht1, ht2⟩ := hb
  have hp : 0 < 1 - u := by linarith
  have hj : 0 < (1 - u) ^ j := pow_pos hp j
  have hk : 0 < (1 - u) ^ k := pow_pos hp k
  have hs0 : 0 < s := lt_of_lt_of_le hj hs1
  have ht0 : 0 < t := lt_of_lt_of_le hk ht1
  refine ⟨s * t, by ring, ?_, ?_⟩
  · rw [pow_add]; exact mul_le_mul hs1 ht1 hk.le hs0.le
  · rw [pow_add]
    calc s * t * ((1 - u) ^ j * (1 - u) ^ k) = (s * (1 - u) ^ j) * (t * (1 - u) ^ k) := by ring
      _ ≤ 1 * 1 := mul_le_mul hs2 ht2 (by positivity) (by norm_num)
      _ = 1 := by ring

theorem div (_hu0 : 0 ≤ u) (hu1 : u < 1) (ha : Approx u j a' a) (hb : Approx u k b' b) :
    Approx u (j + k) (a' / b') (a / b) := by
  obtain ⟨s, rfl, hs1, hs2⟩ := ha
  obtain ⟨t, rfl, ht1, ht2⟩ := hb
  have hp : 0 < 1 - u := by linarith
  have hj : 0 < (1 - u) ^ j := pow_pos hp j
  have hk : 0 < (1 - u) ^ k := pow_pos hp k
  have hs0 : 0 < s := lt_of_lt_of_le hj hs1
  have ht0 : 0 < t := lt_of_lt_of_le hk ht1
  refine ⟨s / t, ?_, ?_, ?_⟩
  · rw [mul_div_mul_comm]
  · rw [pow_add, le_div_iff₀ ht0]
    calc (1 - u) ^ j * (1 - u) ^ k * t = (1 - u) ^ j * (t * (1 - u) ^ k) := by ring
      _ ≤ s * 1 := mul_le_mul hs1 ht2 (by positivity) hs0.le
      _ = s := by ring
  · rw [pow_add, div_mul_eq_mul_div, div_le_one ht0]
    calc s * ((1 - u) ^ j * (1 - u) ^ k) = (s * (1 - u) ^ j) * (1 - u) ^ k := by ring
      _ ≤ 1 * t := mul_le_mul hs2 ht1 hk.le (by norm_num)
      _ = t := by ring

/-- more roundings allowed: a weaker statement -/
theorem mono (hu0 : 0 ≤ u) (hu1 : u < 1) {k' : ℕ} (hkk : k ≤ k') (h : Approx u k a' a) :
    Approx u k' a' a := by
  obtain ⟨θ, rfl, h1, h2⟩ := h
  have hp : 0 < 1 - u := by linarith
  have hp1 : 1 - u ≤ 1 := by linarith
  have hk : 0 < (1 - u) ^ k := pow_pos hp k
  have hθ0 : 0 < θ := lt_of_lt_of_le hk h1
  have hle : (1 - u) ^ k' ≤ (1 - u) ^ k := pow_le_pow_of_le_one hp.le hp1 hkk
  refine ⟨θ, rfl, le_trans hle h1, ?_⟩
  exact le_trans (mul_le_mul_of_nonneg_left hle hθ0.le) h2

/-- the approximation of `0` is `0` -/
theorem eq_zero_of_zero (h : Approx u k a' 0) : a' = 0 := by
  obtain ⟨θ, rfl, -, -⟩ := h; simp

/-- the approximated value of a nonzero result is nonzero -/
theorem ne_zero (hu1 : u < 1) (h : Approx u k a' a) (ha : a ≠ 0) : a' ≠ 0 := by
  obtain ⟨θ, rfl, h1, -⟩ := h
  have hp : 0 < 1 - u := by linarith
  have hθ0 : 0 < θ := lt_of_lt_of_le (pow_pos hp k) h1
  exact mul_ne_zero ha hθ0.ne'

/-- explicit absolute bound, multiplicative closed form: `|xh - x|·(1-u)^k ≤ (1 - (1-u)^k)·|x|`,
    i.e. `|xh - x| ≤ ((1-u)^(-k) - 1)·|x|`. -/
theorem abs_sub_le (hu0 : 0 ≤ u) (hu1 : u < 1) (h : Approx u k a' a) :
    |a' - a| * (1 - u) ^ k ≤ (1 - (1 - u) ^ k) * |a| := by
  obtain ⟨θ, rfl, h1, h2⟩ := h
  have hp : 0 < 1 - u := by linarith
  have hp1 : 1 - u ≤ 1 := by linarith
  have hk : 0 < (1 - u) ^ k := pow_pos hp k
  have hk1 : (1 - u) ^ k ≤ 1 := pow_le_one₀ hp.le hp1
  have hθ0 : 0 < θ := lt_of_lt_of_le hk h1
  have e : a * θ - a = a * (θ - 1) := by ring
  rw [e, abs_mul, mul_assoc, mul_comm (1 - (1 - u) ^ k) |a|]
  refine mul_le_mul_of_nonneg_left ?_ (abs_nonneg a)
  -- |θ - 1| * (1-u)^k ≤ 1 - (1-u)^k
  rcases le_total 1 θ with hθ | hθ
  · rw [abs_of_nonneg (by linarith)]
    calc (θ - 1) * (1 - u) ^ k = θ * (1 - u) ^ k - (1 - u) ^ k := by ring
      _ ≤ 1 - (1 - u) ^ k := by linarith
  · rw [abs_of_nonpos (by linarith)]
    have h3 : 1 - θ ≤ 1 - (1 - u) ^ k := by linarith
    have h4 : 0 ≤ 1 - θ := by linarith
    calc -(θ - 1) * (1 - u) ^ k = (1 - θ) * (1 - u) ^ k := by ring
      _ ≤ (1 - θ) * 1 := mul_le_mul_of_nonneg_left hk1 h4
      _ ≤ 1 - (1 - u) ^ k := by linarith

/-- the same bound in the usual `zpow` form -/
theorem abs_sub_le' (hu0 : 0 ≤ u) (hu1 : u < 1) (h : Approx u k a' a) :
    |a' - a| ≤ ((1 - u) ^ (-(k : ℤ)) - 1) * |a| := by
  have hp : 0 < 1 - u := by linarith
  have hk : 0 < (1 - u) ^ k := pow_pos hp k
  have h0 := abs_sub_le hu0 hu1 h
  have e : ((1 - u) ^ (-(k : ℤ)) - 1) * |a| = ((1 - (1 - u) ^ k) * |a|) / (1 - u) ^ k := by
    rw [zpow_neg, zpow_natCast]; field_simp
  rw [e, le_div_iff₀ hk]; exact h0

/-- Bernoulli: `1 - k u ≤ (1-u)^k` -/
theorem one_sub_mul_le_pow (hu0 : 0 ≤ u) (hu1 : u < 1) (k : ℕ) : 1 - (k : K) * u ≤ (1 - u) ^ k := by
  induction k with
  | zero => simp
  | succ n ih =>
    have hp : 0 < 1 - u := by linarith
    have hn : (0 : K) ≤ n := Nat.cast_nonneg n
    rw [pow_succ]
    push_cast
    have : (1 - (n : K) * u) * (1 - u) ≤ (1 - u) ^ n * (1 - u) := mul_le_mul_of_nonneg_right ih hp.le
    nlinarith [mul_nonneg hn (mul_nonneg hu0 hu0)]

/-- first-order form (Higham's `γ_k = k u / (1 - k u)`): `|xh - x|·(1 - k u) ≤ k u·|x|` -/
theorem abs_sub_le_gamma (hu0 : 0 ≤ u) (hu1 : u < 1) (h : Approx u k a' a) :
    |a' - a| * (1 - (k : K) * u) ≤ (k : K) * u * |a| := by
  have hp : 0 < 1 - u := by linarith
  have hB := one_sub_mul_le_pow hu0 hu1 k
  have h0 := abs_sub_le hu0 hu1 h
  have hd : 0 ≤ |a' - a| := abs_nonneg _
  have ha : 0 ≤ |a| := abs_nonneg _
  calc |a' - a| * (1 - (k : K) * u) ≤ |a' - a| * (1 - u) ^ k := mul_le_mul_of_nonneg_left hB hd
    _ ≤ (1 - (1 - u) ^ k) * |a| := h0
    _ ≤ (k : K) * u * |a| := mul_le_mul_of_nonneg_right (by linarith) ha

end Approx

/-- transitivity: composing approximations adds the rounding counts -/
theorem Approx.trans {u : K} {j k : ℕ} {a b c : K} (hu1 : u < 1)
    (h1 : Approx u j a b) (h2 : Approx u k b c) : Approx u (j + k) a c := by
  obtain ⟨s, rfl, hs1, hs2⟩ := h1
  obtain ⟨t, rfl, ht1, ht2⟩ := h2
  have hp : 0 < 1 - u := by linarith
  have hj : 0 < (1 - u) ^ j := pow_pos hp j
  have hk : 0 < (1 - u) ^ k := pow_pos hp k
  have hs0 : 0 < s := lt_of_lt_of_le hj hs1
  have ht0 : 0 < t := lt_of_lt_of_le hk ht1
  refine ⟨t * s, by ring, ?_, ?_⟩
  · rw [pow_add, mul_comm]; exact mul_le_mul ht1 hs1 hj.le ht0.le
  · rw [pow_add]
    calc t * s * ((1 - u) ^ j * (1 - u) ^ k) = (s * (1 - u) ^ j) * (t * (1 - u) ^ k) := by ring
      _ ≤ 1 * 1 := mul_le_mul hs2 ht2 (by positivity) (by norm_num)
      _ = 1 := by ring

/-- Standard model of rounding: fl x = x(1+δ), |δ| ≤ u (for x in the normal range `N`). -/
structure StdModel (fl : K → K) (u : K) (N : K → Prop) : Prop where
  u_nonneg : 0 ≤ u
  u_lt : u < 1
  rel : ∀ x, N x → ∃ δ, fl x = x * (1 + δ) ∧ |δ| ≤ u

theorem Approx.round {fl : K → K} {u : K} {N : K → Prop} (M : StdModel fl u N) {k : ℕ} {x' x : K}
    (h : Approx u k x' x) (hN : N x') : Approx u (k + 1) (fl x') x := by
  obtain ⟨θ, rfl, h1, h2⟩ := h
  obtain ⟨δ, hδ, hδu⟩ := M.rel _ hN
  have hp : 0 < 1 - u := by linarith [M.u_lt]
  have hk : 0 < (1 - u) ^ k := pow_pos hp k
  have hθ0 : 0 < θ := lt_of_lt_of_le hk h1
  have hd := abs_le.mp hδu
  refine ⟨θ * (1 + δ), by rw [hδ]; ring, ?_, ?_⟩
  · rw [pow_succ]; exact mul_le_mul h1 (by linarith) hp.le hθ0.le
  · rw [pow_succ]
    have : (1 + δ) * (1 - u) ≤ 1 := by nlinarith [M.u_nonneg]
    calc θ * (1 + δ) * ((1 - u) ^ k * (1 - u)) = (θ * (1 - u) ^ k) * ((1 + δ) * (1 - u)) := by ring
      _ ≤ 1 * 1 := mul_le_mul h2 this (by nlinarith) (by norm_num)
      _ = 1 := by ring

/-- one rounding of an exact value -/
theorem Approx.round0 {fl : K → K} {u : K} {N : K → Prop} (M : StdModel fl u N) {x : K} (hN : N x) :
    Approx u 1 (fl x) x := by
  simpa using Approx.round M (Approx.refl (u := u) x) hN

/-- absolute error of a single rounding: `|fl x - x| ≤ u·|x|` -/
theorem StdModel.abs_sub_le {fl : K → K} {u : K} {N : K → Prop} (M : StdModel fl u N) {x : K} (hN : N x) :
    |fl x - x| ≤ u * |x| := by
  obtain ⟨δ, hδ, hδu⟩ := M.rel _ hN
  have e : fl x - x = δ * x := by rw [hδ]; ring
  rw [e, abs_mul]
  exact mul_le_mul_of_nonneg_right hδu (abs_nonneg x)

/-! ## The conversion kernel with rounded operations -/

/-- to_base with rounded operations: branch `coef ≥ f`: fl(fl(v + c) * fl(coef / f));
    else fl(fl(fl(v + c) * coef) / f) -/
def toBaseR (fl : K → K) (coef c f v : K) : K :=
  if f ≤ coef then fl (fl (v + c) * fl (coef / f)) else fl (fl (fl (v + c) * coef) / f)

/-- from_base with rounded operations -/
def fromBaseR (fl : K → K) (coef c f v : K) : K :=
  if coef < f then fl (fl (v * fl (f / coef)) - c) else fl (fl (v / fl (coef / f)) - c)

/-- the scaled part of `fromBaseR` (before the subtraction of the constant) -/
def fromBaseScaledR (fl : K → K) (coef f v : K) : K :=
  if coef < f then fl (v * fl (f / coef)) else fl (v / fl (coef / f))

theorem fromBaseR_eq (fl : K → K) (coef c f v : K) :
    fromBaseR fl coef c f v = fl (fromBaseScaledR fl coef f v - c) := by
  unfold fromBaseR fromBaseScaledR; split <;> rfl

/-- "every argument handed to `fl` by `toBaseR` is in the normal range" -/
structure ToBaseN (fl : K → K) (N : K → Prop) (coef c f v : K) : Prop where
  add : N (v + c)
  /-- branch `f ≤ coef` -/
  quot : f ≤ coef → N (coef / f)
  prod₁ : f ≤ coef → N (fl (v + c) * fl (coef / f))
  /-- branch `coef < f` -/
  prod₂ : ¬ f ≤ coef → N (fl (v + c) * coef)
  quot₂ : ¬ f ≤ coef → N (fl (fl (v + c) * coef) / f)

/-- "every argument handed to `fl` by the scaled part of `fromBaseR` is in the normal range" -/
structure FromBaseScaledN (fl : K → K) (N : K → Prop) (coef f v : K) : Prop where
  /-- branch `coef < f` -/
  quot₁ : coef < f → N (f / coef)
  prod₁ : coef < f → N (v * fl (f / coef))
  /-- branch `f ≤ coef` -/
  quot₂ : ¬ coef < f → N (coef / f)
  div₂ : ¬ coef < f → N (v / fl (coef / f))

section kernel
variable {fl : K → K} {u : K} {N : K → Prop} {coef c f v : K}

theorem toBaseR_approx (M : StdModel fl u N) (H : ToBaseN fl N coef c f v) :
    Approx u 3 (toBaseR fl coef c f v) ((v + c) * coef / f) := by
  have hu0 := M.u_nonneg
  have hu1 := M.u_lt
  unfold toBaseR
  split
  next h =>
    have h1 : Approx u 1 (fl (v + c)) (v + c) := Approx.round0 M H.add
    have h2 : Approx u 1 (fl (coef / f)) (coef / f) := Approx.round0 M (H.quot h)
    have h3 : Approx u (1 + 1) (fl (v + c) * fl (coef / f)) ((v + c) * (coef / f)) :=
      Approx.mul hu0 hu1 h1 h2
    have h4 := Approx.round M h3 (H.prod₁ h)
    rw [mul_div_assoc]; exact h4
  next h =>
    have h1 : Approx u 1 (fl (v + c)) (v + c) := Approx.round0 M H.add
    have h2 : Approx u (1 + 0) (fl (v + c) * coef) ((v + c) * coef) :=
      Approx.mul hu0 hu1 h1 (Approx.refl coef)
    have h3 : Approx u (1 + 0 + 1) (fl (fl (v + c) * coef)) ((v + c) * coef) :=
      Approx.round M h2 (H.prod₂ h)
    have h4 : Approx u (1 + 0 + 1 + 0) (fl (fl (v + c) * coef) / f) ((v + c) * coef / f) :=
      Approx.div hu0 hu1 h3 (Approx.refl f)
    exact Approx.round M h4 (H.quot₂ h)

/-- the scaled part of `from_base` (two roundings) -/
theorem fromBaseScaledR_approx (M : StdModel fl u N) (H : FromBaseScaledN fl N coef f v) :
    Approx u 2 (fromBaseScaledR fl coef f v) (v * f / coef) := by
  have hu0 := M.u_nonneg
  have hu1 := M.u_lt
  unfold fromBaseScaledR
  split
  next h =>
    have h2 : Approx u 1 (fl (f / coef)) (f / coef) := Approx.round0 M (H.quot₁ h)
    have h3 : Approx u (0 + 1) (v * fl (f / coef)) (v * (f / coef)) :=
      Approx.mul hu0 hu1 (Approx.refl v) h2
    have h4 := Approx.round M h3 (H.prod₁ h)
    rw [mul_div_assoc]; exact h4
  next h =>
    have h2 : Approx u 1 (fl (coef / f)) (coef / f) := Approx.round0 M (H.quot₂ h)
    have h3 : Approx u (0 + 1) (v / fl (coef / f)) (v / (coef / f)) :=
      Approx.div hu0 hu1 (Approx.refl v) h2
    have h4 := Approx.round M h3 (H.div₂ h)
    have e : v * f / coef = v / (coef / f) := (div_div_eq_mul_div v coef f).symm
    rw [e]; exact h4

/-- the two branch-wise statements of the scaled part, spelled out -/
theorem fromBaseR_scaled_approx (M : StdModel fl u N) (H : FromBaseScaledN fl N coef f v) :
    (coef < f → Approx u 2 (fl (v * fl (f / coef))) (v * f / coef)) ∧
    (¬ coef < f → Approx u 2 (fl (v / fl (coef / f))) (v * f / coef)) := by
  have h := fromBaseScaledR_approx M H
  unfold fromBaseScaledR at h
  constructor
  · intro hlt; rwa [if_pos hlt] at h
  · intro hlt; rwa [if_neg hlt] at h

/-- `from_base` without a constant term: three roundings (the `- 0` is one more `fl`) -/
theorem fromBaseR_approx_zero (M : StdModel fl u N) (H : FromBaseScaledN fl N coef f v)
    (Hsub : N (fromBaseScaledR fl coef f v - 0)) :
    Approx u 3 (fromBaseR fl coef 0 f v) (v * f / coef) := by
  rw [fromBaseR_eq]
  have h := fromBaseScaledR_approx M H
  have h' : Approx u 2 (fromBaseScaledR fl coef f v - 0) (v * f / coef) := by rwa [sub_zero]
  exact Approx.round M h' Hsub

/-- `from_base` with a constant term: absolute error.
    With `y = v·f/coef` (exact scaled value) and `ρ = (1-u)^(-2) - 1` (two roundings):
    `|fromBaseR - (y - c)| ≤ ρ·|y|·(1+u) + u·|y - c|`. -/
theorem fromBaseR_abs_le (M : StdModel fl u N) (H : FromBaseScaledN fl N coef f v)
    (Hsub : N (fromBaseScaledR fl coef f v - c)) :
    |fromBaseR fl coef c f v - (v * f / coef - c)| ≤
      ((1 - u) ^ (-(2 : ℤ)) - 1) * |v * f / coef| * (1 + u) + u * |v * f / coef - c| := by
  have hu0 := M.u_nonneg
  have hu1 := M.u_lt
  rw [fromBaseR_eq]
  set y := v * f / coef with hy
  set yh := fromBaseScaledR fl coef f v with hyh
  have hA : Approx u 2 yh y := fromBaseScaledR_approx M H
  have h1 : |yh - y| ≤ ((1 - u) ^ (-(2 : ℤ)) - 1) * |y| := by
    have := Approx.abs_sub_le' hu0 hu1 hA
    simpa using this
  have h2 : |fl (yh - c) - (yh - c)| ≤ u * |yh - c| := M.abs_sub_le Hsub
  have h3 : |yh - c| ≤ |yh - y| + |y - c| := by
    have : yh - c = (yh - y) + (y - c) := by ring
    rw [this]; exact abs_add_le _ _
  have h4 : |fl (yh - c) - (y - c)| ≤ |fl (yh - c) - (yh - c)| + |yh - y| := by
    have : fl (yh - c) - (y - c) = (fl (yh - c) - (yh - c)) + (yh - y) := by ring
    rw [this]; exact abs_add_le _ _
  have h5 : u * |yh - c| ≤ u * (|yh - y| + |y - c|) := mul_le_mul_of_nonneg_left h3 hu0
  have h6 : |yh - y| * (1 + u) ≤ ((1 - u) ^ (-(2 : ℤ)) - 1) * |y| * (1 + u) :=
    mul_le_mul_of_nonneg_right h1 (by linarith)
  calc |fl (yh - c) - (y - c)| ≤ u * (|yh - y| + |y - c|) + |yh - y| := by linarith
    _ = |yh - y| * (1 + u) + u * |y - c| := by ring
    _ ≤ _ := by linarith

/-- the same, relative to the computed result instead of the exact one:
    `|r - (y - c)|·(1-u) ≤ ρ·|y| + u·|r|` with `r = fromBaseR …`. -/
theorem fromBaseR_abs_le_result (M : StdModel fl u N) (H : FromBaseScaledN fl N coef f v)
    (Hsub : N (fromBaseScaledR fl coef f v - c)) :
    |fromBaseR fl coef c f v - (v * f / coef - c)| ≤
      ((1 - u) ^ (-(2 : ℤ)) - 1) * |v * f / coef| + u / (1 - u) * |fromBaseR fl coef c f v| := by
  have hu0 := M.u_nonneg
  have hu1 := M.u_lt
  have hp : 0 < 1 - u := by linarith
  rw [fromBaseR_eq]
  set y := v * f / coef with hy
  set yh := fromBaseScaledR fl coef f v with hyh
  have hA : Approx u 2 yh y := fromBaseScaledR_approx M H
  have h1 : |yh - y| ≤ ((1 - u) ^ (-(2 : ℤ)) - 1) * |y| := by
    have := Approx.abs_sub_le' hu0 hu1 hA
    simpa using this
  -- |fl z - z| ≤ u/(1-u) |fl z|
  have hR : Approx u 1 (fl (yh - c)) (yh - c) := Approx.round0 M Hsub
  have h2 : |fl (yh - c) - (yh - c)| ≤ u / (1 - u) * |fl (yh - c)| := by
    obtain ⟨θ, hθ, hθ1, hθ2⟩ := hR
    rw [pow_one] at hθ1 hθ2
    have hθ0 : 0 < θ := lt_of_lt_of_le hp hθ1
    have e : fl (yh - c) - (yh - c) = (yh - c) * (θ - 1) := by rw [hθ]; ring
    have hθb : |θ - 1| ≤ u / (1 - u) * θ := by
      rw [div_mul_eq_mul_div, le_div_iff₀ hp]
      rcases le_total 1 θ with h | h
      · rw [abs_of_nonneg (by linarith)]; nlinarith
      · rw [abs_of_nonpos (by linarith)]; nlinarith
    rw [e, hθ, abs_mul, abs_mul, abs_of_pos hθ0]
    calc |yh - c| * |θ - 1| ≤ |yh - c| * (u / (1 - u) * θ) :=
          mul_le_mul_of_nonneg_left hθb (abs_nonneg _)
      _ = u / (1 - u) * (|yh - c| * θ) := by ring
  have h4 : |fl (yh - c) - (y - c)| ≤ |fl (yh - c) - (yh - c)| + |yh - y| := by
    have : fl (yh - c) - (y - c) = (fl (yh - c) - (yh - c)) + (yh - y) := by ring
    rw [this]; exact abs_add_le _ _
  linarith

/-- hypotheses for the round trip `fromBaseR ∘ toBaseR` -/
theorem roundtrip_approx (M : StdModel fl u N) (hcoef : coef ≠ 0) (hf : f ≠ 0)
    (H1 : ToBaseN fl N coef 0 f v)
    (H2 : FromBaseScaledN fl N coef f (toBaseR fl coef 0 f v))
    (H3 : N (fromBaseScaledR fl coef f (toBaseR fl coef 0 f v) - 0)) :
    Approx u 6 (fromBaseR fl coef 0 f (toBaseR fl coef 0 f v)) v := by
  have hu0 := M.u_nonneg
  have hu1 := M.u_lt
  set w := toBaseR fl coef 0 f v with hw
  have hA : Approx u 3 w (v * coef / f) := by
    have := toBaseR_approx M H1
    rwa [add_zero] at this
  have hB : Approx u 3 (fromBaseR fl coef 0 f w) (w * f / coef) := fromBaseR_approx_zero M H2 H3
  -- w * f / coef ≈₃ v
  have hC : Approx u (3 + 0 + 0) (w * f / coef) (v * coef / f * f / coef) :=
    Approx.div hu0 hu1 (Approx.mul hu0 hu1 hA (Approx.refl f)) (Approx.refl coef)
  have e : v * coef / f * f / coef = v := by field_simp
  rw [e] at hC
  exact Approx.trans hu1 hB hC

end kernel

end Uom.Proofs

#print axioms Uom.Proofs.Approx.mono
#print axioms Uom.Proofs.Approx.abs_sub_le
#print axioms Uom.Proofs.Approx.abs_sub_le'
#print axioms Uom.Proofs.Approx.abs_sub_le_gamma
#print axioms Uom.Proofs.Approx.round
#print axioms Uom.Proofs.toBaseR_approx
#print axioms Uom.Proofs.fromBaseR_scaled_approx
#print axioms Uom.Proofs.fromBaseR_approx_zero
#print axioms Uom.Proofs.fromBaseR_abs_le
#print axioms Uom.Proofs.fromBaseR_abs_le_result
#print axioms Uom.Proofs.roundtrip_approx
