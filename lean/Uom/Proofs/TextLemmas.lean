import Uom.Model.Text
import Uom.Model.LabelCheck

namespace Uom

/-- well-formed: the code fits in `len` bytes -/
def Str.WF (s : Str) : Prop := s.code < 256 ^ s.len

def Str.wfb (s : Str) : Bool := decide (s.code < 256 ^ s.len)

theorem Str.wfb_iff (s : Str) : s.wfb = true ↔ s.WF := by
  simp [Str.wfb, Str.WF]

instance (s : Str) : Decidable s.WF := decidable_of_iff _ (Str.wfb_iff s)

theorem Str.bytes_length (s : Str) : s.bytes.length = s.len := by
  simp [Str.bytes]

theorem Str.bytes_lt (s : Str) : ∀ b ∈ s.bytes, b < 256 := by
  intro b hb
  simp only [Str.bytes, List.mem_map] at hb
  obtain ⟨i, _, rfl⟩ := hb
  exact Nat.mod_lt _ (by decide)

theorem Str.getElem?_bytes (s : Str) (i : Nat) :
    s.bytes[i]? = if i < s.len then some (s.code / 256 ^ (s.len - 1 - i) % 256) else none := by
  simp only [Str.bytes, List.getElem?_map]
  split <;> simp_all

theorem Str.bytes_succ (n c : Nat) :
    (Str.mk (n + 1) c).bytes = (Str.mk n (c / 256)).bytes ++ [c % 256] := by
  simp only [Str.bytes, List.range_succ, List.map_append, List.map_cons, List.map_nil]
  congr 1
  · apply List.map_congr_left
    intro i hi
    have hi : i < n := by simpa using hi
    have : n + 1 - 1 - i = (n - 1 - i) + 1 := by omega
    rw [this, Nat.pow_succ, Nat.mul_comm, Nat.div_div_eq_div_mul]
  · simp

theorem Str.foldl_bytes (n c : Nat) (h : c < 256 ^ n) :
    (Str.mk n c).bytes.foldl (fun acc b => acc * 256 + b) 0 = c := by
  induction n generalizing c with
  | zero => simp [Str.bytes]; omega
  | succ n ih =>
    rw [Str.bytes_succ, List.foldl_append, ih (c / 256)]
    · simp only [List.foldl_cons, List.foldl_nil]; omega
    · rw [Nat.pow_succ] at h; omega

theorem Str.ofBytes_bytes {s : Str} (h : s.WF) : Str.ofBytes s.bytes = s := by
  cases s with
  | mk n c =>
    simp only [Str.ofBytes, Str.bytes_length, Str.foldl_bytes n c h]

theorem Str.bytes_inj {s t : Str} (hs : s.WF) (ht : t.WF) (h : s.bytes = t.bytes) : s = t := by
  rw [← Str.ofBytes_bytes hs, ← Str.ofBytes_bytes ht, h]

theorem Str.bytes_eq_iff {s t : Str} (hs : s.WF) (ht : t.WF) : s.bytes = t.bytes ↔ s = t :=
  ⟨Str.bytes_inj hs ht, fun h => h ▸ rfl⟩

/-! ### 2. first / last bytes -/

theorem Str.firstBytes_eq_take (s : Str) (k : Nat) : s.firstBytes k = s.bytes.take k := by
  apply List.ext_getElem?
  intro i
  simp only [Str.firstBytes, List.getElem?_take, Str.getElem?_bytes]
  by_cases h1 : i < k <;> by_cases h2 : i < s.len
  · have h3 : i < min k s.len := by omega
    simp only [h1, h2, h3, if_true]
    rw [Nat.div_div_eq_div_mul, ← Nat.pow_add]
    have : s.len - min k s.len + (min k s.len - 1 - i) = s.len - 1 - i := by omega
    rw [this]
  · have h3 : ¬ i < min k s.len := by omega
    simp [h1, h2, h3]
  · have h3 : ¬ i < min k s.len := by omega
    simp [h1, h3]
  · have h3 : ¬ i < min k s.len := by omega
    simp [h1, h3]

theorem Str.mod_pow_div_mod (c k j : Nat) (h : j < k) :
    c % 256 ^ k / 256 ^ j % 256 = c / 256 ^ j % 256 := by
  have hk : k = j + 1 + (k - j - 1) := by omega
  rw [hk, Nat.pow_add, Nat.pow_succ, Nat.mul_assoc, Nat.mod_mul_right_div_self,
    Nat.mod_mul_right_mod]

theorem Str.lastBytes_eq (s : Str) (k : Nat) : s.lastBytes k = s.bytes.drop (s.len - k) := by
  apply List.ext_getElem?
  intro i
  simp only [Str.lastBytes, List.getElem?_drop, Str.getElem?_bytes]
  by_cases h1 : i < min k s.len
  · have h2 : s.len - k + i < s.len := by omega
    simp only [h1, h2, if_true]
    rw [Str.mod_pow_div_mod _ _ _ (by omega)]
    have : s.len - 1 - (s.len - k + i) = min k s.len - 1 - i := by omega
    rw [this]
  · have h2 : ¬ s.len - k + i < s.len := by omega
    simp [h1, h2]

/-! ### 3. the whitespace probes look at no more than three bytes -/

theorem wsPrefixLen_cons3 (a b c : Nat) (rest : Bytes) :
    wsPrefixLen (a :: b :: c :: rest) = wsPrefixLen [a, b, c] := by
  simp only [wsPrefixLen]
  split
  · rfl
  · split <;> simp_all
    split <;> simp_all

theorem wsPrefixLen_take3 (l : Bytes) : wsPrefixLen l = wsPrefixLen (l.take 3) := by
  rcases l with _ | ⟨a, _ | ⟨b, _ | ⟨c, rest⟩⟩⟩
  · rfl
  · rfl
  · rfl
  · exact wsPrefixLen_cons3 a b c rest

/-- `wsSuffixLen` as a function of the reversed list -/
def wsSuffixRev (r : Bytes) : Nat :=
  match r with
  | [] => 0
  | b :: _ =>
    if (0x09 ≤ b ∧ b ≤ 0x0d) ∨ b = 0x20 then 1
    else
      let last2 := (r.take 2).reverse
      let last3 := (r.take 3).reverse
      if last2.length = 2 ∧ wsPrefixLen last2 = 2 then 2
      else if last3.length = 3 ∧ wsPrefixLen last3 = 3 then 3
      else 0

theorem wsSuffixLen_eq_rev (s : Bytes) : wsSuffixLen s = wsSuffixRev s.reverse := rfl

theorem wsSuffixRev_take3 (r : Bytes) : wsSuffixRev r = wsSuffixRev (r.take 3) := by
  rcases r with _ | ⟨a, _ | ⟨b, _ | ⟨c, rest⟩⟩⟩
  · rfl
  · rfl
  · rfl
  · simp [wsSuffixRev]

theorem wsSuffixLen_drop3 (l : Bytes) : wsSuffixLen l = wsSuffixLen (l.drop (l.length - 3)) := by
  rw [wsSuffixLen_eq_rev, wsSuffixLen_eq_rev, List.reverse_drop, wsSuffixRev_take3 l.reverse]
  by_cases h : 3 ≤ l.length
  · have : l.length - (l.length - 3) = 3 := by omega
    rw [this]
  · have : l.length - (l.length - 3) = l.length := by omega
    rw [this, List.take_of_length_le (by simp; omega), List.take_of_length_le (by simp)]

/-! ### 4. edge-clean labels are fixed points of `trim` -/

theorem trimStart_of_wsPrefixLen_eq_zero {l : Bytes} (h : wsPrefixLen l = 0) : trimStart l = l := by
  unfold trimStart
  cases l.length with
  | zero => rfl
  | succ n => simp [trimStartFuel, h]

theorem trimEnd_of_wsSuffixLen_eq_zero {l : Bytes} (h : wsSuffixLen l = 0) : trimEnd l = l := by
  unfold trimEnd
  cases l.length with
  | zero => rfl
  | succ n => simp [trimEndFuel, h]

theorem trim_of_edges {l : Bytes} (h1 : wsPrefixLen l = 0) (h2 : wsSuffixLen l = 0) : trim l = l := by
  rw [trim, trimStart_of_wsPrefixLen_eq_zero h1, trimEnd_of_wsSuffixLen_eq_zero h2]

theorem Str.edgeClean_iff (s : Str) :
    s.edgeClean = true ↔ wsPrefixLen s.bytes = 0 ∧ wsSuffixLen s.bytes = 0 := by
  have h1 : wsPrefixLen (s.firstBytes 3) = wsPrefixLen s.bytes := by
    rw [Str.firstBytes_eq_take, ← wsPrefixLen_take3]
  have h2 : wsSuffixLen (s.lastBytes 3) = wsSuffixLen s.bytes := by
    rw [Str.lastBytes_eq, wsSuffixLen_drop3 s.bytes, Str.bytes_length]
  simp [Str.edgeClean, h1, h2]

/-- **main lemma**: a label that neither begins nor ends with a `White_Space` character is unchanged
    by `trim` (well-formedness is not needed for this direction) -/
theorem Str.edgeClean_trim {s : Str} (h : s.edgeClean = true) : trim s.bytes = s.bytes := by
  obtain ⟨h1, h2⟩ := (Str.edgeClean_iff s).1 h
  exact trim_of_edges h1 h2

/-! ### 5. `Str`-level lookup = byte-level lookup -/

theorem Str.beq_iff_eq (a b : Str) : (a == b) = true ↔ a = b := by
  cases a; cases b
  simp [BEq.beq, instBEqStr.beq]

instance : LawfulBEq Str where
  eq_of_beq h := (Str.beq_iff_eq _ _).1 h
  rfl := (Str.beq_iff_eq _ _).2 rfl

theorem Str.beq_eq_bytes_beq {a b : Str} (ha : a.WF) (hb : b.WF) : (a == b) = (a.bytes == b.bytes) := by
  rw [Bool.eq_iff_iff, Str.beq_iff_eq, _root_.beq_iff_eq, Str.bytes_eq_iff ha hb]

/-- the byte-level labels of a quantity, in declaration order -/
def QuantityDecl.labels (q : QuantityDecl) : List Labels :=
  q.units.map fun u => ⟨u.abbr.bytes, u.sing.bytes, u.plur.bytes⟩

/-- all labels of the quantity are well-formed -/
def QuantityDecl.LabelsWF (q : QuantityDecl) : Prop :=
  ∀ u ∈ q.units, u.abbr.WF ∧ u.sing.WF ∧ u.plur.WF

/-- the match predicate of the generated `match`, at `Str` level -/
def labelMatches (l : Str) (u : UnitDecl) : Bool := u.abbr == l || u.sing == l || u.plur == l

theorem findIdx?_congr_mem {α : Type} {p q : α → Bool} :
    ∀ {xs : List α}, (∀ x ∈ xs, p x = q x) → xs.findIdx? p = xs.findIdx? q
  | [], _ => rfl
  | x :: xs, h => by
    have hx : p x = q x := h x (by simp)
    have ih : xs.findIdx? p = xs.findIdx? q := findIdx?_congr_mem fun y hy => h y (by simp [hy])
    simp [List.findIdx?_cons, hx, ih]

theorem lookupStr_eq_find? (q : QuantityDecl) (l : Str) :
    lookupStr q l = q.units.find? (labelMatches l) := rfl

theorem lookupLabel_eq_findIdx? {q : QuantityDecl} {l : Str} (hq : q.LabelsWF) (hl : l.WF) :
    lookupLabel q.labels l.bytes = q.units.findIdx? (labelMatches l) := by
  rw [lookupLabel, QuantityDecl.labels, List.findIdx?_map]
  apply findIdx?_congr_mem
  intro u hu
  obtain ⟨h1, h2, h3⟩ := hq u hu
  simp only [Function.comp, labelMatches, Str.beq_eq_bytes_beq h1 hl, Str.beq_eq_bytes_beq h2 hl,
    Str.beq_eq_bytes_beq h3 hl]

/-- the unit returned by the `Str`-level lookup is the one at the index found by the byte-level lookup -/
theorem lookupStr_eq_lookupLabel_bind {q : QuantityDecl} {l : Str} (hq : q.LabelsWF) (hl : l.WF) :
    lookupStr q l = (lookupLabel q.labels l.bytes).bind (q.units[·]?) := by
  rw [lookupLabel_eq_findIdx? hq hl, lookupStr_eq_find?, List.find?_eq_bind_findIdx?_getElem?]

theorem lookupStr_eq_lookupLabel {q : QuantityDecl} {l : Str} (hq : q.LabelsWF) (hl : l.WF) :
    (lookupStr q l).isSome = (lookupLabel q.labels l.bytes).isSome := by
  rw [lookupLabel_eq_findIdx? hq hl, lookupStr_eq_find?, List.findIdx?_isSome, Bool.eq_iff_iff,
    List.find?_isSome, List.any_eq_true]

theorem lookupLabel_eq_some_iff {q : QuantityDecl} {l : Str} (hq : q.LabelsWF) (hl : l.WF) (i : Nat) :
    lookupLabel q.labels l.bytes = some i ↔
      ∃ h : i < q.units.length, lookupStr q l = some q.units[i] ∧
        ∀ j (hj : j < i), labelMatches l (q.units[j]'(Nat.lt_trans hj h)) = false := by
  rw [lookupLabel_eq_findIdx? hq hl, lookupStr_eq_find?, List.findIdx?_eq_some_iff_getElem]
  constructor
  · rintro ⟨h, hp, hlt⟩
    refine ⟨h, ?_, fun j hj => by simpa using hlt j hj⟩
    rw [List.find?_eq_some_iff_getElem]
    exact ⟨hp, i, h, rfl, fun j hj => by simpa using hlt j hj⟩
  · rintro ⟨h, hf, hlt⟩
    refine ⟨h, ?_, fun j hj => by simpa using hlt j hj⟩
    exact (List.find?_eq_some_iff_getElem.1 hf).1

/-- after `trim`, an edge-clean well-formed label is looked up exactly as at `Str` level: this is the
    step `match unit.trim() { … }` of `from_str` applied to text that is one of the declared labels -/
theorem lookupLabel_trim {q : QuantityDecl} {l : Str} (hq : q.LabelsWF) (hl : l.WF)
    (hc : l.edgeClean = true) :
    lookupLabel q.labels (trim l.bytes) = q.units.findIdx? (labelMatches l) := by
  rw [Str.edgeClean_trim hc, lookupLabel_eq_findIdx? hq hl]

/-! ### 6. deciding well-formedness of a whole quantity -/

def QuantityDecl.labelsWFb (q : QuantityDecl) : Bool :=
  q.units.all fun u => u.abbr.wfb && u.sing.wfb && u.plur.wfb

theorem QuantityDecl.labelsWFb_iff (q : QuantityDecl) : q.labelsWFb = true ↔ q.LabelsWF := by
  simp [QuantityDecl.labelsWFb, QuantityDecl.LabelsWF, Str.wfb_iff, and_assoc]

/-! ### converse direction: byte lists (all `< 256`) are exactly the well-formed `Str`s -/

theorem Str.foldl_lt (bs : Bytes) (h : ∀ b ∈ bs, b < 256) (acc k : Nat) (hacc : acc < 256 ^ k) :
    bs.foldl (fun acc b => acc * 256 + b) acc < 256 ^ (k + bs.length) := by
  induction bs generalizing acc k with
  | nil => simpa using hacc
  | cons b bs ih =>
    have hb : b < 256 := h b (by simp)
    have := ih (fun x hx => h x (by simp [hx])) (acc * 256 + b) (k + 1)
      (by rw [Nat.pow_succ]; omega)
    simpa [Nat.add_assoc, Nat.add_comm 1] using this

theorem Str.ofBytes_WF (bs : Bytes) (h : ∀ b ∈ bs, b < 256) : (Str.ofBytes bs).WF := by
  have := Str.foldl_lt bs h 0 0 (by decide)
  simpa [Str.WF, Str.ofBytes] using this

theorem Str.bytes_ofBytes_reverse (r : Bytes) (h : ∀ b ∈ r, b < 256) :
    (Str.ofBytes r.reverse).bytes = r.reverse := by
  induction r with
  | nil => rfl
  | cons b r ih =>
    have hb : b < 256 := h b (by simp)
    have ih := ih fun x hx => h x (by simp [hx])
    simp only [Str.ofBytes, List.length_reverse] at ih
    simp only [Str.ofBytes, List.reverse_cons, List.length_append, List.length_reverse,
      List.length_cons, List.length_nil, List.foldl_append, List.foldl_cons, List.foldl_nil,
      Str.bytes_succ]
    have h1 : (List.foldl (fun acc b => acc * 256 + b) 0 r.reverse * 256 + b) / 256 =
        List.foldl (fun acc b => acc * 256 + b) 0 r.reverse := by omega
    have h2 : (List.foldl (fun acc b => acc * 256 + b) 0 r.reverse * 256 + b) % 256 = b := by omega
    rw [h1, h2, ih]

theorem Str.bytes_ofBytes (bs : Bytes) (h : ∀ b ∈ bs, b < 256) : (Str.ofBytes bs).bytes = bs := by
  have := Str.bytes_ofBytes_reverse bs.reverse (by simpa using h)
  simpa using this

end Uom

