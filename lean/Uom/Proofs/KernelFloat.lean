import Uom.Proofs.Approx
import Uom.Proofs.RoundStd
import Uom.Model.Conv
/-!
# Layers 1 + 2 together: accuracy of `toBase` / `fromBase` / `changeBase` over the float storage `flS f`

Every soft-float operation is `Approx (2^-p) 1` of the exact operation on the operands' values
(`add_approx`, `sub_approx`, `mul_approx`, `div_approx`); chaining these with the error algebra gives
the kernel theorems directly on `Uom.toBase (flS f)` etc.
-/

namespace Uom.Proofs
open Uom Uom.Fl

/-- unit round-off `2^-p` -/
def uro (f : Fmt) : Rat := 1 / (2 : Rat) ^ f.p

/-- least positive normal number `2^(emin+p-1)` -/
def nmin (f : Fmt) : Rat := (2 : Rat) ^ (f.emin + f.p - 1)

theorem uro_nonneg (f : Fmt) : 0 ≤ uro f := by unfold uro; positivity

theorem uro_lt_one (f : Fmt) (hp : 1 ≤ f.p) : uro f < 1 := by
  unfold uro
  rw [div_lt_one (by positivity)]
  exact one_lt_pow₀ (by norm_num) (by omega)

theorem nmin_pos (f : Fmt) : 0 < nmin f := two_zpow_pos _

/-- `x' = x(1+δ)`, `|δ| ≤ u` is one rounding -/
theorem approx_of_rel {u x' x : Rat} (hu0 : 0 ≤ u) (hu1 : u < 1)
    (h : ∃ δ : Rat, x' = x * (1 + δ) ∧ |δ| ≤ u) : Approx u 1 x' x := by
  have M : StdModel (fun _ : Rat => x') u (fun y => y = x) :=
    ⟨hu0, hu1, fun y hy => by subst hy; exact h⟩
  exact Approx.round0 M rfl

/-- finite with exponent not below `emin` (in particular every canonical finite float) -/
def Ok (f : Fmt) : Fl → Prop
  | fin _ _ e => f.emin ≤ e
  | _ => False

theorem Ok.isFinite {f : Fmt} {x : Fl} (h : Ok f x) : x.isFinite = true := by
  cases x <;> simp_all [Ok, Fl.isFinite]

theorem ok_zero (f : Fmt) (s : Bool) : Ok f (Fl.zero f s) := by simp [Fl.zero, Ok]

theorem ok_of_canonical {f : Fmt} {x : Fl} (hc : Canonical f x) (hfin : x.isFinite = true) : Ok f x := by
  cases x with
  | nan => simp [Fl.isFinite] at hfin
  | inf s => simp [Fl.isFinite] at hfin
  | fin s m e => simp only [Canonical] at hc; simp only [Ok]; omega

/-- finite results of `roundDy` have exponent `≥ emin` -/
theorem roundDy_ok (f : Fmt) (s : Bool) (M : Nat) (E : Int)
    (hfin : (roundDy f s M E).isFinite = true) : Ok f (roundDy f s M E) := by
  by_cases hsh : max ((M.log2 : Int) + 1 - f.p) (f.emin - E) ≤ 0
  · unfold roundDy at hfin ⊢
    simp only [if_pos hsh] at hfin ⊢
    split at hfin
    · simp [Fl.isFinite] at hfin
    · next h => rw [if_neg h]; simp only [Ok]; omega
  · have hsh' : 0 < max ((M.log2 : Int) + 1 - f.p) (f.emin - E) := by omega
    rw [roundDy_eq_of_pos f s M E hsh'] at hfin ⊢
    split at hfin
    · next hc =>
      split at hfin
      · simp [Fl.isFinite] at hfin
      · next he => rw [if_pos hc, if_neg he]; simp only [Ok]; omega
    · next hc =>
      split at hfin
      · simp [Fl.isFinite] at hfin
      · next he => rw [if_neg hc, if_neg he]; simp only [Ok]; omega

theorem roundInt_ok (f : Fmt) (v E : Int) (zneg : Bool)
    (hfin : (roundInt f v E zneg).isFinite = true) : Ok f (roundInt f v E zneg) := by
  unfold roundInt at hfin ⊢
  split
  · exact ok_zero f zneg
  · next h => rw [if_neg h] at hfin; exact roundDy_ok f _ _ _ hfin

/-! ### the four operations, in `Approx` form, on arbitrary `Fl` operands -/

variable {f : Fmt}

/-- `add_rel` for arbitrary operands -/
theorem add_rel_ok (hp : 1 ≤ f.p) {x y : Fl} (hx : Ok f x) (hy : Ok f y)
    (hfin : (Fl.add f x y).isFinite = true) :
    (∃ δ : Rat, (Fl.add f x y).toRat = (x.toRat + y.toRat) * (1 + δ) ∧ |δ| ≤ uro f) ∧
      Ok f (Fl.add f x y) := by
  cases x with
  | nan => exact hx.elim
  | inf s => exact hx.elim
  | fin s1 m1 e1 =>
    cases y with
    | nan => exact hy.elim
    | inf s => exact hy.elim
    | fin s2 m2 e2 =>
      refine ⟨add_rel f hp s1 s2 m1 m2 e1 e2 hx hy hfin, ?_⟩
      rw [add_fin_eq] at hfin ⊢
      exact roundInt_ok f _ _ _ hfin

theorem ok_neg {x : Fl} (hx : Ok f x) : Ok f (Fl.neg x) := by
  cases x <;> simp_all [Ok, Fl.neg]

/-- `sub_rel` for arbitrary operands -/
theorem sub_rel_ok (hp : 1 ≤ f.p) {x y : Fl} (hx : Ok f x) (hy : Ok f y)
    (hfin : (Fl.sub f x y).isFinite = true) :
    (∃ δ : Rat, (Fl.sub f x y).toRat = (x.toRat - y.toRat) * (1 + δ) ∧ |δ| ≤ uro f) ∧
      Ok f (Fl.sub f x y) := by
  unfold Fl.sub at hfin ⊢
  have := add_rel_ok hp hx (ok_neg hy) hfin
  rwa [toRat_neg, ← sub_eq_add_neg] at this

theorem add_approx (hp : 1 ≤ f.p) {x y : Fl} (hx : Ok f x) (hy : Ok f y)
    (hfin : (Fl.add f x y).isFinite = true) :
    Approx (uro f) 1 (Fl.add f x y).toRat (x.toRat + y.toRat) ∧ Ok f (Fl.add f x y) :=
  ⟨approx_of_rel (uro_nonneg f) (uro_lt_one f hp) (add_rel_ok hp hx hy hfin).1,
    (add_rel_ok hp hx hy hfin).2⟩

theorem sub_approx (hp : 1 ≤ f.p) {x y : Fl} (hx : Ok f x) (hy : Ok f y)
    (hfin : (Fl.sub f x y).isFinite = true) :
    Approx (uro f) 1 (Fl.sub f x y).toRat (x.toRat - y.toRat) ∧ Ok f (Fl.sub f x y) :=
  ⟨approx_of_rel (uro_nonneg f) (uro_lt_one f hp) (sub_rel_ok hp hx hy hfin).1,
    (sub_rel_ok hp hx hy hfin).2⟩

theorem mul_ok (s1 s2 : Bool) (m1 m2 : Nat) (e1 e2 : Int)
    (hfin : (Fl.mul f (fin s1 m1 e1) (fin s2 m2 e2)).isFinite = true) :
    Ok f (Fl.mul f (fin s1 m1 e1) (fin s2 m2 e2)) := by
  simp only [Fl.mul] at hfin ⊢
  split
  · exact ok_zero f _
  · next h => rw [if_neg h] at hfin; exact roundDy_ok f _ _ _ hfin

theorem mul_approx (hp : 1 ≤ f.p) {x y : Fl} (hx : x.isFinite = true) (hy : y.isFinite = true)
    (hN : nmin f ≤ |x.toRat * y.toRat|) (hfin : (Fl.mul f x y).isFinite = true) :
    Approx (uro f) 1 (Fl.mul f x y).toRat (x.toRat * y.toRat) ∧ Ok f (Fl.mul f x y) := by
  cases x with
  | nan => simp [Fl.isFinite] at hx
  | inf s => simp [Fl.isFinite] at hx
  | fin s1 m1 e1 =>
    cases y with
    | nan => simp [Fl.isFinite] at hy
    | inf s => simp [Fl.isFinite] at hy
    | fin s2 m2 e2 =>
      exact ⟨approx_of_rel (uro_nonneg f) (uro_lt_one f hp) (mul_rel f hp s1 s2 m1 m2 e1 e2 hN hfin),
        mul_ok s1 s2 m1 m2 e1 e2 hfin⟩

theorem toRat_fin_eq_zero_iff (s : Bool) (m : Nat) (e : Int) : (fin s m e).toRat = 0 ↔ m = 0 := by
  rw [toRat_fin]
  have h1 := sgn_ne_zero s
  have h2 := (two_zpow_pos e).ne'
  constructor
  · intro h
    rcases mul_eq_zero.mp h with h | h
    · rcases mul_eq_zero.mp h with h | h
      · exact (h1 h).elim
      · exact_mod_cast h
    · exact (h2 h).elim
  · intro h; simp [h]

theorem div_approx (hp : 1 ≤ f.p) {x y : Fl} (hx : x.isFinite = true) (hy : y.isFinite = true)
    (hN : nmin f ≤ |x.toRat / y.toRat|) (hfin : (Fl.div f x y).isFinite = true) :
    Approx (uro f) 1 (Fl.div f x y).toRat (x.toRat / y.toRat) ∧ Ok f (Fl.div f x y) := by
  cases x with
  | nan => simp [Fl.isFinite] at hx
  | inf s => simp [Fl.isFinite] at hx
  | fin s1 m1 e1 =>
    cases y with
    | nan => simp [Fl.isFinite] at hy
    | inf s => simp [Fl.isFinite] at hy
    | fin s2 m2 e2 =>
      have hq : (fin s1 m1 e1).toRat / (fin s2 m2 e2).toRat ≠ 0 := by
        intro h0; rw [h0, abs_zero] at hN; linarith [nmin_pos f]
      have h1 : 0 < m1 := by
        rcases Nat.eq_zero_or_pos m1 with h | h
        · exact (hq (by rw [(toRat_fin_eq_zero_iff s1 m1 e1).mpr h, zero_div])).elim
        · exact h
      have h2 : 0 < m2 := by
        rcases Nat.eq_zero_or_pos m2 with h | h
        · exact (hq (by rw [(toRat_fin_eq_zero_iff s2 m2 e2).mpr h, div_zero])).elim
        · exact h
      refine ⟨approx_of_rel (uro_nonneg f) (uro_lt_one f hp)
        (div_rel f hp s1 s2 m1 m2 e1 e2 h1 h2 hN hfin), ?_⟩
      rw [div_fin_eq f s1 s2 m1 m2 e1 e2 h1 h2] at hfin ⊢
      exact roundDy_ok f _ _ _ hfin

/-! ### the kernel over `flS f` -/

/-- `toBase (flS f)` spelled out -/
theorem toBase_flS (coef c fac v : Fl) :
    (toBase (flS f) coef c fac v : Fl) =
      if Fl.ge coef fac = true then Fl.mul f (Fl.add f v c) (Fl.div f coef fac)
      else Fl.div f (Fl.mul f (Fl.add f v c) coef) fac := rfl

/-- `fromBase (flS f)` spelled out -/
theorem fromBase_flS (coef c fac v : Fl) :
    (fromBase (flS f) coef c fac v : Fl) =
      if Fl.lt coef fac = true then Fl.sub f (Fl.mul f v (Fl.div f fac coef)) c
      else Fl.sub f (Fl.div f v (Fl.div f coef fac)) c := rfl

/-- `changeBase (flS f)` spelled out -/
theorem changeBase_flS (l r v : Fl) :
    (changeBase (flS f) l r v : Fl) =
      if Fl.ge r l = true then Fl.mul f v (Fl.div f r l) else Fl.div f v (Fl.div f l r) := rfl

/-- side conditions of `toBase (flS f) coef c fac v`: operands finite, every intermediate result finite,
    every exact intermediate product/quotient (of the *computed* operands) in the normal range -/
structure ToBaseOk (f : Fmt) (coef c fac v : Fl) : Prop where
  hv : Ok f v
  hc : Ok f c
  hcoef : coef.isFinite = true
  hfac : fac.isFinite = true
  sum : (Fl.add f v c).isFinite = true
  /-- branch `coef ≥ fac` -/
  quot₁ : Fl.ge coef fac = true → (Fl.div f coef fac).isFinite = true ∧ nmin f ≤ |coef.toRat / fac.toRat|
  prod₁ : Fl.ge coef fac = true →
    (Fl.mul f (Fl.add f v c) (Fl.div f coef fac)).isFinite = true ∧
      nmin f ≤ |(Fl.add f v c).toRat * (Fl.div f coef fac).toRat|
  /-- branch `¬ coef ≥ fac` -/
  prod₂ : ¬ Fl.ge coef fac = true →
    (Fl.mul f (Fl.add f v c) coef).isFinite = true ∧ nmin f ≤ |(Fl.add f v c).toRat * coef.toRat|
  quot₂ : ¬ Fl.ge coef fac = true →
    (Fl.div f (Fl.mul f (Fl.add f v c) coef) fac).isFinite = true ∧
      nmin f ≤ |(Fl.mul f (Fl.add f v c) coef).toRat / fac.toRat|

/-- **`to_base` on floats: three roundings** -/
theorem toBase_flS_approx (hp : 1 ≤ f.p) {coef c fac v : Fl} (H : ToBaseOk f coef c fac v) :
    Approx (uro f) 3 (Fl.toRat (toBase (flS f) coef c fac v))
      ((v.toRat + c.toRat) * coef.toRat / fac.toRat) ∧
    Ok f (toBase (flS f) coef c fac v) := by
  have hu0 := uro_nonneg f
  have hu1 := uro_lt_one f hp
  rw [toBase_flS]
  obtain ⟨ha, haok⟩ := add_approx hp H.hv H.hc H.sum
  split
  next h =>
    obtain ⟨hq, -⟩ := div_approx hp H.hcoef H.hfac (H.quot₁ h).2 (H.quot₁ h).1
    obtain ⟨hm, hmok⟩ := mul_approx hp haok.isFinite (H.quot₁ h).1 (H.prod₁ h).2 (H.prod₁ h).1
    refine ⟨?_, hmok⟩
    have := Approx.trans hu1 hm (Approx.mul hu0 hu1 ha hq)
    rwa [← mul_div_assoc] at this
  next h =>
    obtain ⟨hm, -⟩ := mul_approx hp haok.isFinite H.hcoef (H.prod₂ h).2 (H.prod₂ h).1
    obtain ⟨hd, hdok⟩ := div_approx hp (H.prod₂ h).1 H.hfac (H.quot₂ h).2 (H.quot₂ h).1
    refine ⟨?_, hdok⟩
    have h2 : Approx (uro f) (1 + (1 + 0)) (Fl.mul f (Fl.add f v c) coef).toRat
        ((v.toRat + c.toRat) * coef.toRat) :=
      Approx.trans hu1 hm (Approx.mul hu0 hu1 ha (Approx.refl _))
    exact Approx.trans hu1 hd (Approx.div hu0 hu1 h2 (Approx.refl _))

/-- side conditions of the scaled part of `fromBase (flS f) coef c fac v` -/
structure FromBaseOk (f : Fmt) (coef fac v : Fl) : Prop where
  hv : v.isFinite = true
  hcoef : coef.isFinite = true
  hfac : fac.isFinite = true
  /-- branch `coef < fac` -/
  quot₁ : Fl.lt coef fac = true → (Fl.div f fac coef).isFinite = true ∧ nmin f ≤ |fac.toRat / coef.toRat|
  prod₁ : Fl.lt coef fac = true →
    (Fl.mul f v (Fl.div f fac coef)).isFinite = true ∧ nmin f ≤ |v.toRat * (Fl.div f fac coef).toRat|
  /-- branch `¬ coef < fac` -/
  quot₂ : ¬ Fl.lt coef fac = true → (Fl.div f coef fac).isFinite = true ∧ nmin f ≤ |coef.toRat / fac.toRat|
  div₂ : ¬ Fl.lt coef fac = true →
    (Fl.div f v (Fl.div f coef fac)).isFinite = true ∧ nmin f ≤ |v.toRat / (Fl.div f coef fac).toRat|

/-- the scaled part of `fromBase (flS f)` (before the constant is subtracted) -/
def fromBaseScaledF (f : Fmt) (coef fac v : Fl) : Fl :=
  if Fl.lt coef fac = true then Fl.mul f v (Fl.div f fac coef) else Fl.div f v (Fl.div f coef fac)

theorem fromBase_flS_eq (coef c fac v : Fl) :
    (fromBase (flS f) coef c fac v : Fl) = Fl.sub f (fromBaseScaledF f coef fac v) c := by
  rw [fromBase_flS]; unfold fromBaseScaledF; split <;> rfl

/-- scaled part of `from_base` on floats: two roundings -/
theorem fromBaseScaledF_approx (hp : 1 ≤ f.p) {coef fac v : Fl} (H : FromBaseOk f coef fac v) :
    Approx (uro f) 2 (fromBaseScaledF f coef fac v).toRat (v.toRat * fac.toRat / coef.toRat) ∧
    Ok f (fromBaseScaledF f coef fac v) := by
  have hu0 := uro_nonneg f
  have hu1 := uro_lt_one f hp
  unfold fromBaseScaledF
  split
  next h =>
    obtain ⟨hq, -⟩ := div_approx hp H.hfac H.hcoef (H.quot₁ h).2 (H.quot₁ h).1
    obtain ⟨hm, hmok⟩ := mul_approx hp H.hv (H.quot₁ h).1 (H.prod₁ h).2 (H.prod₁ h).1
    refine ⟨?_, hmok⟩
    have := Approx.trans hu1 hm (Approx.mul hu0 hu1 (Approx.refl _) hq)
    rwa [← mul_div_assoc] at this
  next h =>
    obtain ⟨hq, -⟩ := div_approx hp H.hcoef H.hfac (H.quot₂ h).2 (H.quot₂ h).1
    obtain ⟨hd, hdok⟩ := div_approx hp H.hv (H.quot₂ h).1 (H.div₂ h).2 (H.div₂ h).1
    refine ⟨?_, hdok⟩
    have := Approx.trans hu1 hd (Approx.div hu0 hu1 (Approx.refl _) hq)
    rwa [div_div_eq_mul_div] at this

/-- **`from_base` on floats, unit without constant term (`c = ±0`): three roundings** -/
theorem fromBase_flS_approx_zero (hp : 1 ≤ f.p) {coef c fac v : Fl} (H : FromBaseOk f coef fac v)
    (hc : Ok f c) (hc0 : c.toRat = 0)
    (hfin : (Fl.isFinite (fromBase (flS f) coef c fac v)) = true) :
    Approx (uro f) 3 (Fl.toRat (fromBase (flS f) coef c fac v)) (v.toRat * fac.toRat / coef.toRat) ∧
    Ok f (fromBase (flS f) coef c fac v) := by
  have hu1 := uro_lt_one f hp
  rw [fromBase_flS_eq] at hfin ⊢
  obtain ⟨hs, hsok⟩ := fromBaseScaledF_approx hp H
  obtain ⟨hr, hrok⟩ := sub_approx hp hsok hc hfin
  refine ⟨?_, hrok⟩
  rw [hc0, sub_zero] at hr
  exact Approx.trans hu1 hr hs

/-- **`from_base` on floats, general constant: absolute error**
    `|result − (y − c)| ≤ ρ·|y|·(1+u) + u·|y − c|`, `y = v·fac/coef`, `ρ = (1−u)^(−2) − 1`, `u = 2^-p` -/
theorem fromBase_flS_abs_le (hp : 1 ≤ f.p) {coef c fac v : Fl} (H : FromBaseOk f coef fac v)
    (hc : Ok f c) (hfin : (Fl.isFinite (fromBase (flS f) coef c fac v)) = true) :
    |Fl.toRat (fromBase (flS f) coef c fac v) - (v.toRat * fac.toRat / coef.toRat - c.toRat)| ≤
      ((1 - uro f) ^ (-(2 : ℤ)) - 1) * |v.toRat * fac.toRat / coef.toRat| * (1 + uro f)
        + uro f * |v.toRat * fac.toRat / coef.toRat - c.toRat| := by
  have hu0 := uro_nonneg f
  have hu1 := uro_lt_one f hp
  rw [fromBase_flS_eq] at hfin ⊢
  obtain ⟨hs, hsok⟩ := fromBaseScaledF_approx hp H
  obtain ⟨⟨δ, hδ, hδu⟩, -⟩ := sub_rel_ok hp hsok hc hfin
  set y := v.toRat * fac.toRat / coef.toRat with hy
  set yh := (fromBaseScaledF f coef fac v).toRat with hyh
  set r := (Fl.sub f (fromBaseScaledF f coef fac v) c).toRat with hr'
  have h1 : |yh - y| ≤ ((1 - uro f) ^ (-(2 : ℤ)) - 1) * |y| := by
    simpa using Approx.abs_sub_le' hu0 hu1 hs
  have h2 : |r - (yh - c.toRat)| ≤ uro f * |yh - c.toRat| := by
    have e : r - (yh - c.toRat) = δ * (yh - c.toRat) := by rw [hδ]; ring
    rw [e, abs_mul]
    exact mul_le_mul_of_nonneg_right hδu (abs_nonneg _)
  have h3 : |yh - c.toRat| ≤ |yh - y| + |y - c.toRat| := by
    have : yh - c.toRat = (yh - y) + (y - c.toRat) := by ring
    rw [this]; exact abs_add_le _ _
  have h4 : |r - (y - c.toRat)| ≤ |r - (yh - c.toRat)| + |yh - y| := by
    have : r - (y - c.toRat) = (r - (yh - c.toRat)) + (yh - y) := by ring
    rw [this]; exact abs_add_le _ _
  have h5 : uro f * |yh - c.toRat| ≤ uro f * (|yh - y| + |y - c.toRat|) :=
    mul_le_mul_of_nonneg_left h3 hu0
  have h6 : |yh - y| * (1 + uro f) ≤ ((1 - uro f) ^ (-(2 : ℤ)) - 1) * |y| * (1 + uro f) :=
    mul_le_mul_of_nonneg_right h1 (by linarith)
  calc |r - (y - c.toRat)| ≤ uro f * (|yh - y| + |y - c.toRat|) + |yh - y| := by linarith
    _ = |yh - y| * (1 + uro f) + uro f * |y - c.toRat| := by ring
    _ ≤ _ := by linarith

/-- **round trip on floats** for a unit without constant term, with the constants `flS f` uses
    (`constAdd = -0.0`, `constSub = +0.0`): six roundings -/
theorem roundtrip_flS_approx (hp : 1 ≤ f.p) {coef fac v : Fl}
    (hcoef : coef.toRat ≠ 0) (hfac : fac.toRat ≠ 0)
    (H1 : ToBaseOk f coef (flS f).constAdd fac v)
    (H2 : FromBaseOk f coef fac (toBase (flS f) coef (flS f).constAdd fac v))
    (hfin : Fl.isFinite (fromBase (flS f) coef (flS f).constSub fac
      (toBase (flS f) coef (flS f).constAdd fac v)) = true) :
    Approx (uro f) 6
      (Fl.toRat (fromBase (flS f) coef (flS f).constSub fac (toBase (flS f) coef (flS f).constAdd fac v)))
      v.toRat := by
  have hu0 := uro_nonneg f
  have hu1 := uro_lt_one f hp
  have hA0 : Fl.toRat ((flS f).constAdd) = 0 := toRat_zero f true
  have hS0 : Fl.toRat ((flS f).constSub) = 0 := toRat_zero f false
  obtain ⟨hA, -⟩ := toBase_flS_approx hp H1
  rw [hA0, add_zero] at hA
  obtain ⟨hB, -⟩ := fromBase_flS_approx_zero hp H2 (ok_zero f false) hS0 hfin
  set w := Fl.toRat (toBase (flS f) coef (flS f).constAdd fac v) with hw
  have hC : Approx (uro f) (3 + 0 + 0) (w * fac.toRat / coef.toRat)
      (v.toRat * coef.toRat / fac.toRat * fac.toRat / coef.toRat) :=
    Approx.div hu0 hu1 (Approx.mul hu0 hu1 hA (Approx.refl _)) (Approx.refl _)
  have e : v.toRat * coef.toRat / fac.toRat * fac.toRat / coef.toRat = v.toRat := by field_simp
  rw [e] at hC
  exact Approx.trans hu1 hB hC

/-- side conditions of `changeBase (flS f) l r v` -/
structure ChangeBaseOk (f : Fmt) (l r v : Fl) : Prop where
  hv : v.isFinite = true
  hl : l.isFinite = true
  hr : r.isFinite = true
  quot₁ : Fl.ge r l = true → (Fl.div f r l).isFinite = true ∧ nmin f ≤ |r.toRat / l.toRat|
  prod₁ : Fl.ge r l = true →
    (Fl.mul f v (Fl.div f r l)).isFinite = true ∧ nmin f ≤ |v.toRat * (Fl.div f r l).toRat|
  quot₂ : ¬ Fl.ge r l = true → (Fl.div f l r).isFinite = true ∧ nmin f ≤ |l.toRat / r.toRat|
  div₂ : ¬ Fl.ge r l = true →
    (Fl.div f v (Fl.div f l r)).isFinite = true ∧ nmin f ≤ |v.toRat / (Fl.div f l r).toRat|

/-- **`change_base` on floats: two roundings** -/
theorem changeBase_flS_approx (hp : 1 ≤ f.p) {l r v : Fl} (H : ChangeBaseOk f l r v) :
    Approx (uro f) 2 (Fl.toRat (changeBase (flS f) l r v)) (v.toRat * r.toRat / l.toRat) := by
  have hu0 := uro_nonneg f
  have hu1 := uro_lt_one f hp
  rw [changeBase_flS]
  split
  next h =>
    obtain ⟨hq, -⟩ := div_approx hp H.hr H.hl (H.quot₁ h).2 (H.quot₁ h).1
    obtain ⟨hm, -⟩ := mul_approx hp H.hv (H.quot₁ h).1 (H.prod₁ h).2 (H.prod₁ h).1
    have := Approx.trans hu1 hm (Approx.mul hu0 hu1 (Approx.refl _) hq)
    rwa [← mul_div_assoc] at this
  next h =>
    obtain ⟨hq, -⟩ := div_approx hp H.hl H.hr (H.quot₂ h).2 (H.quot₂ h).1
    obtain ⟨hd, -⟩ := div_approx hp H.hv (H.quot₂ h).1 (H.div₂ h).2 (H.div₂ h).1
    have := Approx.trans hu1 hd (Approx.div hu0 hu1 (Approx.refl _) hq)
    rwa [div_div_eq_mul_div] at this

end Uom.Proofs

#print axioms Uom.Proofs.add_approx
#print axioms Uom.Proofs.sub_approx
#print axioms Uom.Proofs.mul_approx
#print axioms Uom.Proofs.div_approx
#print axioms Uom.Proofs.toBase_flS_approx
#print axioms Uom.Proofs.fromBaseScaledF_approx
#print axioms Uom.Proofs.fromBase_flS_approx_zero
#print axioms Uom.Proofs.fromBase_flS_abs_le
#print axioms Uom.Proofs.roundtrip_flS_approx
#print axioms Uom.Proofs.changeBase_flS_approx
