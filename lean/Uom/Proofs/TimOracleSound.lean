import Uom.Proofs.DurPowOracleSound
/-!
# Soundness of `oracleDurFl` for binary32 (second base) and of `oracleTimFl` (second base)

1. `oracleDurFl_sound_second_b32`: the binary32 counterpart of
   `DurPowOracleSound.oracleDurFl_sound_second_b64`.  **No false alarm**: although the binary32
   nanosecond arithmetic is off by up to `1 + 10^9·2^-24 ≈ 60.6` ns (`DurationAcc`), that error is
   *relative to the fractional part*: `|d − t| ≤ 1 ns + frac(t)·u ≤ 1 ns + u·t` with `u = 2^-24`
   (`acc_second_b32`), which is inside the oracle's `1 ns + 4u·t` for every `t` (a fractional part of
   `0.3 s` gives at most `1 + 0.3·59.6 ≈ 19` ns, the tolerance there is `1 + 71.5` ns).
2. `oracleTimFl_sound_second_b64` (and `_b32`): the oracle of the float Duration → Time lines accepts
   the model's own line for every real Duration; the result is finite (`timeOfDurFl_second_finite_b64`).
   The text facts (`startsWith "ok:"`, `drop 3`, hex round trip) are proved, not assumed.
-/

namespace Uom.TimOracleSound
open Uom Uom.Proofs Uom.DurationAcc Uom.DurPowOracleSound

/-! ## 1. `oracleDurFl`, second base, binary32 -/

theorem uro_b32 : Uom.uro b32 = 1 / 2 ^ 24 := by
  unfold Uom.uro; norm_num [b32]

theorem uroP_b32 : Uom.Proofs.uro b32 = 1 / 2 ^ 24 := by
  unfold Uom.Proofs.uro; norm_num [b32]

/-- the fine accuracy statement for binary32: the product `frac(v)·10^9` is rounded once
    (relative error `u = 2^-24`) and truncated, so the error is at most
    `1 ns + frac(v)·u ≤ 1 ns + u·v` — *inside* the oracle's `1 ns + 4u·v`. -/
theorem acc_second_b32 {v : Fl} (hc : Fl.Canonical b32 v) {s n : Nat}
    (h : durOfTimeFl b32 (Fl.one b32) (Fl.one b32) cn32 v = .ok s n) :
    |(s : Rat) + (n : Rat) / 1000000000 - v.toRat| ≤ 1 / 1000000000 + 1 * (1 / 2 ^ 24) * v.toRat := by
  have hKlo : (2 : Rat) ^ (b32.p - 1) ≤ (Fl.fin false 15625000 6).toRat := by
    rw [K32_toRat]; norm_num [b32]
  obtain ⟨vfin, h0, -, hn9, nr, htot, -, hlo, hhi, -⟩ :=
    ok_second_base_rel b32_wf cn32_lt_one K32_eq hKlo hc h
  rw [K32_toRat, uroP_b32] at hlo hhi
  obtain ⟨hρ0, hρ1⟩ := frac_bounds v.toRat
  have hF0 : 0 ≤ v.toRat.floor := Rat.le_floor_iff.mpr (by simpa using h0)
  have hF0' : (0 : Rat) ≤ ((v.toRat.floor : Int) : Rat) := by exact_mod_cast hF0
  have hF : ((v.toRat.floor.toNat : Nat) : Rat) = ((v.toRat.floor : Int) : Rat) := by
    rw [← Int.cast_natCast, Int.toNat_of_nonneg hF0]
  have htotQ : (s : Rat) * 1000000000 + (n : Rat) =
      ((v.toRat.floor : Int) : Rat) * 1000000000 + (nr : Rat) := by
    rw [← hF]; exact_mod_cast htot
  set ρ := v.toRat - ((v.toRat.floor : Int) : Rat) with hρ
  have hv : v.toRat = ((v.toRat.floor : Int) : Rat) + ρ := by rw [hρ]; ring
  have e : (s : Rat) + (n : Rat) / 1000000000 - v.toRat =
      ((nr : Rat) - ρ * 1000000000) / 1000000000 := by
    have : (s : Rat) + (n : Rat) / 1000000000 = ((s : Rat) * 1000000000 + (n : Rat)) / 1000000000 := by
      field_simp
    rw [this, htotQ, hρ]; field_simp; ring
  rw [e, abs_le]
  constructor
  · rw [le_div_iff₀ (by norm_num)]
    nlinarith
  · rw [div_le_iff₀ (by norm_num)]
    nlinarith

/-- **Soundness of `oracleDurFl`, second base, binary32** (`fac = cs = 1.0`, `cn` the binary32
    nanosecond coefficient `cn32`).  For every canonical stored time `v` — NaN, infinities, negative
    values, subnormals, values beyond `2^64` included — the oracle evaluated on what the model itself
    prints never answers `.prop`.  No lower bound on `t` is needed: see `acc_second_b32`.
    The only hypothesis besides canonicity is the text round trip `OkTextRT` of the printed `Ok`. -/
theorem oracleDurFl_sound_second_b32 {v : Fl} (hc : Fl.Canonical b32 v)
    (hrt : ∀ s n, durOfTimeFl b32 (Fl.one b32) (Fl.one b32) cn32 v = .ok s n → OkTextRT s n)
    (m : String) :
    NotProp (oracleDurFl b32 (Fl.one b32) (Fl.one b32) cn32 v m
      (durOfTimeFl b32 (Fl.one b32) (Fl.one b32) cn32 v).show) := by
  have h1 : (Fl.one b32).toRat = 1 := one_toRat b32_wf.hp
  by_cases hneg : Fl.lt v (Fl.zero b32 false) = true
  · have : durOfTimeFl b32 (Fl.one b32) (Fl.one b32) cn32 v = .negative := by
      rw [durOfTimeFl_second b32_wf cn32 v hc, if_pos hneg]
    rw [this]
    show NotProp (oracleDurFl b32 (Fl.one b32) (Fl.one b32) cn32 v m "neg")
    rw [oracleDurFl_neg _ _ _ _ _ _ hneg]; exact notProp_ok
  · have hneg' : Fl.lt v (Fl.zero b32 false) = false := by simpa using hneg
    by_cases hin : v.isFinite = true ∧ v.toRat < 2 ^ 64
    · obtain ⟨hfin, h64⟩ := hin
      have h0 : 0 ≤ v.toRat := by
        have := (lt_eq_false_toRat hfin (zero_isFinite b32 false)).mp hneg'
        rwa [toRat_zero] at this
      obtain ⟨s, n, hsn, -, -⟩ := total_second_base_b32 hc hfin h0 h64
      rw [hsn]
      have hu0 : (0 : Rat) ≤ 4 * Uom.uro b32 := by rw [uro_b32]; norm_num
      rw [oracleDurFl_ok b32 _ _ _ v m s n (hrt s n hsn) hneg' hfin]
      · exact notProp_ok
      · rw [h1, mul_one, div_one]
        calc v.toRat < 2 ^ 64 := h64
          _ = ((2 ^ 64 : Nat) : Rat) * 1 := by norm_num
          _ ≤ ((2 ^ 64 : Nat) : Rat) * (1 + 4 * Uom.uro b32) :=
              mul_le_mul_of_nonneg_left (by linarith) (by positivity)
      · rw [h1, mul_one, div_one, uro_b32]
        have := acc_second_b32 hc hsn
        have hv4 : 1 * (1 / 2 ^ 24) * v.toRat ≤ 4 * (1 / 2 ^ 24) * v.toRat := by nlinarith
        linarith
    · have hov : durOfTimeFl b32 (Fl.one b32) (Fl.one b32) cn32 v = .overflow := by
        refine overflow_second_base b32_wf cn32 hc hneg' (fun hfin => ?_)
        by_contra hlt
        exact hin ⟨hfin, not_le.mp hlt⟩
      rw [hov]
      show NotProp (oracleDurFl b32 (Fl.one b32) (Fl.one b32) cn32 v m "overflow")
      obtain ⟨o, ho, hcase⟩ := oracleDurFl_overflow b32 (Fl.one b32) (Fl.one b32) cn32 v m hneg'
        (fun hfin => by
          rw [h1, mul_one, div_one]
          have h64 : (2 : Rat) ^ 64 ≤ v.toRat := by
            by_contra hlt
            exact hin ⟨hfin, not_le.mp hlt⟩
          have hu0 : (0 : Rat) ≤ 4 * Uom.uro b32 := by rw [uro_b32]; norm_num
          calc ((2 ^ 64 : Nat) : Rat) * (1 - 4 * Uom.uro b32) ≤ ((2 ^ 64 : Nat) : Rat) * 1 :=
                mul_le_mul_of_nonneg_left (by linarith) (by positivity)
            _ = 2 ^ 64 := by norm_num
            _ ≤ v.toRat := h64)
      rw [ho]
      rcases hcase with rfl | ⟨w, rfl⟩
      · exact notProp_ok
      · exact notProp_guard w


/-! ## 2. `oracleTimFl` -/

/-! ### 2a. text facts (Lean 4.33 core lemmas suffice: no text hypothesis is needed) -/

theorem ok_startsWith (h : String) : ("ok:" ++ h).startsWith "ok:" = true := by
  rw [String.startsWith_string_iff]
  simp

theorem ok_drop3 (h : String) : (("ok:" ++ h).drop 3).toString = h := by
  apply String.toList_inj.mp
  show (("ok:" ++ h).drop 3).copy.toList = _
  rw [String.toList_copy_drop]
  simp

/-- the shape of `oracleTimFl` on a printed finite value that reads back: within the tolerance, `ok` -/
theorem oracleTimFl_ok (f : Fmt) (fac cs : Fl) (s n : Nat) (o : Fl)
    (hrt : flOf? f (flHex f o) = some o) (hfin : o.isFinite = true)
    (hacc : |o.toRat * fac.toRat / cs.toRat - ((s : Rat) + (n : Rat) / 1000000000)| ≤
      8 * Uom.uro f * ((s : Rat) + (n : Rat) / 1000000000)) :
    oracleTimFl f fac cs s n ("ok:" ++ flHex f o) = .ok := by
  unfold oracleTimFl
  simp only [ok_startsWith, ok_drop3, hrt, hfin, Bool.not_true, Bool.false_eq_true, if_false,
    ratAbs_eq_abs]
  rw [if_pos hacc]

/-- the shape of `oracleTimFl` on a printed non-finite value: a `guard` when the exact time is beyond
    half the largest finite number (not reachable from a real Duration in the second base, see
    `timeOfDurFl_second_finite`) -/
theorem oracleTimFl_nonfinite (f : Fmt) (fac cs : Fl) (s n : Nat) (o : Fl)
    (hrt : flOf? f (flHex f o) = some o) (hfin : o.isFinite = false)
    (hbig : ((s : Rat) + (n : Rat) / 1000000000) * cs.toRat / fac.toRat >
      Fl.toRat (Fl.fin false (2 ^ f.p - 1) f.emax) / 2) :
    oracleTimFl f fac cs s n ("ok:" ++ flHex f o) = .guard "overflow/underflow" := by
  unfold oracleTimFl
  simp only [ok_startsWith, ok_drop3, hrt, hfin, Bool.not_true, Bool.not_false, Bool.false_eq_true,
    if_false, if_true]
  rw [if_pos hbig]

/-! ### 2b. error algebra: a sum of non-negative approximations -/

theorem approx_add_nonneg {u : Rat} {k : ℕ} {a a' b b' : Rat} (_hu0 : 0 ≤ u) (hu1 : u < 1)
    (ha0 : 0 ≤ a) (hb0 : 0 ≤ b) (ha : Approx u k a' a) (hb : Approx u k b' b) :
    Approx u k (a' + b') (a + b) := by
  obtain ⟨s, rfl, hs1, hs2⟩ := ha
  obtain ⟨t, rfl, ht1, ht2⟩ := hb
  have hp : 0 < 1 - u := by linarith
  have hp1 : 1 - u ≤ 1 := by linarith
  have hk : 0 < (1 - u) ^ k := pow_pos hp k
  have hk1 : (1 - u) ^ k ≤ 1 := pow_le_one₀ hp.le hp1
  by_cases h0 : a + b = 0
  · have ha : a = 0 := by linarith
    have hb : b = 0 := by linarith
    subst ha; subst hb
    exact ⟨1, by ring, hk1, by linarith⟩
  · have hab : 0 < a + b := lt_of_le_of_ne (add_nonneg ha0 hb0) (Ne.symm h0)
    refine ⟨(a * s + b * t) / (a + b), by field_simp, ?_, ?_⟩
    · rw [le_div_iff₀ hab]
      have h1 := mul_le_mul_of_nonneg_left hs1 ha0
      have h2 := mul_le_mul_of_nonneg_left ht1 hb0
      nlinarith
    · rw [div_mul_eq_mul_div, div_le_one hab]
      have h1 := mul_le_mul_of_nonneg_left hs2 ha0
      have h2 := mul_le_mul_of_nonneg_left ht2 hb0
      nlinarith

/-- four roundings are within `8u` when `u ≤ 1/8` -/
theorem abs_le_8u_of_approx4 {u o d : Rat} (hu0 : 0 ≤ u) (hu8 : u ≤ 1 / 8) (hd : 0 ≤ d)
    (h : Approx u 4 o d) : |o - d| ≤ 8 * u * d := by
  have hu1 : u < 1 := by linarith
  have hg := Approx.abs_sub_le_gamma hu0 hu1 h
  rw [abs_of_nonneg hd] at hg
  push_cast at hg
  have hX : 0 ≤ |o - d| := abs_nonneg _
  have : |o - d| * (1 / 2) ≤ |o - d| * (1 - 4 * u) := mul_le_mul_of_nonneg_left (by linarith) hX
  linarith

/-! ### 2c. `u64 as V` -/

variable {f : Fmt}

/-- `Fl.ofNat` is one rounding of the integer, whenever the result is finite -/
theorem ofNat_approx (hf : f.WF) (n : Nat) (hfin : (Fl.ofNat f n).isFinite = true) :
    Approx (Uom.Proofs.uro f) 1 (Fl.ofNat f n).toRat (n : Rat) ∧ Ok f (Fl.ofNat f n) := by
  refine ⟨?_, ok_of_canonical (Fl.ofNat_canonical hf n) hfin⟩
  refine approx_of_rel (uro_nonneg f) (uro_lt_one f hf.hp) ?_
  unfold Fl.ofNat at hfin ⊢
  by_cases h0 : n = 0
  · rw [if_pos h0, toRat_zero, h0]
    exact ⟨0, by simp, by rw [abs_zero]; exact uro_nonneg f⟩
  · rw [if_neg h0] at hfin ⊢
    have hmin := hf.hmin
    obtain ⟨δ, hδ, hb⟩ := roundDy_rel' f hf.hp false n 0 (Nat.pos_of_ne_zero h0) (by omega) hfin
    refine ⟨δ, ?_, hb⟩
    rw [hδ]; simp [sgn]

/-- integers below `2^64` convert to a finite float as soon as `2^67 ≤ 2·MAX + ulp` -/
theorem ofNat_isFinite (hf : f.WF) (hthr : (2 : Rat) ^ 67 ≤ thr2 f) {n : Nat} (hn : n < 2 ^ 64) :
    (Fl.ofNat f n).isFinite = true := by
  unfold Fl.ofNat
  by_cases h0 : n = 0
  · rw [if_pos h0]; rfl
  · rw [if_neg h0]
    by_contra hnf
    have := roundDy_overflow hf false n 0 (Nat.pos_of_ne_zero h0) (by simpa using hnf)
    have hnQ : (n : Rat) < 2 ^ 64 := by exact_mod_cast hn
    rw [zpow_zero, mul_one] at this
    have : (2 : Rat) ^ 67 < 2 * 2 ^ 64 := by linarith
    norm_num at this

/-! ### 2d. `Time::try_from(Duration)` in the second base -/

/-- in the second base the conversion kernel contributes one multiplication and the addition:
    `secs as V + (nanos as V) * cn`, bit for bit -/
theorem timeOfDurFl_second (hf : f.WF) (cn : Fl) (hge : Fl.ge cn (Fl.one f) = false) (s n : Nat) :
    timeOfDurFl f (Fl.one f) (Fl.one f) cn s n =
      Fl.add f (Fl.ofNat f s) (Fl.mul f (Fl.ofNat f n) cn) := by
  have h1f : (Fl.one f).isFinite = true := rfl
  have h1z : (Fl.one f).isZero = false := by
    simp [Fl.one, Fl.isZero]
  unfold timeOfDurFl
  show Fl.add f (toBase (flS f) (Fl.one f) (Fl.zero f true) (Fl.one f) (Fl.ofNat f s))
    (changeBase (flS f) (Fl.one f) (Fl.one f)
      (toBase (flS f) cn (Fl.zero f true) (Fl.one f) (Fl.ofNat f n))) = _
  rw [Fl.toBase_id' hf _ _ (Fl.ofNat_canonical hf s) h1f h1z,
    Fl.toBase_fold_lt_one hf _ cn (Fl.ofNat_canonical hf n) hge,
    Fl.changeBase_id' hf _ _ (Fl.mul_canonical hf _ _) h1f h1z]

/-- hypotheses on the format and on the nanosecond coefficient under which the accuracy statement
    holds (all of them closed facts for `b64`/`cn64` and `b32`/`cn32`) -/
structure NanoOk (f : Fmt) (cn : Fl) : Prop where
  hf : f.WF
  hp3 : 3 ≤ f.p
  /-- `2^67 ≤ 2·MAX + ulp`: `u64` seconds do not overflow the format -/
  hthr : (2 : Rat) ^ 67 ≤ thr2 f
  /-- half a nanosecond is a normal number, with room to spare -/
  hnm : nmin f * 4000000000 ≤ 1
  hcnfin : cn.isFinite = true
  /-- `cn` is `10⁻⁹` correctly rounded -/
  hcn : Approx (Uom.Proofs.uro f) 1 cn.toRat (1 / 1000000000)
  hge : Fl.ge cn (Fl.one f) = false

theorem uro_le_eighth (h3 : 3 ≤ f.p) : Uom.Proofs.uro f ≤ 1 / 8 := by
  unfold Uom.Proofs.uro
  have : (2 : Rat) ^ 3 ≤ (2 : Rat) ^ f.p := pow_le_pow_right₀ (by norm_num) h3
  rw [div_le_div_iff₀ (by positivity) (by norm_num)]
  linarith

/-- bounds on a once-rounded value -/
theorem approx1_bounds {u x' x : Rat} (_hu0 : 0 ≤ u) (hu8 : u ≤ 1 / 8) (hx : 0 ≤ x)
    (h : Approx u 1 x' x) : x * (7 / 8) ≤ x' ∧ x' ≤ x * (8 / 7) := by
  obtain ⟨θ, rfl, h1, h2⟩ := h
  rw [pow_one] at h1 h2
  have hθ : θ ≤ 8 / 7 := by nlinarith
  exact ⟨mul_le_mul_of_nonneg_left (by linarith) hx, mul_le_mul_of_nonneg_left hθ hx⟩

/-- **the float Duration → Time conversion in the second base is finite and four roundings away from
    `s + n·10⁻⁹`** (`u64 as V`, `u32 as V`, the product with the rounded `10⁻⁹`, the sum) -/
theorem timeOfDurFl_second_approx {cn : Fl} (H : NanoOk f cn) {s n : Nat} (hs : s < 2 ^ 64)
    (hn : n < 1000000000) :
    (timeOfDurFl f (Fl.one f) (Fl.one f) cn s n).isFinite = true ∧
    Approx (Uom.Proofs.uro f) 4 (timeOfDurFl f (Fl.one f) (Fl.one f) cn s n).toRat
      ((s : Rat) + (n : Rat) / 1000000000) := by
  have hf := H.hf
  have hp := hf.hp
  have hu0 := uro_nonneg f
  have hu1 := uro_lt_one f hp
  have hu8 := uro_le_eighth H.hp3
  set u := Uom.Proofs.uro f with hu
  rw [timeOfDurFl_second hf cn H.hge]
  -- the two conversions
  have hsfin := ofNat_isFinite hf H.hthr hs
  have hnfin := ofNat_isFinite hf H.hthr (lt_trans hn (by norm_num : 1000000000 < 2 ^ 64))
  obtain ⟨hsA, hsOk⟩ := ofNat_approx hf s hsfin
  obtain ⟨hnA, -⟩ := ofNat_approx hf n hnfin
  have hsQ : (s : Rat) < 2 ^ 64 := by exact_mod_cast hs
  have hnQ : (n : Rat) < 1000000000 := by exact_mod_cast hn
  have hs0 : (0 : Rat) ≤ s := Nat.cast_nonneg _
  have hn0 : (0 : Rat) ≤ n := Nat.cast_nonneg _
  obtain ⟨hslo, hshi⟩ := approx1_bounds hu0 hu8 hs0 hsA
  obtain ⟨hnlo, hnhi⟩ := approx1_bounds hu0 hu8 hn0 hnA
  obtain ⟨hclo, hchi⟩ := approx1_bounds hu0 hu8 (by norm_num) H.hcn
  have hcpos : 0 < cn.toRat := by linarith
  have hx0 : 0 ≤ (Fl.ofNat f n).toRat := by linarith [mul_nonneg hn0 (by norm_num : (0 : Rat) ≤ 7 / 8)]
  have hthr2 : (2 : Rat) ^ 67 ≤ thr2 f := H.hthr
  -- the product
  have hprod_lt : (Fl.ofNat f n).toRat * cn.toRat < 2 := by
    calc (Fl.ofNat f n).toRat * cn.toRat ≤ ((n : Rat) * (8 / 7)) * (1 / 1000000000 * (8 / 7)) :=
          mul_le_mul hnhi hchi hcpos.le (by linarith)
      _ < 2 := by nlinarith
  have hyfin : (Fl.mul f (Fl.ofNat f n) cn).isFinite = true := by
    by_contra hnf
    have := mul_overflow hf hnfin H.hcnfin (by simpa using hnf)
    rw [abs_of_nonneg (mul_nonneg hx0 hcpos.le)] at this
    have h67 : (2 : Rat) ^ 67 < 2 * 2 := by linarith
    norm_num at h67
  have hy1 : Approx u 1 (Fl.mul f (Fl.ofNat f n) cn).toRat ((Fl.ofNat f n).toRat * cn.toRat) ∧
      Ok f (Fl.mul f (Fl.ofNat f n) cn) := by
    by_cases hn00 : n = 0
    · -- `0 * cn` is an exact zero
      subst hn00
      have hz : Fl.ofNat f 0 = Fl.zero f false := by simp [Fl.ofNat]
      cases hcn : cn with
      | nan => have := H.hcnfin; rw [hcn] at this; simp [Fl.isFinite] at this
      | inf a => have := H.hcnfin; rw [hcn] at this; simp [Fl.isFinite] at this
      | fin sK mK eK =>
        have hval := mul_toRat_zero f (r := Fl.ofNat f 0) hnfin (by rw [hz, toRat_zero]) sK mK eK
        refine ⟨?_, ?_⟩
        · rw [hval, hz, toRat_zero, zero_mul]
          exact Approx.mono hu0 hu1 (by omega) (Approx.refl 0)
        · rw [hcn] at hyfin
          rw [hz] at hyfin ⊢
          exact mul_ok _ _ _ _ _ _ hyfin
    · -- `n ≥ 1`: the product is at least half a nanosecond, a normal number
      have hn1 : (1 : Rat) ≤ n := by
        have : 1 ≤ n := Nat.one_le_iff_ne_zero.mpr hn00
        exact_mod_cast this
      have hN : nmin f ≤ |(Fl.ofNat f n).toRat * cn.toRat| := by
        rw [abs_of_nonneg (mul_nonneg hx0 hcpos.le)]
        have h1 : (7 / 8 : Rat) ≤ (Fl.ofNat f n).toRat := by linarith
        have h2 : (7 / 8 : Rat) * (1 / 1000000000 * (7 / 8)) ≤ (Fl.ofNat f n).toRat * cn.toRat :=
          mul_le_mul h1 hclo (by norm_num) hx0
        have := H.hnm
        have hnmin := nmin_pos f
        linarith
      exact mul_approx hp hnfin H.hcnfin hN hyfin
  obtain ⟨hy1, hyOk⟩ := hy1
  have hyA : Approx u 3 (Fl.mul f (Fl.ofNat f n) cn).toRat ((n : Rat) / 1000000000) := by
    have := Approx.trans hu1 hy1 (Approx.mul hu0 hu1 hnA H.hcn)
    rwa [mul_one_div] at this
  obtain ⟨hy0, hy2⟩ : 0 ≤ (Fl.mul f (Fl.ofNat f n) cn).toRat ∧
      (Fl.mul f (Fl.ofNat f n) cn).toRat < 4 := by
    obtain ⟨hlo, hhi⟩ := approx1_bounds hu0 hu8 (mul_nonneg hx0 hcpos.le) hy1
    have := mul_nonneg hx0 hcpos.le
    constructor <;> nlinarith
  -- the sum
  have hsum_fin : (Fl.add f (Fl.ofNat f s) (Fl.mul f (Fl.ofNat f n) cn)).isFinite = true := by
    by_contra hnf
    have := add_overflow hf hsfin hyfin (by simpa using hnf)
    have hs0' : 0 ≤ (Fl.ofNat f s).toRat := by linarith [mul_nonneg hs0 (by norm_num : (0 : Rat) ≤ 7 / 8)]
    rw [abs_of_nonneg (add_nonneg hs0' hy0)] at this
    have : (2 : Rat) ^ 67 < 2 * (2 ^ 64 * (8 / 7) + 4) := by linarith
    norm_num at this
  refine ⟨hsum_fin, ?_⟩
  obtain ⟨haddA, -⟩ := add_approx hp hsOk hyOk hsum_fin
  have hs3 : Approx u 3 (Fl.ofNat f s).toRat (s : Rat) := Approx.mono hu0 hu1 (by omega) hsA
  have hsum := approx_add_nonneg hu0 hu1 hs0 (div_nonneg hn0 (by norm_num)) hs3 hyA
  exact Approx.trans hu1 haddA hsum

/-- **Soundness of `oracleTimFl` in the second base, generic form**: for a real Duration
    (`s < 2^64`, `n < 10^9`) the oracle evaluated on what the model itself prints answers `ok`. -/
theorem oracleTimFl_sound_second {cn : Fl} (H : NanoOk f cn)
    (hrt : ∀ x, Fl.Canonical f x → flOf? f (flHex f x) = some x)
    {s n : Nat} (hs : s < 2 ^ 64) (hn : n < 1000000000) :
    oracleTimFl f (Fl.one f) (Fl.one f) s n
      ("ok:" ++ flHex f (timeOfDurFl f (Fl.one f) (Fl.one f) cn s n)) = .ok := by
  obtain ⟨hfin, hA⟩ := timeOfDurFl_second_approx H hs hn
  have hcan : Fl.Canonical f (timeOfDurFl f (Fl.one f) (Fl.one f) cn s n) := by
    rw [timeOfDurFl_second H.hf cn H.hge]; exact Fl.add_canonical H.hf _ _
  refine oracleTimFl_ok f _ _ s n _ (hrt _ hcan) hfin ?_
  rw [one_toRat H.hf.hp, mul_one, div_one, oracle_uro_eq]
  have hd : (0 : Rat) ≤ (s : Rat) + (n : Rat) / 1000000000 :=
    add_nonneg (Nat.cast_nonneg _) (div_nonneg (Nat.cast_nonneg _) (by norm_num))
  exact abs_le_8u_of_approx4 (uro_nonneg f) (uro_le_eighth H.hp3) hd hA

/-! ### 2e. binary64 and binary32 -/

theorem thr2_b64 : (2 : Rat) ^ 67 ≤ thr2 b64 := by
  unfold thr2
  show (2 : Rat) ^ 67 ≤ ((2 : Rat) ^ (53 + 1) - 1) * (2 : Rat) ^ (971 : Int)
  have : (2 : Rat) ^ (971 : Int) = 2 ^ 67 * 2 ^ (904 : Nat) := by
    rw [show (971 : Int) = ((67 + 904 : Nat) : Int) by norm_num, zpow_natCast, pow_add]
  rw [this]
  have h1 : (1 : Rat) ≤ 2 ^ (904 : Nat) := one_le_pow₀ (by norm_num)
  have h67 : (0 : Rat) < 2 ^ 67 := by positivity
  calc (2 : Rat) ^ 67 = 1 * (2 ^ 67 * 1) := by ring
    _ ≤ ((2 : Rat) ^ (53 + 1) - 1) * (2 ^ 67 * 2 ^ (904 : Nat)) :=
        mul_le_mul (by norm_num) (mul_le_mul_of_nonneg_left h1 h67.le) (by positivity) (by norm_num)

theorem thr2_b32 : (2 : Rat) ^ 67 ≤ thr2 b32 := by
  unfold thr2
  show (2 : Rat) ^ 67 ≤ ((2 : Rat) ^ (24 + 1) - 1) * (2 : Rat) ^ (104 : Int)
  have : (2 : Rat) ^ (104 : Int) = 2 ^ 67 * 2 ^ (37 : Nat) := by
    rw [show (104 : Int) = ((67 + 37 : Nat) : Int) by norm_num, zpow_natCast, pow_add]
  rw [this]
  have h1 : (1 : Rat) ≤ 2 ^ (37 : Nat) := one_le_pow₀ (by norm_num)
  have h67 : (0 : Rat) < 2 ^ 67 := by positivity
  calc (2 : Rat) ^ 67 = 1 * (2 ^ 67 * 1) := by ring
    _ ≤ ((2 : Rat) ^ (24 + 1) - 1) * (2 ^ 67 * 2 ^ (37 : Nat)) :=
        mul_le_mul (by norm_num) (mul_le_mul_of_nonneg_left h1 h67.le) (by positivity) (by norm_num)

theorem cn64_ge_one : Fl.ge cn64 (Fl.one b64) = false := by decide +kernel
theorem cn32_ge_one : Fl.ge cn32 (Fl.one b32) = false := by decide +kernel

theorem cn32_eq : cn32 = Fl.fin false 9007199 (-53) := by decide +kernel

theorem nanoOk_b64 : NanoOk b64 cn64 where
  hf := b64_wf
  hp3 := by decide
  hthr := thr2_b64
  hnm := by
    unfold nmin
    show (2 : Rat) ^ ((-1074 : Int) + (53 : Nat) - 1) * 4000000000 ≤ 1
    have : (2 : Rat) ^ ((-1074 : Int) + (53 : Nat) - 1) ≤ (2 : Rat) ^ (-32 : Int) :=
      zpow_le_zpow_right₀ (by norm_num) (by norm_num)
    have h32 : (2 : Rat) ^ (-32 : Int) = 1 / 4294967296 := by norm_num
    rw [h32] at this
    calc _ ≤ (1 / 4294967296 : Rat) * 4000000000 := mul_le_mul_of_nonneg_right this (by norm_num)
      _ ≤ 1 := by norm_num
  hcnfin := by rw [cn64_eq]; rfl
  hcn := by
    refine ⟨4835703278458517 / 2 ^ 82 * 1000000000, ?_, ?_, ?_⟩
    · rw [cn64_eq, toRat_fin, sgn]; norm_num
    · rw [pow_one]; unfold Uom.Proofs.uro; norm_num [b64]
    · rw [pow_one]; unfold Uom.Proofs.uro; norm_num [b64]
  hge := cn64_ge_one

theorem nanoOk_b32 : NanoOk b32 cn32 where
  hf := b32_wf
  hp3 := by decide
  hthr := thr2_b32
  hnm := by
    unfold nmin
    show (2 : Rat) ^ ((-149 : Int) + (24 : Nat) - 1) * 4000000000 ≤ 1
    have : (2 : Rat) ^ ((-149 : Int) + (24 : Nat) - 1) ≤ (2 : Rat) ^ (-32 : Int) :=
      zpow_le_zpow_right₀ (by norm_num) (by norm_num)
    have h32 : (2 : Rat) ^ (-32 : Int) = 1 / 4294967296 := by norm_num
    rw [h32] at this
    calc _ ≤ (1 / 4294967296 : Rat) * 4000000000 := mul_le_mul_of_nonneg_right this (by norm_num)
      _ ≤ 1 := by norm_num
  hcnfin := by rw [cn32_eq]; rfl
  hcn := by
    refine ⟨9007199 / 2 ^ 53 * 1000000000, ?_, ?_, ?_⟩
    · rw [cn32_eq, toRat_fin, sgn]; norm_num
    · rw [pow_one]; unfold Uom.Proofs.uro; norm_num [b32]
    · rw [pow_one]; unfold Uom.Proofs.uro; norm_num [b32]
  hge := cn32_ge_one

/-- the result of the float Duration → Time conversion of a real Duration is finite (binary64):
    the non-finite branch of `oracleTimFl` is not reachable -/
theorem timeOfDurFl_second_finite_b64 {s n : Nat} (hs : s < 2 ^ 64) (hn : n < 1000000000) :
    (timeOfDurFl b64 (Fl.one b64) (Fl.one b64) cn64 s n).isFinite = true :=
  (timeOfDurFl_second_approx nanoOk_b64 hs hn).1

/-- **Soundness of `oracleTimFl`, second base, binary64**: for every real Duration (`s < 2^64` seconds,
    `n < 10^9` nanoseconds) the oracle evaluated on the line the model itself prints answers `ok`;
    in particular it does not answer `.prop`.  No text hypothesis: the `startsWith` / `drop` / hex round
    trip facts are proved. -/
theorem oracleTimFl_sound_second_b64 {s n : Nat} (hs : s < 2 ^ 64) (hn : n < 1000000000) :
    oracleTimFl b64 (Fl.one b64) (Fl.one b64) s n
      ("ok:" ++ flHex b64 (timeOfDurFl b64 (Fl.one b64) (Fl.one b64) cn64 s n)) = .ok :=
  oracleTimFl_sound_second nanoOk_b64 (fun _ hx => flOf?_flHex_b64 hx) hs hn

theorem oracleTimFl_notProp_second_b64 {s n : Nat} (hs : s < 2 ^ 64) (hn : n < 1000000000) :
    NotProp (oracleTimFl b64 (Fl.one b64) (Fl.one b64) s n
      ("ok:" ++ flHex b64 (timeOfDurFl b64 (Fl.one b64) (Fl.one b64) cn64 s n))) := by
  rw [oracleTimFl_sound_second_b64 hs hn]; exact notProp_ok

/-- the same for binary32 (`u64 as f32` and `u32 as f32` both round; still four roundings) -/
theorem oracleTimFl_sound_second_b32 {s n : Nat} (hs : s < 2 ^ 64) (hn : n < 1000000000) :
    oracleTimFl b32 (Fl.one b32) (Fl.one b32) s n
      ("ok:" ++ flHex b32 (timeOfDurFl b32 (Fl.one b32) (Fl.one b32) cn32 s n)) = .ok :=
  oracleTimFl_sound_second nanoOk_b32 (fun _ hx => flOf?_flHex_b32 hx) hs hn

theorem oracleTimFl_notProp_second_b32 {s n : Nat} (hs : s < 2 ^ 64) (hn : n < 1000000000) :
    NotProp (oracleTimFl b32 (Fl.one b32) (Fl.one b32) s n
      ("ok:" ++ flHex b32 (timeOfDurFl b32 (Fl.one b32) (Fl.one b32) cn32 s n))) := by
  rw [oracleTimFl_sound_second_b32 hs hn]; exact notProp_ok

end Uom.TimOracleSound

#print axioms Uom.TimOracleSound.oracleDurFl_sound_second_b32
#print axioms Uom.TimOracleSound.timeOfDurFl_second_approx
#print axioms Uom.TimOracleSound.timeOfDurFl_second_finite_b64
#print axioms Uom.TimOracleSound.oracleTimFl_sound_second_b64
#print axioms Uom.TimOracleSound.oracleTimFl_notProp_second_b64
#print axioms Uom.TimOracleSound.oracleTimFl_sound_second_b32
#print axioms Uom.TimOracleSound.oracleTimFl_notProp_second_b32
