import Uom.Model.Fold
import Uom.Proofs.FlFold
/-!
# The folded normal forms compute exactly what the conversion kernel computes (C04)
-/
namespace Uom.Fl
variable {f : Fmt}

theorem zero_isZero (s : Bool) : (zero f s).isZero = true := rfl

theorem ge_one_of_eq (coef fac : Fl) (h : fac = one f) (hge : Fl.ge coef fac = false) : Fl.ge coef (one f) = false := by
  rw [← h]; exact hge

/-- `to_base`, any constant term that is either the `−0.0` of an offset-free unit or a genuine offset -/
theorem foldNew_correct (hf : f.WF) (v coef c fac : Fl) (hv : Canonical f v)
    (hc : c.isZero = true → c = zero f true) :
    (foldNew f coef c fac).eval f v = toBase (flS f) coef c fac v := by
  unfold foldNew
  by_cases hz : c.isZero = true
  · have hc' := hc hz; subst hc'
    simp only [zero_isZero]
    by_cases hge : Fl.ge coef fac = true
    · simp only [hge, if_true]
      by_cases hk : div f coef fac = one f
      · simp only [isOneFl, hk, decide_true, if_true, Shape.eval]
        rw [toBase_fold_ge hf v coef fac hv hge, hk, mul_one hf v hv]
      · simp only [isOneFl, hk, decide_false, Bool.false_eq_true, if_false, if_true, Shape.eval]
        rw [toBase_fold_ge hf v coef fac hv hge]
    · have hge' : Fl.ge coef fac = false := by simpa using hge
      simp only [hge', Bool.false_eq_true, if_false]
      by_cases h1 : fac = one f
      · simp only [isOneFl, h1, decide_true, if_true, Shape.eval]
        rw [toBase_fold_lt_one hf v coef hv (ge_one_of_eq coef fac h1 hge')]
      · simp only [isOneFl, h1, decide_false, Bool.false_eq_true, if_false, if_true, Shape.eval]
        rw [toBase_fold_lt hf v coef fac hv hge']
  · have hz' : c.isZero = false := by simpa using hz
    simp only [hz', Bool.false_eq_true, if_false]
    by_cases hge : Fl.ge coef fac = true
    · simp only [hge, if_true]
      by_cases hk : div f coef fac = one f
      · simp only [isOneFl, hk, decide_true, if_true, Shape.eval]
        rw [toBase_affine_ge v coef c fac hge, hk, mul_one hf _ (add_canonical hf v c)]
      · simp only [isOneFl, hk, decide_false, Bool.false_eq_true, if_false, if_true, Shape.eval]
        rw [toBase_affine_ge v coef c fac hge]
    · have hge' : Fl.ge coef fac = false := by simpa using hge
      simp only [hge', Bool.false_eq_true, if_false]
      by_cases h1 : fac = one f
      · simp only [isOneFl, h1, decide_true, if_true, Shape.eval]
        rw [toBase_affine_lt v coef c (one f) (ge_one_of_eq coef fac h1 hge'), div_one hf _ (mul_canonical hf _ _)]
      · simp only [isOneFl, h1, decide_false, Bool.false_eq_true, if_false, if_true, Shape.eval]
        rw [toBase_affine_lt v coef c fac hge']

/-- `from_base` -/
theorem foldGet_correct (hf : f.WF) (v coef c fac : Fl) (hv : Canonical f v)
    (hc : c.isZero = true → c = zero f false) :
    (foldGet f coef c fac).eval f v = fromBase (flS f) coef c fac v := by
  unfold foldGet
  by_cases hz : c.isZero = true
  · have hc' := hc hz; subst hc'
    simp only [zero_isZero]
    by_cases hlt : Fl.lt coef fac = true
    · simp only [hlt, if_true, Shape.eval]
      rw [fromBase_fold_lt hf v coef fac hlt]
    · have hlt' : Fl.lt coef fac = false := by simpa using hlt
      simp only [hlt', Bool.false_eq_true, if_false]
      by_cases hk : div f coef fac = one f
      · simp only [isOneFl, hk, decide_true, if_true, Shape.eval]
        rw [fromBase_fold_ge hf v coef fac hlt', hk, div_one hf v hv]
      · simp only [isOneFl, hk, decide_false, Bool.false_eq_true, if_false, if_true, Shape.eval]
        rw [fromBase_fold_ge hf v coef fac hlt']
  · have hz' : c.isZero = false := by simpa using hz
    simp only [hz', Bool.false_eq_true, if_false]
    by_cases hlt : Fl.lt coef fac = true
    · simp only [hlt, if_true, Shape.eval]
      rw [fromBase_affine_lt v coef c fac hlt]
    · have hlt' : Fl.lt coef fac = false := by simpa using hlt
      simp only [hlt', Bool.false_eq_true, if_false]
      by_cases hk : div f coef fac = one f
      · simp only [isOneFl, hk, decide_true, if_true, Shape.eval]
        rw [fromBase_affine_ge v coef c fac hlt', hk, div_one hf v hv]
      · simp only [isOneFl, hk, decide_false, Bool.false_eq_true, if_false, if_true, Shape.eval]
        rw [fromBase_affine_ge v coef c fac hlt']

/-- `change_base` -/
theorem foldChange_correct (hf : f.WF) (v l r : Fl) (hv : Canonical f v) :
    (foldChange f l r).eval f v = changeBase (flS f) l r v := by
  unfold foldChange
  by_cases hge : Fl.ge r l = true
  · simp only [hge, if_true]
    by_cases hk : div f r l = one f
    · simp only [isOneFl, hk, decide_true, if_true, Shape.eval]
      rw [changeBase_fold_ge v l r hge, hk, mul_one hf v hv]
    · simp only [isOneFl, hk, decide_false, Bool.false_eq_true, if_false, if_true, Shape.eval]
      rw [changeBase_fold_ge v l r hge]
  · have hge' : Fl.ge r l = false := by simpa using hge
    simp only [hge', Bool.false_eq_true, if_false, Shape.eval]
    rw [changeBase_fold_lt v l r hge']

end Uom.Fl
