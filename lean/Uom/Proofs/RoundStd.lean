import Mathlib.Tactic.Ring
import Mathlib.Tactic.Linarith
import Mathlib.Tactic.Positivity
import Mathlib.Tactic.FieldSimp
import Mathlib.Tactic.NormNum
import Mathlib.Algebra.Order.Field.Basic
import Mathlib.Algebra.Order.Field.Power
import Mathlib.Algebra.Order.Field.Rat
import Mathlib.Algebra.Order.Ring.Rat
import Mathlib.Data.Rat.Defs
import Uom.Model.SoftFloat
/-!
# Layer 2: the standard model of rounding for the soft-float

`roundDy f s M E` (the single rounding step behind every soft-float operation) returns a float whose
value is `±M·2^E·(1+δ)` with `|δ| ≤ 2^-p`, whenever the result is finite and not in the subnormal
range.  Corollaries for `Fl.mul`, `Fl.add`, `Fl.sub`, `Fl.div`.
-/

namespace Uom.Proofs
open Uom Uom.Fl

/-- the sign factor `(-1)^s` -/
def sgn (s : Bool) : Rat := if s then -1 else 1

theorem toRat_fin (s : Bool) (m : Nat) (e : Int) :
    (fin s m e).toRat = sgn s * (m : Rat) * (2 : Rat) ^ e := by
  unfold Fl.toRat
  simp only
  by_cases he : e ≥ 0
  · rw [if_pos he]
    have : e = (e.toNat : Int) := (Int.toNat_of_nonneg he).symm
    conv_rhs => rw [this, zpow_natCast]
    push_cast
    cases s <;> simp [sgn]
  · rw [if_neg he]
    have : e = -((-e).toNat : Int) := by omega
    conv_rhs => rw [this, zpow_neg, zpow_natCast]
    push_cast
    cases s <;> simp [sgn, div_eq_mul_inv]

/-- round-to-nearest-even of `M / 2^n` to an integer (the significand step of `roundDy`) -/
def rnd (M n : Nat) : Nat :=
  if (decide (2 * (M % 2 ^ n) > 2 ^ n) || (decide (2 * (M % 2 ^ n) = 2 ^ n) && decide (M / 2 ^ n % 2 = 1)))
  then M / 2 ^ n + 1 else M / 2 ^ n

/-- `rnd M n · 2^n` is within half a unit `2^n / 2` of `M` -/
theorem rnd_spec (M n : Nat) :
    2 * (rnd M n * 2 ^ n) ≤ 2 * M + 2 ^ n ∧ 2 * M ≤ 2 * (rnd M n * 2 ^ n) + 2 ^ n := by
  have hP : 0 < 2 ^ n := Nat.two_pow_pos n
  have hdm : 2 ^ n * (M / 2 ^ n) + M % 2 ^ n = M := Nat.div_add_mod M (2 ^ n)
  have hr : M % 2 ^ n < 2 ^ n := Nat.mod_lt _ hP
  unfold rnd
  generalize 2 ^ n = P at *
  generalize M / P = q at *
  generalize M % P = r at *
  have hc : P * q = q * P := Nat.mul_comm _ _
  split
  next h =>
    have hQ : (q + 1) * P = q * P + P := by rw [Nat.add_mul, Nat.one_mul]
    simp only [Bool.or_eq_true, Bool.and_eq_true, decide_eq_true_eq] at h
    rw [hQ]; omega
  next h =>
    simp only [Bool.or_eq_true, Bool.and_eq_true, decide_eq_true_eq, not_or, not_and] at h
    omega

theorem roundDy_eq_of_pos (f : Fmt) (s : Bool) (M : Nat) (E : Int)
    (hsh : 0 < max ((M.log2 : Int) + 1 - f.p) (f.emin - E)) :
    roundDy f s M E =
      (if rnd M (max ((M.log2 : Int) + 1 - f.p) (f.emin - E)).toNat = 2 ^ f.p then
        (if E + max ((M.log2 : Int) + 1 - f.p) (f.emin - E) + 1 > f.emax then inf s
          else fin s (2 ^ (f.p - 1)) (E + max ((M.log2 : Int) + 1 - f.p) (f.emin - E) + 1))
      else
        (if E + max ((M.log2 : Int) + 1 - f.p) (f.emin - E) > f.emax then inf s
          else fin s (rnd M (max ((M.log2 : Int) + 1 - f.p) (f.emin - E)).toNat)
            (E + max ((M.log2 : Int) + 1 - f.p) (f.emin - E)))) := by
  unfold roundDy rnd
  simp only [not_le.mpr hsh, if_false]

theorem two_zpow_pos (e : Int) : (0 : Rat) < (2 : Rat) ^ e := zpow_pos (by norm_num) e

/-- exact branch of `roundDy` (no low bits dropped): the value is preserved -/
theorem roundDy_exact (f : Fmt) (s : Bool) (M : Nat) (E : Int)
    (hsh : max ((M.log2 : Int) + 1 - f.p) (f.emin - E) ≤ 0)
    (hfin : (roundDy f s M E).isFinite = true) :
    (roundDy f s M E).toRat = sgn s * (M : Rat) * (2 : Rat) ^ E := by
  unfold roundDy at hfin ⊢
  simp only [if_pos hsh] at hfin ⊢
  split at hfin
  · simp [isFinite] at hfin
  · next h =>
    rw [if_neg h, toRat_fin]
    have hk : 0 ≤ min ((f.p : Int) - ((M.log2 : Int) + 1)) (E - f.emin) := by omega
    generalize min ((f.p : Int) - ((M.log2 : Int) + 1)) (E - f.emin) = k at *
    have hk' : ((2 : Rat) ^ k.toNat) = (2 : Rat) ^ k := by
      rw [← zpow_natCast, Int.toNat_of_nonneg hk]
    push_cast
    rw [hk', mul_assoc, mul_assoc, ← zpow_add₀ (by norm_num : (2 : Rat) ≠ 0)]
    have : k + (E - k) = E := by omega
    rw [this, ← mul_assoc]

/-- rounding branch of `roundDy` (`n > 0` low bits dropped): the result is `m'·2^(E+n)` where
    `m'·2^n` is within `2^n / 2` of `M` -/
theorem roundDy_round (f : Fmt) (hp : 1 ≤ f.p) (s : Bool) (M : Nat) (E : Int) (n : Nat)
    (hn : (n : Int) = max ((M.log2 : Int) + 1 - f.p) (f.emin - E)) (hn0 : 0 < n)
    (hfin : (roundDy f s M E).isFinite = true) :
    ∃ m' : Nat, (roundDy f s M E).toRat = sgn s * ((m' : Rat) * (2 : Rat) ^ n) * (2 : Rat) ^ E ∧
      2 * (m' * 2 ^ n) ≤ 2 * M + 2 ^ n ∧ 2 * M ≤ 2 * (m' * 2 ^ n) + 2 ^ n := by
  have hsh : 0 < max ((M.log2 : Int) + 1 - f.p) (f.emin - E) := by omega
  rw [roundDy_eq_of_pos f s M E hsh] at hfin ⊢
  rw [← hn] at hfin ⊢
  simp only [Int.toNat_natCast] at hfin ⊢
  refine ⟨rnd M n, ?_, rnd_spec M n⟩
  have h2 : (2 : Rat) ≠ 0 := by norm_num
  have hE : (2 : Rat) ^ (E + (n : Int)) = (2 : Rat) ^ n * (2 : Rat) ^ E := by
    rw [zpow_add₀ h2, zpow_natCast, mul_comm]
  split at hfin
  · next hc =>
    split at hfin
    · simp [isFinite] at hfin
    · next he =>
      rw [if_pos hc, if_neg he, toRat_fin, hc, zpow_add_one₀ h2, hE]
      have : (2 : Rat) ^ f.p = 2 ^ (f.p - 1) * 2 := by
        rw [← pow_succ]; congr 1; omega
      push_cast
      rw [this]; ring
  · next hc =>
    split at hfin
    · simp [isFinite] at hfin
    · next he =>
      rw [if_neg hc, if_neg he, toRat_fin, hE]; ring

/-- the arithmetic heart: a multiple `m'·2^n` of `2^n` within half a unit of `T ≥ 2^(n+p-1)`
    has relative distance at most `2^-p` -/
theorem rel_of_close (T : Rat) (m' n p : Nat) (hT : (2 : Rat) ^ (n + p) ≤ 2 * T)
    (h1 : 2 * ((m' : Rat) * 2 ^ n) ≤ 2 * T + 2 ^ n) (h2 : 2 * T ≤ 2 * ((m' : Rat) * 2 ^ n) + 2 ^ n) :
    ∃ δ : Rat, (m' : Rat) * 2 ^ n = T * (1 + δ) ∧ |δ| ≤ 1 / (2 : Rat) ^ p := by
  have hnp : (0 : Rat) < 2 ^ (n + p) := by positivity
  have hT0 : 0 < T := by linarith
  have hp0 : (0 : Rat) < 2 ^ p := by positivity
  refine ⟨((m' : Rat) * 2 ^ n - T) / T, by field_simp; ring, ?_⟩
  rw [abs_div, abs_of_pos hT0, div_le_div_iff₀ hT0 hp0, one_mul]
  have habs : |(m' : Rat) * 2 ^ n - T| ≤ 2 ^ n / 2 := by
    rw [abs_le]; constructor <;> linarith
  calc |(m' : Rat) * 2 ^ n - T| * 2 ^ p ≤ 2 ^ n / 2 * 2 ^ p := mul_le_mul_of_nonneg_right habs hp0.le
    _ = 2 ^ (n + p) / 2 := by rw [pow_add]; ring
    _ ≤ T := by linarith

/-- **Standard model for `roundDy`**: if the result is finite and not in the subnormal range
    (either the bit-length shift dominates, `emin - E ≤ b - p`, or nothing has to be dropped for the
    exponent, `emin ≤ E`), then the rounded value is `M·2^E·(1+δ)` with `|δ| ≤ 2^-p`. -/
theorem roundDy_rel' (f : Fmt) (hp : 1 ≤ f.p) (s : Bool) (M : Nat) (E : Int) (hM : 0 < M)
    (hnormal : f.emin - E ≤ max ((M.log2 : Int) + 1 - f.p) 0)
    (hfin : (roundDy f s M E).isFinite = true) :
    ∃ δ : Rat, (roundDy f s M E).toRat = sgn s * (M : Rat) * (2 : Rat) ^ E * (1 + δ) ∧
      |δ| ≤ 1 / (2 : Rat) ^ f.p := by
  by_cases hsh : max ((M.log2 : Int) + 1 - f.p) (f.emin - E) ≤ 0
  · refine ⟨0, ?_, ?_⟩
    · rw [roundDy_exact f s M E hsh hfin]; ring
    · rw [abs_zero]; positivity
  · -- rounding branch; the shift is `b - p`
    have hb : (0 : Int) < (M.log2 : Int) + 1 - f.p := by omega
    obtain ⟨n, hn⟩ : ∃ n : Nat, (n : Int) = (M.log2 : Int) + 1 - f.p :=
      ⟨((M.log2 : Int) + 1 - f.p).toNat, by omega⟩
    have hn' : (n : Int) = max ((M.log2 : Int) + 1 - f.p) (f.emin - E) := by omega
    have hn0 : 0 < n := by omega
    obtain ⟨m', hval, h1, h2⟩ := roundDy_round f hp s M E n hn' hn0 hfin
    have hnp : n + f.p = M.log2 + 1 := by omega
    have hlog : 2 ^ M.log2 ≤ M := Nat.log2_self_le (by omega)
    have hT : (2 : Rat) ^ (n + f.p) ≤ 2 * (M : Rat) := by
      rw [hnp, pow_succ, mul_comm]
      have : ((2 ^ M.log2 : Nat) : Rat) ≤ (M : Rat) := Nat.cast_le.mpr hlog
      push_cast at this; linarith
    have h1' : 2 * ((m' : Rat) * 2 ^ n) ≤ 2 * (M : Rat) + 2 ^ n := by exact_mod_cast h1
    have h2' : 2 * (M : Rat) ≤ 2 * ((m' : Rat) * 2 ^ n) + 2 ^ n := by exact_mod_cast h2
    obtain ⟨δ, hδ, hδb⟩ := rel_of_close (M : Rat) m' n f.p hT h1' h2'
    refine ⟨δ, ?_, hδb⟩
    rw [hval, hδ]; ring

/-- the requested phrasing: `emin ≤ E + (b - p)` -/
theorem roundDy_rel (f : Fmt) (hp : 1 ≤ f.p) (s : Bool) (M : Nat) (E : Int) (hM : 0 < M)
    (hnormal : f.emin ≤ E + ((M.log2 : Int) + 1 - f.p))
    (hfin : (roundDy f s M E).isFinite = true) :
    ∃ δ : Rat, (roundDy f s M E).toRat =
        (if s then -1 else 1) * (M : Rat) * (2 : Rat) ^ E * (1 + δ) ∧ |δ| ≤ 1 / (2 : Rat) ^ f.p :=
  roundDy_rel' f hp s M E hM (by omega) hfin

/-! ### value-based form of the "normal range" hypothesis -/

theorem abs_sgn (s : Bool) : |sgn s| = 1 := by cases s <;> simp [sgn]

theorem sgn_xor (s1 s2 : Bool) : sgn (s1 != s2) = sgn s1 * sgn s2 := by
  cases s1 <;> cases s2 <;> simp [sgn]

/-- `|M·2^E| ≥ 2^(emin+p-1)` (the least positive normal number) implies the shift condition -/
theorem normal_of_le (f : Fmt) (M : Nat) (E : Int)
    (h : (2 : Rat) ^ (f.emin + f.p - 1) ≤ (M : Rat) * (2 : Rat) ^ E) :
    f.emin ≤ E + ((M.log2 : Int) + 1 - f.p) := by
  have hlt : (M : Rat) < (2 : Rat) ^ (M.log2 + 1) := by
    have : M < 2 ^ (M.log2 + 1) := Nat.lt_log2_self
    exact_mod_cast this
  have h2 : (2 : Rat) ≠ 0 := by norm_num
  have hE := two_zpow_pos E
  have : (2 : Rat) ^ (f.emin + f.p - 1) < (2 : Rat) ^ (((M.log2 + 1 : Nat) : Int) + E) := by
    rw [zpow_add₀ h2, zpow_natCast]
    exact lt_of_le_of_lt h (mul_lt_mul_of_pos_right hlt hE)
  have := (zpow_lt_zpow_iff_right₀ (by norm_num : (1 : Rat) < 2)).mp this
  push_cast at this
  omega

theorem roundDy_rel_of_le (f : Fmt) (hp : 1 ≤ f.p) (s : Bool) (M : Nat) (E : Int) (hM : 0 < M)
    (hnormal : (2 : Rat) ^ (f.emin + f.p - 1) ≤ (M : Rat) * (2 : Rat) ^ E)
    (hfin : (roundDy f s M E).isFinite = true) :
    ∃ δ : Rat, (roundDy f s M E).toRat = sgn s * (M : Rat) * (2 : Rat) ^ E * (1 + δ) ∧
      |δ| ≤ 1 / (2 : Rat) ^ f.p :=
  roundDy_rel f hp s M E hM (normal_of_le f M E hnormal) hfin

/-! ### multiplication -/

theorem mul_fin_eq (f : Fmt) (s1 s2 : Bool) (m1 m2 : Nat) (e1 e2 : Int) (h1 : 0 < m1) (h2 : 0 < m2) :
    Fl.mul f (fin s1 m1 e1) (fin s2 m2 e2) = roundDy f (s1 != s2) (m1 * m2) (e1 + e2) := by
  have : m1 * m2 ≠ 0 := Nat.mul_ne_zero (by omega) (by omega)
  simp only [Fl.mul, this, if_false]

theorem toRat_mul_toRat (s1 s2 : Bool) (m1 m2 : Nat) (e1 e2 : Int) :
    (fin s1 m1 e1).toRat * (fin s2 m2 e2).toRat =
      sgn (s1 != s2) * ((m1 * m2 : Nat) : Rat) * (2 : Rat) ^ (e1 + e2) := by
  rw [toRat_fin, toRat_fin, sgn_xor, zpow_add₀ (by norm_num : (2 : Rat) ≠ 0)]
  push_cast; ring

/-- `x * y` (finite, non-zero operands; result finite and not subnormal): one rounding -/
theorem mul_rel' (f : Fmt) (hp : 1 ≤ f.p) (s1 s2 : Bool) (m1 m2 : Nat) (e1 e2 : Int)
    (h1 : 0 < m1) (h2 : 0 < m2)
    (hnormal : f.emin - (e1 + e2) ≤ max (((m1 * m2).log2 : Int) + 1 - f.p) 0)
    (hfin : (Fl.mul f (fin s1 m1 e1) (fin s2 m2 e2)).isFinite = true) :
    ∃ δ : Rat, (Fl.mul f (fin s1 m1 e1) (fin s2 m2 e2)).toRat =
        (fin s1 m1 e1).toRat * (fin s2 m2 e2).toRat * (1 + δ) ∧ |δ| ≤ 1 / (2 : Rat) ^ f.p := by
  rw [mul_fin_eq f s1 s2 m1 m2 e1 e2 h1 h2] at hfin ⊢
  rw [toRat_mul_toRat]
  exact roundDy_rel' f hp _ _ _ (Nat.mul_pos h1 h2) hnormal hfin

/-- value-based hypothesis: the exact product is at least the least positive normal number -/
theorem mul_rel (f : Fmt) (hp : 1 ≤ f.p) (s1 s2 : Bool) (m1 m2 : Nat) (e1 e2 : Int)
    (hnormal : (2 : Rat) ^ (f.emin + f.p - 1) ≤ |(fin s1 m1 e1).toRat * (fin s2 m2 e2).toRat|)
    (hfin : (Fl.mul f (fin s1 m1 e1) (fin s2 m2 e2)).isFinite = true) :
    ∃ δ : Rat, (Fl.mul f (fin s1 m1 e1) (fin s2 m2 e2)).toRat =
        (fin s1 m1 e1).toRat * (fin s2 m2 e2).toRat * (1 + δ) ∧ |δ| ≤ 1 / (2 : Rat) ^ f.p := by
  have hpos : (0 : Rat) < (2 : Rat) ^ (f.emin + f.p - 1) := two_zpow_pos _
  rw [toRat_mul_toRat, abs_mul, abs_mul, abs_sgn, one_mul, abs_of_nonneg (Nat.cast_nonneg _),
    abs_of_pos (two_zpow_pos _)] at hnormal
  have hm : 0 < m1 * m2 := by
    rcases Nat.eq_zero_or_pos (m1 * m2) with h | h
    · rw [h] at hnormal; simp at hnormal; linarith
    · exact h
  have h1 : 0 < m1 := Nat.pos_of_mul_pos_right hm
  have h2 : 0 < m2 := Nat.pos_of_mul_pos_left hm
  exact mul_rel' f hp s1 s2 m1 m2 e1 e2 h1 h2 (by have := normal_of_le f _ _ hnormal; omega) hfin

/-! ### addition (no "normal" hypothesis: sums in the subnormal range are exact) -/

theorem sgn_mul_eq_sval (s : Bool) (n : Nat) : sgn s * (n : Rat) = ((sval s n : Int) : Rat) := by
  cases s <;> simp [sgn, sval]

theorem sgn_natAbs (v : Int) : sgn (decide (v < 0)) * ((v.natAbs : Nat) : Rat) = (v : Rat) := by
  by_cases h : v < 0
  · have : ((v.natAbs : Int) : Rat) = ((-v : Int) : Rat) := by congr 1; omega
    simp only [h, decide_true, sgn, if_true]
    rw [← Int.cast_natCast, this]; push_cast; ring
  · have : ((v.natAbs : Int) : Rat) = (v : Rat) := by congr 1; omega
    simp only [h, decide_false, sgn]
    rw [← Int.cast_natCast, this]; simp

theorem toRat_zero (f : Fmt) (s : Bool) : (Fl.zero f s).toRat = 0 := by
  rw [Fl.zero, toRat_fin]; simp

/-- rounding a signed dyadic `v·2^E` whose exponent is not below `emin`: one rounding, never a
    subnormal rounding error -/
theorem roundInt_rel (f : Fmt) (hp : 1 ≤ f.p) (v : Int) (E : Int) (zneg : Bool)
    (hnormal : v ≠ 0 → f.emin - E ≤ max ((v.natAbs.log2 : Int) + 1 - f.p) 0)
    (hfin : (roundInt f v E zneg).isFinite = true) :
    ∃ δ : Rat, (roundInt f v E zneg).toRat = (v : Rat) * (2 : Rat) ^ E * (1 + δ) ∧
      |δ| ≤ 1 / (2 : Rat) ^ f.p := by
  unfold roundInt at hfin ⊢
  by_cases hv : v = 0
  · rw [if_pos hv, toRat_zero]
    refine ⟨0, by simp [hv], ?_⟩
    rw [abs_zero]; positivity
  · rw [if_neg hv] at hfin ⊢
    have hM : 0 < v.natAbs := by omega
    obtain ⟨δ, hδ, hb⟩ := roundDy_rel' f hp _ _ E hM (hnormal hv) hfin
    refine ⟨δ, ?_, hb⟩
    rw [hδ, sgn_natAbs]

theorem toRat_fin_shift (s : Bool) (m : Nat) (e e' : Int) (h : e' ≤ e) :
    (fin s m e).toRat = ((sval s (m * 2 ^ (e - e').toNat) : Int) : Rat) * (2 : Rat) ^ e' := by
  rw [toRat_fin, ← sgn_mul_eq_sval]
  have hk : ((2 : Rat) ^ (e - e').toNat) = (2 : Rat) ^ (e - e') := by
    rw [← zpow_natCast, Int.toNat_of_nonneg (by omega)]
  push_cast
  rw [hk, mul_assoc, mul_assoc, mul_assoc, ← zpow_add₀ (by norm_num : (2 : Rat) ≠ 0)]
  have : e - e' + e' = e := by omega
  rw [this]

theorem add_fin_eq (f : Fmt) (s1 s2 : Bool) (m1 m2 : Nat) (e1 e2 : Int) :
    Fl.add f (fin s1 m1 e1) (fin s2 m2 e2) =
      roundInt f (sval s1 (m1 * 2 ^ (e1 - min e1 e2).toNat) + sval s2 (m2 * 2 ^ (e2 - min e1 e2).toNat))
        (min e1 e2) (if m1 = 0 ∧ m2 = 0 then s1 && s2 else false) := by
  simp only [Fl.add]

theorem toRat_add_toRat (s1 s2 : Bool) (m1 m2 : Nat) (e1 e2 : Int) :
    (fin s1 m1 e1).toRat + (fin s2 m2 e2).toRat =
      ((sval s1 (m1 * 2 ^ (e1 - min e1 e2).toNat) + sval s2 (m2 * 2 ^ (e2 - min e1 e2).toNat) : Int) : Rat)
        * (2 : Rat) ^ (min e1 e2) := by
  rw [toRat_fin_shift s1 m1 e1 (min e1 e2) (by omega), toRat_fin_shift s2 m2 e2 (min e1 e2) (by omega)]
  push_cast; ring

/-- `x + y` (finite operands with exponents `≥ emin`, e.g. canonical ones; result finite): one rounding.
    No "normal range" hypothesis is needed: a sum that falls into the subnormal range is exact. -/
theorem add_rel (f : Fmt) (hp : 1 ≤ f.p) (s1 s2 : Bool) (m1 m2 : Nat) (e1 e2 : Int)
    (he1 : f.emin ≤ e1) (he2 : f.emin ≤ e2)
    (hfin : (Fl.add f (fin s1 m1 e1) (fin s2 m2 e2)).isFinite = true) :
    ∃ δ : Rat, (Fl.add f (fin s1 m1 e1) (fin s2 m2 e2)).toRat =
        ((fin s1 m1 e1).toRat + (fin s2 m2 e2).toRat) * (1 + δ) ∧ |δ| ≤ 1 / (2 : Rat) ^ f.p := by
  rw [add_fin_eq] at hfin ⊢
  rw [toRat_add_toRat]
  exact roundInt_rel f hp _ _ _ (fun _ => by omega) hfin

theorem neg_fin (s : Bool) (m : Nat) (e : Int) : Fl.neg (fin s m e) = fin (!s) m e := rfl

theorem toRat_neg (x : Fl) : (Fl.neg x).toRat = - x.toRat := by
  cases x with
  | nan => simp [Fl.neg, Fl.toRat]
  | inf s => simp [Fl.neg, Fl.toRat]
  | fin s m e => rw [neg_fin, toRat_fin, toRat_fin]; cases s <;> simp [sgn]

/-- `x - y`: one rounding -/
theorem sub_rel (f : Fmt) (hp : 1 ≤ f.p) (s1 s2 : Bool) (m1 m2 : Nat) (e1 e2 : Int)
    (he1 : f.emin ≤ e1) (he2 : f.emin ≤ e2)
    (hfin : (Fl.sub f (fin s1 m1 e1) (fin s2 m2 e2)).isFinite = true) :
    ∃ δ : Rat, (Fl.sub f (fin s1 m1 e1) (fin s2 m2 e2)).toRat =
        ((fin s1 m1 e1).toRat - (fin s2 m2 e2).toRat) * (1 + δ) ∧ |δ| ≤ 1 / (2 : Rat) ^ f.p := by
  unfold Fl.sub at hfin ⊢
  rw [neg_fin] at hfin ⊢
  obtain ⟨δ, hδ, hb⟩ := add_rel f hp s1 (!s2) m1 m2 e1 e2 he1 he2 hfin
  refine ⟨δ, ?_, hb⟩
  rw [hδ, ← neg_fin, toRat_neg]; ring

/-! ### division: quotient with a sticky bit -/

/-- what `divDy` computes: `M = 2q + st` where `q = ⌊n·2^k / d⌋ ≥ 2^(p+1)` and `st` flags a remainder -/
theorem divDy_spec (p n d : Nat) (hn : 0 < n) (hd : 0 < d) :
    ∃ q st k : Nat, divDy p n d = (2 * q + st, -(k : Int) - 1) ∧
      ((st = 0 ∧ n * 2 ^ k = q * d) ∨ (st = 1 ∧ q * d < n * 2 ^ k ∧ n * 2 ^ k < (q + 1) * d)) ∧
      2 ^ (p + 1) ≤ q := by
  refine ⟨n * 2 ^ ((p + 2 + (d.log2 + 1)) - (n.log2 + 1)) / d,
    if n * 2 ^ ((p + 2 + (d.log2 + 1)) - (n.log2 + 1)) % d = 0 then 0 else 1,
    (p + 2 + (d.log2 + 1)) - (n.log2 + 1), rfl, ?_, ?_⟩
  · generalize (p + 2 + (d.log2 + 1)) - (n.log2 + 1) = k
    generalize n * 2 ^ k = num
    have hdm : d * (num / d) + num % d = num := Nat.div_add_mod num d
    have hr : num % d < d := Nat.mod_lt _ hd
    have hc : d * (num / d) = num / d * d := Nat.mul_comm _ _
    have hQ : (num / d + 1) * d = num / d * d + d := by rw [Nat.add_mul, Nat.one_mul]
    rw [hQ]
    generalize num / d * d = W at *
    by_cases h : num % d = 0
    · left; rw [if_pos h]; omega
    · right; rw [if_neg h]; omega
  · rw [Nat.le_div_iff_mul_le hd]
    have hk : p + 2 + d.log2 ≤ n.log2 + ((p + 2 + (d.log2 + 1)) - (n.log2 + 1)) := by omega
    generalize (p + 2 + (d.log2 + 1)) - (n.log2 + 1) = k at *
    have h1 : d < 2 ^ (d.log2 + 1) := Nat.lt_log2_self
    have h2 : 2 ^ n.log2 ≤ n := Nat.log2_self_le (by omega)
    calc 2 ^ (p + 1) * d ≤ 2 ^ (p + 1) * 2 ^ (d.log2 + 1) := Nat.mul_le_mul_left _ h1.le
      _ = 2 ^ (p + 2 + d.log2) := by rw [← Nat.pow_add]; congr 1; omega
      _ ≤ 2 ^ (n.log2 + k) := Nat.pow_le_pow_right (by norm_num) hk
      _ = 2 ^ n.log2 * 2 ^ k := Nat.pow_add _ _ _
      _ ≤ n * 2 ^ k := Nat.mul_le_mul_right _ h2

/-- parity argument: if an odd `M = 2q+1` lies within `2^n/2` of a multiple `W` of `2^n` (`n ≥ 2`),
    then the whole open interval `(2q, 2q+2)` does too -/
theorem sticky_nat (q m' n : Nat) (hn : 2 ≤ n)
    (h1 : 2 * (m' * 2 ^ n) ≤ 2 * (2 * q + 1) + 2 ^ n) (h2 : 2 * (2 * q + 1) ≤ 2 * (m' * 2 ^ n) + 2 ^ n) :
    2 * (m' * 2 ^ n) ≤ 2 * (2 * q) + 2 ^ n ∧ 2 * (2 * q + 2) ≤ 2 * (m' * 2 ^ n) + 2 ^ n := by
  have h2n : 2 ^ n = 4 * 2 ^ (n - 2) := by
    have : n = 2 + (n - 2) := by omega
    conv_lhs => rw [this, Nat.pow_add]
  have hW : m' * 2 ^ n = 4 * (m' * 2 ^ (n - 2)) := by rw [h2n]; ac_rfl
  rw [hW, h2n] at h1 h2 ⊢
  generalize m' * 2 ^ (n - 2) = W at *
  generalize 2 ^ (n - 2) = H at *
  omega

/-- `2^k ≤ 2q+1` with `k ≥ 1` implies `2^k ≤ 2q` -/
theorem pow_le_even (q k : Nat) (hk : 1 ≤ k) (h : 2 ^ k ≤ 2 * q + 1) : 2 ^ k ≤ 2 * q := by
  have : 2 ^ k = 2 * 2 ^ (k - 1) := by
    have : k = (k - 1) + 1 := by omega
    conv_lhs => rw [this, Nat.pow_succ, Nat.mul_comm]
  rw [this] at h ⊢; omega

/-- **rounding a quotient through a sticky bit is a correct rounding**: if `T` is the exact (rational)
    value, `2q ≤ T < 2q+2`, `st = 0` iff `T = 2q`, and `q` has at least `p+2` bits, then rounding
    `M = 2q+st` has relative error `≤ 2^-p` *with respect to `T`*. -/
theorem roundDy_sticky_rel (f : Fmt) (hp : 1 ≤ f.p) (s : Bool) (q st : Nat) (E : Int) (T : Rat)
    (hq : 2 ^ (f.p + 1) ≤ q)
    (hst : (st = 0 ∧ T = 2 * (q : Rat)) ∨ (st = 1 ∧ 2 * (q : Rat) < T ∧ T < 2 * (q : Rat) + 2))
    (hnormal : (2 : Rat) ^ (f.emin + f.p - 1) ≤ T * (2 : Rat) ^ E)
    (hfin : (roundDy f s (2 * q + st) E).isFinite = true) :
    ∃ δ : Rat, (roundDy f s (2 * q + st) E).toRat = sgn s * T * (2 : Rat) ^ E * (1 + δ) ∧
      |δ| ≤ 1 / (2 : Rat) ^ f.p := by
  have h2 : (2 : Rat) ≠ 0 := by norm_num
  have hE := two_zpow_pos E
  have hq0 : 0 < q := lt_of_lt_of_le (Nat.two_pow_pos _) hq
  have hM0 : 0 < 2 * q + st := by omega
  -- bit length of `M`
  have hlogM : f.p + 2 ≤ (2 * q + st).log2 := by
    rw [Nat.le_log2 (by omega)]
    have : 2 ^ (f.p + 2) = 2 * 2 ^ (f.p + 1) := by rw [Nat.pow_succ, Nat.mul_comm]
    omega
  have hltM : 2 * q + st < 2 ^ ((2 * q + st).log2 + 1) := Nat.lt_log2_self
  have hleM : 2 ^ (2 * q + st).log2 ≤ 2 * q + st := Nat.log2_self_le (by omega)
  -- `T < 2^b`
  have hTlt : T < (2 : Rat) ^ ((2 * q + st).log2 + 1) := by
    rcases hst with ⟨hs0, hT⟩ | ⟨hs1, -, hT⟩
    · have : ((2 * q + st : Nat) : Rat) < ((2 ^ ((2 * q + st).log2 + 1) : Nat) : Rat) := Nat.cast_lt.mpr hltM
      rw [hs0] at this; push_cast at this
      rw [hT, hs0]; simpa using this
    · have h' : 2 * q + 2 ≤ 2 ^ ((2 * q + st).log2 + 1) := by omega
      have : ((2 * q + 2 : Nat) : Rat) ≤ ((2 ^ ((2 * q + st).log2 + 1) : Nat) : Rat) := Nat.cast_le.mpr h'
      push_cast at this; linarith
  -- the shift condition
  have hshift : f.emin ≤ E + (((2 * q + st).log2 : Int) + 1 - f.p) := by
    have : (2 : Rat) ^ (f.emin + f.p - 1) < (2 : Rat) ^ ((((2 * q + st).log2 + 1 : Nat) : Int) + E) := by
      rw [zpow_add₀ h2, zpow_natCast]
      exact lt_of_le_of_lt hnormal (mul_lt_mul_of_pos_right hTlt hE)
    have := (zpow_lt_zpow_iff_right₀ (by norm_num : (1 : Rat) < 2)).mp this
    push_cast at this
    omega
  rcases hst with ⟨hs0, hT⟩ | ⟨hs1, hTlo, hThi⟩
  · -- exact quotient: `T = M`
    obtain ⟨δ, hδ, hb⟩ := roundDy_rel f hp s (2 * q + st) E hM0 hshift hfin
    refine ⟨δ, ?_, hb⟩
    rw [hδ, hT, hs0]; push_cast; simp [sgn]
  · -- inexact quotient: parity argument
    subst hs1
    obtain ⟨n, hn⟩ : ∃ n : Nat, (n : Int) = ((2 * q + 1).log2 : Int) + 1 - f.p :=
      ⟨(((2 * q + 1).log2 : Int) + 1 - f.p).toNat, by omega⟩
    have hn' : (n : Int) = max (((2 * q + 1).log2 : Int) + 1 - f.p) (f.emin - E) := by omega
    have hn2 : 2 ≤ n := by omega
    obtain ⟨m', hval, h1, h2'⟩ := roundDy_round f hp s (2 * q + 1) E n hn' (by omega) hfin
    obtain ⟨g1, g2⟩ := sticky_nat q m' n hn2 h1 h2'
    have hnp : n + f.p = (2 * q + 1).log2 + 1 := by omega
    have hpow : 2 ^ (n + f.p) ≤ 2 * (2 * q) := by
      rw [hnp, Nat.pow_succ, Nat.mul_comm]
      exact Nat.mul_le_mul_left 2 (pow_le_even q _ (by omega) hleM)
    have hpow' : (2 : Rat) ^ (n + f.p) ≤ 2 * (2 * (q : Rat)) := by exact_mod_cast hpow
    have g1' : 2 * ((m' : Rat) * 2 ^ n) ≤ 2 * (2 * (q : Rat)) + 2 ^ n := by exact_mod_cast g1
    have g2' : 2 * (2 * (q : Rat) + 2) ≤ 2 * ((m' : Rat) * 2 ^ n) + 2 ^ n := by exact_mod_cast g2
    obtain ⟨δ, hδ, hb⟩ := rel_of_close T m' n f.p (by linarith) (by linarith) (by linarith)
    refine ⟨δ, ?_, hb⟩
    rw [hval, hδ]; ring

theorem sgn_ne_zero (s : Bool) : sgn s ≠ 0 := by cases s <;> simp [sgn]

theorem sgn_div (s1 s2 : Bool) : sgn s1 / sgn s2 = sgn (s1 != s2) := by
  cases s1 <;> cases s2 <;> simp [sgn]

/-- the exact quotient of two finite floats in terms of the scaled quotient `T = 2·m1·2^k / m2` -/
theorem toRat_div_toRat (s1 s2 : Bool) (m1 m2 : Nat) (e1 e2 : Int) (k : Nat) (h2 : 0 < m2) :
    (fin s1 m1 e1).toRat / (fin s2 m2 e2).toRat =
      sgn (s1 != s2) * (2 * ((m1 : Rat) * 2 ^ k) / (m2 : Rat)) * (2 : Rat) ^ (e1 - e2 + (-(k : Int) - 1)) := by
  have h20 : (2 : Rat) ≠ 0 := by norm_num
  have hm2 : (m2 : Rat) ≠ 0 := by exact_mod_cast h2.ne'
  have hs2 := sgn_ne_zero s2
  have he2 : (2 : Rat) ^ e2 ≠ 0 := (two_zpow_pos e2).ne'
  have hk : (2 : Rat) ^ k ≠ 0 := by positivity
  rw [toRat_fin, toRat_fin, ← sgn_div]
  have : (2 : Rat) ^ (e1 - e2 + (-(k : Int) - 1)) = 2 ^ e1 / 2 ^ e2 / 2 ^ k / 2 := by
    rw [zpow_add₀ h20, zpow_sub₀ h20, zpow_sub₀ h20, zpow_neg, zpow_natCast, zpow_one]
    field_simp
  rw [this]
  field_simp

theorem div_fin_eq (f : Fmt) (s1 s2 : Bool) (m1 m2 : Nat) (e1 e2 : Int) (h1 : 0 < m1) (h2 : 0 < m2) :
    Fl.div f (fin s1 m1 e1) (fin s2 m2 e2) =
      roundDy f (s1 != s2) (divDy f.p m1 m2).1 (e1 - e2 + (divDy f.p m1 m2).2) := by
  have h1' : m1 ≠ 0 := by omega
  have h2' : m2 ≠ 0 := by omega
  simp only [Fl.div, h1', h2', if_false]

/-- `x / y` (finite non-zero operands, exact quotient at least the least positive normal number, result
    finite): one correct rounding of the exact quotient -/
theorem div_rel (f : Fmt) (hp : 1 ≤ f.p) (s1 s2 : Bool) (m1 m2 : Nat) (e1 e2 : Int)
    (h1 : 0 < m1) (h2 : 0 < m2)
    (hnormal : (2 : Rat) ^ (f.emin + f.p - 1) ≤ |(fin s1 m1 e1).toRat / (fin s2 m2 e2).toRat|)
    (hfin : (Fl.div f (fin s1 m1 e1) (fin s2 m2 e2)).isFinite = true) :
    ∃ δ : Rat, (Fl.div f (fin s1 m1 e1) (fin s2 m2 e2)).toRat =
        (fin s1 m1 e1).toRat / (fin s2 m2 e2).toRat * (1 + δ) ∧ |δ| ≤ 1 / (2 : Rat) ^ f.p := by
  obtain ⟨q, st, k, heq, hst, hq⟩ := divDy_spec f.p m1 m2 h1 h2
  rw [div_fin_eq f s1 s2 m1 m2 e1 e2 h1 h2, heq] at hfin ⊢
  simp only at hfin ⊢
  have hm2 : (0 : Rat) < (m2 : Rat) := by exact_mod_cast h2
  rw [toRat_div_toRat s1 s2 m1 m2 e1 e2 k h2] at hnormal ⊢
  set T : Rat := 2 * ((m1 : Rat) * 2 ^ k) / (m2 : Rat) with hT
  have hT0 : 0 ≤ T := by positivity
  rw [abs_mul, abs_mul, abs_sgn, one_mul, abs_of_nonneg hT0, abs_of_pos (two_zpow_pos _)] at hnormal
  refine roundDy_sticky_rel f hp _ q st _ T hq ?_ hnormal hfin
  rcases hst with ⟨hs0, hx⟩ | ⟨hs1, hlo, hhi⟩
  · left; refine ⟨hs0, ?_⟩
    have : (m1 : Rat) * 2 ^ k = (q : Rat) * (m2 : Rat) := by exact_mod_cast hx
    rw [hT, this]; field_simp
  · right; refine ⟨hs1, ?_, ?_⟩
    · have : (q : Rat) * (m2 : Rat) < (m1 : Rat) * 2 ^ k := by exact_mod_cast hlo
      rw [hT, lt_div_iff₀ hm2]; linarith
    · have : (m1 : Rat) * 2 ^ k < ((q : Rat) + 1) * (m2 : Rat) := by exact_mod_cast hhi
      rw [hT, div_lt_iff₀ hm2]; linarith

end Uom.Proofs

#print axioms Uom.Proofs.toRat_fin
#print axioms Uom.Proofs.roundDy_rel'
#print axioms Uom.Proofs.roundDy_rel
#print axioms Uom.Proofs.roundDy_rel_of_le
#print axioms Uom.Proofs.mul_rel'
#print axioms Uom.Proofs.mul_rel
#print axioms Uom.Proofs.roundInt_rel
#print axioms Uom.Proofs.add_rel
#print axioms Uom.Proofs.sub_rel
#print axioms Uom.Proofs.divDy_spec
#print axioms Uom.Proofs.roundDy_sticky_rel
#print axioms Uom.Proofs.div_rel
