import Uom.Model.Duration
/-!
# Basic facts about the Duration transcription shared by `Props/C14.lean` and `Proofs/DurationAcc.lean`
-/
namespace Uom.DurationBasic
open Uom

theorem durationNew_ne_negative (s n : Nat) : durationNew s n ≠ .negative := by
  unfold durationNew; simp only []; split <;> simp

theorem neg_iff_int (fac cs cn : Rat) (v : Int) : durOfTimeInt fac cs cn v = .negative ↔ v < 0 := by
  unfold durOfTimeInt
  constructor
  · intro h
    by_cases hv : v < 0
    · exact hv
    · simp only [hv, if_false] at h
      revert h
      repeat' split
      all_goals first | (intro h; exact absurd h (by simp)) | exact fun h => absurd h (durationNew_ne_negative _ _)
  · intro h; simp [h]

theorem int_long_base_panics (fac cs cn : Rat) (v : Int) (hv : 0 ≤ v) (hcs : cs ≠ 0) (hf : fac ≠ 0)
    (h : ratTrunc (cs / fac) = 0) : durOfTimeInt fac cs cn v = .panic := by
  unfold durOfTimeInt
  have : ¬ v < 0 := by omega
  simp [this, hcs, hf, h]

end Uom.DurationBasic
