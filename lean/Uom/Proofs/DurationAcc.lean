import Uom.Model.Duration
import Uom.Proofs.FloatOps
import Uom.Proofs.DurationBasic
/-!
# C14 — accuracy of `TryFrom<Time> for Duration` (the provable part)

* **A** integer storage, decimal sub-second base units (`second`, `millisecond`, `microsecond`,
  `nanosecond`, … : base factor `10^-k`, `k ≤ 9`): the conversion is *exact*; the only failure is
  `Overflow`.  A base unit longer than a second panics (F10).
* **B** float storage in the second base, any well-formed format:
  * B1 `get::<second>()`, `new::<second>(1)`, `change_base` are bit-exact identities;
  * B2 `to_u64` / `to_u32` are the rational floor (`None` from `2^bits` on);
  * B3 `v % 1.0` is exact;
  * B4 `get::<nanosecond>()` is *one* multiplication by the constant `K = 1.0 / cn`, and a rounding never
    crosses a grid point, so `nanos ∈ {⌊frac(v)·K⌋, ⌈frac(v)·K⌉}`.
  binary64: `K = 10^9 − 2^-23` (not `10^9`), `secs = ⌊v⌋` exactly, no carry, total error in
  `(−1 − 2^-23, 1)` ns; every finite `0 ≤ v < 2^64` is `Ok`.  The 1 ns is attained (1.5 s ↦ 1.499999999 s)
  and exceeded (by 6·10^-8 ns), so "accurate to 1 ns" is refuted.
  binary32: `K = 10^9 > 2^24`, the product is rounded to 24 bits: error below `1 + 10^9·2^-24 ≈ 60.6` ns
  (32 ns attained).
-/
namespace Uom.DurationAcc
open Uom Uom.Proofs

/-! ## A. integer storage -/

theorem ratTrunc_of_nonneg {q : Rat} (h : 0 ≤ q) : ratTrunc q = q.floor := by
  unfold ratTrunc Rat.floor
  have hn : 0 ≤ q.num := Rat.num_nonneg.mpr h
  rw [Int.tdiv_eq_ediv_of_nonneg hn]
  split
  · next h1 => rw [h1]; simp
  · rfl

/-- truncation of a non-negative fraction `a / b` is the integer quotient -/
theorem ratTrunc_div {q : Rat} {a b : Int} (ha : 0 ≤ a) (hb : 0 < b) (hq : q * (b : Rat) = (a : Rat)) :
    ratTrunc q = a / b := by
  have hbQ : (0 : Rat) < (b : Rat) := by exact_mod_cast hb
  have hq0 : 0 ≤ q := by
    have : (0 : Rat) ≤ (a : Rat) := by exact_mod_cast ha
    by_contra hneg
    have := mul_neg_of_neg_of_pos (not_le.mp hneg) hbQ
    linarith
  rw [ratTrunc_of_nonneg hq0]
  have hdm : b * (a / b) + a % b = a := Int.mul_ediv_add_emod a b
  have hr0 : 0 ≤ a % b := Int.emod_nonneg a (by omega)
  have hr1 : a % b < b := Int.emod_lt_of_pos a hb
  have hdmQ : (b : Rat) * ((a / b : Int) : Rat) + ((a % b : Int) : Rat) = (a : Rat) := by exact_mod_cast hdm
  have hr0Q : (0 : Rat) ≤ ((a % b : Int) : Rat) := by exact_mod_cast hr0
  have hr1Q : ((a % b : Int) : Rat) < (b : Rat) := by exact_mod_cast hr1
  apply rat_floor_eq
  · have : ((a / b : Int) : Rat) * (b : Rat) ≤ q * (b : Rat) := by rw [hq]; linarith
    exact le_of_mul_le_mul_right this hbQ
  · have : q * (b : Rat) < (((a / b : Int) : Rat) + 1) * (b : Rat) := by rw [hq]; linarith
    exact lt_of_mul_lt_mul_right this hbQ.le

theorem pow10_split (k : Nat) (hk : k ≤ 9) : (10 : Int) ^ k * 10 ^ (9 - k) = 10 ^ 9 := by
  rw [← pow_add]; congr 1; omega

/-- **A3** integer storage, decimal sub-second base unit of `10^-k` s (`k ≤ 9`; `fac = 1/10^k` is its
    base factor, `cs = 1`, `cn = 1/10^9`): `secs = v / 10^k`, `nanos = (v % 10^k)·10^(9-k)`, and the
    only failure is `Overflow`, exactly when the seconds do not fit `u64` -/
theorem durOfTimeInt_decimal (k : Nat) (hk : k ≤ 9) (v : Int) (hv : 0 ≤ v) :
    durOfTimeInt (1 / 10 ^ k) 1 (1 / 10 ^ 9) v =
      if v / 10 ^ k < 2 ^ 64 then .ok (v / 10 ^ k).toNat ((v % 10 ^ k) * 10 ^ (9 - k)).toNat
      else .overflow := by
  have hP : (0 : Int) < 10 ^ k := by positivity
  have hPQ : (0 : Rat) < 10 ^ k := by positivity
  have hsplit := pow10_split k hk
  have hsplitQ : (10 : Rat) ^ k * 10 ^ (9 - k) = 10 ^ 9 := by exact_mod_cast hsplit
  have hr0 : 0 ≤ v % 10 ^ k := Int.emod_nonneg v (by omega)
  have hr1 : v % 10 ^ k < 10 ^ k := Int.emod_lt_of_pos v hP
  have hP' : (0 : Int) < 10 ^ (9 - k) := by positivity
  have h1 : ratTrunc ((v : Rat) * (1 / 10 ^ k) / 1) = v / 10 ^ k :=
    ratTrunc_div hv hP (by push_cast; field_simp)
  have h2 : ratTrunc ((1 : Rat) / (1 / 10 ^ k)) = 10 ^ k := by
    have := ratTrunc_div (q := (1 : Rat) / (1 / 10 ^ k)) (a := 10 ^ k) (b := 1) (by positivity) (by norm_num)
      (by push_cast; field_simp)
    simpa using this
  have h5 : Int.tmod v (10 ^ k) = v % 10 ^ k := Int.tmod_eq_emod_of_nonneg hv
  have h6 : ratTrunc (((v % 10 ^ k : Int) : Rat) * (1 / 10 ^ k) / (1 / 10 ^ 9)) = (v % 10 ^ k) * 10 ^ (9 - k) := by
    have := ratTrunc_div (q := ((v % 10 ^ k : Int) : Rat) * (1 / 10 ^ k) / (1 / 10 ^ 9))
      (a := (v % 10 ^ k) * 10 ^ (9 - k)) (b := 1) (by positivity) (by norm_num)
      (by push_cast; rw [← hsplitQ]; field_simp)
    simpa using this
  have hn1 : (v % 10 ^ k) * 10 ^ (9 - k) < 10 ^ 9 := by
    rw [← hsplit]; exact mul_lt_mul_of_pos_right hr1 hP'
  have hn0 : 0 ≤ (v % 10 ^ k) * 10 ^ (9 - k) := by positivity
  have hs0 : 0 ≤ v / 10 ^ k := Int.ediv_nonneg hv hP.le
  unfold durOfTimeInt
  simp only [h1, h2, h5, h6]
  have c1 : ¬ v < 0 := by omega
  have c2 : ¬ ((1 : Rat) = 0 ∨ (1 : Rat) / 10 ^ k = 0) := by
    rintro (h | h)
    · norm_num at h
    · have : (0 : Rat) < 1 / 10 ^ k := by positivity
      linarith
  have c3 : ¬ ((10 : Int) ^ k = 0) := by omega
  have c4 : ¬ ((1 : Rat) / 10 ^ 9 = 0) := by norm_num
  rw [if_neg c1, if_neg c2, if_neg c3, if_neg c4]
  by_cases hr : v / 10 ^ k < 2 ^ 64
  · have c5 : 0 ≤ v / 10 ^ k ∧ v / 10 ^ k < 2 ^ 64 ∧ 0 ≤ (v % 10 ^ k) * 10 ^ (9 - k) ∧
        (v % 10 ^ k) * 10 ^ (9 - k) < 2 ^ 32 := ⟨hs0, hr, hn0, by omega⟩
    rw [if_pos c5, if_pos hr]
    unfold durationNew
    have hnn : ((v % 10 ^ k) * 10 ^ (9 - k)).toNat < 1000000000 := by omega
    have hss : (v / 10 ^ k).toNat < 2 ^ 64 := by omega
    simp only [Nat.div_eq_of_lt hnn, Nat.mod_eq_of_lt hnn, Nat.add_zero, if_pos hss]
  · have c5 : ¬ (0 ≤ v / 10 ^ k ∧ v / 10 ^ k < 2 ^ 64 ∧ 0 ≤ (v % 10 ^ k) * 10 ^ (9 - k) ∧
        (v % 10 ^ k) * 10 ^ (9 - k) < 2 ^ 32) := fun h => hr h.2.1
    rw [if_neg c5, if_neg hr]

/-- **A3, exactness**: an `Ok` result is exactly `v·10^(9-k)` nanoseconds, with `nanos < 10^9` -/
theorem durOfTimeInt_decimal_exact (k : Nat) (hk : k ≤ 9) (v : Int) {s n : Nat}
    (h : durOfTimeInt (1 / 10 ^ k) 1 (1 / 10 ^ 9) v = .ok s n) :
    (s : Int) * 10 ^ 9 + (n : Int) = v * 10 ^ (9 - k) ∧ n < 10 ^ 9 ∧ (s : Int) = v / 10 ^ k := by
  have hv : 0 ≤ v := by
    by_contra hneg
    have := (Uom.DurationBasic.neg_iff_int (1 / 10 ^ k) 1 (1 / 10 ^ 9) v).mpr (by omega)
    rw [this] at h; exact absurd h (by simp)
  rw [durOfTimeInt_decimal k hk v hv] at h
  have hP : (0 : Int) < 10 ^ k := by positivity
  have hP' : (0 : Int) < 10 ^ (9 - k) := by positivity
  have hsplit := pow10_split k hk
  have hr0 : 0 ≤ v % 10 ^ k := Int.emod_nonneg v (by omega)
  have hr1 : v % 10 ^ k < 10 ^ k := Int.emod_lt_of_pos v hP
  have hs0 : 0 ≤ v / 10 ^ k := Int.ediv_nonneg hv hP.le
  have hn0 : 0 ≤ (v % 10 ^ k) * 10 ^ (9 - k) := by positivity
  have hn1 : (v % 10 ^ k) * 10 ^ (9 - k) < 10 ^ 9 := by
    rw [← hsplit]; exact mul_lt_mul_of_pos_right hr1 hP'
  split at h
  · injection h with hs hn
    have hsI : (s : Int) = v / 10 ^ k := by omega
    have hnI : (n : Int) = (v % 10 ^ k) * 10 ^ (9 - k) := by omega
    refine ⟨?_, by omega, hsI⟩
    rw [hsI, hnI, ← hsplit]
    have hdm : 10 ^ k * (v / 10 ^ k) + v % 10 ^ k = v := Int.mul_ediv_add_emod v (10 ^ k)
    calc v / 10 ^ k * (10 ^ k * 10 ^ (9 - k)) + v % 10 ^ k * 10 ^ (9 - k)
        = (10 ^ k * (v / 10 ^ k) + v % 10 ^ k) * 10 ^ (9 - k) := by ring
      _ = v * 10 ^ (9 - k) := by rw [hdm]
  · exact absurd h (by simp)

/-- **A1** second base: `v` whole seconds, no nanoseconds -/
theorem durOfTimeInt_second (v : Int) (hv : 0 ≤ v) (hr : v < 2 ^ 64) :
    durOfTimeInt 1 1 (1 / 10 ^ 9) v = .ok v.toNat 0 := by
  have := durOfTimeInt_decimal 0 (by norm_num) v hv
  simp only [pow_zero, div_one, Int.ediv_one, Int.emod_one, zero_mul, if_pos hr] at this
  simpa using this

/-- **A2** nanosecond base: the duration is exactly `v` nanoseconds -/
theorem durOfTimeInt_nanosecond (v : Int) (hv : 0 ≤ v) (hr : v / 10 ^ 9 < 2 ^ 64) :
    durOfTimeInt (1 / 10 ^ 9) 1 (1 / 10 ^ 9) v = .ok (v / 10 ^ 9).toNat (v % 10 ^ 9).toNat := by
  have := durOfTimeInt_decimal 9 (le_refl _) v hv
  rw [if_pos hr] at this
  simpa using this

/-- millisecond base -/
theorem durOfTimeInt_millisecond (v : Int) (hv : 0 ≤ v) (hr : v / 10 ^ 3 < 2 ^ 64) :
    durOfTimeInt (1 / 10 ^ 3) 1 (1 / 10 ^ 9) v =
      .ok (v / 10 ^ 3).toNat ((v % 10 ^ 3) * 10 ^ 6).toNat := by
  have := durOfTimeInt_decimal 3 (by norm_num) v hv
  rw [if_pos hr] at this
  simpa using this

/-- microsecond base -/
theorem durOfTimeInt_microsecond (v : Int) (hv : 0 ≤ v) (hr : v / 10 ^ 6 < 2 ^ 64) :
    durOfTimeInt (1 / 10 ^ 6) 1 (1 / 10 ^ 9) v =
      .ok (v / 10 ^ 6).toNat ((v % 10 ^ 6) * 10 ^ 3).toNat := by
  have := durOfTimeInt_decimal 6 (by norm_num) v hv
  rw [if_pos hr] at this
  simpa using this

/-- out of range: `Overflow`, never a panic -/
theorem durOfTimeInt_decimal_overflow (k : Nat) (hk : k ≤ 9) (v : Int) (hv : 0 ≤ v)
    (hr : 2 ^ 64 ≤ v / 10 ^ k) : durOfTimeInt (1 / 10 ^ k) 1 (1 / 10 ^ 9) v = .overflow := by
  rw [durOfTimeInt_decimal k hk v hv, if_neg (by omega)]

/-- **A4** (F10 instantiated) any base unit longer than a second — base factor `fac > 1`, e.g. the
    minute, `fac = 60` — makes `one_second` truncate to `0`: every non-negative time panics -/
theorem durOfTimeInt_long_base (fac cn : Rat) (hfac : 1 < fac) (v : Int) (hv : 0 ≤ v) :
    durOfTimeInt fac 1 cn v = .panic := by
  have hpos : (0 : Rat) < fac := by linarith
  refine Uom.DurationBasic.int_long_base_panics fac 1 cn v hv (by norm_num) hpos.ne' ?_
  have h0 : (0 : Rat) ≤ 1 / fac := by positivity
  rw [ratTrunc_of_nonneg h0]
  exact rat_floor_eq (by simpa using h0) (by rw [Int.cast_zero, zero_add, div_lt_one hpos]; exact hfac)

theorem durOfTimeInt_minute (v : Int) (hv : 0 ≤ v) : durOfTimeInt 60 1 (1 / 10 ^ 9) v = .panic :=
  durOfTimeInt_long_base 60 _ (by norm_num) v hv

/-! ## B. float storage, second base -/

variable {f : Fmt}

/-! ### B1. in the second base the conversion kernel is the identity, bit for bit -/

theorem two_pow_pred_ne_zero (f : Fmt) : 2 ^ (f.p - 1) ≠ 0 := Nat.pos_iff_ne_zero.mp (Nat.two_pow_pos _)

/-- **B1a** `time.get::<second>()` in the second base is the stored value, bit for bit -/
theorem fromBase_second (hf : f.WF) (v : Fl) (hv : Fl.Canonical f v) :
    fromBase (flS f) (Fl.one f) (flS f).constSub (Fl.one f) v = v :=
  Fl.fromBase_id hf v hv false _ _ (two_pow_pred_ne_zero f)

/-- **B1b** `Time::new::<second>(1.0)` re-based is `1.0`, bit for bit -/
theorem oneSec_second (hf : f.WF) :
    changeBase (flS f) (Fl.one f) (Fl.one f)
      (toBase (flS f) (Fl.one f) (flS f).constAdd (Fl.one f) (Fl.one f)) = Fl.one f := by
  have h1 : toBase (flS f) (Fl.one f) (flS f).constAdd (Fl.one f) (Fl.one f) = Fl.one f :=
    Fl.toBase_id hf _ (Fl.one_canonical hf) false _ _ (two_pow_pred_ne_zero f)
  rw [h1]
  exact Fl.changeBase_id hf _ (Fl.one_canonical hf) false _ _ (two_pow_pred_ne_zero f)

/-- the last step of the conversion: both parts representable → `Duration::new`, else `Overflow` -/
def joinParts : Option Nat → Option Nat → DurResult
  | some s, some n => durationNew s n
  | _, _ => .overflow

/-- **B1** the float conversion in the second base, with the bit-exact identities removed:
    `secs = to_u64(v)`, `nanos = to_u32(get::<nanosecond>(v % 1.0))` -/
theorem durOfTimeFl_second (hf : f.WF) (cn v : Fl) (hv : Fl.Canonical f v) :
    durOfTimeFl f (Fl.one f) (Fl.one f) cn v =
      if Fl.lt v (Fl.zero f false) = true then .negative
      else joinParts (Fl.toUInt 64 v)
        (Fl.toUInt 32 (fromBase (flS f) cn (Fl.zero f false) (Fl.one f) (Fl.fmod f v (Fl.one f)))) := by
  unfold durOfTimeFl
  simp only [fromBase_second hf v hv, oneSec_second hf]
  rfl

/-- … and for a nanosecond coefficient below `1.0`, `get::<nanosecond>()` is a single
    multiplication by the (compile-time) constant `1.0 / cn` -/
theorem durOfTimeFl_second' (hf : f.WF) (cn v : Fl) (hv : Fl.Canonical f v)
    (hlt : Fl.lt cn (Fl.one f) = true) :
    durOfTimeFl f (Fl.one f) (Fl.one f) cn v =
      if Fl.lt v (Fl.zero f false) = true then .negative
      else joinParts (Fl.toUInt 64 v)
        (Fl.toUInt 32 (Fl.mul f (Fl.fmod f v (Fl.one f)) (Fl.div f (Fl.one f) cn))) := by
  rw [durOfTimeFl_second hf cn v hv, Fl.fromBase_fold_lt hf _ cn (Fl.one f) hlt]

theorem joinParts_ok {a b : Option Nat} {s n : Nat} (h : joinParts a b = .ok s n) :
    ∃ secs nr : Nat, a = some secs ∧ b = some nr ∧ s * 1000000000 + n = secs * 1000000000 + nr ∧
      n < 1000000000 ∧ s = secs + nr / 1000000000 ∧ s < 2 ^ 64 := by
  cases a with
  | none => simp [joinParts] at h
  | some secs =>
    cases b with
    | none => simp [joinParts] at h
    | some nr =>
      refine ⟨secs, nr, rfl, rfl, ?_⟩
      simp only [joinParts, durationNew] at h
      split at h
      · next hlt =>
        injection h with hs hn
        have := Nat.div_add_mod nr 1000000000
        have := Nat.mod_lt nr (show 0 < 1000000000 by norm_num)
        omega
      · exact absurd h (by simp)

/-! ### B2. `to_u64` / `to_u32` of a non-negative float is the rational floor -/

/-- a finite float is `± (integer part + fraction)`, the integer part being what `truncMag` returns -/
theorem toRat_truncMag (s : Bool) (m : Nat) (e : Int) :
    ∃ ρ : Rat, (Fl.fin s m e).toRat = sgn s * (((Fl.truncMag m e).1 : Rat) + ρ) ∧ 0 ≤ ρ ∧ ρ < 1 := by
  by_cases he : 0 ≤ e
  · refine ⟨0, ?_, le_refl _, by norm_num⟩
    have h1 : Fl.truncMag m e = (m * 2 ^ e.toNat, false) := by
      unfold Fl.truncMag; rw [if_pos (by omega)]
    rw [h1, toRat_int_of_nonneg s m e he, ← sgn_mul_eq_sval, add_zero]
  · have he' : e < 0 := by omega
    obtain ⟨ρ, hval, h0, h1, -, -⟩ := toRat_decomp s m e he'
    refine ⟨ρ, ?_, h0, h1⟩
    have h2 : (Fl.truncMag m e).1 = m / 2 ^ (-e).toNat := by
      unfold Fl.truncMag; rw [if_neg (by omega)]
    rw [h2, hval]

/-- **B2** num-traits `to_u64` / `to_u32` on a non-negative finite float (`-0.0` included):
    `Some(⌊x⌋)` exactly when `x < 2^bits` -/
theorem toUInt_of_nonneg (bits : Nat) {x : Fl} (hx : x.isFinite = true) (h0 : 0 ≤ x.toRat) :
    Fl.toUInt bits x = if x.toRat < 2 ^ bits then some x.toRat.floor.toNat else none := by
  cases x with
  | nan => simp [Fl.isFinite] at hx
  | inf s => simp [Fl.isFinite] at hx
  | fin s m e =>
    obtain ⟨ρ, hval, hρ0, hρ1⟩ := toRat_truncMag s m e
    have hT : Fl.toUInt bits (Fl.fin s m e) =
        if s = true then (if (Fl.truncMag m e).1 = 0 then some 0 else none)
        else if (Fl.truncMag m e).1 < 2 ^ bits then some (Fl.truncMag m e).1 else none := by
      simp only [Fl.toUInt]
    rw [hT, hval]
    rw [hval] at h0
    clear hT hval hx
    generalize (Fl.truncMag m e).1 = n at *
    have hn0 : (0 : Rat) ≤ (n : Rat) := Nat.cast_nonneg n
    cases s
    · rw [sgn_false, one_mul]
      have hfl : ((n : Rat) + ρ).floor = (n : Int) := floor_nat_add hρ0 hρ1
      simp only [Bool.false_eq_true, if_false, hfl, Int.toNat_natCast]
      by_cases hn : n < 2 ^ bits
      · have : (n : Rat) + ρ < 2 ^ bits := by
          have : ((n + 1 : Nat) : Rat) ≤ ((2 ^ bits : Nat) : Rat) := Nat.cast_le.mpr hn
          push_cast at this; linarith
        rw [if_pos hn, if_pos this]
      · have : ¬ ((n : Rat) + ρ < 2 ^ bits) := by
          have : ((2 ^ bits : Nat) : Rat) ≤ (n : Rat) := Nat.cast_le.mpr (by omega)
          push_cast at this; linarith
        rw [if_neg hn, if_neg this]
    · rw [sgn_true, neg_one_mul] at h0 ⊢
      have hz : (n : Rat) + ρ = 0 := by linarith
      have hn : n = 0 := by
        have : (n : Rat) = 0 := by linarith
        exact_mod_cast this
      have hpos : (0 : Rat) < 2 ^ bits := by positivity
      have hf0 : (0 : Rat).floor = 0 := rat_floor_eq (by norm_num) (by norm_num)
      rw [hz, neg_zero, if_pos hpos, hf0]
      simp [hn]

theorem toUInt_some_isFinite {bits : Nat} {x : Fl} {n : Nat} (h : Fl.toUInt bits x = some n) :
    x.isFinite = true := by
  cases x <;> simp_all [Fl.toUInt, Fl.isFinite]

/-! ### B3. the remainder by `1.0` is exact -/

/-- exact branch of `roundDy`, with finiteness discharged: a significand of at most `p` bits at an
    exponent in `[emin, emax]` is returned unchanged (as a value) -/
theorem roundDy_small_exact (s : Bool) (M : Nat) (E : Int)
    (hsh : max ((M.log2 : Int) + 1 - f.p) (f.emin - E) ≤ 0) (hE : E ≤ f.emax) :
    (Fl.roundDy f s M E).isFinite = true ∧
      (Fl.roundDy f s M E).toRat = sgn s * (M : Rat) * (2 : Rat) ^ E := by
  have hfin : (Fl.roundDy f s M E).isFinite = true := by
    unfold Fl.roundDy
    simp only [if_pos hsh]
    split
    · next h => exfalso; omega
    · rfl
  exact ⟨hfin, Uom.Proofs.roundDy_exact f s M E hsh hfin⟩

theorem one_toRat (hp : 1 ≤ f.p) : (Fl.one f).toRat = 1 := by
  unfold Fl.one
  rw [toRat_fin, sgn_false, one_mul, zpow_neg]
  have h : ((f.p : Int) - 1) = ((f.p - 1 : Nat) : Int) := by omega
  rw [h, zpow_natCast]; push_cast
  exact mul_inv_cancel₀ (by positivity)

/-- `x % 1.0` unfolded -/
theorem fmod_one_fin (s : Bool) (m : Nat) (e : Int) :
    Fl.fmod f (Fl.fin s m e) (Fl.one f) =
      if m * 2 ^ (e - min e (-((f.p : Int) - 1))).toNat %
          (2 ^ (f.p - 1) * 2 ^ (-((f.p : Int) - 1) - min e (-((f.p : Int) - 1))).toNat) = 0
      then Fl.zero f s
      else Fl.roundDy f s (m * 2 ^ (e - min e (-((f.p : Int) - 1))).toNat %
          (2 ^ (f.p - 1) * 2 ^ (-((f.p : Int) - 1) - min e (-((f.p : Int) - 1))).toNat))
        (min e (-((f.p : Int) - 1))) := by
  simp only [Fl.fmod, Fl.one, if_neg (two_pow_pred_ne_zero f)]

/-- the arithmetic of the remainder: `a·g = A`, `b·g = 1` ⇒ `⌊A⌋ = a / b` and `(a % b)·g = A − ⌊A⌋` -/
theorem frac_of_mod {a b : Nat} {g A : Rat} (hg : 0 < g) (ha : (a : Rat) * g = A) (hb : (b : Rat) * g = 1) :
    A.floor = ((a / b : Nat) : Int) ∧ ((a % b : Nat) : Rat) * g = A - ((a / b : Nat) : Rat) := by
  have hb0 : 0 < b := by
    rcases Nat.eq_zero_or_pos b with h | h
    · rw [h] at hb; simp at hb
    · exact h
  have hdm : b * (a / b) + a % b = a := Nat.div_add_mod a b
  have hr : a % b < b := Nat.mod_lt _ hb0
  have hdmQ : (b : Rat) * ((a / b : Nat) : Rat) + ((a % b : Nat) : Rat) = (a : Rat) := by exact_mod_cast hdm
  have hrQ : ((a % b : Nat) : Rat) < (b : Rat) := by exact_mod_cast hr
  have hr0 : (0 : Rat) ≤ ((a % b : Nat) : Rat) := Nat.cast_nonneg _
  have e2 : ((a % b : Nat) : Rat) * g = A - ((a / b : Nat) : Rat) := by
    rw [← ha, ← hdmQ]
    have : (b : Rat) * ((a / b : Nat) : Rat) * g = ((a / b : Nat) : Rat) * ((b : Rat) * g) := by ring
    rw [add_mul, this, hb]; ring
  refine ⟨?_, e2⟩
  have h1 : 0 ≤ ((a % b : Nat) : Rat) * g := mul_nonneg hr0 hg.le
  have h2 : ((a % b : Nat) : Rat) * g < 1 := by rw [← hb]; exact mul_lt_mul_of_pos_right hrQ hg
  apply rat_floor_eq
  · rw [Int.cast_natCast]; linarith
  · rw [Int.cast_natCast]; linarith


theorem sval_false (n : Nat) : Fl.sval false n = (n : Int) := by simp [Fl.sval]

/-- **B3** the remainder by `1.0` is exact: `x % 1.0 = ±(|x| − ⌊|x|⌋)` with the sign of `x`
    (no rounding error: the fractional part of a float is a float) -/
theorem fmod_one_toRat (hf : f.WF) (s : Bool) (m : Nat) (e : Int) (hc : Fl.Canonical f (Fl.fin s m e)) :
    (Fl.fmod f (Fl.fin s m e) (Fl.one f)).isFinite = true ∧
    (Fl.fmod f (Fl.fin s m e) (Fl.one f)).toRat =
      sgn s * ((Fl.fin false m e).toRat - (((Fl.fin false m e).toRat.floor : Int) : Rat)) := by
  have hp := hf.hp
  have hmin := hf.hmin
  have hmax := hf.hmax
  have hemin : f.emin ≤ e := Fl.canonical_emin_le hc
  have hm : m < 2 ^ f.p := canonical_lt hc
  rw [fmod_one_fin]
  generalize he2 : -((f.p : Int) - 1) = e2
  generalize he' : min e e2 = e'
  have hle1 : e' ≤ e := by omega
  have hle2 : e' ≤ e2 := by omega
  have hg := two_zpow_pos e'
  have hA : ((m * 2 ^ (e - e').toNat : Nat) : Rat) * (2 : Rat) ^ e' = (Fl.fin false m e).toRat := by
    rw [toRat_fin_shift false m e e' hle1, sval_false, Int.cast_natCast]
  have hB : ((2 ^ (f.p - 1) * 2 ^ (e2 - e').toNat : Nat) : Rat) * (2 : Rat) ^ e' = 1 := by
    have h1 := one_toRat (f := f) hp
    unfold Fl.one at h1
    rw [he2, toRat_fin_shift false _ e2 e' hle2, sval_false, Int.cast_natCast] at h1
    exact h1
  obtain ⟨hfl, hfr⟩ := frac_of_mod hg hA hB
  have hb0 : 0 < 2 ^ (f.p - 1) * 2 ^ (e2 - e').toNat := Nat.mul_pos (Nat.two_pow_pos _) (Nat.two_pow_pos _)
  have hrlt : m * 2 ^ (e - e').toNat % (2 ^ (f.p - 1) * 2 ^ (e2 - e').toNat) < 2 ^ f.p := by
    by_cases hcase : e ≤ e2
    · have : (e - e').toNat = 0 := by omega
      rw [this, Nat.pow_zero, Nat.mul_one]
      exact lt_of_le_of_lt (Nat.mod_le _ _) hm
    · have : (e2 - e').toNat = 0 := by omega
      rw [this, Nat.pow_zero, Nat.mul_one]
      exact lt_trans (Nat.mod_lt _ (Nat.two_pow_pos _)) (Fl.two_pow_pred_lt f.p hp)
  rw [hfl, Int.cast_natCast, ← hfr]
  generalize m * 2 ^ (e - e').toNat % (2 ^ (f.p - 1) * 2 ^ (e2 - e').toNat) = r at *
  split
  · next h0 =>
    refine ⟨rfl, ?_⟩
    rw [toRat_zero, h0]; simp
  · next h0 =>
    have hlog : r.log2 < f.p := (Nat.log2_lt h0).mpr hrlt
    have := roundDy_small_exact (f := f) s r e' (by omega) (by omega)
    refine ⟨this.1, ?_⟩
    rw [this.2]; ring

theorem toRat_fin_sgn (s : Bool) (m : Nat) (e : Int) :
    (Fl.fin s m e).toRat = sgn s * (Fl.fin false m e).toRat := by
  rw [toRat_fin, toRat_fin, sgn_false]; ring

theorem toRat_fin_false_nonneg (m : Nat) (e : Int) : 0 ≤ (Fl.fin false m e).toRat := by
  rw [toRat_fin, sgn_false, one_mul]; positivity

/-- **B3, any sign**: `x % 1.0 = x − trunc(x)`, exactly -/
theorem fmod_one_trunc (hf : f.WF) {x : Fl} (hc : Fl.Canonical f x) (hx : x.isFinite = true) :
    (Fl.fmod f x (Fl.one f)).isFinite = true ∧
      (Fl.fmod f x (Fl.one f)).toRat = x.toRat - ((ratTruncQ x.toRat : Int) : Rat) := by
  cases x with
  | nan => simp [Fl.isFinite] at hx
  | inf s => simp [Fl.isFinite] at hx
  | fin s m e =>
    obtain ⟨h1, h2⟩ := fmod_one_toRat hf s m e hc
    refine ⟨h1, ?_⟩
    rw [h2, toRat_fin_sgn s m e, ratTruncQ_sgn s (toRat_fin_false_nonneg m e)]; ring

/-- **B3** for `x ≥ 0` (including `-0.0`): `x % 1.0 = x − ⌊x⌋`, exactly -/
theorem fmod_one_nonneg (hf : f.WF) {x : Fl} (hc : Fl.Canonical f x) (hx : x.isFinite = true)
    (h0 : 0 ≤ x.toRat) :
    (Fl.fmod f x (Fl.one f)).isFinite = true ∧
      (Fl.fmod f x (Fl.one f)).toRat = x.toRat - ((x.toRat.floor : Int) : Rat) := by
  obtain ⟨h1, h2⟩ := fmod_one_trunc hf hc hx
  refine ⟨h1, ?_⟩
  rw [h2]; unfold ratTruncQ; rw [if_neg (not_lt.mpr h0)]

theorem frac_bounds (a : Rat) : 0 ≤ a - ((a.floor : Int) : Rat) ∧ a - ((a.floor : Int) : Rat) < 1 := by
  have h1 : ((a.floor : Int) : Rat) ≤ a := Rat.le_floor_iff.mp (le_refl _)
  have h2 : a < ((a.floor + 1 : Int) : Rat) := Rat.floor_lt_iff.mp (by omega)
  push_cast at h2
  constructor <;> linarith

/-! ### B4a. a rounding never crosses a coarse-enough dyadic (in particular: an integer) -/

/-- **rounding never crosses a grid point.**  Let `x = M·2^E < 2^(p-c)` (so that the floats around `x`
    are spaced by at most `2^-c`) and `emin ≤ -c`.  The rounding `y` of `x` satisfies, for every natural
    `N`: `N/2^c ≤ x → N/2^c ≤ y` and `x ≤ N/2^c → y ≤ N/2^c`. -/
theorem roundDy_dyadic_sandwich (hf : f.WF) (c : Nat) (hc : f.emin ≤ -(c : Int)) (M : Nat) (E : Int)
    (hM : 0 < M) (hx : (M : Rat) * (2 : Rat) ^ E < (2 : Rat) ^ ((f.p : Int) - (c : Int)))
    (hfin : (Fl.roundDy f false M E).isFinite = true) (N : Nat) :
    ((N : Rat) / 2 ^ c ≤ (M : Rat) * (2 : Rat) ^ E → (N : Rat) / 2 ^ c ≤ (Fl.roundDy f false M E).toRat) ∧
    ((M : Rat) * (2 : Rat) ^ E ≤ (N : Rat) / 2 ^ c → (Fl.roundDy f false M E).toRat ≤ (N : Rat) / 2 ^ c) := by
  have hp := hf.hp
  have h2 : (2 : Rat) ≠ 0 := by norm_num
  by_cases hsh : max ((M.log2 : Int) + 1 - f.p) (f.emin - E) ≤ 0
  · rw [Uom.Proofs.roundDy_exact f false M E hsh hfin, sgn_false, one_mul]
    exact ⟨id, id⟩
  · obtain ⟨n, hn⟩ : ∃ n : Nat, (n : Int) = max ((M.log2 : Int) + 1 - f.p) (f.emin - E) :=
      ⟨(max ((M.log2 : Int) + 1 - f.p) (f.emin - E)).toNat, by omega⟩
    have hn0 : 0 < n := by omega
    obtain ⟨m', hval, h1, h2'⟩ := roundDy_round f hp false M E n hn hn0 hfin
    rw [hval, sgn_false, one_mul]
    -- the grid exponent `E + n` is `≤ -c`
    have hlog : 2 ^ M.log2 ≤ M := Nat.log2_self_le (by omega)
    have hgrid : E + (n : Int) ≤ -(c : Int) := by
      have hlt : (2 : Rat) ^ ((M.log2 : Int) + E) < (2 : Rat) ^ ((f.p : Int) - (c : Int)) := by
        rw [zpow_add₀ h2, zpow_natCast]
        have : ((2 ^ M.log2 : Nat) : Rat) ≤ (M : Rat) := Nat.cast_le.mpr hlog
        push_cast at this
        exact lt_of_le_of_lt (mul_le_mul_of_nonneg_right this (two_zpow_pos E).le) hx
      have := (zpow_lt_zpow_iff_right₀ (by norm_num : (1 : Rat) < 2)).mp hlt
      omega
    obtain ⟨j, hj⟩ : ∃ j : Nat, E = -((n : Int) + (j : Int) + (c : Int)) :=
      ⟨(-(E + n) - c).toNat, by omega⟩
    have hP : (0 : Rat) < (2 : Rat) ^ n := by positivity
    have hJ : (0 : Rat) < (2 : Rat) ^ j := by positivity
    have hC : (0 : Rat) < (2 : Rat) ^ c := by positivity
    have hE : (2 : Rat) ^ E = 1 / ((2 : Rat) ^ n * (2 : Rat) ^ j * (2 : Rat) ^ c) := by
      rw [hj, zpow_neg, ← pow_add, ← pow_add, one_div]; norm_cast
    have h1' : 2 * ((m' : Rat) * 2 ^ n) ≤ 2 * (M : Rat) + 2 ^ n := by exact_mod_cast h1
    have h2'' : 2 * (M : Rat) ≤ 2 * ((m' : Rat) * 2 ^ n) + 2 ^ n := by exact_mod_cast h2'
    rw [hE]
    have e1 : (m' : Rat) * 2 ^ n * (1 / ((2 : Rat) ^ n * 2 ^ j * 2 ^ c)) = (m' : Rat) / 2 ^ j / 2 ^ c := by
      field_simp
    have e2 : (M : Rat) * (1 / ((2 : Rat) ^ n * 2 ^ j * 2 ^ c)) = (M : Rat) / (2 ^ n * 2 ^ j) / 2 ^ c := by
      field_simp
    rw [e1, e2]
    simp only [div_le_div_iff_of_pos_right hC]
    constructor
    · intro hN
      rw [le_div_iff₀ (by positivity)] at hN
      rw [le_div_iff₀ hJ]
      -- `k = N·2^j`, `k·2^n ≤ M`, `2M ≤ (2m'+1)·2^n`  ⇒  `k ≤ m'`
      have hk : 2 * ((N * 2 ^ j : Nat) : Rat) * 2 ^ n ≤ (2 * (m' : Rat) + 1) * 2 ^ n := by
        push_cast; nlinarith
      have hk' := le_of_mul_le_mul_right hk hP
      have hk'' : 2 * (N * 2 ^ j) ≤ 2 * m' + 1 := by exact_mod_cast hk'
      have : N * 2 ^ j ≤ m' := by omega
      exact_mod_cast this
    · intro hN
      rw [div_le_iff₀ (by positivity)] at hN
      rw [div_le_iff₀ hJ]
      have hk : 2 * (m' : Rat) * 2 ^ n ≤ (2 * ((N * 2 ^ j : Nat) : Rat) + 1) * 2 ^ n := by
        push_cast; nlinarith
      have hk' := le_of_mul_le_mul_right hk hP
      have hk'' : 2 * m' ≤ 2 * (N * 2 ^ j) + 1 := by exact_mod_cast hk'
      have : m' ≤ N * 2 ^ j := by omega
      exact_mod_cast this

/-- `c = 0`: **a rounding never crosses an integer** (for values below `2^p`, where every integer is
    a float); hence `⌊x⌋ ≤ fl(x) ≤ ⌈x⌉` -/
theorem roundDy_nat_sandwich (hf : f.WF) (M : Nat) (E : Int) (hM : 0 < M)
    (hx : (M : Rat) * (2 : Rat) ^ E < (2 : Rat) ^ f.p)
    (hfin : (Fl.roundDy f false M E).isFinite = true) (N : Nat) :
    ((N : Rat) ≤ (M : Rat) * (2 : Rat) ^ E → (N : Rat) ≤ (Fl.roundDy f false M E).toRat) ∧
    ((M : Rat) * (2 : Rat) ^ E ≤ (N : Rat) → (Fl.roundDy f false M E).toRat ≤ (N : Rat)) := by
  have hmin := hf.hmin
  have hp := hf.hp
  have := roundDy_dyadic_sandwich hf 0 (by omega) M E hM (by simpa using hx) hfin N
  simpa using this

/-- the product of two non-negative finite floats never crosses a grid point `N/2^c`
    (`x < 2^(p-c)`, `emin ≤ -c`) -/
theorem mul_dyadic_sandwich (hf : f.WF) (c : Nat) (hc : f.emin ≤ -(c : Int)) {r : Fl} (mK : Nat)
    (eK : Int) (hr : r.isFinite = true) (hr0 : 0 ≤ r.toRat)
    (hx : r.toRat * (Fl.fin false mK eK).toRat < (2 : Rat) ^ ((f.p : Int) - (c : Int)))
    (hfin : (Fl.mul f r (Fl.fin false mK eK)).isFinite = true) (N : Nat) :
    ((N : Rat) / 2 ^ c ≤ r.toRat * (Fl.fin false mK eK).toRat →
      (N : Rat) / 2 ^ c ≤ (Fl.mul f r (Fl.fin false mK eK)).toRat) ∧
    (r.toRat * (Fl.fin false mK eK).toRat ≤ (N : Rat) / 2 ^ c →
      (Fl.mul f r (Fl.fin false mK eK)).toRat ≤ (N : Rat) / 2 ^ c) := by
  cases r with
  | nan => simp [Fl.isFinite] at hr
  | inf s => simp [Fl.isFinite] at hr
  | fin s m e =>
    by_cases hz : m * mK = 0
    · have hy : Fl.mul f (Fl.fin s m e) (Fl.fin false mK eK) = Fl.zero f (s != false) := by
        simp only [Fl.mul, hz, if_true]
      have hx0 : (Fl.fin s m e).toRat * (Fl.fin false mK eK).toRat = 0 := by
        rw [toRat_mul_toRat, hz]; simp
      rw [hy, toRat_zero, hx0]
      exact ⟨id, id⟩
    · have hm : 0 < m := Nat.pos_of_ne_zero (fun h => hz (by rw [h, Nat.zero_mul]))
      have hmK : 0 < mK := Nat.pos_of_ne_zero (fun h => hz (by rw [h, Nat.mul_zero]))
      have hs : s = false := by
        cases s
        · rfl
        · exfalso
          rw [toRat_fin, sgn_true] at hr0
          have : (0 : Rat) < (m : Rat) * (2 : Rat) ^ e := mul_pos (by exact_mod_cast hm) (two_zpow_pos e)
          linarith
      subst hs
      rw [mul_fin_eq f false false m mK e eK hm hmK] at hfin ⊢
      rw [toRat_mul_toRat] at hx ⊢
      have hb : (false != false) = false := rfl
      simp only [hb, sgn_false, one_mul] at hx hfin ⊢
      exact roundDy_dyadic_sandwich hf c hc (m * mK) (e + eK) (Nat.mul_pos hm hmK) hx hfin N

/-- `c = 0`: the product, when below `2^p`, never crosses an integer -/
theorem mul_nat_sandwich (hf : f.WF) {r : Fl} (mK : Nat) (eK : Int) (hr : r.isFinite = true)
    (hr0 : 0 ≤ r.toRat)
    (hx : r.toRat * (Fl.fin false mK eK).toRat < (2 : Rat) ^ f.p)
    (hfin : (Fl.mul f r (Fl.fin false mK eK)).isFinite = true) (N : Nat) :
    ((N : Rat) ≤ r.toRat * (Fl.fin false mK eK).toRat → (N : Rat) ≤ (Fl.mul f r (Fl.fin false mK eK)).toRat) ∧
    (r.toRat * (Fl.fin false mK eK).toRat ≤ (N : Rat) → (Fl.mul f r (Fl.fin false mK eK)).toRat ≤ (N : Rat)) := by
  have hmin := hf.hmin
  have hp := hf.hp
  have := mul_dyadic_sandwich hf 0 (by omega) mK eK hr hr0 (by simpa using hx) hfin N
  simpa using this

/-- `to_u32` / `to_u64` of such a product: some `nr` with `⌊x⌋ ≤ nr < x + 1`, i.e. `⌊x⌋ ≤ nr ≤ ⌈x⌉` -/
theorem toUInt_mul_bounds (hf : f.WF) {bits : Nat} {r : Fl} (mK : Nat) (eK : Int) (hr : r.isFinite = true)
    (hr0 : 0 ≤ r.toRat)
    (hx : r.toRat * (Fl.fin false mK eK).toRat < (2 : Rat) ^ f.p) {nr : Nat}
    (h : Fl.toUInt bits (Fl.mul f r (Fl.fin false mK eK)) = some nr) :
    (r.toRat * (Fl.fin false mK eK).toRat).floor ≤ (nr : Int) ∧
      (nr : Rat) < r.toRat * (Fl.fin false mK eK).toRat + 1 := by
  have hyfin := toUInt_some_isFinite h
  have hK0 : 0 ≤ (Fl.fin false mK eK).toRat := by rw [toRat_fin, sgn_false, one_mul]; positivity
  have hx0 : 0 ≤ r.toRat * (Fl.fin false mK eK).toRat := mul_nonneg hr0 hK0
  have S := mul_nat_sandwich hf mK eK hr hr0 hx hyfin
  generalize r.toRat * (Fl.fin false mK eK).toRat = x at *
  generalize Fl.mul f r (Fl.fin false mK eK) = y at *
  have hy0 : 0 ≤ y.toRat := by
    have := (S 0).1 (by simpa using hx0)
    simpa using this
  rw [toUInt_of_nonneg bits hyfin hy0] at h
  split at h
  · injection h with h
    have hfy0 : 0 ≤ y.toRat.floor := Rat.le_floor_iff.mpr (by simpa using hy0)
    have hnr : (nr : Int) = y.toRat.floor := by omega
    have hfy : ((y.toRat.floor : Int) : Rat) ≤ y.toRat := Rat.le_floor_iff.mp (le_refl _)
    have hnrQ : (nr : Rat) ≤ y.toRat := by
      rw [← Int.cast_natCast, hnr]; exact hfy
    constructor
    · have hfx0 : 0 ≤ x.floor := Rat.le_floor_iff.mpr (by simpa using hx0)
      have hfx : ((x.floor : Int) : Rat) ≤ x := Rat.le_floor_iff.mp (le_refl _)
      have e : ((x.floor.toNat : Nat) : Rat) = ((x.floor : Int) : Rat) := by
        rw [← Int.cast_natCast, Int.toNat_of_nonneg hfx0]
      have h1 := (S x.floor.toNat).1 (by rw [e]; exact hfx)
      rw [e] at h1
      rw [hnr]
      exact Rat.le_floor_iff.mpr h1
    · by_contra hcon
      have hcon' : x + 1 ≤ (nr : Rat) := not_lt.mp hcon
      have hnr1 : 1 ≤ nr := by
        have : (1 : Rat) ≤ (nr : Rat) := by linarith
        exact_mod_cast this
      have e : ((nr - 1 : Nat) : Rat) = (nr : Rat) - 1 := by
        rw [Nat.cast_sub hnr1]; simp
      have h2 := (S (nr - 1)).2 (by rw [e]; linarith)
      rw [e] at h2
      linarith
  · exact absurd h (by simp)

/-! ### B4b. the assembled accuracy statement -/

theorem zero_isFinite (f : Fmt) (s : Bool) : (Fl.zero f s).isFinite = true := rfl

/-- **B4, any well-formed format.**  Second base (`fac = cs = 1.0`), nanosecond coefficient `cn < 1.0`
    whose reciprocal `K = 1.0 / cn` (the constant the code multiplies by) is positive and at most
    `2^p`.  If the conversion of a canonical `v` answers `Ok(Duration::new(s, n))` then `v` is finite,
    `0 ≤ v < 2^64`, `n < 10^9`, and the total `s·10^9 + n` is `⌊v⌋·10^9 + nr` where `nr` (the value of
    `to_u32`, before `Duration::new` carries) is within one unit of `frac(v)·K`:
    `⌊frac(v)·K⌋ ≤ nr < frac(v)·K + 1`, i.e. `nr ∈ {⌊frac(v)·K⌋, ⌈frac(v)·K⌉}`. -/
theorem ok_second_base (hf : f.WF) {cn v : Fl} {mK : Nat} {eK : Int}
    (hlt : Fl.lt cn (Fl.one f) = true) (hK : Fl.div f (Fl.one f) cn = Fl.fin false mK eK)
    (hKp : (Fl.fin false mK eK).toRat ≤ (2 : Rat) ^ f.p) (hc : Fl.Canonical f v) {s n : Nat}
    (h : durOfTimeFl f (Fl.one f) (Fl.one f) cn v = .ok s n) :
    v.isFinite = true ∧ 0 ≤ v.toRat ∧ v.toRat < 2 ^ 64 ∧ n < 1000000000 ∧
    ∃ nr : Nat, s * 1000000000 + n = v.toRat.floor.toNat * 1000000000 + nr ∧
      s = v.toRat.floor.toNat + nr / 1000000000 ∧
      ((v.toRat - ((v.toRat.floor : Int) : Rat)) * (Fl.fin false mK eK).toRat).floor ≤ (nr : Int) ∧
      (nr : Rat) < (v.toRat - ((v.toRat.floor : Int) : Rat)) * (Fl.fin false mK eK).toRat + 1 ∧
      Fl.toUInt 32 (Fl.mul f (Fl.fmod f v (Fl.one f)) (Fl.fin false mK eK)) = some nr := by
  rw [durOfTimeFl_second' hf cn v hc hlt, hK] at h
  by_cases hneg : Fl.lt v (Fl.zero f false) = true
  · rw [if_pos hneg] at h; exact absurd h (by simp)
  · rw [if_neg hneg] at h
    obtain ⟨secs, nr, hs, hn, htot, hn9, hcarry, -⟩ := joinParts_ok h
    have vfin := toUInt_some_isFinite hs
    have h0 : 0 ≤ v.toRat := by
      have := (lt_eq_false_toRat vfin (zero_isFinite f false)).mp (by simpa using hneg)
      rwa [toRat_zero] at this
    rw [toUInt_of_nonneg 64 vfin h0] at hs
    obtain ⟨rfin, rval⟩ := fmod_one_nonneg hf hc vfin h0
    obtain ⟨hρ0, hρ1⟩ := frac_bounds v.toRat
    have hK0 := toRat_fin_false_nonneg mK eK
    rw [← rval] at hρ0 hρ1
    have hx : (Fl.fmod f v (Fl.one f)).toRat * (Fl.fin false mK eK).toRat < (2 : Rat) ^ f.p := by
      rcases eq_or_lt_of_le hK0 with hz | hpos
      · rw [← hz, mul_zero]; positivity
      · calc _ < 1 * (Fl.fin false mK eK).toRat := mul_lt_mul_of_pos_right hρ1 hpos
          _ = _ := one_mul _
          _ ≤ _ := hKp
    have hb := toUInt_mul_bounds hf mK eK rfin hρ0 hx hn
    rw [rval] at hb
    split at hs
    · next hlt64 =>
      injection hs with hs
      refine ⟨vfin, h0, hlt64, hn9, nr, ?_, ?_, hb.1, hb.2, hn⟩
      · rw [hs]; exact htot
      · rw [hs]; exact hcarry
    · exact absurd hs (by simp)

/-! ### totality: when the answer is `Ok` -/

/-- `roundDy` is finite as soon as the result exponent (before a possible carry) leaves one binade
    of head-room -/
theorem roundDy_isFinite (f : Fmt) (s : Bool) (M : Nat) (E : Int)
    (h : max (E + ((M.log2 : Int) + 1 - f.p)) f.emin + 1 ≤ f.emax) :
    (Fl.roundDy f s M E).isFinite = true := by
  by_cases hsh : max ((M.log2 : Int) + 1 - f.p) (f.emin - E) ≤ 0
  · unfold Fl.roundDy
    simp only [if_pos hsh]
    split
    · exfalso; omega
    · rfl
  · rw [roundDy_eq_of_pos f s M E (by omega)]
    split
    · split
      · exfalso; omega
      · rfl
    · split
      · exfalso; omega
      · rfl

/-- a product of magnitude below `2^t` is finite when `max (t - p) emin + 1 ≤ emax` -/
theorem mul_isFinite_of_lt (f : Fmt) {r : Fl} (hr : r.isFinite = true) (sK : Bool) (mK : Nat) (eK : Int)
    (t : Int) (hx : |r.toRat * (Fl.fin sK mK eK).toRat| < (2 : Rat) ^ t)
    (ht : max (t - f.p) f.emin + 1 ≤ f.emax) :
    (Fl.mul f r (Fl.fin sK mK eK)).isFinite = true := by
  cases r with
  | nan => simp [Fl.isFinite] at hr
  | inf s => simp [Fl.isFinite] at hr
  | fin s m e =>
    by_cases hz : m * mK = 0
    · simp only [Fl.mul, hz, if_true]; rfl
    · have hm : 0 < m := Nat.pos_of_ne_zero (fun h => hz (by rw [h, Nat.zero_mul]))
      have hmK : 0 < mK := Nat.pos_of_ne_zero (fun h => hz (by rw [h, Nat.mul_zero]))
      rw [mul_fin_eq f s sK m mK e eK hm hmK]
      rw [toRat_mul_toRat, abs_mul, abs_mul, abs_sgn, one_mul, abs_of_nonneg (Nat.cast_nonneg _),
        abs_of_pos (two_zpow_pos _)] at hx
      have hlog : 2 ^ (m * mK).log2 ≤ m * mK := Nat.log2_self_le hz
      have hlt : (2 : Rat) ^ (((m * mK).log2 : Int) + (e + eK)) < (2 : Rat) ^ t := by
        rw [zpow_add₀ (by norm_num : (2 : Rat) ≠ 0), zpow_natCast]
        have : ((2 ^ (m * mK).log2 : Nat) : Rat) ≤ ((m * mK : Nat) : Rat) := Nat.cast_le.mpr hlog
        push_cast at this ⊢
        push_cast at hx
        exact lt_of_le_of_lt (mul_le_mul_of_nonneg_right this (two_zpow_pos _).le) hx
      have := (zpow_lt_zpow_iff_right₀ (by norm_num : (1 : Rat) < 2)).mp hlt
      exact roundDy_isFinite f _ _ _ (by omega)

/-- a float with a fractional part is below `2^(p-1)` -/
theorem lt_of_frac_ne_zero {x : Fl} (hc : Fl.Canonical f x) (hx : x.isFinite = true)
    (h : x.toRat - ((x.toRat.floor : Int) : Rat) ≠ 0) : x.toRat * 2 < (2 : Rat) ^ f.p := by
  cases x with
  | nan => simp [Fl.isFinite] at hx
  | inf s => simp [Fl.isFinite] at hx
  | fin s m e =>
    by_cases he : 0 ≤ e
    · exfalso; apply h
      rw [toRat_int_of_nonneg s m e he, Rat.floor_intCast, sub_self]
    · have hm : m < 2 ^ f.p := canonical_lt hc
      have hmQ : (m : Rat) < (2 : Rat) ^ f.p := by exact_mod_cast hm
      have h2e : (2 : Rat) ^ e ≤ (2 : Rat) ^ (-1 : Int) :=
        zpow_le_zpow_right₀ (by norm_num) (by omega)
      have h2e' : (2 : Rat) ^ e * 2 ≤ 1 := by
        have : (2 : Rat) ^ (-1 : Int) = 1 / 2 := by norm_num
        rw [this] at h2e; linarith
      have hA : (Fl.fin false m e).toRat * 2 ≤ (m : Rat) := by
        rw [toRat_fin, sgn_false, one_mul, mul_assoc]
        calc (m : Rat) * ((2 : Rat) ^ e * 2) ≤ (m : Rat) * 1 :=
              mul_le_mul_of_nonneg_left h2e' (Nat.cast_nonneg _)
          _ = m := mul_one _
      have hle : (Fl.fin s m e).toRat ≤ (Fl.fin false m e).toRat := by
        rw [toRat_fin_sgn]
        have := toRat_fin_false_nonneg m e
        cases s
        · rw [sgn_false, one_mul]
        · rw [sgn_true]; linarith
      linarith

theorem joinParts_some (secs nr : Nat) (h : secs + nr / 1000000000 < 2 ^ 64) :
    joinParts (some secs) (some nr) = .ok (secs + nr / 1000000000) (nr % 1000000000) := by
  simp only [joinParts, durationNew, if_pos h]

theorem mul_toRat_zero (f : Fmt) {r : Fl} (hr : r.isFinite = true) (h0 : r.toRat = 0)
    (sK : Bool) (mK : Nat) (eK : Int) : (Fl.mul f r (Fl.fin sK mK eK)).toRat = 0 := by
  cases r with
  | nan => simp [Fl.isFinite] at hr
  | inf s => simp [Fl.isFinite] at hr
  | fin s m e =>
    have hm : m = 0 := (toRat_fin_eq_zero_iff s m e).mp h0
    subst hm
    simp only [Fl.mul, Nat.zero_mul, if_true]
    exact toRat_zero f _


/-- core of the totality proofs: if the nanosecond product is finite and in `[0, 2^32)` the answer is
    `Ok` — the `Duration::new` carry cannot overflow because a float with a fractional part is below
    `2^(p-1) ≤ 2^63` -/
theorem total_of_nanos (hf : f.WF) (hp64 : f.p ≤ 64) {cn v : Fl} {mK : Nat} {eK : Int}
    (hlt : Fl.lt cn (Fl.one f) = true) (hK : Fl.div f (Fl.one f) cn = Fl.fin false mK eK)
    (hc : Fl.Canonical f v) (hfin : v.isFinite = true) (h0 : 0 ≤ v.toRat) (h64 : v.toRat < 2 ^ 64)
    (hyfin : (Fl.mul f (Fl.fmod f v (Fl.one f)) (Fl.fin false mK eK)).isFinite = true)
    (hy0 : 0 ≤ (Fl.mul f (Fl.fmod f v (Fl.one f)) (Fl.fin false mK eK)).toRat)
    (hy32 : (Fl.mul f (Fl.fmod f v (Fl.one f)) (Fl.fin false mK eK)).toRat < 2 ^ 32) :
    ∃ s n : Nat, durOfTimeFl f (Fl.one f) (Fl.one f) cn v = .ok s n := by
  rw [durOfTimeFl_second' hf cn v hc hlt, hK]
  have hneg : ¬ Fl.lt v (Fl.zero f false) = true := by
    have := (lt_eq_false_toRat hfin (zero_isFinite f false)).mpr (by rw [toRat_zero]; exact h0)
    rw [this]; simp
  rw [if_neg hneg, toUInt_of_nonneg 64 hfin h0, if_pos h64, toUInt_of_nonneg 32 hyfin hy0, if_pos hy32]
  obtain ⟨rfin, rval⟩ := fmod_one_nonneg hf hc hfin h0
  have hfrac := lt_of_frac_ne_zero hc hfin
  rw [← rval] at hfrac
  have hz := mul_toRat_zero f rfin (sK := false) (mK := mK) (eK := eK)
  generalize Fl.mul f (Fl.fmod f v (Fl.one f)) (Fl.fin false mK eK) = y at *
  have hfy : y.toRat.floor < 2 ^ 32 := by
    have h1 : ((y.toRat.floor : Int) : Rat) ≤ y.toRat := Rat.le_floor_iff.mp (le_refl _)
    have : ((y.toRat.floor : Int) : Rat) < (((2 : Int) ^ 32 : Int) : Rat) := by push_cast; linarith
    exact_mod_cast this
  have hvfl : ((v.toRat.floor : Int) : Rat) ≤ v.toRat := Rat.le_floor_iff.mp (le_refl _)
  have hcarry : v.toRat.floor.toNat + y.toRat.floor.toNat / 1000000000 < 2 ^ 64 := by
    by_cases hr0 : (Fl.fmod f v (Fl.one f)).toRat = 0
    · -- no fractional part: the nanoseconds are 0
      have : y.toRat.floor = 0 := by rw [hz hr0]; exact rat_floor_eq (by norm_num) (by norm_num)
      rw [this]
      have hv : v.toRat.floor < 2 ^ 64 := by
        have : ((v.toRat.floor : Int) : Rat) < (((2 : Int) ^ 64 : Int) : Rat) := by
          push_cast; linarith
        exact_mod_cast this
      simp; omega
    · -- a fractional part: `v < 2^(p-1) ≤ 2^63`
      have h2 := hfrac hr0
      have hpow : (2 : Rat) ^ f.p ≤ (2 : Rat) ^ 64 := pow_le_pow_right₀ (by norm_num) hp64
      have hv : v.toRat.floor < 2 ^ 63 := by
        have : ((v.toRat.floor : Int) : Rat) < (((2 : Int) ^ 63 : Int) : Rat) := by
          push_cast; norm_num at hpow ⊢; linarith
        exact_mod_cast this
      have : y.toRat.floor.toNat / 1000000000 ≤ 4 := by omega
      omega
  exact ⟨_, _, joinParts_some _ _ hcarry⟩

/-- facts shared by the two totality theorems: `x = frac(v)·K ∈ [0, K]`, `x < K` unless `K = 0` -/
theorem nanos_exact_bounds (hf : f.WF) {v : Fl} (mK : Nat) (eK : Int)
    (hc : Fl.Canonical f v) (hfin : v.isFinite = true) (h0 : 0 ≤ v.toRat) :
    (Fl.fmod f v (Fl.one f)).isFinite = true ∧ 0 ≤ (Fl.fmod f v (Fl.one f)).toRat ∧
      (Fl.fmod f v (Fl.one f)).toRat < 1 ∧
      0 ≤ (Fl.fmod f v (Fl.one f)).toRat * (Fl.fin false mK eK).toRat ∧
      (Fl.fmod f v (Fl.one f)).toRat * (Fl.fin false mK eK).toRat ≤ (Fl.fin false mK eK).toRat := by
  obtain ⟨rfin, rval⟩ := fmod_one_nonneg hf hc hfin h0
  obtain ⟨hρ0, hρ1⟩ := frac_bounds v.toRat
  have hK0 := toRat_fin_false_nonneg mK eK
  rw [← rval] at hρ0 hρ1
  refine ⟨rfin, hρ0, hρ1, mul_nonneg hρ0 hK0, ?_⟩
  calc _ ≤ 1 * (Fl.fin false mK eK).toRat := mul_le_mul_of_nonneg_right hρ1.le hK0
    _ = _ := one_mul _

/-- **totality in the second base, `K ≤ 2^p`** (binary64).  For a format with `p ≤ 64` whose
    nanosecond factor `K = 1.0/cn` is at most `10^9` and at most `2^p`: every finite canonical
    `0 ≤ v < 2^64` converts to `Ok` (never `Overflow`, never the `Duration::new` panic) -/
theorem total_second_base (hf : f.WF) (hp64 : f.p ≤ 64) {cn v : Fl} {mK : Nat} {eK : Int}
    (hlt : Fl.lt cn (Fl.one f) = true) (hK : Fl.div f (Fl.one f) cn = Fl.fin false mK eK)
    (hKp : (Fl.fin false mK eK).toRat ≤ (2 : Rat) ^ f.p)
    (hK9 : (Fl.fin false mK eK).toRat ≤ 1000000000)
    (hexp : max (30 - (f.p : Int)) f.emin + 1 ≤ f.emax)
    (hc : Fl.Canonical f v) (hfin : v.isFinite = true) (h0 : 0 ≤ v.toRat) (h64 : v.toRat < 2 ^ 64) :
    ∃ s n : Nat, durOfTimeFl f (Fl.one f) (Fl.one f) cn v = .ok s n := by
  obtain ⟨rfin, hρ0, hρ1, hx0, hxK⟩ := nanos_exact_bounds hf mK eK hc hfin h0
  have hK0 := toRat_fin_false_nonneg mK eK
  have hx : (Fl.fmod f v (Fl.one f)).toRat * (Fl.fin false mK eK).toRat < (2 : Rat) ^ f.p := by
    rcases eq_or_lt_of_le hK0 with hz | hpos
    · rw [← hz, mul_zero]; positivity
    · calc _ < 1 * (Fl.fin false mK eK).toRat := mul_lt_mul_of_pos_right hρ1 hpos
        _ = _ := one_mul _
        _ ≤ _ := hKp
  have hyfin : (Fl.mul f (Fl.fmod f v (Fl.one f)) (Fl.fin false mK eK)).isFinite = true := by
    refine mul_isFinite_of_lt f rfin false mK eK 30 ?_ hexp
    rw [abs_of_nonneg hx0]
    calc _ ≤ (1000000000 : Rat) := le_trans hxK hK9
      _ < (2 : Rat) ^ (30 : Int) := by norm_num
  have S := mul_nat_sandwich hf mK eK rfin hρ0 hx hyfin
  have hy0 : 0 ≤ (Fl.mul f (Fl.fmod f v (Fl.one f)) (Fl.fin false mK eK)).toRat := by
    have := (S 0).1 (by simpa using hx0)
    simpa using this
  have hy9 : (Fl.mul f (Fl.fmod f v (Fl.one f)) (Fl.fin false mK eK)).toRat ≤ 1000000000 := by
    have := (S 1000000000).2 (by push_cast; exact le_trans hxK hK9)
    simpa using this
  exact total_of_nanos hf hp64 hlt hK hc hfin h0 h64 hyfin hy0 (lt_of_le_of_lt hy9 (by norm_num))

/-- … and from `2^64` on (and for `+∞`, NaN) the answer is `Overflow` -/
theorem overflow_second_base (hf : f.WF) (cn : Fl) {v : Fl} (hc : Fl.Canonical f v)
    (hneg : Fl.lt v (Fl.zero f false) = false) (h : v.isFinite = true → (2 : Rat) ^ 64 ≤ v.toRat) :
    durOfTimeFl f (Fl.one f) (Fl.one f) cn v = .overflow := by
  rw [durOfTimeFl_second hf cn v hc, hneg, if_neg (by simp)]
  have : Fl.toUInt 64 v = none := by
    by_cases hfin : v.isFinite = true
    · have h0 : 0 ≤ v.toRat := le_trans (by positivity) (h hfin)
      rw [toUInt_of_nonneg 64 hfin h0, if_neg (not_lt.mpr (h hfin))]
    · cases v with
      | nan => rfl
      | inf s => rfl
      | fin s m e => exact absurd rfl hfin
  rw [this]; rfl

/-! ### binary64 -/

/-- the binary64 coefficient of `nanosecond`: the double nearest `1e-9` -/
def cn64 : Fl := Fl.ofBits b64 0x3e112e0be826d695

theorem cn64_eq : cn64 = Fl.fin false 4835703278458517 (-82) := by decide +kernel

/-- it is what the literal `1.0E-9` parses to -/
theorem cn64_literal : Fl.ofDecimal b64 1 (-9) = cn64 := by decide +kernel

theorem cn64_lt_one : Fl.lt cn64 (Fl.one b64) = true := by decide +kernel

/-- the constant the code multiplies by: `1.0 / 1e-9 = 999999999.99999988…`, **not** `1e9` -/
theorem K64_eq : Fl.div b64 (Fl.one b64) cn64 = Fl.fin false 8388607999999999 (-23) := by
  decide +kernel

theorem K64_toRat : (Fl.fin false 8388607999999999 (-23)).toRat = 1000000000 - 1 / 2 ^ 23 := by
  rw [toRat_fin, sgn_false]; norm_num

theorem K64_le_two_pow : (Fl.fin false 8388607999999999 (-23)).toRat ≤ (2 : Rat) ^ b64.p := by
  rw [K64_toRat]; norm_num [b64]

theorem toUInt_some_le {bits : Nat} {y : Fl} {nr : Nat} (h : Fl.toUInt bits y = some nr)
    (hy0 : 0 ≤ y.toRat) : (nr : Rat) ≤ y.toRat := by
  rw [toUInt_of_nonneg bits (toUInt_some_isFinite h) hy0] at h
  split at h
  · injection h with h
    have hfy0 : 0 ≤ y.toRat.floor := Rat.le_floor_iff.mpr (by simpa using hy0)
    have hfy : ((y.toRat.floor : Int) : Rat) ≤ y.toRat := Rat.le_floor_iff.mp (le_refl _)
    have : ((nr : Nat) : Rat) = ((y.toRat.floor : Int) : Rat) := by
      rw [← Int.cast_natCast]; congr 1; omega
    rw [this]; exact hfy
  · exact absurd h (by simp)

/-- **B4, binary64, the structure of an `Ok`**: `secs = ⌊v⌋` *exactly* (`Duration::new` never
    carries: the rounded product stays `≤ K < 10^9`), and `nanos` is `⌊x⌋` or `⌈x⌉` for
    `x = frac(v)·K`, `K = 10^9 − 2^-23` -/
theorem ok_second_base_b64 {v : Fl} (hc : Fl.Canonical b64 v) {s n : Nat}
    (h : durOfTimeFl b64 (Fl.one b64) (Fl.one b64) cn64 v = .ok s n) :
    v.isFinite = true ∧ 0 ≤ v.toRat ∧ v.toRat < 2 ^ 64 ∧ (s : Int) = v.toRat.floor ∧ n < 1000000000 ∧
    ((v.toRat - ((v.toRat.floor : Int) : Rat)) * (1000000000 - 1 / 2 ^ 23)).floor ≤ (n : Int) ∧
    (n : Rat) < (v.toRat - ((v.toRat.floor : Int) : Rat)) * (1000000000 - 1 / 2 ^ 23) + 1 := by
  obtain ⟨vfin, h0, h64, hn9, nr, htot, hs, hlo, hhi, hnr⟩ :=
    ok_second_base b64_wf cn64_lt_one K64_eq K64_le_two_pow hc h
  rw [K64_toRat] at hlo hhi
  obtain ⟨rfin, rval⟩ := fmod_one_nonneg b64_wf hc vfin h0
  obtain ⟨hρ0, hρ1⟩ := frac_bounds v.toRat
  rw [← rval] at hρ0 hρ1
  have hyfin := toUInt_some_isFinite hnr
  have hK0 := toRat_fin_false_nonneg 8388607999999999 (-23)
  have hxK : (Fl.fmod b64 v (Fl.one b64)).toRat * (Fl.fin false 8388607999999999 (-23)).toRat ≤
      (Fl.fin false 8388607999999999 (-23)).toRat := by
    calc _ ≤ 1 * (Fl.fin false 8388607999999999 (-23)).toRat := mul_le_mul_of_nonneg_right hρ1.le hK0
      _ = _ := one_mul _
  have hx30 : (Fl.fmod b64 v (Fl.one b64)).toRat * (Fl.fin false 8388607999999999 (-23)).toRat <
      (2 : Rat) ^ ((b64.p : Int) - ((23 : Nat) : Int)) := by
    refine lt_of_le_of_lt hxK ?_
    rw [K64_toRat]; norm_num [b64]
  have S := mul_dyadic_sandwich b64_wf 23 (by decide) 8388607999999999 (-23) rfin hρ0 hx30 hyfin
  have hy0 : 0 ≤ (Fl.mul b64 (Fl.fmod b64 v (Fl.one b64)) (Fl.fin false 8388607999999999 (-23))).toRat := by
    have := (S 0).1 (by simpa using mul_nonneg hρ0 hK0)
    simpa using this
  have hyK : (Fl.mul b64 (Fl.fmod b64 v (Fl.one b64)) (Fl.fin false 8388607999999999 (-23))).toRat ≤
      1000000000 - 1 / 2 ^ 23 := by
    have := (S 8388607999999999).2 (by refine le_trans hxK ?_; rw [K64_toRat]; norm_num)
    refine le_trans this ?_; norm_num
  have hnrK := le_trans (toUInt_some_le hnr hy0) hyK
  have hnr9 : nr < 1000000000 := by
    have : (nr : Rat) < ((1000000000 : Nat) : Rat) := by push_cast; linarith
    exact_mod_cast this
  have hF0 : 0 ≤ v.toRat.floor := Rat.le_floor_iff.mpr (by simpa using h0)
  have hdiv : nr / 1000000000 = 0 := Nat.div_eq_of_lt hnr9
  have hn : n = nr := by omega
  refine ⟨vfin, h0, h64, by omega, hn9, ?_, ?_⟩
  · rw [hn]; exact hlo
  · rw [hn]; exact hhi

/-- **B4, binary64, in nanoseconds**: an `Ok(Duration::new(s, n))` is within `(−1 − 2^-23, 1)` ns of
    the stored time -/
theorem accuracy_second_base_b64_ns {v : Fl} (hc : Fl.Canonical b64 v) {s n : Nat}
    (h : durOfTimeFl b64 (Fl.one b64) (Fl.one b64) cn64 v = .ok s n) :
    n < 1000000000 ∧
    -(1 + 1 / 2 ^ 23) < ((s : Rat) * 1000000000 + (n : Rat)) - v.toRat * 1000000000 ∧
    ((s : Rat) * 1000000000 + (n : Rat)) - v.toRat * 1000000000 < 1 := by
  obtain ⟨-, h0, -, hs, hn9, hlo, hhi⟩ := ok_second_base_b64 hc h
  obtain ⟨hρ0, hρ1⟩ := frac_bounds v.toRat
  have hsQ : (s : Rat) = ((v.toRat.floor : Int) : Rat) := by
    rw [← hs]; simp
  set ρ := v.toRat - ((v.toRat.floor : Int) : Rat) with hρ
  have hx := frac_bounds (ρ * (1000000000 - 1 / 2 ^ 23))
  have hloQ : (((ρ * (1000000000 - 1 / 2 ^ 23)).floor : Int) : Rat) ≤ (n : Rat) := by
    have : (((ρ * (1000000000 - 1 / 2 ^ 23)).floor : Int) : Rat) ≤ (((n : Nat) : Int) : Rat) := by
      exact_mod_cast hlo
    simpa using this
  have hv : v.toRat = ((v.toRat.floor : Int) : Rat) + ρ := by rw [hρ]; ring
  refine ⟨hn9, ?_, ?_⟩
  · rw [hsQ]; nlinarith
  · rw [hsQ]; nlinarith

/-- **B4, binary64, in seconds** (`accuracy_second_base`):
    `|s + n/10^9 − v| < (1 + 2^-23)·10^-9` -/
theorem accuracy_second_base_b64 {v : Fl} (hc : Fl.Canonical b64 v) {s n : Nat}
    (h : durOfTimeFl b64 (Fl.one b64) (Fl.one b64) cn64 v = .ok s n) :
    |(s : Rat) + (n : Rat) / 1000000000 - v.toRat| < (1 + 1 / 2 ^ 23) / 1000000000 := by
  obtain ⟨-, h1, h2⟩ := accuracy_second_base_b64_ns hc h
  have e : (s : Rat) + (n : Rat) / 1000000000 - v.toRat =
      (((s : Rat) * 1000000000 + (n : Rat)) - v.toRat * 1000000000) / 1000000000 := by
    field_simp
  rw [e, abs_div, abs_of_pos (by norm_num : (0 : Rat) < 1000000000),
    div_lt_div_iff_of_pos_right (by norm_num)]
  rw [abs_lt]
  constructor <;> linarith

/-- the one-sided C14 statement `accuracy_full`, restricted to the second base, holds -/
theorem accuracy_full_second_b64 {v : Fl} (hc : Fl.Canonical b64 v) {s n : Nat}
    (h : durOfTimeFl b64 (Fl.one b64) (Fl.one b64) cn64 v = .ok s n) :
    let t := v.toRat * (Fl.one b64).toRat / (Fl.one b64).toRat
    ((s : Rat) + (n : Rat) / 1000000000 - t) ≤
      1 / 1000000000 + 4 * (1 / ((2 ^ b64.p : Nat) : Rat)) * t := by
  intro t
  have ht : t = v.toRat := by
    show v.toRat * (Fl.one b64).toRat / (Fl.one b64).toRat = v.toRat
    rw [one_toRat b64_wf.hp]; simp
  obtain ⟨-, -, h2⟩ := accuracy_second_base_b64_ns hc h
  obtain ⟨-, h0, -⟩ := ok_second_base_b64 hc h
  rw [ht]
  have : 0 ≤ 4 * (1 / ((2 ^ b64.p : Nat) : Rat)) * v.toRat := by positivity
  have e : (s : Rat) + (n : Rat) / 1000000000 - v.toRat =
      (((s : Rat) * 1000000000 + (n : Rat)) - v.toRat * 1000000000) / 1000000000 := by
    field_simp
  have : (s : Rat) + (n : Rat) / 1000000000 - v.toRat < 1 / 1000000000 := by
    rw [e, div_lt_div_iff_of_pos_right (by norm_num)]; exact h2
  linarith

/-- **totality, binary64**: every finite canonical `0 ≤ v < 2^64` converts to an `Ok` that is accurate
    to `(1 + 2^-23)` ns -/
theorem total_second_base_b64 {v : Fl} (hc : Fl.Canonical b64 v) (hfin : v.isFinite = true)
    (h0 : 0 ≤ v.toRat) (h64 : v.toRat < 2 ^ 64) :
    ∃ s n : Nat, durOfTimeFl b64 (Fl.one b64) (Fl.one b64) cn64 v = .ok s n ∧ n < 1000000000 ∧
      |(s : Rat) + (n : Rat) / 1000000000 - v.toRat| < (1 + 1 / 2 ^ 23) / 1000000000 := by
  have hKp := K64_le_two_pow
  have hK9 : (Fl.fin false 8388607999999999 (-23)).toRat ≤ 1000000000 := by
    rw [K64_toRat]; norm_num
  obtain ⟨s, n, h⟩ := total_second_base b64_wf (by decide) cn64_lt_one K64_eq hKp hK9 (by decide)
    hc hfin h0 h64
  exact ⟨s, n, h, (accuracy_second_base_b64_ns hc h).1, accuracy_second_base_b64 hc h⟩

/-! ### sharpness -/

/-- the 1 ns is attained: `1.5 s ↦ 1.499999999 s` (because `0.5 * (1.0/1e-9) = 499999999.99999994`) -/
theorem one_and_a_half :
    durOfTimeFl b64 (Fl.one b64) (Fl.one b64) cn64 (Fl.ofBits b64 0x3ff8000000000000) =
      .ok 1 499999999 := by decide +kernel

/-- "accurate to one nanosecond" -/
def accuracy_1ns : Prop :=
  ∀ (v : Fl) (s n : Nat), Fl.Canonical b64 v →
    durOfTimeFl b64 (Fl.one b64) (Fl.one b64) cn64 v = .ok s n →
    |(s : Rat) + (n : Rat) / 1000000000 - v.toRat| ≤ 1 / 1000000000

/-- … is **false** even in the second base: `0x3feffedad1fbbe5b ≈ 0.999860201 s ↦ 0.999860200 s`,
    an error of `1.0000000595 ns`; the `2^-23` in `accuracy_second_base_b64` cannot be dropped -/
theorem accuracy_1ns_false : ¬ accuracy_1ns := by
  intro h
  have hv : Fl.ofBits b64 0x3feffedad1fbbe5b = Fl.fin false 9005940057292379 (-53) := by
    decide +kernel
  have := h (Fl.ofBits b64 0x3feffedad1fbbe5b) 0 999860200 (Fl.ofBits_canonical_b64 _)
    (by decide +kernel)
  rw [hv, toRat_fin, sgn_false] at this
  norm_num at this

/-! ### formats whose nanosecond factor exceeds `2^(p-1)` (binary32): relative error -/

/-- when `K ≥ 2^(p-1)` the product of a canonical non-negative `r` with `K` is never subnormal:
    the standard model applies, `fl(r·K) = r·K·(1+δ)`, `|δ| ≤ 2^-p` -/
theorem mul_rel_of_big (hf : f.WF) {r : Fl} (hc : Fl.Canonical f r) (hr : r.isFinite = true)
    (mK : Nat) (eK : Int) (hKlo : (2 : Rat) ^ (f.p - 1) ≤ (Fl.fin false mK eK).toRat)
    (hfin : (Fl.mul f r (Fl.fin false mK eK)).isFinite = true) :
    ∃ δ : Rat, (Fl.mul f r (Fl.fin false mK eK)).toRat =
      r.toRat * (Fl.fin false mK eK).toRat * (1 + δ) ∧ |δ| ≤ uro f := by
  have hp := hf.hp
  by_cases h0 : r.toRat = 0
  · refine ⟨0, ?_, by rw [abs_zero]; exact uro_nonneg f⟩
    rw [mul_toRat_zero f hr h0, h0]; ring
  · cases r with
    | nan => simp [Fl.isFinite] at hr
    | inf s => simp [Fl.isFinite] at hr
    | fin s m e =>
      have hm : m ≠ 0 := fun h => h0 ((toRat_fin_eq_zero_iff s m e).mpr h)
      have hemin : f.emin ≤ e := Fl.canonical_emin_le hc
      refine mul_rel f hp s false m mK e eK ?_ hfin
      rw [abs_mul, toRat_fin_sgn s m e, abs_mul, abs_sgn, one_mul,
        abs_of_nonneg (toRat_fin_false_nonneg m e), abs_of_nonneg (toRat_fin_false_nonneg mK eK)]
      have h1 : (2 : Rat) ^ f.emin ≤ (Fl.fin false m e).toRat := by
        rw [toRat_fin, sgn_false, one_mul]
        have hm1 : (1 : Rat) ≤ (m : Rat) := by
          have : 1 ≤ m := Nat.one_le_iff_ne_zero.mpr hm
          exact_mod_cast this
        have h2e : (2 : Rat) ^ f.emin ≤ (2 : Rat) ^ e := zpow_le_zpow_right₀ (by norm_num) hemin
        calc (2 : Rat) ^ f.emin = 1 * (2 : Rat) ^ f.emin := (one_mul _).symm
          _ ≤ (m : Rat) * (2 : Rat) ^ e := mul_le_mul hm1 h2e (two_zpow_pos _).le (by positivity)
      have e1 : (2 : Rat) ^ (f.emin + (f.p : Int) - 1) = (2 : Rat) ^ f.emin * (2 : Rat) ^ (f.p - 1) := by
        have : f.emin + (f.p : Int) - 1 = f.emin + ((f.p - 1 : Nat) : Int) := by omega
        rw [this, zpow_add₀ (by norm_num : (2 : Rat) ≠ 0), zpow_natCast]
      rw [e1]
      exact mul_le_mul h1 hKlo (by positivity) (toRat_fin_false_nonneg m e)

/-- `to_u32` of such a product: `x(1−u) − 1 < nr ≤ x(1+u)` -/
theorem toUInt_mul_rel_bounds (hf : f.WF) {bits : Nat} {r : Fl} (hc : Fl.Canonical f r)
    (hr : r.isFinite = true) (hr0 : 0 ≤ r.toRat) (mK : Nat) (eK : Int)
    (hKlo : (2 : Rat) ^ (f.p - 1) ≤ (Fl.fin false mK eK).toRat) {nr : Nat}
    (h : Fl.toUInt bits (Fl.mul f r (Fl.fin false mK eK)) = some nr) :
    r.toRat * (Fl.fin false mK eK).toRat * (1 - uro f) - 1 < (nr : Rat) ∧
      (nr : Rat) ≤ r.toRat * (Fl.fin false mK eK).toRat * (1 + uro f) := by
  have hyfin := toUInt_some_isFinite h
  have hK0 := toRat_fin_false_nonneg mK eK
  have hx0 : 0 ≤ r.toRat * (Fl.fin false mK eK).toRat := mul_nonneg hr0 hK0
  obtain ⟨δ, hδ, hδu⟩ := mul_rel_of_big hf hc hr mK eK hKlo hyfin
  have hu1 := uro_lt_one f hf.hp
  obtain ⟨hδ1, hδ2⟩ := abs_le.mp hδu
  generalize r.toRat * (Fl.fin false mK eK).toRat = x at *
  generalize Fl.mul f r (Fl.fin false mK eK) = y at *
  have hy0 : 0 ≤ y.toRat := by rw [hδ]; exact mul_nonneg hx0 (by linarith)
  rw [toUInt_of_nonneg bits hyfin hy0] at h
  split at h
  · injection h with h
    have hfy0 : 0 ≤ y.toRat.floor := Rat.le_floor_iff.mpr (by simpa using hy0)
    have hnr : ((nr : Nat) : Rat) = ((y.toRat.floor : Int) : Rat) := by
      rw [← Int.cast_natCast]; congr 1; omega
    obtain ⟨g0, g1⟩ := frac_bounds y.toRat
    have hlo : x * (1 - uro f) ≤ y.toRat := by rw [hδ]; exact mul_le_mul_of_nonneg_left (by linarith) hx0
    have hhi : y.toRat ≤ x * (1 + uro f) := by rw [hδ]; exact mul_le_mul_of_nonneg_left (by linarith) hx0
    rw [hnr]
    constructor <;> linarith
  · exact absurd h (by simp)

/-- **B4 for formats with `K ≥ 2^(p-1)`** (binary32): as `ok_second_base`, with
    `frac(v)·K·(1−u) − 1 < nr ≤ frac(v)·K·(1+u)`, `u = 2^-p` -/
theorem ok_second_base_rel (hf : f.WF) {cn v : Fl} {mK : Nat} {eK : Int}
    (hlt : Fl.lt cn (Fl.one f) = true) (hK : Fl.div f (Fl.one f) cn = Fl.fin false mK eK)
    (hKlo : (2 : Rat) ^ (f.p - 1) ≤ (Fl.fin false mK eK).toRat) (hc : Fl.Canonical f v) {s n : Nat}
    (h : durOfTimeFl f (Fl.one f) (Fl.one f) cn v = .ok s n) :
    v.isFinite = true ∧ 0 ≤ v.toRat ∧ v.toRat < 2 ^ 64 ∧ n < 1000000000 ∧
    ∃ nr : Nat, s * 1000000000 + n = v.toRat.floor.toNat * 1000000000 + nr ∧
      s = v.toRat.floor.toNat + nr / 1000000000 ∧
      (v.toRat - ((v.toRat.floor : Int) : Rat)) * (Fl.fin false mK eK).toRat * (1 - uro f) - 1 < (nr : Rat) ∧
      (nr : Rat) ≤ (v.toRat - ((v.toRat.floor : Int) : Rat)) * (Fl.fin false mK eK).toRat * (1 + uro f) ∧
      Fl.toUInt 32 (Fl.mul f (Fl.fmod f v (Fl.one f)) (Fl.fin false mK eK)) = some nr := by
  rw [durOfTimeFl_second' hf cn v hc hlt, hK] at h
  by_cases hneg : Fl.lt v (Fl.zero f false) = true
  · rw [if_pos hneg] at h; exact absurd h (by simp)
  · rw [if_neg hneg] at h
    obtain ⟨secs, nr, hs, hn, htot, hn9, hcarry, -⟩ := joinParts_ok h
    have vfin := toUInt_some_isFinite hs
    have h0 : 0 ≤ v.toRat := by
      have := (lt_eq_false_toRat vfin (zero_isFinite f false)).mp (by simpa using hneg)
      rwa [toRat_zero] at this
    rw [toUInt_of_nonneg 64 vfin h0] at hs
    obtain ⟨rfin, rval⟩ := fmod_one_nonneg hf hc vfin h0
    obtain ⟨hρ0, -⟩ := frac_bounds v.toRat
    rw [← rval] at hρ0
    have hb := toUInt_mul_rel_bounds hf (Fl.fmod_canonical hf v (Fl.one f) hc) rfin hρ0 mK eK hKlo hn
    rw [rval] at hb
    split at hs
    · next hlt64 =>
      injection hs with hs
      refine ⟨vfin, h0, hlt64, hn9, nr, ?_, ?_, hb.1, hb.2, hn⟩
      · rw [hs]; exact htot
      · rw [hs]; exact hcarry
    · exact absurd hs (by simp)

/-- **totality in the second base, `K ≥ 2^(p-1)`** (binary32) -/
theorem total_second_base_rel (hf : f.WF) (hp64 : f.p ≤ 64) {cn v : Fl} {mK : Nat} {eK : Int}
    (hlt : Fl.lt cn (Fl.one f) = true) (hK : Fl.div f (Fl.one f) cn = Fl.fin false mK eK)
    (hKlo : (2 : Rat) ^ (f.p - 1) ≤ (Fl.fin false mK eK).toRat)
    (hK9 : (Fl.fin false mK eK).toRat ≤ 1000000000)
    (hexp : max (30 - (f.p : Int)) f.emin + 1 ≤ f.emax)
    (hc : Fl.Canonical f v) (hfin : v.isFinite = true) (h0 : 0 ≤ v.toRat) (h64 : v.toRat < 2 ^ 64) :
    ∃ s n : Nat, durOfTimeFl f (Fl.one f) (Fl.one f) cn v = .ok s n := by
  obtain ⟨rfin, hρ0, hρ1, hx0, hxK⟩ := nanos_exact_bounds hf mK eK hc hfin h0
  have hyfin : (Fl.mul f (Fl.fmod f v (Fl.one f)) (Fl.fin false mK eK)).isFinite = true := by
    refine mul_isFinite_of_lt f rfin false mK eK 30 ?_ hexp
    rw [abs_of_nonneg hx0]
    calc _ ≤ (1000000000 : Rat) := le_trans hxK hK9
      _ < (2 : Rat) ^ (30 : Int) := by norm_num
  obtain ⟨δ, hδ, hδu⟩ := mul_rel_of_big hf (Fl.fmod_canonical hf v (Fl.one f) hc) rfin mK eK hKlo hyfin
  have hu1 := uro_lt_one f hf.hp
  obtain ⟨hδ1, hδ2⟩ := abs_le.mp hδu
  have hy0 : 0 ≤ (Fl.mul f (Fl.fmod f v (Fl.one f)) (Fl.fin false mK eK)).toRat := by
    rw [hδ]; exact mul_nonneg hx0 (by linarith)
  have hy32 : (Fl.mul f (Fl.fmod f v (Fl.one f)) (Fl.fin false mK eK)).toRat < 2 ^ 32 := by
    rw [hδ]
    calc _ ≤ (1000000000 : Rat) * 2 :=
          mul_le_mul (le_trans hxK hK9) (by linarith) (by linarith) (by norm_num)
      _ < 2 ^ 32 := by norm_num
  exact total_of_nanos hf hp64 hlt hK hc hfin h0 h64 hyfin hy0 hy32

/-! ### binary32 -/

/-- the binary32 coefficient of `nanosecond`: the float nearest `1e-9` -/
def cn32 : Fl := Fl.ofBits b32 0x3089705f

theorem cn32_literal : Fl.ofDecimal b32 1 (-9) = cn32 := by decide +kernel

theorem cn32_lt_one : Fl.lt cn32 (Fl.one b32) = true := by decide +kernel

/-- in binary32 `1.0 / 1e-9` *is* `1e9` -/
theorem K32_eq : Fl.div b32 (Fl.one b32) cn32 = Fl.fin false 15625000 6 := by decide +kernel

theorem K32_toRat : (Fl.fin false 15625000 6).toRat = 1000000000 := by
  rw [toRat_fin, sgn_false]; norm_num

/-- **B4, binary32, in nanoseconds**: the product `frac(v)·1e9` is rounded to 24 bits before the
    truncation, so the error is up to `1 + 10^9·2^-24 ≈ 60.6` ns -/
theorem accuracy_second_base_b32_ns {v : Fl} (hc : Fl.Canonical b32 v) {s n : Nat}
    (h : durOfTimeFl b32 (Fl.one b32) (Fl.one b32) cn32 v = .ok s n) :
    n < 1000000000 ∧
    -(1 + 1000000000 / 2 ^ 24) < ((s : Rat) * 1000000000 + (n : Rat)) - v.toRat * 1000000000 ∧
    ((s : Rat) * 1000000000 + (n : Rat)) - v.toRat * 1000000000 ≤ 1000000000 / 2 ^ 24 := by
  have hKlo : (2 : Rat) ^ (b32.p - 1) ≤ (Fl.fin false 15625000 6).toRat := by
    rw [K32_toRat]; norm_num [b32]
  obtain ⟨vfin, h0, -, hn9, nr, htot, -, hlo, hhi, -⟩ :=
    ok_second_base_rel b32_wf cn32_lt_one K32_eq hKlo hc h
  rw [K32_toRat] at hlo hhi
  have hu : uro b32 = 1 / 2 ^ 24 := by unfold uro; norm_num [b32]
  rw [hu] at hlo hhi
  obtain ⟨hρ0, hρ1⟩ := frac_bounds v.toRat
  have hF0 : 0 ≤ v.toRat.floor := Rat.le_floor_iff.mpr (by simpa using h0)
  have hF : ((v.toRat.floor.toNat : Nat) : Rat) = ((v.toRat.floor : Int) : Rat) := by
    rw [← Int.cast_natCast, Int.toNat_of_nonneg hF0]
  have htotQ : (s : Rat) * 1000000000 + (n : Rat) =
      ((v.toRat.floor : Int) : Rat) * 1000000000 + (nr : Rat) := by
    rw [← hF]; exact_mod_cast htot
  set ρ := v.toRat - ((v.toRat.floor : Int) : Rat) with hρ
  have hv : v.toRat = ((v.toRat.floor : Int) : Rat) + ρ := by rw [hρ]; ring
  refine ⟨hn9, ?_, ?_⟩
  · rw [htotQ]; nlinarith
  · rw [htotQ]; nlinarith

/-- **B4, binary32, in seconds**: `|s + n/10^9 − v| < (1 + 10^9·2^-24)·10^-9 ≈ 6.06·10^-8 s` -/
theorem accuracy_second_base_b32 {v : Fl} (hc : Fl.Canonical b32 v) {s n : Nat}
    (h : durOfTimeFl b32 (Fl.one b32) (Fl.one b32) cn32 v = .ok s n) :
    |(s : Rat) + (n : Rat) / 1000000000 - v.toRat| < (1 + 1000000000 / 2 ^ 24) / 1000000000 := by
  obtain ⟨-, h1, h2⟩ := accuracy_second_base_b32_ns hc h
  have e : (s : Rat) + (n : Rat) / 1000000000 - v.toRat =
      (((s : Rat) * 1000000000 + (n : Rat)) - v.toRat * 1000000000) / 1000000000 := by
    field_simp
  rw [e, abs_div, abs_of_pos (by norm_num : (0 : Rat) < 1000000000),
    div_lt_div_iff_of_pos_right (by norm_num)]
  rw [abs_lt]
  constructor <;> linarith

/-- **totality, binary32** -/
theorem total_second_base_b32 {v : Fl} (hc : Fl.Canonical b32 v) (hfin : v.isFinite = true)
    (h0 : 0 ≤ v.toRat) (h64 : v.toRat < 2 ^ 64) :
    ∃ s n : Nat, durOfTimeFl b32 (Fl.one b32) (Fl.one b32) cn32 v = .ok s n ∧ n < 1000000000 ∧
      |(s : Rat) + (n : Rat) / 1000000000 - v.toRat| < (1 + 1000000000 / 2 ^ 24) / 1000000000 := by
  have hKlo : (2 : Rat) ^ (b32.p - 1) ≤ (Fl.fin false 15625000 6).toRat := by
    rw [K32_toRat]; norm_num [b32]
  have hK9 : (Fl.fin false 15625000 6).toRat ≤ 1000000000 := by rw [K32_toRat]
  obtain ⟨s, n, h⟩ := total_second_base_rel b32_wf (by decide) cn32_lt_one K32_eq hKlo hK9 (by decide)
    hc hfin h0 h64
  exact ⟨s, n, h, (accuracy_second_base_b32_ns hc h).1, accuracy_second_base_b32 hc h⟩

/-- the binary32 error really is tens of nanoseconds: `0x3f700000 = 0.9375 s ↦ 0.937500032 s`,
    exactly 32 ns too long (half an ulp of `9.375·10^8` in binary32) -/
theorem b32_example :
    durOfTimeFl b32 (Fl.one b32) (Fl.one b32) cn32 (Fl.ofBits b32 0x3f700000) = .ok 0 937500032 := by
  decide +kernel

end Uom.DurationAcc

