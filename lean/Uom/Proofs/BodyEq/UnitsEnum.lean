import Uom.Gen.RxBodies
/-!
# `gen_eq_hand` (UnitsEnum): `Units::abbreviation / singular / plural` (src/quantity.rs)

    pub enum Units { $( $unit($unit), )+ }
    impl Units {
        pub fn abbreviation(&self) -> &'static str { match self { $(Units::$unit(_) => <$unit as Unit>::abbreviation(),)+ } }
        …singular, plural likewise }

The run-time registry (`units()`, C05: "lists exactly the declared units with the same labels") answers through
these three `match`es.  The arm repetition has one arm per declared unit and the constructor of each arm is the
metavariable `$unit` itself; the translator encodes the value `Units::u(..)` as the constructor family `Units::$`
applied to the *name* `u`, and the arm's pattern as "the name of this instance".  Theorem: for **every** list of
declared units with pairwise distinct names (Rust rejects an enum with two variants of one name) and every position
`i`, the method applied to the `i`-th variant returns what the `i`-th unit's own `Unit::abbreviation()` /
`singular()` / `plural()` returns — never a neighbour's label, never another flavour.
-/
namespace Uom.BodyEq.UnitsEnum
open Uom Uom.Rx
open Uom.Gen.RxBody

attribute [local simp] run eval nativeMeth lookup ofRV itersGet tryOp matchPat mSplitn mNext mUnwrap mOkOr mMapErr
  mAndThen mTrim mFmt mCmp cSome cNone cOk cErr cLess cEqual cGreater vScrut vRep
@[local simp] theorem range1 : List.range 1 = [0] := rfl

/-- `findRep` returns the first matching instance: if instance `i` matches and none before it does -/
theorem findRep_first {H : Type} (mv : Nat → Nat → Bytes) (p : Pat) (v : RV H) (fuel i0 i : Nat)
    (hi : i0 ≤ i) (hlt : i < i0 + fuel)
    (hm : (matchPat (fun k => mv k i) p v).isSome = true)
    (hn : ∀ j, i0 ≤ j → j < i → matchPat (fun k => mv k j) p v = none) :
    findRep mv p v fuel i0 = some i := by
  induction fuel generalizing i0 with
  | zero => omega
  | succ f ih =>
    unfold findRep
    by_cases h : i0 = i
    · subst h
      cases hmp : matchPat (fun k => mv k i0) p v with
      | none => simp [hmp] at hm
      | some _ => rfl
    · have hlt' : i0 < i := by omega
      rw [hn i0 (Nat.le_refl _) hlt']
      exact ih (i0 + 1) (by omega) (by omega) (fun j h1 h2 => hn j (by omega) h2)

/-- the names of the declared units, as the `$unit` metavariable of the repetition -/
def unitMeta (names : List Bytes) (k i : Nat) : Bytes :=
  if k = meta_unit then names[i]?.getD [] else []

/-- the value `Units::<names[i]>(..)` -/
def variant {H : Type} (names : List Bytes) (i : Nat) : RV H := .ctor1 c_Units (.str (names[i]?.getD []))

/-- the environment: `<$unit as Unit>::abbreviation()` … of instance `j` are the `j`-th unit's labels -/
def envUnits (names : List Bytes) (abbr sing plur : Nat → Bytes) : Env Unit where
  ext := fun c args =>
    match args with
    | [.nat j] =>
      if c = c_unit_as_system_Unit_abbreviation then .str (abbr j)
      else if c = c_unit_as_system_Unit_singular then .str (sing j)
      else if c = c_unit_as_system_Unit_plural then .str (plur j)
      else .bad
    | _ => .bad
  meth := fun _ _ => .bad
  binop := fun _ _ _ => .bad
  field := fun _ _ => .bad
  cast := fun _ _ => .bad
  fmtHost := fun _ => none
  display := fun _ => []
  nUnits := names.length
  metaVar := unitMeta names
  nBase := 0

theorem three_methods_distinct :
    c_unit_as_system_Unit_abbreviation ≠ c_unit_as_system_Unit_singular ∧
    c_unit_as_system_Unit_abbreviation ≠ c_unit_as_system_Unit_plural ∧
    c_unit_as_system_Unit_singular ≠ c_unit_as_system_Unit_plural := by decide

theorem find_variant (names : List Bytes) (hnd : names.Nodup) (i : Nat) (hi : i < names.length) :
    findRep (H := Unit) (unitMeta names) (.ctor1 c_Units (.metaVar meta_unit)) (variant names i) names.length 0 =
      some i := by
  apply findRep_first _ _ _ _ _ _ (Nat.zero_le _) (by omega)
  · simp [variant, unitMeta]
  · intro j _ hj
    have hj' : j < names.length := by omega
    have hne : ¬ names[j]?.getD [] = names[i]?.getD [] := by
      intro h
      have := (List.getD_inj (fallback := []) hj' hi hnd).mp (by simpa only [List.getD_eq_getElem?_getD] using h)
      omega
    simp [variant, unitMeta, hne]

variable (names : List Bytes) (abbr sing plur : Nat → Bytes)

/-- **`Units::abbreviation()` of the `i`-th variant is the `i`-th unit's abbreviation** -/
theorem units_abbreviation_eq (hnd : names.Nodup) (i : Nat) (hi : i < names.length) :
    run (envUnits names abbr sing plur) quantity_inherent_Units_abbreviation [variant names i] =
      (.val (.str (abbr i)), []) := by
  have hf := find_variant names hnd i hi
  simp only [variant, c_Units, meta_unit] at hf
  simp [quantity_inherent_Units_abbreviation, envUnits, variant, c_Units, hf, c_unit_as_system_Unit_abbreviation,
    c_unit_as_system_Unit_singular, c_unit_as_system_Unit_plural]

theorem units_singular_eq (hnd : names.Nodup) (i : Nat) (hi : i < names.length) :
    run (envUnits names abbr sing plur) quantity_inherent_Units_singular [variant names i] =
      (.val (.str (sing i)), []) := by
  have hf := find_variant names hnd i hi
  simp only [variant, c_Units, meta_unit] at hf
  simp [quantity_inherent_Units_singular, envUnits, variant, c_Units, hf, c_unit_as_system_Unit_abbreviation,
    c_unit_as_system_Unit_singular, c_unit_as_system_Unit_plural]

theorem units_plural_eq (hnd : names.Nodup) (i : Nat) (hi : i < names.length) :
    run (envUnits names abbr sing plur) quantity_inherent_Units_plural [variant names i] =
      (.val (.str (plur i)), []) := by
  have hf := find_variant names hnd i hi
  simp only [variant, c_Units, meta_unit] at hf
  simp [quantity_inherent_Units_plural, envUnits, variant, c_Units, hf, c_unit_as_system_Unit_abbreviation,
    c_unit_as_system_Unit_singular, c_unit_as_system_Unit_plural]

/-- non-vacuity: a three-unit quantity -/
example : run (envUnits [[0x6d], [0x6b, 0x6d], [0x66, 0x74]] (fun j => [0x61, j]) (fun j => [0x73, j]) (fun j => [0x70, j]))
    quantity_inherent_Units_singular [variant [[0x6d], [0x6b, 0x6d], [0x66, 0x74]] 2] = (.val (.str [0x73, 2]), []) :=
  units_singular_eq _ _ _ _ (by decide) 2 (by decide)

/-! ## `units()`: the registry is the constant `ALL_UNITS`, every element, in order

    pub fn units() -> impl Iterator<Item = Units> { ALL_UNITS.iter().copied() }

`iter` and `copied` are the slice / iterator adaptors of the core library: the sequence of elements, unchanged
(trusted reading).  The theorem says that nothing is filtered, mapped or reordered between the constant and what the
caller iterates over; the constant itself (`[$(Units::$unit($unit),)+]`, one element per declared unit) is compared
with the table exhaustively by the registry diff of C05. -/

/-- host value: the list of variants, by position -/
def envRegistry (all : List Nat) : Env (List Nat) where
  ext := fun c args => if c = c_ALL_UNITS then (match args with | [] => .host all | _ => .bad) else .bad
  meth := fun m args =>
    if m = m_iter ∨ m = m_copied then (match args with | [.host l] => .host l | _ => .bad) else .bad
  binop := fun _ _ _ => .bad
  field := fun _ _ => .bad
  cast := fun _ _ => .bad
  fmtHost := fun _ => none
  display := fun _ => []
  nUnits := 0
  metaVar := fun _ _ => []
  nBase := 0

theorem all_units_not_native :
    c_ALL_UNITS ≠ cNone ∧ c_ALL_UNITS ≠ cLess ∧ c_ALL_UNITS ≠ cEqual ∧ c_ALL_UNITS ≠ cGreater ∧
    m_iter ≠ mNext ∧ m_copied ≠ mNext ∧ m_iter ≠ mUnwrap ∧ m_copied ≠ mUnwrap ∧ m_iter ≠ mTrim ∧ m_copied ≠ mTrim := by
  decide

/-- **`units()` yields exactly `ALL_UNITS`** -/
theorem units_eq (all : List Nat) :
    run (envRegistry all) quantity_free_units [] = (.val (.host all), []) := by
  have h := all_units_not_native
  simp [quantity_free_units, envRegistry, c_ALL_UNITS, m_iter, m_copied]

end Uom.BodyEq.UnitsEnum
