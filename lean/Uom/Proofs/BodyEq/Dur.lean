import Uom.Gen.RxBodies
import Uom.Model.Duration
/-!
# `gen_eq_hand` (Dur): `TryFrom<Time> for Duration` and `TryFrom<Duration> for Time` (src/si/time.rs)
regenerated from the source compute the hand-written model (`durOfTimeFl`, `timeOfDurFl`)

The environment names the operations the body calls — `time < Time::zero()`, `get::<second>()`,
`to_u64()`, `time % Time::new::<second>(V::one())`, `get::<nanosecond>()`, `to_u32()`,
`Duration::new` (which may panic) — as parameters; `try_from_time_eq` holds for every choice of them
and every input, and the float corollary instantiates them with the soft-float model.
-/
namespace Uom.BodyEq.Dur
open Uom Uom.Rx
open Uom.Gen.RxBody

attribute [local simp] run eval nativeMeth lookup ofRV itersGet tryOp matchPat mSplitn mNext mUnwrap mOkOr mMapErr
  mAndThen mTrim mFmt mCmp cSome cNone cOk cErr cLess cEqual cGreater vScrut vRep

variable {V : Type}

/-- host values: a stored number, a `Time` quantity (its stored value), a `Duration`, a `u64`/`u32` -/
inductive DH (V : Type) where
  | v (x : V)
  | q (x : V)
  | dur (secs nanos : Nat)

/-- operations of the storage type and of `Time<U, V>` the two bodies use -/
structure DurOps (V : Type) where
  zeroQ : V
  oneV : V
  ltQ : V → V → Bool
  remQ : V → V → V
  addQ : V → V → V
  getSec : V → V
  getNano : V → V
  newSec : V → V
  newNano : V → V
  toU64 : V → Option Nat
  toU32 : V → Option Nat
  fromU64 : Nat → Option V
  fromU32 : Nat → Option V

def optNat : Option Nat → RV (DH V)
  | some n => .ctor1 cSome (.nat n)
  | none => .ctor0 cNone

def optV : Option V → RV (DH V)
  | some x => .ctor1 cSome (.host (.v x))
  | none => .ctor0 cNone

def envDur (o : DurOps V) : Env (DH V) where
  ext := fun c args =>
    if c = c_Time_zero_U_V then .host (.q o.zeroQ)
    else if c = c_V_one then .host (.v o.oneV)
    else if c = c_Time_new_second then
      match args with
      | [.host (.v x)] => .host (.q (o.newSec x))
      | _ => .bad
    else if c = c_Time_new_nanosecond then
      match args with
      | [.host (.v x)] => .host (.q (o.newNano x))
      | _ => .bad
    else if c = c_Self_new then
      match args with
      | [.nat s, .nat n] => (match durationNew s n with
        | .ok s n => .host (.dur s n)
        | _ => .panicked)
      | _ => .bad
    else if c = c_V_from_u64 then
      match args with
      | [.nat n] => optV (o.fromU64 n)
      | _ => .bad
    else if c = c_V_from_u32 then
      match args with
      | [.nat n] => optV (o.fromU32 n)
      | _ => .bad
    else if c = c_TryFromError_NegativeDuration ∨ c = c_TryFromError_Overflow then .ctor0 c
    else .bad
  meth := fun m args =>
    match args with
    | [.host (.q x)] =>
      if m = m_get_second then .host (.v (o.getSec x))
      else if m = m_get_nanosecond then .host (.v (o.getNano x)) else .bad
    | [.host (.v x)] =>
      if m = m_to_u64 then optNat (o.toU64 x) else if m = m_to_u32 then optNat (o.toU32 x) else .bad
    | [.host (.dur s n)] =>
      if m = m_as_secs then .nat s else if m = m_subsec_nanos then .nat n else .bad
    | _ => .bad
  binop := fun op a b =>
    match a, b with
    | .host (.q x), .host (.q y) =>
      if op = op_lt then .bool (o.ltQ x y) else if op = op_rem then .host (.q (o.remQ x y))
      else if op = op_add then .host (.q (o.addQ x y)) else .bad
    | _, _ => .bad
  field := fun _ _ => .bad
  cast := fun _ _ => .bad
  fmtHost := fun _ => none
  display := fun _ => []
  nUnits := 0
  metaVar := fun _ _ => []
  nBase := 0

/-- `Duration::try_from(time)` over abstract operations -/
def durSpec (o : DurOps V) (v : V) : DurResult :=
  if o.ltQ v o.zeroQ then .negative
  else
    match o.toU64 (o.getSec v), o.toU32 (o.getNano (o.remQ v (o.newSec o.oneV))) with
    | some s, some n => durationNew s n
    | _, _ => .overflow

def embedDur : DurResult → Ctl (DH V)
  | .ok s n => .val (.ctor1 cOk (.host (.dur s n)))
  | .negative => .val (.ctor1 cErr (.ctor0 c_TryFromError_NegativeDuration))
  | .overflow => .val (.ctor1 cErr (.ctor0 c_TryFromError_Overflow))
  | .panic => .panic

theorem durationNew_cases (s n : Nat) :
    (∃ a b, durationNew s n = .ok a b) ∨ durationNew s n = .panic := by
  unfold durationNew
  by_cases h : s + n / 1000000000 < 2 ^ 64
  · left; exact ⟨s + n / 1000000000, n % 1000000000, by simp [h]⟩
  · right; simp [h]

/-- **`TryFrom<Time> for Duration` regenerated from src/si/time.rs is `durSpec`**: negative check first
    (early `return`), then seconds and sub-second part, `Overflow` unless both conversions succeed. -/
theorem try_from_time_eq (o : DurOps V) (v : V) :
    run (envDur o) si_time_TryFrom_Time_for_Duration_try_from [.host (.q v)] = (embedDur (durSpec o v), []) := by
  unfold durSpec
  cases hlt : o.ltQ v o.zeroQ
  · cases h1 : o.toU64 (o.getSec v) <;> cases h2 : o.toU32 (o.getNano (o.remQ v (o.newSec o.oneV)))
    · simp [si_time_TryFrom_Time_for_Duration_try_from, envDur, hlt, h1, h2, optNat, embedDur, c_Time_zero_U_V,
        c_V_one, c_Time_new_second, c_Time_new_nanosecond, c_Self_new, c_V_from_u64, c_V_from_u32,
        c_TryFromError_NegativeDuration, c_TryFromError_Overflow, m_get_second, m_get_nanosecond, m_to_u64, m_to_u32,
        op_lt, op_rem, op_add]
    · simp [si_time_TryFrom_Time_for_Duration_try_from, envDur, hlt, h1, h2, optNat, embedDur, c_Time_zero_U_V,
        c_V_one, c_Time_new_second, c_Time_new_nanosecond, c_Self_new, c_V_from_u64, c_V_from_u32,
        c_TryFromError_NegativeDuration, c_TryFromError_Overflow, m_get_second, m_get_nanosecond, m_to_u64, m_to_u32,
        op_lt, op_rem, op_add]
    · simp [si_time_TryFrom_Time_for_Duration_try_from, envDur, hlt, h1, h2, optNat, embedDur, c_Time_zero_U_V,
        c_V_one, c_Time_new_second, c_Time_new_nanosecond, c_Self_new, c_V_from_u64, c_V_from_u32,
        c_TryFromError_NegativeDuration, c_TryFromError_Overflow, m_get_second, m_get_nanosecond, m_to_u64, m_to_u32,
        op_lt, op_rem, op_add]
    · rename_i s n
      rcases durationNew_cases s n with ⟨a, b, hd⟩ | hd <;>
      simp [si_time_TryFrom_Time_for_Duration_try_from, envDur, hlt, h1, h2, optNat, embedDur, c_Time_zero_U_V,
        c_V_one, c_Time_new_second, c_Time_new_nanosecond, c_Self_new, c_V_from_u64, c_V_from_u32,
        c_TryFromError_NegativeDuration, c_TryFromError_Overflow, m_get_second, m_get_nanosecond, m_to_u64, m_to_u32,
        op_lt, op_rem, op_add, hd]
  · simp [si_time_TryFrom_Time_for_Duration_try_from, envDur, hlt, embedDur, c_Time_zero_U_V,
      c_V_one, c_Time_new_second, c_Time_new_nanosecond, c_Self_new, c_V_from_u64, c_V_from_u32,
      c_TryFromError_NegativeDuration, c_TryFromError_Overflow, op_lt, op_rem, op_add]

/-! ## operations that may panic (integer storage: conversion through `Ratio<V>` divides) -/

/-- like `DurOps`, but every operation that performs arithmetic may panic (`none`) -/
structure DurOpsP (V : Type) where
  zeroQ : V
  oneV : V
  ltQ : V → V → Bool
  remQ : V → V → Option V
  getSec : V → Option V
  getNano : V → Option V
  newSec : V → Option V
  toU64 : V → Option Nat
  toU32 : V → Option Nat

def optQ : Option V → RV (DH V)
  | some x => .host (.q x)
  | none => .panicked
def optVv : Option V → RV (DH V)
  | some x => .host (.v x)
  | none => .panicked

def envDurP (o : DurOpsP V) : Env (DH V) where
  ext := fun c args =>
    if c = c_Time_zero_U_V then .host (.q o.zeroQ)
    else if c = c_V_one then .host (.v o.oneV)
    else if c = c_Time_new_second then
      match args with
      | [.host (.v x)] => optQ (o.newSec x)
      | _ => .bad
    else if c = c_Self_new then
      match args with
      | [.nat s, .nat n] => (match durationNew s n with
        | .ok s n => .host (.dur s n)
        | _ => .panicked)
      | _ => .bad
    else if c = c_TryFromError_NegativeDuration ∨ c = c_TryFromError_Overflow then .ctor0 c
    else .bad
  meth := fun m args =>
    match args with
    | [.host (.q x)] =>
      if m = m_get_second then optVv (o.getSec x)
      else if m = m_get_nanosecond then optVv (o.getNano x) else .bad
    | [.host (.v x)] =>
      if m = m_to_u64 then optNat (o.toU64 x) else if m = m_to_u32 then optNat (o.toU32 x) else .bad
    | _ => .bad
  binop := fun op a b =>
    match a, b with
    | .host (.q x), .host (.q y) =>
      if op = op_lt then .bool (o.ltQ x y) else if op = op_rem then optQ (o.remQ x y) else .bad
    | _, _ => .bad
  field := fun _ _ => .bad
  cast := fun _ _ => .bad
  fmtHost := fun _ => none
  display := fun _ => []
  nUnits := 0
  metaVar := fun _ _ => []
  nBase := 0

/-- `Duration::try_from(time)` over operations that may panic, in source order: negative check, seconds,
    `new::<second>(one)`, remainder, nanoseconds, then the tuple `match` -/
def durSpecP (o : DurOpsP V) (v : V) : DurResult :=
  if o.ltQ v o.zeroQ then .negative
  else
    match o.getSec v with
    | none => .panic
    | some sv =>
      match o.newSec o.oneV with
      | none => .panic
      | some one =>
        match o.remQ v one with
        | none => .panic
        | some r =>
          match o.getNano r with
          | none => .panic
          | some nv =>
            match o.toU64 sv, o.toU32 nv with
            | some s, some n => durationNew s n
            | _, _ => .overflow

theorem try_from_time_eqP (o : DurOpsP V) (v : V) :
    run (envDurP o) si_time_TryFrom_Time_for_Duration_try_from [.host (.q v)] = (embedDur (durSpecP o v), []) := by
  unfold durSpecP
  cases hlt : o.ltQ v o.zeroQ
  · cases hg : o.getSec v with
    | none =>
      simp [si_time_TryFrom_Time_for_Duration_try_from, envDurP, hlt, hg, optVv, embedDur, c_Time_zero_U_V,
        c_V_one, c_Time_new_second, c_Self_new, c_TryFromError_NegativeDuration, c_TryFromError_Overflow,
        m_get_second, m_get_nanosecond, m_to_u64, m_to_u32, op_lt, op_rem]
    | some sv =>
      cases hn : o.newSec o.oneV with
      | none =>
        cases h1 : o.toU64 sv <;>
        simp [si_time_TryFrom_Time_for_Duration_try_from, envDurP, hlt, hg, hn, h1, optVv, optQ, optNat, embedDur,
          c_Time_zero_U_V, c_V_one, c_Time_new_second, c_Self_new, c_TryFromError_NegativeDuration,
          c_TryFromError_Overflow, m_get_second, m_get_nanosecond, m_to_u64, m_to_u32, op_lt, op_rem]
      | some one =>
        cases hr : o.remQ v one with
        | none =>
          cases h1 : o.toU64 sv <;>
          simp [si_time_TryFrom_Time_for_Duration_try_from, envDurP, hlt, hg, hn, hr, h1, optVv, optQ, optNat,
            embedDur, c_Time_zero_U_V, c_V_one, c_Time_new_second, c_Self_new, c_TryFromError_NegativeDuration,
            c_TryFromError_Overflow, m_get_second, m_get_nanosecond, m_to_u64, m_to_u32, op_lt, op_rem]
        | some r =>
          cases hgn : o.getNano r with
          | none =>
            cases h1 : o.toU64 sv <;>
            simp [si_time_TryFrom_Time_for_Duration_try_from, envDurP, hlt, hg, hn, hr, hgn, h1, optVv, optQ, optNat,
              embedDur, c_Time_zero_U_V, c_V_one, c_Time_new_second, c_Self_new, c_TryFromError_NegativeDuration,
              c_TryFromError_Overflow, m_get_second, m_get_nanosecond, m_to_u64, m_to_u32, op_lt, op_rem]
          | some nv =>
            cases h1 : o.toU64 sv <;> cases h2 : o.toU32 nv
            · simp [si_time_TryFrom_Time_for_Duration_try_from, envDurP, hlt, hg, hn, hr, hgn, h1, h2, optVv, optQ,
                optNat, embedDur, c_Time_zero_U_V, c_V_one, c_Time_new_second, c_Self_new,
                c_TryFromError_NegativeDuration, c_TryFromError_Overflow, m_get_second, m_get_nanosecond, m_to_u64,
                m_to_u32, op_lt, op_rem]
            · simp [si_time_TryFrom_Time_for_Duration_try_from, envDurP, hlt, hg, hn, hr, hgn, h1, h2, optVv, optQ,
                optNat, embedDur, c_Time_zero_U_V, c_V_one, c_Time_new_second, c_Self_new,
                c_TryFromError_NegativeDuration, c_TryFromError_Overflow, m_get_second, m_get_nanosecond, m_to_u64,
                m_to_u32, op_lt, op_rem]
            · simp [si_time_TryFrom_Time_for_Duration_try_from, envDurP, hlt, hg, hn, hr, hgn, h1, h2, optVv, optQ,
                optNat, embedDur, c_Time_zero_U_V, c_V_one, c_Time_new_second, c_Self_new,
                c_TryFromError_NegativeDuration, c_TryFromError_Overflow, m_get_second, m_get_nanosecond, m_to_u64,
                m_to_u32, op_lt, op_rem]
            · rename_i s n
              rcases durationNew_cases s n with ⟨a, b, hd⟩ | hd <;>
              simp [si_time_TryFrom_Time_for_Duration_try_from, envDurP, hlt, hg, hn, hr, hgn, h1, h2, optVv, optQ,
                optNat, embedDur, c_Time_zero_U_V, c_V_one, c_Time_new_second, c_Self_new,
                c_TryFromError_NegativeDuration, c_TryFromError_Overflow, m_get_second, m_get_nanosecond, m_to_u64,
                m_to_u32, op_lt, op_rem, hd]
  · simp [si_time_TryFrom_Time_for_Duration_try_from, envDurP, hlt, embedDur, c_Time_zero_U_V,
      c_V_one, c_Time_new_second, c_Self_new, c_TryFromError_NegativeDuration, c_TryFromError_Overflow, op_lt, op_rem]

/-! ## integer instance: the hand-written exact model `durOfTimeInt` -/

def natInRange (bits : Nat) (x : Int) : Option Nat := if 0 ≤ x ∧ x < 2 ^ bits then some x.toNat else none

/-- the operations of `Time<U, iN|BigInt>` in the exact model (conversion factors are rationals; a division by a
    zero factor or a remainder by a zero quantity panics) -/
def intOps (fac cs cn : Rat) : DurOpsP Int where
  zeroQ := 0
  oneV := 1
  ltQ := fun a b => decide (a < b)
  remQ := fun a b => if b = 0 then none else some (Int.tmod a b)
  getSec := fun v => if cs = 0 ∨ fac = 0 then none else some (ratTrunc ((v : Rat) * fac / cs))
  getNano := fun v => if cn = 0 then none else some (ratTrunc ((v : Rat) * fac / cn))
  newSec := fun x => if fac = 0 then none else some (ratTrunc ((x : Rat) * cs / fac))
  toU64 := natInRange 64
  toU32 := natInRange 32

theorem durOfTimeInt_eq_spec (fac cs cn : Rat) (v : Int) :
    durOfTimeInt fac cs cn v = durSpecP (intOps fac cs cn) v := by
  unfold durOfTimeInt durSpecP intOps natInRange
  simp only []
  by_cases hv : v < 0
  · simp [hv]
  · by_cases hz : cs = 0 ∨ fac = 0
    · simp [hv, hz]
    · have hfac : fac ≠ 0 := fun h => hz (Or.inr h)
      have hcs : cs ≠ 0 := fun h => hz (Or.inl h)
      by_cases h1 : ratTrunc (cs / fac) = 0
      · simp [hv, hcs, hfac, h1]
      · by_cases hcn : cn = 0
        · simp [hv, hcs, hfac, h1, hcn]
        · by_cases a1 : 0 ≤ ratTrunc ((v : Rat) * fac / cs) <;>
          by_cases a2 : ratTrunc ((v : Rat) * fac / cs) < 18446744073709551616 <;>
          by_cases b1 : 0 ≤ ratTrunc (((Int.tmod v (ratTrunc (cs / fac)) : Int) : Rat) * fac / cn) <;>
          by_cases b2 : ratTrunc (((Int.tmod v (ratTrunc (cs / fac)) : Int) : Rat) * fac / cn) < 4294967296 <;>
          simp [hv, hcs, hfac, h1, hcn, a1, a2, b1, b2]

/-- **integer storage: the regenerated body is the exact model `durOfTimeInt`**, panics included -/
theorem try_from_time_int (fac cs cn : Rat) (v : Int) :
    run (envDurP (intOps fac cs cn)) si_time_TryFrom_Time_for_Duration_try_from [.host (.q v)] =
      (embedDur (durOfTimeInt fac cs cn v), []) := by
  rw [try_from_time_eqP, durOfTimeInt_eq_spec]

/-- `Time::try_from(duration)` over abstract operations -/
def timeSpec (o : DurOps V) (secs nanos : Nat) : Option V :=
  match o.fromU64 secs, o.fromU32 nanos with
  | some a, some b => some (o.addQ (o.newSec a) (o.newNano b))
  | _, _ => none

def embedTime : Option V → Ctl (DH V)
  | some x => .val (.ctor1 cOk (.host (.q x)))
  | none => .val (.ctor1 cErr (.ctor0 c_TryFromError_Overflow))

/-- **`TryFrom<Duration> for Time` regenerated from src/si/time.rs is `timeSpec`** -/
theorem try_from_duration_eq (o : DurOps V) (secs nanos : Nat) :
    run (envDur o) si_time_TryFrom_Duration_for_Time_try_from [.host (.dur secs nanos)] =
      (embedTime (timeSpec o secs nanos), []) := by
  unfold timeSpec
  cases h1 : o.fromU64 secs <;> cases h2 : o.fromU32 nanos <;>
    simp [si_time_TryFrom_Duration_for_Time_try_from, envDur, h1, h2, optV, embedTime, c_Time_zero_U_V,
      c_V_one, c_Time_new_second, c_Time_new_nanosecond, c_Self_new, c_V_from_u64, c_V_from_u32,
      c_TryFromError_NegativeDuration, c_TryFromError_Overflow, m_as_secs, m_subsec_nanos, op_lt, op_rem, op_add]

/-! ## float instance: the hand-written model -/

/-- the operations of `Time<U, f32|f64>` in the soft-float model: base factor `fac` of the time
    dimension, coefficients `cs`, `cn` of `second`, `nanosecond`; `%` and `+` convert their right operand
    with `change_base` between identical base units -/
def flOps (f : Fmt) (fac cs cn : Fl) : DurOps Fl :=
  let S := flS f
  { zeroQ := Fl.zero f false
    oneV := Fl.one f
    ltQ := Fl.lt
    remQ := fun a b => Fl.fmod f a (changeBase S fac fac b)
    addQ := fun a b => Fl.add f a (changeBase S fac fac b)
    getSec := fun v => fromBase S cs S.constSub fac v
    getNano := fun v => fromBase S cn S.constSub fac v
    newSec := fun x => toBase S cs S.constAdd fac x
    newNano := fun x => toBase S cn S.constAdd fac x
    toU64 := Fl.toUInt 64
    toU32 := Fl.toUInt 32
    fromU64 := fun n => some (Fl.ofNat f n)
    fromU32 := fun n => some (Fl.ofNat f n) }

theorem durOfTimeFl_eq_spec (f : Fmt) (fac cs cn v : Fl) :
    durOfTimeFl f fac cs cn v = durSpec (flOps f fac cs cn) v := by
  unfold durOfTimeFl durSpec flOps
  simp only []
  split <;> rfl

theorem try_from_time_fl (f : Fmt) (fac cs cn v : Fl) :
    run (envDur (flOps f fac cs cn)) si_time_TryFrom_Time_for_Duration_try_from [.host (.q v)] =
      (embedDur (durOfTimeFl f fac cs cn v), []) := by
  rw [try_from_time_eq, durOfTimeFl_eq_spec]

theorem try_from_duration_fl (f : Fmt) (fac cs cn : Fl) (secs nanos : Nat) :
    run (envDur (flOps f fac cs cn)) si_time_TryFrom_Duration_for_Time_try_from [.host (.dur secs nanos)] =
      (.val (.ctor1 cOk (.host (.q (timeOfDurFl f fac cs cn secs nanos)))), []) := by
  rw [try_from_duration_eq]; rfl

end Uom.BodyEq.Dur
