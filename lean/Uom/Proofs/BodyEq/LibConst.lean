import Uom.Gen.RxBodies
import Uom.Model.Storage
/-!
# `gen_eq_hand` (LibConst): the defaults of `trait Conversion` and the float / complex `constant` override
(src/lib.rs) regenerated from the source

    fn coefficient() -> Self::T { <Self::T as One>::one() }              // default
    fn constant(op) -> Self::T  { <Self::T as Zero>::zero() }            // default
    fn constant(op) -> Self::T  { match op { Add => -zero(), Sub => zero() } }   // f32 / f64 / complex

The storage type's own `Conversion<V>` impl is what starts every base-factor product (`V::coefficient()`)
and what a unit without a constant falls back to.  For floats the override is the signed-zero pair
`flS.constAdd = −0.0`, `flS.constSub = +0.0` of the storage algebra the conversion theorems are stated over.
-/
namespace Uom.BodyEq.LibConst
open Uom Uom.Rx
open Uom.Gen.RxBody

attribute [local simp] run eval nativeMeth lookup ofRV itersGet tryOp matchPat mSplitn mNext mUnwrap mOkOr mMapErr
  mAndThen mTrim mFmt mCmp cSome cNone cOk cErr cLess cEqual cGreater vScrut vRep

variable {T : Type}

def envLib (one zero : T) (neg : T → T) : Env T where
  ext := fun c _ =>
    if c = c_Self_T_as_One_one then .host one else if c = c_Self_T_as_Zero_zero then .host zero else .bad
  meth := fun _ _ => .bad
  binop := fun _ _ _ => .bad
  field := fun _ _ => .bad
  cast := fun _ _ => .bad
  fmtHost := fun _ => none
  display := fun _ => []
  nUnits := 0
  metaVar := fun _ _ => []
  nBase := 0
  neg := fun x =>
    match x with
    | .host y => .host (neg y)
    | _ => .bad

theorem default_coefficient (one zero : T) (neg : T → T) :
    run (envLib one zero neg) lib_free_coefficient [] = (.val (.host one), []) := by
  simp [lib_free_coefficient, envLib, c_Self_T_as_One_one]

theorem default_constant (one zero : T) (neg : T → T) (op : RV T) (hop : ofRV op = .val op) :
    run (envLib one zero neg) lib_free_constant [op] = (.val (.host zero), []) := by
  simp [lib_free_constant, envLib, c_Self_T_as_One_one, c_Self_T_as_Zero_zero]

theorem float_constant_add (one zero : T) (neg : T → T) :
    run (envLib one zero neg) lib_Conversion_Self_for_V_constant_Float [.ctor0 c_ConstantOp_Add] =
      (.val (.host (neg zero)), []) := by
  simp [lib_Conversion_Self_for_V_constant_Float, envLib, c_Self_T_as_One_one, c_Self_T_as_Zero_zero,
    c_ConstantOp_Add, c_ConstantOp_Sub]

theorem float_constant_sub (one zero : T) (neg : T → T) :
    run (envLib one zero neg) lib_Conversion_Self_for_V_constant_Float [.ctor0 c_ConstantOp_Sub] =
      (.val (.host zero), []) := by
  simp [lib_Conversion_Self_for_V_constant_Float, envLib, c_Self_T_as_One_one, c_Self_T_as_Zero_zero,
    c_ConstantOp_Add, c_ConstantOp_Sub]

theorem complex_constant_add (one zero : T) (neg : T → T) :
    run (envLib one zero neg) lib_Conversion_V_for_V_constant_Complex [.ctor0 c_ConstantOp_Add] =
      (.val (.host (neg zero)), []) := by
  simp [lib_Conversion_V_for_V_constant_Complex, envLib, c_Self_T_as_One_one, c_Self_T_as_Zero_zero,
    c_ConstantOp_Add, c_ConstantOp_Sub]

theorem complex_constant_sub (one zero : T) (neg : T → T) :
    run (envLib one zero neg) lib_Conversion_V_for_V_constant_Complex [.ctor0 c_ConstantOp_Sub] =
      (.val (.host zero), []) := by
  simp [lib_Conversion_V_for_V_constant_Complex, envLib, c_Self_T_as_One_one, c_Self_T_as_Zero_zero,
    c_ConstantOp_Add, c_ConstantOp_Sub]

/-- for the soft-float storage algebra the override is exactly `flS.constAdd` / `flS.constSub` -/
theorem float_constant_is_flS (f : Fmt) :
    run (envLib (Fl.one f) (Fl.zero f false) Fl.neg) lib_Conversion_Self_for_V_constant_Float [.ctor0 c_ConstantOp_Add] =
      (.val (.host (flS f).constAdd), []) ∧
    run (envLib (Fl.one f) (Fl.zero f false) Fl.neg) lib_Conversion_Self_for_V_constant_Float [.ctor0 c_ConstantOp_Sub] =
      (.val (.host (flS f).constSub), []) := by
  rw [float_constant_add, float_constant_sub]
  exact ⟨rfl, rfl⟩

end Uom.BodyEq.LibConst
