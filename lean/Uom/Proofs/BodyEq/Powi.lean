import Uom.Gen.RxBodies
import Uom.Model.Conv
/-!
# `gen_eq_hand` (Powi): the `ConversionFactor::powi` impls of src/lib.rs regenerated from the source

    match e.cmp(&0) {
        Equal   => one(),
        Less    => pow(recip(self), |e|),        // `e.unsigned_abs() as usize` (floats), `(-e) as usize` (big types)
        Greater => pow(self, e as usize),
    }

`num_traits::pow::pow`, `recip` and `one` are parameters of the environment; the theorems say which of
them is applied to which argument, for **every** factor and every exponent, and the corollary for floats
identifies the result with the hand-written `flPowi` (whose `powNat` transcribes num-traits' loop and is
tied to the implementation by the `pow` lines of the correspondence check).
-/
namespace Uom.BodyEq.Powi
open Uom Uom.Rx
open Uom.Gen.RxBody

attribute [local simp] run eval nativeMeth lookup ofRV itersGet tryOp matchPat mSplitn mNext mUnwrap mOkOr mMapErr
  mAndThen mTrim mFmt mCmp cSome cNone cOk cErr cLess cEqual cGreater vScrut vRep
@[local simp] theorem range2 : List.range 2 = [0, 1] := rfl

variable {α : Type}

/-- `one()`, `recip`, `pow(base, n)` of the factor type; `unsigned_abs`, unary minus and `as usize` of `i32` -/
def envPowi (one : α) (recip : α → α) (pow : α → Nat → α) : Env α where
  ext := fun c args =>
    if c = c_Self_as_One_one then .host one
    else if c = c_Self_as_Float_recip then
      match args with
      | [.host x] => .host (recip x)
      | _ => .bad
    else if c = c_pow then
      match args with
      | [.host b, .nat n] => .host (pow b n)
      | _ => .bad
    else .bad
  meth := fun m args =>
    if m = m_unsigned_abs then
      match args with
      | [.int e] => .nat e.natAbs
      | _ => .bad
    else if m = m_recip then
      match args with
      | [.host x] => .host (recip x)
      | _ => .bad
    else .bad
  binop := fun _ _ _ => .bad
  field := fun _ _ => .bad
  cast := fun ty x =>
    if ty = ty_usize then
      match x with
      | .nat n => .nat n
      | .int i => if 0 ≤ i then .nat i.toNat else .bad
      | _ => .bad
    else .bad
  fmtHost := fun _ => none
  display := fun _ => []
  nUnits := 0
  metaVar := fun _ _ => []
  nBase := 0

/-- the specification shared by the three impls -/
def powiSpec (one : α) (recip : α → α) (pow : α → Nat → α) (c : α) (e : Int) : α :=
  if e = 0 then one else if e < 0 then pow (recip c) (-e).toNat else pow c e.toNat

theorem powi_float_eq (one : α) (recip : α → α) (pow : α → Nat → α) (c : α) (e : Int) :
    run (envPowi one recip pow) lib_ConversionFactor_Self_for_V_powi_Float [.host c, .int e] =
      (.val (.host (powiSpec one recip pow c e)), []) := by
  unfold powiSpec
  rcases Int.lt_trichotomy e 0 with h | h | h
  · have h0 : e ≠ 0 := by omega
    have h1 : ¬ (0 ≤ e) := by omega
    have h2 : e.natAbs = (-e).toNat := by omega
    simp [lib_ConversionFactor_Self_for_V_powi_Float, envPowi, h, h0, h2, c_Self_as_One_one, c_Self_as_Float_recip,
      c_pow, m_unsigned_abs, m_recip, ty_usize]
  · subst h
    simp [lib_ConversionFactor_Self_for_V_powi_Float, envPowi, c_Self_as_One_one, c_Self_as_Float_recip,
      c_pow, m_unsigned_abs, m_recip, ty_usize]
  · have h0 : e ≠ 0 := by omega
    have h1 : ¬ (e < 0) := by omega
    have h2 : 0 ≤ e := by omega
    simp [lib_ConversionFactor_Self_for_V_powi_Float, envPowi, h0, h1, h2, c_Self_as_One_one, c_Self_as_Float_recip,
      c_pow, m_unsigned_abs, m_recip, ty_usize]

theorem powi_bigint_eq (one : α) (recip : α → α) (pow : α → Nat → α) (c : α) (e : Int) :
    run (envPowi one recip pow) lib_ConversionFactor_V_for_Ratio_powi_BigInt_BigUint [.host c, .int e] =
      (.val (.host (powiSpec one recip pow c e)), []) := by
  unfold powiSpec
  rcases Int.lt_trichotomy e 0 with h | h | h
  · have h0 : e ≠ 0 := by omega
    have h2 : e ≤ 0 := by omega
    simp [lib_ConversionFactor_V_for_Ratio_powi_BigInt_BigUint, envPowi, h, h0, h2, c_Self_as_One_one,
      c_Self_as_Float_recip, c_pow, m_unsigned_abs, m_recip, ty_usize]
  · subst h
    simp [lib_ConversionFactor_V_for_Ratio_powi_BigInt_BigUint, envPowi, c_Self_as_One_one, c_Self_as_Float_recip,
      c_pow, m_unsigned_abs, m_recip, ty_usize]
  · have h0 : e ≠ 0 := by omega
    have h1 : ¬ (e < 0) := by omega
    have h2 : 0 ≤ e := by omega
    simp [lib_ConversionFactor_V_for_Ratio_powi_BigInt_BigUint, envPowi, h0, h1, h2, c_Self_as_One_one,
      c_Self_as_Float_recip, c_pow, m_unsigned_abs, m_recip, ty_usize]

theorem powi_bigrational_eq (one : α) (recip : α → α) (pow : α → Nat → α) (c : α) (e : Int) :
    run (envPowi one recip pow) lib_ConversionFactor_V_for_V_powi_BigRational [.host c, .int e] =
      (.val (.host (powiSpec one recip pow c e)), []) := by
  unfold powiSpec
  rcases Int.lt_trichotomy e 0 with h | h | h
  · have h0 : e ≠ 0 := by omega
    have h2 : e ≤ 0 := by omega
    simp [lib_ConversionFactor_V_for_V_powi_BigRational, envPowi, h, h0, h2, c_Self_as_One_one,
      c_Self_as_Float_recip, c_pow, m_unsigned_abs, m_recip, ty_usize]
  · subst h
    simp [lib_ConversionFactor_V_for_V_powi_BigRational, envPowi, c_Self_as_One_one, c_Self_as_Float_recip,
      c_pow, m_unsigned_abs, m_recip, ty_usize]
  · have h0 : e ≠ 0 := by omega
    have h1 : ¬ (e < 0) := by omega
    have h2 : 0 ≤ e := by omega
    simp [lib_ConversionFactor_V_for_V_powi_BigRational, envPowi, h0, h1, h2, c_Self_as_One_one,
      c_Self_as_Float_recip, c_pow, m_unsigned_abs, m_recip, ty_usize]

/-- the float impl regenerated from the source is the hand-written `flPowi` (with `pow` = the model's
    transcription `powNat` of `num_traits::pow::pow`) -/
theorem powi_float_eq_flPowi (f : Fmt) (c : Fl) (e : Int) :
    run (envPowi (Fl.one f) (Fl.recip f) (powNat (Fl.one f) (Fl.mul f)))
        lib_ConversionFactor_Self_for_V_powi_Float [.host c, .int e] =
      (.val (.host (flPowi f c e)), []) := by
  rw [powi_float_eq]; rfl

/-- the fixed-width ratio impls forward to `Ratio::pow` -/
theorem powi_primint_eq (pw : α → Int → α) (c : α) (e : Int) :
    run ({ envPowi c id (fun x _ => x) with
            meth := fun m args => if m = m_pow then (match args with
              | [.host x, .int k] => .host (pw x k)
              | _ => .bad) else .bad } : Env α)
        lib_ConversionFactor_V_for_Ratio_powi_PrimInt [.host c, .int e] = (.val (.host (pw c e)), []) := by
  simp [lib_ConversionFactor_V_for_Ratio_powi_PrimInt, m_pow]

/-- the fixed-width rational impls (`Rational`, `Rational32`, `Rational64`) forward to `Ratio::pow` -/
theorem powi_rational_eq (pw : α → Int → α) (c : α) (e : Int) :
    run ({ envPowi c id (fun x _ => x) with
            meth := fun m args => if m = m_pow then (match args with
              | [.host x, .int k] => .host (pw x k)
              | _ => .bad) else .bad } : Env α)
        lib_ConversionFactor_V_for_V_powi_Rational_Rational32_Rational64 [.host c, .int e] =
      (.val (.host (pw c e)), []) := by
  simp [lib_ConversionFactor_V_for_V_powi_Rational_Rational32_Rational64, m_pow]

/-- the complex impl forwards to `Complex::powi` -/
theorem powi_complex_eq (pw : α → Int → α) (c : α) (e : Int) :
    run ({ envPowi c id (fun x _ => x) with
            meth := fun m args => if m = m_powi then (match args with
              | [.host x, .int k] => .host (pw x k)
              | _ => .bad) else .bad } : Env α)
        lib_ConversionFactor_V_for_VV_powi_Complex [.host c, .int e] = (.val (.host (pw c e)), []) := by
  simp [lib_ConversionFactor_V_for_VV_powi_Complex, m_powi]

/-- `pow` and `powi` are different methods: neither forward can be mistaken for the other -/
theorem pow_ne_powi : m_pow ≠ m_powi := by decide

end Uom.BodyEq.Powi
