import Uom.Gen.RxBodies
/-!
# `gen_eq_hand` (TrigRx): `Angle::sin_cos` (src/si/angle.rs) regenerated from the source

    let (sin, cos) = self.value.sin_cos();
    (sin.into(), cos.into())

The tuple pattern is what the straight-line language `BExpr` cannot express.  The theorem: the first component
is the storage type's sine of the *stored* value re-wrapped as a ratio, the second its cosine — in that order.
-/
namespace Uom.BodyEq.TrigRx
open Uom Uom.Rx
open Uom.Gen.RxBody

attribute [local simp] run eval nativeMeth lookup ofRV itersGet tryOp matchPat mSplitn mNext mUnwrap mOkOr mMapErr
  mAndThen mTrim mFmt mCmp cSome cNone cOk cErr cLess cEqual cGreater vScrut vRep

inductive AH (V : Type) where
  | ang (stored : V)
  | v (x : V)
  | ratio (stored : V)

variable {V : Type}

/-- `sc x` is the storage type's `sin_cos` of `x`; `into()` re-wraps a bare number as a `Ratio` (identity on the
    value: `From<V> for Ratio`, C15) -/
def envSinCos (sc : V → V × V) : Env (AH V) where
  ext := fun _ _ => .bad
  meth := fun m args =>
    match args with
    | [.host (.v x)] =>
      if m = m_sin_cos then .tup2 (.host (.v (sc x).1)) (.host (.v (sc x).2))
      else if m = m_into then .host (.ratio x) else .bad
    | _ => .bad
  binop := fun _ _ _ => .bad
  field := fun n x =>
    match x with
    | .host (.ang s) => if n = fld_value then .host (.v s) else .bad
    | _ => .bad
  cast := fun _ _ => .bad
  fmtHost := fun _ => none
  display := fun _ => []
  nUnits := 0
  metaVar := fun _ _ => []
  nBase := 0

theorem sin_cos_eq (sc : V → V × V) (x : V) :
    run (envSinCos sc) si_angle_inherent_Angle_sin_cos [.host (.ang x)] =
      (.val (.tup2 (.host (.ratio (sc x).1)) (.host (.ratio (sc x).2))), []) := by
  simp [si_angle_inherent_Angle_sin_cos, envSinCos, m_sin_cos, m_into, fld_value]

end Uom.BodyEq.TrigRx
