import Uom.Gen.RxBodies
/-!
# `gen_eq_hand` (SerdeRx): `Serialize` / `Deserialize for Quantity` (src/system.rs) with real `?` semantics

    fn serialize(&self, serializer: S)  { self.value.serialize(serializer) }
    fn deserialize(deserializer: De)    { let value: V = Deserialize::deserialize(deserializer)?;
                                          Ok(Quantity { dimension: PhantomData, units: PhantomData, value }) }

`BodyEq/Serde.lean` (BExpr) states which calls are made; here `?` is interpreted: the quantity is produced
exactly when the storage type's own `deserialize` succeeds, with that value; an error of the storage type is
returned unchanged and nothing else can fail.  The serializer / deserializer and the storage type's (de)serialization
are parameters: any serde data format.
-/
namespace Uom.BodyEq.SerdeRx
open Uom Uom.Rx
open Uom.Gen.RxBody

attribute [local simp] run eval nativeMeth lookup ofRV itersGet tryOp matchPat mSplitn mNext mUnwrap mOkOr mMapErr
  mAndThen mTrim mFmt mCmp cSome cNone cOk cErr cLess cEqual cGreater vScrut vRep
@[local simp] theorem range2 : List.range 2 = [0, 1] := rfl

/-- host values: a stored number, a quantity (its stored value), a (de)serializer, a serializer's output, an error -/
inductive SH (V S D O E : Type) where
  | v (x : V)
  | q (x : V)
  | ser (s : S)
  | de (d : D)
  | out (o : O)
  | err (e : E)

variable {V S D O E : Type}

def envSerde (serV : V → S → O) (deV : D → Except E V) : Env (SH V S D O E) where
  ext := fun c args =>
    if c = c_serde_Deserialize_deserialize then
      match args with
      | [.host (.de d)] => (match deV d with
        | .ok x => .ctor1 cOk (.host (.v x))
        | .error e => .ctor1 cErr (.host (.err e)))
      | _ => .bad
    else if c = c_Quantity_value then
      match args with
      | [.host (.v x)] => .host (.q x)
      | _ => .bad
    else .bad
  meth := fun m args =>
    if m = m_serialize then
      match args with
      | [.host (.v x), .host (.ser s)] => .host (.out (serV x s))
      | _ => .bad
    else .bad
  binop := fun _ _ _ => .bad
  field := fun n x =>
    match x with
    | .host (.q x) => if n = fld_value then .host (.v x) else .bad
    | _ => .bad
  cast := fun _ _ => .bad
  fmtHost := fun _ => none
  display := fun _ => []
  nUnits := 0
  metaVar := fun _ _ => []
  nBase := 0

/-- **a quantity serializes to exactly what its stored value serializes to**, with the caller's serializer -/
theorem serialize_eq (serV : V → S → O) (deV : D → Except E V) (x : V) (s : S) :
    run (envSerde serV deV) system_Serialize_for_Quantity_serialize [.host (.q x), .host (.ser s)] =
      (.val (.host (.out (serV x s))), []) := by
  simp [system_Serialize_for_Quantity_serialize, envSerde, m_serialize, fld_value]

/-- **a quantity deserializes from exactly what the storage type deserializes from, rejects what it rejects
    (with the storage type's own error), and the result wraps the storage type's value unchanged** -/
theorem deserialize_eq (serV : V → S → O) (deV : D → Except E V) (d : D) :
    run (envSerde serV deV) system_Deserialize_for_Quantity_deserialize [.host (.de d)] =
      (match deV d with
       | .ok x => .val (.ctor1 cOk (.host (.q x)))
       | .error e => .val (.ctor1 cErr (.host (.err e))), []) := by
  cases h : deV d <;>
    simp [system_Deserialize_for_Quantity_deserialize, envSerde, h, c_serde_Deserialize_deserialize, c_Quantity_value]

end Uom.BodyEq.SerdeRx
