import Uom.Gen.RxBodies
/-!
# `gen_eq_hand` (UnitMac): what a unit publishes is what its declaration says (src/unit.rs)

A unit is declared as `@name: factor[, constant]; "abbr", "singular", "plural";`.  The `unit!` macro turns
that into `impl Conversion<V> for name` per storage class, through its internal rules

    (@coefficient $factor[, $const]) => { $factor }
    (@constant $op $factor, $const)  => { $const }
    (@constant $op $factor)          => { match $op { Add => -0.0, Sub => 0.0 } }

The rule bodies and the `coefficient()` / `constant(op)` / `from_f64` bodies of every storage class are
regenerated from the source on every run (`unit_free_rule_*`, `unit_Conversion_V_for_unit_*`,
`unit_free_from_f64_*`).  Which rule an invocation selects (by the number of `$conversion` items) is
`macro_rules!`' own dispatch: the environment below performs it, evaluating the *regenerated* rule body.
The theorems: for floats and complex storage the published coefficient **is** the declared factor, the
constant is the declared constant or the signed-zero pair (−0.0 for `Add`, +0.0 for `Sub` — the pair the
bit-exact identity theorems of C03 rely on); for the rational-factor storage classes it is `from_f64` of
exactly those, and `from_f64` is the stated library conversion, panicking only where that conversion fails.
-/
namespace Uom.BodyEq.UnitMac
open Uom Uom.Rx
open Uom.Gen.RxBody

attribute [local simp] run eval nativeMeth lookup ofRV itersGet tryOp matchPat mSplitn mNext mUnwrap mOkOr mMapErr
  mAndThen mTrim mFmt mCmp cSome cNone cOk cErr cLess cEqual cGreater vScrut vRep
@[local simp] theorem range2 : List.range 2 = [0, 1] := rfl
@[local simp] theorem range3 : List.range 3 = [0, 1, 2] := rfl

/-- host values: a literal of the declaration (`F`: an `f64`, or `V` for float storage), a conversion
    factor of the storage class (`T`), an intermediate big rational (`R`), a big integer (`B`) -/
inductive UH (F T R B : Type) where
  | f (x : F)
  | t (x : T)
  | r (x : R)
  | b (x : B)
  | u (x : B)

variable {F T R B : Type}

/-- a unit declaration: factor and optional constant, as literals -/
structure Decl (F : Type) where
  factor : F
  const : Option F

/-- the environment inside a rule body: the literal `0.0` and unary minus on literals -/
def envRule (zero : F) (negF : F → F) : Env (UH F T R B) where
  ext := fun c _ => if c = c_lit_0_0 then .host (.f zero) else .bad
  meth := fun _ _ => .bad
  binop := fun _ _ _ => .bad
  field := fun _ _ => .bad
  cast := fun _ _ => .bad
  fmtHost := fun _ => none
  display := fun _ => []
  nUnits := 0
  metaVar := fun _ _ => []
  nBase := 0
  neg := fun x =>
    match x with
    | .host (.f y) => .host (.f (negF y))
    | _ => .bad

def ctlRV : Ctl (UH F T R B) → RV (UH F T R B)
  | .val v => v
  | .ret v => v
  | .panic => .panicked
  | .bad => .bad

/-- library conversions used by the `from_f64` helpers -/
structure Lib (F T R B : Type) where
  /-- `<T as FromPrimitive>::from_f64` / `<V as FromPrimitive>::from_f64` -/
  fromPrim : F → Option T
  /-- `Ratio::<BigInt>::from_f64` -/
  ratFromF64 : F → Option R
  numer : R → B
  denom : R → B
  toBigUint : B → Option B
  /-- `T::new(numer, denom)` -/
  mkRatio : B → B → T

def optT (x : Option T) : RV (UH F T R B) :=
  match x with
  | some v => .ctor1 cSome (.host (.t v))
  | none => .ctor0 cNone

/-- the environment of the `Conversion` impl bodies: `unit!(@coefficient …)` / `unit!(@constant op …)` expand
    to the rule selected by the arity of the declaration, whose regenerated body is evaluated;
    `from_f64` is the regenerated helper of the storage class (`fromF`) -/
def envUnit (zero : F) (negF : F → F) (d : Decl F) (L : Lib F T R B) : Env (UH F T R B) where
  ext := fun c args =>
    if c = c_unit_coefficient then
      match d.const with
      | some k => ctlRV (run (envRule zero negF) unit_free_rule_coefficient_2 [.host (.f d.factor), .host (.f k)]).1
      | none => ctlRV (run (envRule zero negF) unit_free_rule_coefficient_1 [.host (.f d.factor)]).1
    else if c = c_unit_constant then
      match args with
      | [op] =>
        (match d.const with
         | some k => ctlRV (run (envRule zero negF) unit_free_rule_constant_3 [op, .host (.f d.factor), .host (.f k)]).1
         | none => ctlRV (run (envRule zero negF) unit_free_rule_constant_2 [op, .host (.f d.factor)]).1)
      | _ => .bad
    else if c = c_T_as_FromPrimitive_from_f64 ∨ c = c_V_as_FromPrimitive_from_f64 then
      match args with
      | [.host (.f x)] => optT (L.fromPrim x)
      | _ => .bad
    else if c = c_num_rational_Ratio_from_f64_num_BigInt then
      match args with
      | [.host (.f x)] => (match L.ratFromF64 x with
        | some r => .ctor1 cSome (.host (.r r))
        | none => .ctor0 cNone)
      | _ => .bad
    else if c = c_T_new then
      match args with
      | [.host (.u n), .host (.u m)] => .host (.t (L.mkRatio n m))
      | _ => .bad
    else .bad
  meth := fun m args =>
    match args with
    | [.host (.r x)] => if m = m_numer then .host (.b (L.numer x)) else if m = m_denom then .host (.b (L.denom x)) else .bad
    | [.host (.b x)] =>
      if m = m_to_biguint then (match L.toBigUint x with
        | some u => .ctor1 cSome (.host (.u u))
        | none => .ctor0 cNone) else .bad
    | _ => .bad
  binop := fun _ _ _ => .bad
  field := fun _ _ => .bad
  cast := fun _ _ => .bad
  fmtHost := fun _ => none
  display := fun _ => []
  nUnits := 0
  metaVar := fun _ _ => []
  nBase := 0

/-- `from_f64(…)` called from `coefficient()` / `constant()` resolves to the helper of the same
    `storage_types!` block; `conv` is what that helper computes (theorems `from_f64_*` below), `none` = it panics -/
def envUnitF (zero : F) (negF : F → F) (d : Decl F) (L : Lib F T R B) (conv : F → Option T) : Env (UH F T R B) :=
  { envUnit zero negF d L with
    ext := fun c args =>
      if c = c_from_f64 then
        match args with
        | [.host (.f x)] => (match conv x with
          | some t => .host (.t t)
          | none => .panicked)
        | _ => .bad
      else (envUnit zero negF d L).ext c args }

/-! ## the internal rules -/

theorem rule_coefficient_1 (zero : F) (negF : F → F) (x : UH F T R B) :
    run (envRule zero negF) unit_free_rule_coefficient_1 [.host x] = (.val (.host x), []) := by
  simp [unit_free_rule_coefficient_1]

theorem rule_coefficient_2 (zero : F) (negF : F → F) (x : UH F T R B) (k : RV (UH F T R B)) :
    run (envRule zero negF) unit_free_rule_coefficient_2 [.host x, k] = (.val (.host x), []) := by
  simp [unit_free_rule_coefficient_2]

theorem rule_constant_3 (zero : F) (negF : F → F) (op x : RV (UH F T R B)) (k : UH F T R B) :
    run (envRule zero negF) unit_free_rule_constant_3 [op, x, .host k] = (.val (.host k), []) := by
  simp [unit_free_rule_constant_3]

/-- a unit without a declared constant: −0.0 for `ConstantOp::Add`, +0.0 for `ConstantOp::Sub` -/
theorem rule_constant_2_add (zero : F) (negF : F → F) (x : RV (UH F T R B)) :
    run (envRule (T := T) (R := R) (B := B) zero negF) unit_free_rule_constant_2 [.ctor0 c_ConstantOp_Add, x] =
      (.val (.host (.f (negF zero))), []) := by
  simp [unit_free_rule_constant_2, envRule, c_ConstantOp_Add, c_ConstantOp_Sub, c_lit_0_0]

theorem rule_constant_2_sub (zero : F) (negF : F → F) (x : RV (UH F T R B)) :
    run (envRule (T := T) (R := R) (B := B) zero negF) unit_free_rule_constant_2 [.ctor0 c_ConstantOp_Sub, x] =
      (.val (.host (.f zero)), []) := by
  simp [unit_free_rule_constant_2, envRule, c_ConstantOp_Add, c_ConstantOp_Sub, c_lit_0_0]

/-! ## what a unit publishes -/

/-- the declared constant, or the signed-zero pair -/
def declConst (zero : F) (negF : F → F) (d : Decl F) (add : Bool) : F :=
  match d.const with
  | some k => k
  | none => if add then negF zero else zero

def opCode (add : Bool) : Nat := if add then c_ConstantOp_Add else c_ConstantOp_Sub

/-- **float storage: `coefficient()` is the declared factor** -/
theorem coefficient_float (zero : F) (negF : F → F) (d : Decl F) (L : Lib F T R B) :
    run (envUnit zero negF d L) unit_Conversion_V_for_unit_coefficient_Float [] =
      (.val (.host (.f d.factor)), []) := by
  cases h : d.const <;>
    simp [unit_Conversion_V_for_unit_coefficient_Float, envUnit, h, c_unit_coefficient, ctlRV,
      unit_free_rule_coefficient_1, unit_free_rule_coefficient_2]

/-- **float storage: `constant(op)` is the declared constant, else −0.0 (`Add`) / +0.0 (`Sub`)** -/
theorem constant_float (zero : F) (negF : F → F) (d : Decl F) (L : Lib F T R B) (add : Bool) :
    run (envUnit zero negF d L) unit_Conversion_V_for_unit_constant_Float [.ctor0 (opCode add)] =
      (.val (.host (.f (declConst zero negF d add))), []) := by
  cases h : d.const <;> cases add <;>
    simp [unit_Conversion_V_for_unit_constant_Float, envUnit, h, c_unit_coefficient, c_unit_constant, ctlRV,
      unit_free_rule_constant_2, unit_free_rule_constant_3, envRule, declConst, opCode, c_ConstantOp_Add,
      c_ConstantOp_Sub, c_lit_0_0]

/-- complex storage publishes the same real factor and constant (the override the C20 declarations rely on) -/
theorem coefficient_complex (zero : F) (negF : F → F) (d : Decl F) (L : Lib F T R B) :
    run (envUnit zero negF d L) unit_Conversion_V_for_unit_coefficient_Complex [] =
      (.val (.host (.f d.factor)), []) := by
  cases h : d.const <;>
    simp [unit_Conversion_V_for_unit_coefficient_Complex, envUnit, h, c_unit_coefficient, ctlRV,
      unit_free_rule_coefficient_1, unit_free_rule_coefficient_2]

theorem constant_complex (zero : F) (negF : F → F) (d : Decl F) (L : Lib F T R B) (add : Bool) :
    run (envUnit zero negF d L) unit_Conversion_V_for_unit_constant_Complex [.ctor0 (opCode add)] =
      (.val (.host (.f (declConst zero negF d add))), []) := by
  cases h : d.const <;> cases add <;>
    simp [unit_Conversion_V_for_unit_constant_Complex, envUnit, h, c_unit_coefficient, c_unit_constant, ctlRV,
      unit_free_rule_constant_2, unit_free_rule_constant_3, envRule, declConst, opCode, c_ConstantOp_Add,
      c_ConstantOp_Sub, c_lit_0_0]

/-! ## the `from_f64` helpers -/

def embedOptT : Option T → Ctl (UH F T R B)
  | some v => .val (.host (.t v))
  | none => .panic

/-- fixed-width integers and BigInt (`Ratio<V>` factors), and the rational storage types: the library's
    `FromPrimitive::from_f64`, unwrapped (a panic exactly where the library returns `None`) -/
theorem from_f64_primint_bigint (zero : F) (negF : F → F) (d : Decl F) (L : Lib F T R B) (x : F) :
    run (envUnit zero negF d L) unit_free_from_f64_PrimInt_BigInt [.host (.f x)] =
      (embedOptT (L.fromPrim x), []) := by
  cases h : L.fromPrim x <;>
    simp [unit_free_from_f64_PrimInt_BigInt, envUnit, h, optT, embedOptT, c_T_as_FromPrimitive_from_f64,
      c_unit_coefficient, c_unit_constant]

theorem from_f64_ratio (zero : F) (negF : F → F) (d : Decl F) (L : Lib F T R B) (x : F) :
    run (envUnit zero negF d L) unit_free_from_f64_Ratio [.host (.f x)] =
      (embedOptT (L.fromPrim x), []) := by
  cases h : L.fromPrim x <;>
    simp [unit_free_from_f64_Ratio, envUnit, h, optT, embedOptT, c_V_as_FromPrimitive_from_f64,
      c_T_as_FromPrimitive_from_f64, c_unit_coefficient, c_unit_constant]

/-- BigUint: through `Ratio<BigInt>::from_f64` (unbounded), numerator and denominator converted to BigUint -/
def bigUintSpec (L : Lib F T R B) (x : F) : Option T :=
  match L.ratFromF64 x with
  | none => none
  | some r =>
    match L.toBigUint (L.numer r), L.toBigUint (L.denom r) with
    | some n, some m => some (L.mkRatio n m)
    | _, _ => none

theorem from_f64_biguint (zero : F) (negF : F → F) (d : Decl F) (L : Lib F T R B) (x : F) :
    run (envUnit zero negF d L) unit_free_from_f64_BigUint [.host (.f x)] =
      (embedOptT (bigUintSpec L x), []) := by
  unfold bigUintSpec
  cases h : L.ratFromF64 x with
  | none =>
    simp [unit_free_from_f64_BigUint, envUnit, h, embedOptT, c_num_rational_Ratio_from_f64_num_BigInt,
      c_T_as_FromPrimitive_from_f64, c_V_as_FromPrimitive_from_f64, c_unit_coefficient, c_unit_constant]
  | some r =>
    cases h1 : L.toBigUint (L.numer r) <;> cases h2 : L.toBigUint (L.denom r) <;>
      simp [unit_free_from_f64_BigUint, envUnit, h, h1, h2, embedOptT, c_num_rational_Ratio_from_f64_num_BigInt,
        c_T_as_FromPrimitive_from_f64, c_V_as_FromPrimitive_from_f64, c_unit_coefficient, c_unit_constant, c_T_new,
        m_numer, m_denom, m_to_biguint]

/-! ## rational-factor storage classes: `from_f64` of the declared literal -/

section viaFromF64
variable (zero : F) (negF : F → F) (d : Decl F) (L : Lib F T R B) (conv : F → Option T)

theorem ext_coefficient :
    (envUnitF zero negF d L conv).ext c_unit_coefficient [] = .host (.f d.factor) := by
  cases hk : d.const <;>
    simp [envUnitF, envUnit, hk, c_from_f64, c_unit_coefficient, ctlRV, unit_free_rule_coefficient_1,
      unit_free_rule_coefficient_2]

theorem ext_constant (add : Bool) :
    (envUnitF zero negF d L conv).ext c_unit_constant [.ctor0 (opCode add)] =
      .host (.f (declConst zero negF d add)) := by
  cases hk : d.const <;> cases add <;>
    simp [envUnitF, envUnit, hk, c_from_f64, c_unit_coefficient, c_unit_constant, ctlRV, unit_free_rule_constant_2,
      unit_free_rule_constant_3, envRule, declConst, opCode, c_ConstantOp_Add, c_ConstantOp_Sub, c_lit_0_0]

theorem ext_from_f64 (x : F) :
    ofRV ((envUnitF zero negF d L conv).ext c_from_f64 [.host (.f x)]) = embedOptT (conv x) := by
  cases hc : conv x <;> simp [envUnitF, c_from_f64, hc, embedOptT]

theorem ofRV_host {H : Type} (x : H) : ofRV (RV.host x) = Ctl.val (RV.host x) := rfl
theorem from_f64_not_ctor : ¬ (c_from_f64 = 1 ∨ c_from_f64 = 2 ∨ c_from_f64 = 3) := by decide
theorem unit_constant_not_ctor : ¬ (c_unit_constant = 1 ∨ c_unit_constant = 2 ∨ c_unit_constant = 3) := by decide

/-- `from_f64(unit!(@coefficient …))` -/
theorem run_coefficient_via (body : FnDef) (hb : body = ⟨0, .call1 c_from_f64 (.call0 c_unit_coefficient)⟩) :
    run (envUnitF zero negF d L conv) body [] = (embedOptT (conv d.factor), []) := by
  subst hb
  have h1 := ext_coefficient zero negF d L conv
  have h2 := ext_from_f64 zero negF d L conv d.factor
  simp only [run, eval, h1, ofRV_host, cSome, cOk, cErr, if_neg from_f64_not_ctor]
  rw [h2]
  cases conv d.factor <;> rfl

/-- `from_f64(unit!(@constant op …))` -/
theorem run_constant_via (body : FnDef) (hb : body = ⟨1, .call1 c_from_f64 (.call1 c_unit_constant (.var 0))⟩)
    (add : Bool) :
    run (envUnitF zero negF d L conv) body [.ctor0 (opCode add)] =
      (embedOptT (conv (declConst zero negF d add)), []) := by
  subst hb
  have h1 := ext_constant zero negF d L conv add
  have h2 := ext_from_f64 zero negF d L conv (declConst zero negF d add)
  have hr : List.range 1 = [0] := rfl
  have hop : ofRV (RV.ctor0 (opCode add) : RV (UH F T R B)) = Ctl.val (RV.ctor0 (opCode add)) := rfl
  simp only [run, eval, hr, List.zip_cons_cons, List.zip_nil_left, lookup, if_true, hop, cSome, cOk, cErr,
    if_neg from_f64_not_ctor, if_neg unit_constant_not_ctor, h1, ofRV_host]
  rw [h2]
  cases conv (declConst zero negF d add) <;> rfl

/-- **rational-factor storage classes: `coefficient()` is the class's `from_f64` of the declared factor,
    `constant(op)` of the declared constant or of the signed zero** — for the three classes -/
theorem coefficient_primint_bigint :
    run (envUnitF zero negF d L conv) unit_Conversion_V_for_unit_coefficient_PrimInt_BigInt [] =
      (embedOptT (conv d.factor), []) := run_coefficient_via zero negF d L conv _ rfl
theorem constant_primint_bigint (add : Bool) :
    run (envUnitF zero negF d L conv) unit_Conversion_V_for_unit_constant_PrimInt_BigInt [.ctor0 (opCode add)] =
      (embedOptT (conv (declConst zero negF d add)), []) := run_constant_via zero negF d L conv _ rfl add
theorem coefficient_biguint :
    run (envUnitF zero negF d L conv) unit_Conversion_V_for_unit_coefficient_BigUint [] =
      (embedOptT (conv d.factor), []) := run_coefficient_via zero negF d L conv _ rfl
theorem constant_biguint (add : Bool) :
    run (envUnitF zero negF d L conv) unit_Conversion_V_for_unit_constant_BigUint [.ctor0 (opCode add)] =
      (embedOptT (conv (declConst zero negF d add)), []) := run_constant_via zero negF d L conv _ rfl add
theorem coefficient_ratio :
    run (envUnitF zero negF d L conv) unit_Conversion_V_for_unit_coefficient_Ratio [] =
      (embedOptT (conv d.factor), []) := run_coefficient_via zero negF d L conv _ rfl
theorem constant_ratio (add : Bool) :
    run (envUnitF zero negF d L conv) unit_Conversion_V_for_unit_constant_Ratio [.ctor0 (opCode add)] =
      (embedOptT (conv (declConst zero negF d add)), []) := run_constant_via zero negF d L conv _ rfl add

end viaFromF64

end Uom.BodyEq.UnitMac
