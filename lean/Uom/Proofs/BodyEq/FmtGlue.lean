import Uom.Proofs.BodyEq.Text
/-!
# `gen_eq_hand` (FmtGlue): the glue between a quantity and `QuantityArguments::fmt`

    pub fn format_args<N>(_unit: N, style: DisplayStyle) -> Arguments<Dimension, N>
        { Arguments { dimension: PhantomData, unit: PhantomData, style } }
    pub fn into_format_args<N>(self, _unit: N, style: DisplayStyle) -> QuantityArguments<Dimension, U, V, N>
        { QuantityArguments { arguments: Arguments { dimension: PhantomData, unit: PhantomData, style }, quantity: self } }
    pub fn with<U, V>(self, quantity: $quantity<U, V>) -> QuantityArguments<Dimension, U, V, N>
        { QuantityArguments { arguments: self, quantity } }
    impl Display for ParseQuantityError { fn fmt(..) { match *self { NoSeparator => write!(f, "…"), … } } }

(src/quantity.rs, src/lib.rs).  `BodyEq/Text.lean` proves what `QuantityArguments::fmt` writes for a value of that
struct; here the three functions that *build* the struct are regenerated from the source and proved to put the
style and the quantity where `fmt` reads them, so the statement of C11 is about what the user calls:
`format!("{}", q.into_format_args(unit, style))` and `format!("{}", Q::format_args(unit, style).with(q))`.
A struct literal is translated as the constructor named by the struct and its data-carrying fields
(`PhantomData` fields carry no data) applied to the field expressions; the environment below says which
model value that constructor builds.
-/
namespace Uom.BodyEq.FmtGlue
open Uom Uom.Rx
open Uom.Gen.RxBody
open Uom.BodyEq.Text

attribute [local simp] run eval nativeMeth lookup ofRV itersGet tryOp matchPat mSplitn mNext mUnwrap mOkOr mMapErr
  mAndThen mTrim mFmt mCmp cSome cNone cOk cErr cLess cEqual cGreater vScrut vRep
@[local simp] theorem range2' : List.range 2 = [0, 1] := rfl
@[local simp] theorem range3' : List.range 3 = [0, 1, 2] := rfl

variable {V : Type}

/-- `DisplayStyle` as the value the bodies pass around -/
def styleRV (st : Style) : RV (FH V) := .ctor0 (styleCode st)

/-- the environment of `Text.envFmt`, extended by the two struct constructors -/
def envGlue (fromB : V → V) (fmtV : V → Option Bytes) (isOne : V → Bool) (u : Labels) : Env (FH V) :=
  { envFmt fromB fmtV isOne u with
    ext := fun c args =>
      if c = c_Arguments_style then
        match args with
        | [.ctor0 s] =>
          if s = c_DisplayStyle_Abbreviation then .host (.args .abbreviation)
          else if s = c_DisplayStyle_Description then .host (.args .description)
          else .bad
        | _ => .bad
      else if c = c_QuantityArguments_arguments_quantity then
        match args with
        | [.host (.args st), .host (.quant x)] => .host (.qa st x)
        | _ => .bad
      else (envFmt fromB fmtV isOne u).ext c args }

/-- the constructors are new names: on every name `envFmt` interprets, `envGlue` agrees with it -/
theorem glue_names_fresh :
    c_Arguments_style ≠ c_from_base_D_U_V_N ∧ c_Arguments_style ≠ c_N_abbreviation ∧
    c_Arguments_style ≠ c_N_singular ∧ c_Arguments_style ≠ c_N_plural ∧
    c_QuantityArguments_arguments_quantity ≠ c_from_base_D_U_V_N ∧
    c_QuantityArguments_arguments_quantity ≠ c_N_abbreviation ∧
    c_QuantityArguments_arguments_quantity ≠ c_N_singular ∧ c_QuantityArguments_arguments_quantity ≠ c_N_plural ∧
    c_Arguments_style ≠ c_QuantityArguments_arguments_quantity := by decide

variable (fromB : V → V) (fmtV : V → Option Bytes) (isOne : V → Bool) (u : Labels)

/-- **`format_args(unit, style)` is `Arguments { style }`** — whatever the unit value is, for both styles -/
theorem format_args_eq (un : RV (FH V)) (style : Style) :
    run (envGlue fromB fmtV isOne u) quantity_inherent_quantity_format_args [un, styleRV style] =
      (.val (.host (.args style)), []) := by
  cases style <;>
    simp [quantity_inherent_quantity_format_args, envGlue, styleRV, styleCode, c_Arguments_style,
      c_DisplayStyle_Abbreviation, c_DisplayStyle_Description]

/-- **`args.with(q)` is `QuantityArguments { arguments: args, quantity: q }`** -/
theorem with_eq (style : Style) (x : V) :
    run (envGlue fromB fmtV isOne u) quantity_inherent_Arguments_with [.host (.args style), .host (.quant x)] =
      (.val (.host (.qa style x)), []) := by
  simp [quantity_inherent_Arguments_with, envGlue, c_Arguments_style, c_QuantityArguments_arguments_quantity]

/-- **`q.into_format_args(unit, style)` is `QuantityArguments { arguments: Arguments { style }, quantity: q }`** -/
theorem into_format_args_eq (un : RV (FH V)) (style : Style) (x : V) :
    run (envGlue fromB fmtV isOne u) quantity_inherent_quantity_into_format_args
        [.host (.quant x), un, styleRV style] =
      (.val (.host (.qa style x)), []) := by
  cases style <;>
    simp [quantity_inherent_quantity_into_format_args, envGlue, styleRV, styleCode, c_Arguments_style,
      c_QuantityArguments_arguments_quantity, c_DisplayStyle_Abbreviation, c_DisplayStyle_Description]

/-- the two ways to build the struct agree: `q.into_format_args(u, s) = Q::format_args(u, s).with(q)` -/
theorem into_eq_with_format (un : RV (FH V)) (style : Style) (x : V) :
    ∃ a, run (envGlue fromB fmtV isOne u) quantity_inherent_quantity_format_args [un, styleRV style] = (.val a, []) ∧
      run (envGlue fromB fmtV isOne u) quantity_inherent_Arguments_with [a, .host (.quant x)] =
        run (envGlue fromB fmtV isOne u) quantity_inherent_quantity_into_format_args
          [.host (.quant x), un, styleRV style] :=
  ⟨_, format_args_eq fromB fmtV isOne u un style, by rw [with_eq, into_format_args_eq]⟩

/-- `fmt` under the extended environment (the body of `fmt` never calls the two constructors) -/
theorem fmt_glue_eq (fmtV : V → Bytes) (style : Style) (x : V) :
    run (envGlue fromB (fun v => some (fmtV v)) isOne u) system_style_for_QuantityArguments_fmt
        [.host (.qa style x), .fmtr] =
      (.val (.ctor1 cOk .unit), fmtArgs fmtV isOne u style (fromB x)) := by
  cases style <;> cases h1 : isOne (fromB x) <;>
    simp [system_style_for_QuantityArguments_fmt, envGlue, envFmt, styleCode, fmtArgs, label, h1,
      substFmt_space_hole, display, c_from_base_D_U_V_N, c_N_abbreviation, c_N_singular, c_N_plural, m_is_one,
      fld_quantity, fld_arguments, fld_value, fld_style, c_DisplayStyle_Abbreviation, c_DisplayStyle_Description,
      c_Arguments_style, c_QuantityArguments_arguments_quantity]

/-- **what the user calls**: `format!("{}", q.into_format_args(unit, style))` builds a value `w` and `w.fmt(f)`
    writes the model's `fmtArgs` of the converted value — for every stored value, unit value, style, conversion. -/
theorem display_into_format_args (fmtV : V → Bytes) (un : RV (FH V)) (style : Style) (x : V) :
    ∃ w, run (envGlue fromB (fun v => some (fmtV v)) isOne u) quantity_inherent_quantity_into_format_args
            [.host (.quant x), un, styleRV style] = (.val w, []) ∧
      run (envGlue fromB (fun v => some (fmtV v)) isOne u) system_style_for_QuantityArguments_fmt [w, .fmtr] =
        (.val (.ctor1 cOk .unit), fmtArgs fmtV isOne u style (fromB x)) :=
  ⟨_, into_format_args_eq fromB _ isOne u un style x, fmt_glue_eq fromB isOne u fmtV style x⟩

/-- … and `format!("{}", Q::format_args(unit, style).with(q))` writes the same bytes -/
theorem display_format_args_with (fmtV : V → Bytes) (un : RV (FH V)) (style : Style) (x : V) :
    ∃ a w, run (envGlue fromB (fun v => some (fmtV v)) isOne u) quantity_inherent_quantity_format_args
            [un, styleRV style] = (.val a, []) ∧
      run (envGlue fromB (fun v => some (fmtV v)) isOne u) quantity_inherent_Arguments_with
            [a, .host (.quant x)] = (.val w, []) ∧
      run (envGlue fromB (fun v => some (fmtV v)) isOne u) system_style_for_QuantityArguments_fmt [w, .fmtr] =
        (.val (.ctor1 cOk .unit), fmtArgs fmtV isOne u style (fromB x)) :=
  ⟨_, _, format_args_eq fromB _ isOne u un style, with_eq fromB _ isOne u style x,
    fmt_glue_eq fromB isOne u fmtV style x⟩

/-! ## `Display for ParseQuantityError` -/

/-- no environment function is used -/
def envNone : Env Unit where
  ext := fun _ _ => .bad
  meth := fun _ _ => .bad
  binop := fun _ _ _ => .bad
  field := fun _ _ => .bad
  cast := fun _ _ => .bad
  fmtHost := fun _ => none
  display := fun _ => []
  nUnits := 0
  metaVar := fun _ _ => []
  nBase := 0

/-- the bytes of an ASCII message -/
def ascii (s : String) : Bytes := s.toList.map (·.toNat)

theorem msg_no_separator : ascii "no space between quantity and units" =
    [110, 111, 32, 115, 112, 97, 99, 101, 32, 98, 101, 116, 119, 101, 101, 110, 32, 113, 117, 97, 110, 116, 105, 116,
     121, 32, 97, 110, 100, 32, 117, 110, 105, 116, 115] := by decide
theorem msg_value_parse : ascii "error parsing unit quantity" =
    [101, 114, 114, 111, 114, 32, 112, 97, 114, 115, 105, 110, 103, 32, 117, 110, 105, 116, 32, 113, 117, 97, 110, 116,
     105, 116, 121] := by decide
theorem msg_unknown_unit : ascii "unrecognized unit of measure" =
    [117, 110, 114, 101, 99, 111, 103, 110, 105, 122, 101, 100, 32, 117, 110, 105, 116, 32, 111, 102, 32, 109, 101, 97,
     115, 117, 114, 101] := by decide

/-- the three variants are three different constructors -/
theorem parse_error_ctors_distinct :
    c_NoSeparator ≠ c_ValueParseError ∧ c_NoSeparator ≠ c_UnknownUnit ∧ c_ValueParseError ≠ c_UnknownUnit := by
  decide

/-- **each variant of `ParseQuantityError` displays its own message and nothing else** -/
theorem parse_error_display :
    run envNone lib_Display_for_ParseQuantityError_fmt [.ctor0 c_NoSeparator, .fmtr] =
      (.val (.ctor1 cOk .unit), ascii "no space between quantity and units") ∧
    run envNone lib_Display_for_ParseQuantityError_fmt [.ctor0 c_ValueParseError, .fmtr] =
      (.val (.ctor1 cOk .unit), ascii "error parsing unit quantity") ∧
    run envNone lib_Display_for_ParseQuantityError_fmt [.ctor0 c_UnknownUnit, .fmtr] =
      (.val (.ctor1 cOk .unit), ascii "unrecognized unit of measure") := by
  rw [msg_no_separator, msg_value_parse, msg_unknown_unit]
  refine ⟨?_, ?_, ?_⟩ <;>
    simp [lib_Display_for_ParseQuantityError_fmt, envNone, c_NoSeparator, c_ValueParseError, c_UnknownUnit, substFmt]

/-! ## the remaining one-line bodies

`Conversion::conversion` (trait default, src/lib.rs: `Self::coefficient()` — what every unit uses, `unit!` does not
override it), `description()` (src/quantity.rs: the `$description` literal of the `quantity!` invocation) and
`Clone for Arguments` (`*self`).  With these every function body the translator reads from the macro files is the
subject of a theorem in one of the two body languages. -/

/-- an environment with one nullary name -/
def envConst (c : Nat) (v : RV Unit) : Env Unit :=
  { envNone with ext := fun d args => if d = c then (match args with | [] => v | _ => .bad) else .bad }

theorem consts_not_native :
    c_Self_coefficient ≠ cNone ∧ c_description ≠ cNone ∧ c_description ≠ cLess ∧ c_description ≠ cEqual ∧
    c_description ≠ cGreater := by decide

/-- the default `conversion()` of a unit is its `coefficient()` — whatever the receiver -/
theorem default_conversion_eq (k : RV Unit) (hk : k ≠ .bad) (hp : k ≠ .panicked) (x : RV Unit) :
    run (envConst c_Self_coefficient k) lib_free_conversion [x] = (.val k, []) := by
  cases k <;> simp_all [lib_free_conversion, envConst, envNone, c_Self_coefficient]

/-- `description()` is the declared description -/
theorem description_eq (d : Bytes) :
    run (envConst c_description (.str d)) quantity_free_description [] = (.val (.str d), []) := by
  simp [quantity_free_description, envConst, envNone, c_description]

/-- `Clone for Arguments` returns its argument -/
theorem arguments_clone_eq (style : Style) :
    run (envGlue (V := Unit) id (fun _ => none) (fun _ => false) ⟨[], [], []⟩)
        system_Clone_for_Arguments_clone [.host (.args style)] = (.val (.host (.args style)), []) := by
  simp [system_Clone_for_Arguments_clone]

/-- `<unit as Unit>::abbreviation() / singular() / plural()` (src/unit.rs) are the three label literals of the unit's
    declaration line, each its own -/
theorem unit_labels_eq (a sg pl : Bytes) :
    run (envConst c_abbreviation (.str a)) unit_Unit_for_unit_abbreviation [] = (.val (.str a), []) ∧
    run (envConst c_singular (.str sg)) unit_Unit_for_unit_singular [] = (.val (.str sg), []) ∧
    run (envConst c_plural (.str pl)) unit_Unit_for_unit_plural [] = (.val (.str pl), []) := by
  refine ⟨?_, ?_, ?_⟩ <;>
    simp [unit_Unit_for_unit_abbreviation, unit_Unit_for_unit_singular, unit_Unit_for_unit_plural, envConst, envNone,
      c_abbreviation, c_singular, c_plural]

theorem unit_label_names_distinct :
    c_abbreviation ≠ c_singular ∧ c_abbreviation ≠ c_plural ∧ c_singular ≠ c_plural := by decide

/-- `Clone for QuantityArguments` clones both fields into the same struct -/
theorem quantity_arguments_clone_eq {V : Type} (style : Style) (x : V) :
    run ({ envGlue (V := V) id (fun _ => none) (fun _ => false) ⟨[], [], []⟩ with
            ext := fun c args => if c = c_Self_arguments_quantity then
                (match args with
                 | [.host (.args st), .host (.quant y)] => .host (.qa st y)
                 | _ => .bad) else .bad
            meth := fun m args => if m = m_clone then (match args with | [v] => v | _ => .bad) else .bad } : Env (FH V))
        system_Clone_for_QuantityArguments_clone [.host (.qa style x)] = (.val (.host (.qa style x)), []) := by
  simp [system_Clone_for_QuantityArguments_clone, envGlue, envFmt, c_Self_arguments_quantity, m_clone, fld_arguments,
    fld_quantity]

end Uom.BodyEq.FmtGlue
