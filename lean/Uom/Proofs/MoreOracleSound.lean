import Uom.Proofs.OpsOracleSound
/-!
# More oracle soundness: `oracleMulAdd` (mixed-base fused multiply-add) and `oracleRounding`

`Uom.oracleMulAdd` (Uom/Model/OpsOracle.lean) judges the implementation's `x.mul_add(a, b)` with both
operands re-based into the base units of `x`.  Part I evaluates it on the *model's* result
`mulAddOn f la ra lb rb x a b = Fl.fma f x (change_base a) (change_base b)` and proves that it never
answers `fail` (`oracleMulAdd_sound`) — for every well-formed format with `p ≥ 4` and *arbitrary*
operands (finiteness / canonical form are not needed as hypotheses: non-finite operands are guarded by
the oracle itself and the rounding lemmas used are result-based).

The ingredients are a standard model for `Fl.fma` (section A): `fma x y z` is `Fl.add` of the *exact*
(unrounded) product and `z`, hence one rounding of `x·y + z` when the result is normal
(`fma_approx_normal`), and a zero result means `|x·y + z| ≤ 2^emin / 2` (`fma_isZero_le`: exact
cancellation or underflow of the product term below half the least subnormal).

History.  The oracle without its last clause (a zero result whose exact value is within the tolerance
of half the least subnormal is guarded) rejected the model: `oracleMulAddOld_rejects_underflow` is a
kernel-checked binary32 witness (every guard satisfied, canonical operands).
-/

namespace Uom.Proofs.MoreOracleSound
open Uom Uom.Fl Uom.Proofs

variable {f : Fmt}

/-! ## A. a standard model for `Fl.fma` -/

/-- `fma` of three finite floats is `add` of the exact, unrounded product and the addend -/
theorem fma_fin_eq (f : Fmt) (s1 s2 s3 : Bool) (m1 m2 m3 : Nat) (e1 e2 e3 : Int) :
    Fl.fma f (fin s1 m1 e1) (fin s2 m2 e2) (fin s3 m3 e3) =
      Fl.add f (fin (s1 != s2) (m1 * m2) (e1 + e2)) (fin s3 m3 e3) := rfl

/-- … for arbitrary finite operands: there is a finite (in general non-canonical) float `p` whose
    value is the exact product, and `fma x y z = p ⊕ z` -/
theorem fma_eq_add_exact (f : Fmt) {x y z : Fl} (hx : x.isFinite = true) (hy : y.isFinite = true)
    (hz : z.isFinite = true) :
    ∃ p : Fl, p.isFinite = true ∧ p.toRat = x.toRat * y.toRat ∧ Fl.fma f x y z = Fl.add f p z := by
  cases x with
  | nan => simp [Fl.isFinite] at hx
  | inf s => simp [Fl.isFinite] at hx
  | fin s1 m1 e1 =>
    cases y with
    | nan => simp [Fl.isFinite] at hy
    | inf s => simp [Fl.isFinite] at hy
    | fin s2 m2 e2 =>
      cases z with
      | nan => simp [Fl.isFinite] at hz
      | inf s => simp [Fl.isFinite] at hz
      | fin s3 m3 e3 =>
        exact ⟨fin (s1 != s2) (m1 * m2) (e1 + e2), rfl,
          by rw [toRat_mul_toRat, toRat_fin], fma_fin_eq f s1 s2 s3 m1 m2 m3 e1 e2 e3⟩

/-- a finite sum has exponent `≥ emin`, whatever the exponents of the (finite) operands -/
theorem add_ok_of_finite {x y : Fl} (hx : x.isFinite = true) (hy : y.isFinite = true)
    (hfin : (Fl.add f x y).isFinite = true) : Ok f (Fl.add f x y) := by
  cases x with
  | nan => simp [Fl.isFinite] at hx
  | inf s => simp [Fl.isFinite] at hx
  | fin s1 m1 e1 =>
    cases y with
    | nan => simp [Fl.isFinite] at hy
    | inf s => simp [Fl.isFinite] at hy
    | fin s2 m2 e2 =>
      rw [add_fin_eq] at hfin ⊢
      exact roundInt_ok f _ _ _ hfin

/-- `x ⊕ y` for finite operands of *any* exponent (no `Ok` hypothesis), result finite and normal:
    one rounding of the exact sum -/
theorem add_approx_normal (hp : 1 ≤ f.p) {x y : Fl} (hx : x.isFinite = true) (hy : y.isFinite = true)
    (hfin : (Fl.add f x y).isFinite = true) (hN : nmin f ≤ |(Fl.add f x y).toRat|) :
    Approx (uro f) 1 (Fl.add f x y).toRat (x.toRat + y.toRat) := by
  cases x with
  | nan => simp [Fl.isFinite] at hx
  | inf s => simp [Fl.isFinite] at hx
  | fin s1 m1 e1 =>
    cases y with
    | nan => simp [Fl.isFinite] at hy
    | inf s => simp [Fl.isFinite] at hy
    | fin s2 m2 e2 =>
      rw [add_fin_eq] at hfin hN ⊢
      rw [toRat_add_toRat]
      generalize sval s1 (m1 * 2 ^ (e1 - min e1 e2).toNat) + sval s2 (m2 * 2 ^ (e2 - min e1 e2).toNat)
        = v at hfin hN ⊢
      generalize (if m1 = 0 ∧ m2 = 0 then s1 && s2 else false) = zneg at hfin hN ⊢
      unfold roundInt at hfin hN ⊢
      by_cases hv : v = 0
      · rw [if_pos hv, toRat_zero, abs_zero] at hN
        linarith [nmin_pos f]
      · rw [if_neg hv] at hfin hN ⊢
        have h := roundDy_approx_normal f hp _ _ _ (Int.natAbs_pos.mpr hv) hfin hN
        rwa [sgn_natAbs] at h

/-- `roundDy` returns a zero only by underflow: the exact magnitude is at most half the least
    subnormal -/
theorem roundDy_isZero_le (f : Fmt) (hp : 1 ≤ f.p) (s : Bool) (M : Nat) (E : Int) (hM : 0 < M)
    (hz : (roundDy f s M E).isZero = true) :
    2 * ((M : Rat) * (2 : Rat) ^ E) ≤ (2 : Rat) ^ f.emin := by
  have hfin := isZero_isFinite hz
  have h0 := toRat_of_isZero hz
  have hMq : (M : Rat) ≠ 0 := by exact_mod_cast hM.ne'
  have h2 : (2 : Rat) ≠ 0 := by norm_num
  by_cases hsh : max ((M.log2 : Int) + 1 - f.p) (f.emin - E) ≤ 0
  · rw [roundDy_exact f s M E hsh hfin] at h0
    exact absurd h0 (mul_ne_zero (mul_ne_zero (sgn_ne_zero s) hMq) (two_zpow_pos E).ne')
  · obtain ⟨n, hn⟩ : ∃ n : Nat, (n : Int) = max ((M.log2 : Int) + 1 - f.p) (f.emin - E) :=
      ⟨(max ((M.log2 : Int) + 1 - f.p) (f.emin - E)).toNat, by omega⟩
    obtain ⟨m', hval, -, h2'⟩ := roundDy_round f hp s M E n hn (by omega) hfin
    rw [hval] at h0
    have hm' : m' = 0 := by
      rcases mul_eq_zero.mp h0 with h | h
      · rcases mul_eq_zero.mp h with h | h
        · exact absurd h (sgn_ne_zero s)
        · rcases mul_eq_zero.mp h with h | h
          · exact_mod_cast h
          · exact absurd h (by positivity)
      · exact absurd h (two_zpow_pos E).ne'
    subst hm'
    have h2M : 2 * M ≤ 2 ^ n := by simpa using h2'
    have hlog : 2 ^ M.log2 ≤ M := Nat.log2_self_le hM.ne'
    have hnE : (n : Int) = f.emin - E := by
      by_contra hne
      have hpow : 2 ^ (M.log2 + 1) ≤ 2 ^ n := by rw [Nat.pow_succ]; omega
      have := (Nat.pow_le_pow_iff_right (by norm_num : 1 < 2)).mp hpow
      omega
    have he : (2 : Rat) ^ f.emin = (2 : Rat) ^ n * (2 : Rat) ^ E := by
      rw [← zpow_natCast, ← zpow_add₀ h2, hnE]; congr 1; omega
    have h2Mq : 2 * (M : Rat) ≤ (2 : Rat) ^ n := by exact_mod_cast h2M
    rw [he, ← mul_assoc]
    exact mul_le_mul_of_nonneg_right h2Mq (two_zpow_pos E).le

/-- a zero sum of finite operands: the exact sum is at most half the least subnormal in magnitude
    (it is `0`, or it underflowed) -/
theorem add_isZero_le (hp : 1 ≤ f.p) {x y : Fl} (hx : x.isFinite = true) (hy : y.isFinite = true)
    (hz : (Fl.add f x y).isZero = true) : 2 * |x.toRat + y.toRat| ≤ (2 : Rat) ^ f.emin := by
  cases x with
  | nan => simp [Fl.isFinite] at hx
  | inf s => simp [Fl.isFinite] at hx
  | fin s1 m1 e1 =>
    cases y with
    | nan => simp [Fl.isFinite] at hy
    | inf s => simp [Fl.isFinite] at hy
    | fin s2 m2 e2 =>
      rw [add_fin_eq] at hz
      rw [toRat_add_toRat]
      generalize sval s1 (m1 * 2 ^ (e1 - min e1 e2).toNat) + sval s2 (m2 * 2 ^ (e2 - min e1 e2).toNat)
        = v at hz ⊢
      generalize (if m1 = 0 ∧ m2 = 0 then s1 && s2 else false) = zneg at hz
      unfold roundInt at hz
      by_cases hv : v = 0
      · rw [hv]; simp; exact (two_zpow_pos _).le
      · rw [if_neg hv] at hz
        have h := roundDy_isZero_le f hp _ _ _ (Int.natAbs_pos.mpr hv) hz
        have e : ((v.natAbs : Nat) : Rat) = |(v : Rat)| := by
          rw [Nat.cast_natAbs, Int.cast_abs]
        rwa [abs_mul, abs_of_pos (two_zpow_pos _), ← e]

/-- **Standard model for `fma`, result-based**: finite operands, result finite and normal ⇒ the result
    is one rounding of the exact `x·y + z` -/
theorem fma_approx_normal (hp : 1 ≤ f.p) {x y z : Fl} (hx : x.isFinite = true)
    (hy : y.isFinite = true) (hz : z.isFinite = true)
    (hfin : (Fl.fma f x y z).isFinite = true) (hN : nmin f ≤ |(Fl.fma f x y z).toRat|) :
    Approx (uro f) 1 (Fl.fma f x y z).toRat (x.toRat * y.toRat + z.toRat) := by
  obtain ⟨p, hpf, hpv, he⟩ := fma_eq_add_exact f hx hy hz
  rw [he] at hfin hN ⊢
  rw [← hpv]
  exact add_approx_normal hp hpf hz hfin hN

/-- a finite `fma` of finite operands has exponent `≥ emin` -/
theorem fma_ok {x y z : Fl} (hx : x.isFinite = true) (hy : y.isFinite = true) (hz : z.isFinite = true)
    (hfin : (Fl.fma f x y z).isFinite = true) : Ok f (Fl.fma f x y z) := by
  obtain ⟨p, hpf, -, he⟩ := fma_eq_add_exact f hx hy hz
  rw [he] at hfin ⊢
  exact add_ok_of_finite hpf hz hfin

/-- a zero `fma` of finite operands: `|x·y + z| ≤ 2^emin / 2` -/
theorem fma_isZero_le (hp : 1 ≤ f.p) {x y z : Fl} (hx : x.isFinite = true) (hy : y.isFinite = true)
    (hz : z.isFinite = true) (h0 : (Fl.fma f x y z).isZero = true) :
    2 * |x.toRat * y.toRat + z.toRat| ≤ (2 : Rat) ^ f.emin := by
  obtain ⟨p, hpf, hpv, he⟩ := fma_eq_add_exact f hx hy hz
  rw [he] at h0
  rw [← hpv]
  exact add_isZero_le hp hpf hz h0

/-- `fma` overflows only if `|x·y + z| ≥ MAX + ulp/2` -/
theorem fma_overflow (hf : f.WF) {x y z : Fl} (hx : x.isFinite = true) (hy : y.isFinite = true)
    (hz : z.isFinite = true) (h : (Fl.fma f x y z).isFinite = false) :
    thr2 f ≤ 2 * |x.toRat * y.toRat + z.toRat| := by
  obtain ⟨p, hpf, hpv, he⟩ := fma_eq_add_exact f hx hy hz
  rw [he] at h
  rw [← hpv]
  exact add_overflow hf hpf hz h

/-- `x ⊕ y` for finite operands of any exponent, *exact* sum in the normal range: `(1 + δ)` form -/
theorem add_rel_of_le (hp : 1 ≤ f.p) {x y : Fl} (hx : x.isFinite = true) (hy : y.isFinite = true)
    (hnormal : nmin f ≤ |x.toRat + y.toRat|) (hfin : (Fl.add f x y).isFinite = true) :
    ∃ δ : Rat, (Fl.add f x y).toRat = (x.toRat + y.toRat) * (1 + δ) ∧ |δ| ≤ uro f := by
  cases x with
  | nan => simp [Fl.isFinite] at hx
  | inf s => simp [Fl.isFinite] at hx
  | fin s1 m1 e1 =>
    cases y with
    | nan => simp [Fl.isFinite] at hy
    | inf s => simp [Fl.isFinite] at hy
    | fin s2 m2 e2 =>
      rw [add_fin_eq] at hfin ⊢
      rw [toRat_add_toRat] at hnormal ⊢
      generalize sval s1 (m1 * 2 ^ (e1 - min e1 e2).toNat) + sval s2 (m2 * 2 ^ (e2 - min e1 e2).toNat)
        = v at hfin hnormal ⊢
      generalize (if m1 = 0 ∧ m2 = 0 then s1 && s2 else false) = zneg at hfin ⊢
      unfold roundInt at hfin ⊢
      by_cases hv : v = 0
      · rw [hv] at hnormal; simp at hnormal; linarith [nmin_pos f]
      · rw [if_neg hv] at hfin ⊢
        have e : ((v.natAbs : Nat) : Rat) = |(v : Rat)| := by
          rw [Nat.cast_natAbs, Int.cast_abs]
        rw [abs_mul, abs_of_pos (two_zpow_pos _), ← e] at hnormal
        obtain ⟨δ, hδ, hb⟩ := roundDy_rel_of_le f hp _ _ _ (Int.natAbs_pos.mpr hv) hnormal hfin
        exact ⟨δ, by rw [hδ, sgn_natAbs], hb⟩

/-- **`fma_rel`** (the standard model for `fma`, in the style of `mul_rel` / `add_rel`): finite operands,
    exact `x·y + z` of magnitude at least the least positive normal number, result finite ⇒
    `fma x y z = (x·y + z)(1 + δ)`, `|δ| ≤ 2^-p` -/
theorem fma_rel (hp : 1 ≤ f.p) {x y z : Fl} (hx : x.isFinite = true) (hy : y.isFinite = true)
    (hz : z.isFinite = true) (hnormal : nmin f ≤ |x.toRat * y.toRat + z.toRat|)
    (hfin : (Fl.fma f x y z).isFinite = true) :
    ∃ δ : Rat, (Fl.fma f x y z).toRat = (x.toRat * y.toRat + z.toRat) * (1 + δ) ∧ |δ| ≤ uro f := by
  obtain ⟨p, hpf, hpv, he⟩ := fma_eq_add_exact f hx hy hz
  rw [he] at hfin ⊢
  rw [← hpv] at hnormal ⊢
  exact add_rel_of_le hp hpf hz hnormal hfin

/-! ## B. error arithmetic for `x·â + b̂` with two-rounding approximations `â`, `b̂` -/

/-- two roundings: `|x̂ − x| ≤ ρ₂·|x|`, `ρ₂ = (1−u)^(−2) − 1` -/
theorem approx2_sub_le (hp : 1 ≤ f.p) {xh x : Rat} (h : Approx (uro f) 2 xh x) :
    |xh - x| ≤ ((1 - uro f) ^ (-(2 : ℤ)) - 1) * |x| := by
  simpa using Approx.abs_sub_le' (uro_nonneg f) (uro_lt_one f hp) h

/-- `ρ₁ = (1−u)^(−1) − 1 ≤ 2u` for `u ≤ 1/2` -/
theorem rho1_le {u : Rat} (hu0 : 0 ≤ u) (hu : u ≤ 1 / 2) : (1 - u) ^ (-(1 : ℤ)) - 1 ≤ 2 * u := by
  have hq : 0 < 1 - u := by linarith
  have e : (1 - u) ^ (-(1 : ℤ)) - 1 = u / (1 - u) := by
    rw [zpow_neg, zpow_one, inv_eq_one_div, div_sub_one hq.ne']; ring
  rw [e, div_le_iff₀ hq]
  nlinarith

/-- `(1 + ρ₁)·ρ₂ ≤ 3u` for `u ≤ 1/16` -/
theorem rho1_rho2_le {u : Rat} (hu0 : 0 ≤ u) (hu : u ≤ 1 / 16) :
    (1 + ((1 - u) ^ (-(1 : ℤ)) - 1)) * ((1 - u) ^ (-(2 : ℤ)) - 1) ≤ 3 * u := by
  have hq : 0 < 1 - u := by linarith
  have hq3 : 0 < (1 - u) ^ 3 := pow_pos hq 3
  have e : (1 + ((1 - u) ^ (-(1 : ℤ)) - 1)) * ((1 - u) ^ (-(2 : ℤ)) - 1) =
      (1 - (1 - u) ^ 2) / (1 - u) ^ 3 := by
    rw [zpow_neg, zpow_neg, zpow_one, zpow_ofNat]
    field_simp
    ring
  rw [e, div_le_iff₀ hq3]
  have h3 : 1 - 3 * u ≤ (1 - u) ^ 3 := by nlinarith [mul_nonneg hu0 hu0, mul_nonneg (mul_nonneg hu0 hu0) hq.le]
  have h4 : 0 ≤ u * ((1 - u) ^ 3 - (1 - 3 * u)) := mul_nonneg hu0 (by linarith)
  nlinarith [mul_nonneg hu0 hu0]

/-- the exact sum moves by at most `ρ₂·(|P| + |B|)` when both terms carry two roundings -/
theorem sum_pert_le {ρ Ph P Bh B : Rat} (hP : |Ph - P| ≤ ρ * |P|) (hB : |Bh - B| ≤ ρ * |B|) :
    |(Ph + Bh) - (P + B)| ≤ ρ * (|P| + |B|) := by
  have : (Ph + Bh) - (P + B) = (Ph - P) + (Bh - B) := by ring
  rw [this]
  calc _ ≤ |Ph - P| + |Bh - B| := abs_add_le _ _
    _ ≤ _ := by linarith

/-- one (result-normal) rounding `o` of `S' = P̂ + B̂`: `|o − (P+B)| ≤ u·(3|P| + 3|B| + 2|P+B|)` -/
theorem fma_normal_arith (h4 : 4 ≤ f.p) {o Ph P Bh B : Rat}
    (ho : Approx (uro f) 1 o (Ph + Bh))
    (hP : |Ph - P| ≤ ((1 - uro f) ^ (-(2 : ℤ)) - 1) * |P|)
    (hB : |Bh - B| ≤ ((1 - uro f) ^ (-(2 : ℤ)) - 1) * |B|) :
    |o - (P + B)| ≤ uro f * (3 * |P| + 3 * |B| + 2 * |P + B|) := by
  have hp : 1 ≤ f.p := by omega
  have hu0 := uro_nonneg f
  have hu1 := uro_lt_one f hp
  have hu := uro_le_sixteenth h4
  have h1 : |o - (Ph + Bh)| ≤ ((1 - uro f) ^ (-(1 : ℤ)) - 1) * |Ph + Bh| := by
    simpa using Approx.abs_sub_le' hu0 hu1 ho
  have hD := sum_pert_le hP hB
  set ρ1 := (1 - uro f) ^ (-(1 : ℤ)) - 1 with hρ1
  set ρ2 := (1 - uro f) ^ (-(2 : ℤ)) - 1 with hρ2
  have hr1 : ρ1 ≤ 2 * uro f := rho1_le hu0 (by linarith)
  have hr12 : (1 + ρ1) * ρ2 ≤ 3 * uro f := rho1_rho2_le hu0 hu
  have hρ1n : 0 ≤ ρ1 := by
    have hq : 0 < 1 - uro f := by linarith
    rw [hρ1, zpow_neg, zpow_one, sub_nonneg, ← one_div, le_div_iff₀ hq]; linarith
  set S' := Ph + Bh
  set S := P + B
  set W := |P| + |B| with hW
  have hW0 : 0 ≤ W := add_nonneg (abs_nonneg _) (abs_nonneg _)
  have hS' : |S'| ≤ |S| + |S' - S| := by
    have : S' = S + (S' - S) := by ring
    conv_lhs => rw [this]
    exact abs_add_le _ _
  have htri : |o - S| ≤ |o - S'| + |S' - S| := by
    have : o - S = (o - S') + (S' - S) := by ring
    rw [this]; exact abs_add_le _ _
  have ha : ρ1 * |S'| ≤ ρ1 * (|S| + |S' - S|) := mul_le_mul_of_nonneg_left hS' hρ1n
  have hb : (1 + ρ1) * |S' - S| ≤ (1 + ρ1) * (ρ2 * W) :=
    mul_le_mul_of_nonneg_left hD (by linarith)
  have hc : (1 + ρ1) * (ρ2 * W) ≤ 3 * uro f * W := by
    rw [← mul_assoc]; exact mul_le_mul_of_nonneg_right hr12 hW0
  have hd : ρ1 * |S| ≤ 2 * uro f * |S| := mul_le_mul_of_nonneg_right hr1 (abs_nonneg _)
  calc |o - S| ≤ ρ1 * |S| + (1 + ρ1) * |S' - S| := by nlinarith
    _ ≤ 2 * uro f * |S| + 3 * uro f * W := by linarith
    _ = _ := by rw [hW]; ring

/-- a zero result: `2|P+B| ≤ 2·u·(3|P| + 3|B| + …) + 2^emin` -/
theorem fma_zero_arith (h4 : 4 ≤ f.p) {Ph P Bh B m : Rat}
    (h0 : 2 * |Ph + Bh| ≤ m)
    (hP : |Ph - P| ≤ ((1 - uro f) ^ (-(2 : ℤ)) - 1) * |P|)
    (hB : |Bh - B| ≤ ((1 - uro f) ^ (-(2 : ℤ)) - 1) * |B|) :
    2 * |P + B| ≤ 2 * (uro f * (3 * |P| + 3 * |B| + 2 * |P + B|)) + m := by
  have hu0 := uro_nonneg f
  have hu := uro_le_sixteenth h4
  have hD := sum_pert_le hP hB
  have h3 := rho2_le hu0 (by linarith : uro f ≤ 1 / 5)
  have hW0 : 0 ≤ |P| + |B| := add_nonneg (abs_nonneg _) (abs_nonneg _)
  have hD' : |(Ph + Bh) - (P + B)| ≤ 3 * uro f * (|P| + |B|) :=
    le_trans hD (mul_le_mul_of_nonneg_right h3 hW0)
  have hS : |P + B| ≤ |Ph + Bh| + |(Ph + Bh) - (P + B)| := by
    have : P + B = (Ph + Bh) + -((Ph + Bh) - (P + B)) := by ring
    conv_lhs => rw [this]
    exact le_trans (abs_add_le _ _) (by rw [abs_neg])
  have h5 := mul_nonneg hu0 (abs_nonneg (P + B))
  nlinarith

/-! ## C. the shape of `oracleMulAdd` -/

/-- `oracleMulAdd` past its three guards (non-finite inputs, `change_base` out of range, non-finite
    observation) -/
def mulAddCore (f : Fmt) (la ra lb rb x a b obs : Fl) : Verdict :=
  let u := Uom.uro f
  let P := x.toRat * (a.toRat * ra.toRat / la.toRat)
  let B := b.toRat * rb.toRat / lb.toRat
  let tol := u * (3 * ratAbs P + 3 * ratAbs B + 2 * ratAbs (P + B))
  if !(Fl.isNormal f obs) && !(obs.isZero) then .guard "overflow/underflow"
  else if ratAbs (obs.toRat - (P + B)) ≤ tol then .pass
  else if obs.isZero && 2 * ratAbs (P + B) ≤ 2 * tol + Fl.toRat (Fl.fin false 1 f.emin) then
    .guard "overflow/underflow"
  else .fail "mul_add is more than a few u away from x·a + b in the base units of x"

theorem oracleMulAdd_eq (f : Fmt) (la ra lb rb x a b obs : Fl) :
    oracleMulAdd f la ra lb rb x a b obs =
      if (!(x.isFinite && a.isFinite && b.isFinite && la.isFinite && ra.isFinite && lb.isFinite
            && rb.isFinite) || la.isZero || ra.isZero || lb.isZero || rb.isZero) = true then
        .guard "non-finite"
      else if (!(changeBaseNormal f la ra a && changeBaseNormal f lb rb b)) = true then
        .guard "overflow/underflow"
      else if (!obs.isFinite) = true then .guard "overflow/underflow"
      else mulAddCore f la ra lb rb x a b obs := rfl

theorem toRat_minSub (f : Fmt) : Fl.toRat (Fl.fin false 1 f.emin) = (2 : Rat) ^ f.emin := by
  rw [toRat_fin]; simp [sgn]

/-- the core only rejects a normal observation outside the tolerance, or a zero observation whose
    exact value is more than the tolerance away from half the least subnormal -/
theorem mulAddCore_not_fail {la ra lb rb x a b obs : Fl}
    (hN : Fl.isNormal f obs = true →
      |obs.toRat - (x.toRat * (a.toRat * ra.toRat / la.toRat) + b.toRat * rb.toRat / lb.toRat)| ≤
        uro f * (3 * |x.toRat * (a.toRat * ra.toRat / la.toRat)| + 3 * |b.toRat * rb.toRat / lb.toRat|
          + 2 * |x.toRat * (a.toRat * ra.toRat / la.toRat) + b.toRat * rb.toRat / lb.toRat|))
    (hZ : obs.isZero = true →
      2 * |x.toRat * (a.toRat * ra.toRat / la.toRat) + b.toRat * rb.toRat / lb.toRat| ≤
        2 * (uro f * (3 * |x.toRat * (a.toRat * ra.toRat / la.toRat)| + 3 * |b.toRat * rb.toRat / lb.toRat|
          + 2 * |x.toRat * (a.toRat * ra.toRat / la.toRat) + b.toRat * rb.toRat / lb.toRat|))
          + (2 : Rat) ^ f.emin)
    (why : String) : mulAddCore f la ra lb rb x a b obs ≠ .fail why := by
  intro h
  simp only [mulAddCore, oracle_ratAbs_eq, oracle_uro_eq, toRat_minSub] at h
  split at h
  · cases h
  · next hg =>
    split at h
    · cases h
    · next htol =>
      split at h
      · cases h
      · next hzc =>
        cases hn : Fl.isNormal f obs with
        | true => exact htol (hN hn)
        | false =>
          cases hz : obs.isZero with
          | true =>
            apply hzc
            simp only [hz, Bool.true_and, decide_eq_true_eq]
            exact hZ hz
          | false => simp [hn, hz] at hg

/-! ## D. `oracleMulAdd` never rejects the model's own `mul_add` -/

/-- **`oracleMulAdd` soundness.**  For every well-formed format with `p ≥ 4` and all operands, the
    oracle evaluated on the model's result `mulAddOn … = fma x (change_base a) (change_base b)` does not
    answer `fail`.  (No finiteness / canonical-form hypotheses: non-finite operands and zero base
    factors are guarded by the oracle itself; the `fma` rounding lemmas are result-based.) -/
theorem oracleMulAdd_sound (hf : f.WF) (h4 : 4 ≤ f.p) (la ra lb rb x a b : Fl) (why : String) :
    oracleMulAdd f la ra lb rb x a b (mulAddOn f la ra lb rb x a b) ≠ .fail why := by
  have hp : 1 ≤ f.p := by omega
  rw [oracleMulAdd_eq]
  split
  · intro h; cases h
  · next hg1 =>
    split
    · intro h; cases h
    · next hg2 =>
      split
      · intro h; cases h
      · next hg3 =>
        simp only [Bool.or_eq_true, Bool.and_eq_true, Bool.not_eq_true', not_or, Bool.not_eq_false,
          Bool.not_eq_true] at hg1 hg2 hg3
        obtain ⟨⟨⟨⟨⟨⟨⟨⟨⟨⟨hx, ha⟩, hb⟩, hla⟩, hra⟩, hlb⟩, hrb⟩, -⟩, -⟩, -⟩, -⟩ := hg1
        obtain ⟨hga, hgb⟩ := hg2
        have HA := changeBaseOkR_of_guard hf ha hla hra hga
        have HB := changeBaseOkR_of_guard hf hb hlb hrb hgb
        obtain ⟨hsa, hoka⟩ := changeBase_flS_approx_R hp HA
        obtain ⟨hsb, hokb⟩ := changeBase_flS_approx_R hp HB
        have hP := approx2_sub_le hp
          (Approx.mul (uro_nonneg f) (uro_lt_one f hp) (Approx.refl x.toRat) hsa)
        have hB := approx2_sub_le hp hsb
        have hobsfin : (mulAddOn f la ra lb rb x a b).isFinite = true := hg3
        unfold mulAddOn at hobsfin ⊢
        refine mulAddCore_not_fail (fun hn => ?_) (fun hz => ?_) why
        · have hok := fma_ok hx hoka.isFinite hokb.isFinite hobsfin
          have hN := nmin_le_of_isNormal hp hok hn
          exact fma_normal_arith h4 (fma_approx_normal hp hx hoka.isFinite hokb.isFinite hobsfin hN) hP hB
        · exact fma_zero_arith h4 (fma_isZero_le hp hx hoka.isFinite hokb.isFinite hz) hP hB

/-- binary32 / binary64 instances -/
theorem oracleMulAdd_sound_f32 (la ra lb rb x a b : Fl) (why : String) :
    oracleMulAdd b32 la ra lb rb x a b (mulAddOn b32 la ra lb rb x a b) ≠ .fail why :=
  oracleMulAdd_sound b32_wf (by decide) la ra lb rb x a b why

theorem oracleMulAdd_sound_f64 (la ra lb rb x a b : Fl) (why : String) :
    oracleMulAdd b64 la ra lb rb x a b (mulAddOn b64 la ra lb rb x a b) ≠ .fail why :=
  oracleMulAdd_sound b64_wf (by decide) la ra lb rb x a b why

/-! ## E. history: without the zero-result clause the oracle rejected the model

A relative tolerance `u·(3|P| + 3|B| + 2|P+B|)` cannot cover an underflow of `x·a + b` to zero: with a
zero stored addend, `|0 − P| = |P|` is never within `5u·|P|`. -/

/-- the oracle as it was before the zero-result clause was added (verbatim otherwise) -/
def oracleMulAddOld (f : Fmt) (la ra lb rb x a b obs : Fl) : Verdict :=
  if !(x.isFinite && a.isFinite && b.isFinite && la.isFinite && ra.isFinite && lb.isFinite && rb.isFinite)
      || la.isZero || ra.isZero || lb.isZero || rb.isZero then .guard "non-finite"
  else if !(changeBaseNormal f la ra a && changeBaseNormal f lb rb b) then .guard "overflow/underflow"
  else if !obs.isFinite then .guard "overflow/underflow"
  else
    let u := Uom.uro f
    let P := x.toRat * (a.toRat * ra.toRat / la.toRat)
    let B := b.toRat * rb.toRat / lb.toRat
    let tol := u * (3 * ratAbs P + 3 * ratAbs B + 2 * ratAbs (P + B))
    if !(Fl.isNormal f obs) && !(obs.isZero) then .guard "overflow/underflow"
    else if ratAbs (obs.toRat - (P + B)) ≤ tol then .pass
    else .fail "mul_add is more than a few u away from x·a + b in the base units of x"

/-- binary32 witness: identical base units (`l = r = 1`), `x = 2^-149` (least subnormal),
    `a = 2^-126` (least normal), `b = +0`: `x·a + b = 2^-275` underflows to `+0` -/
structure MadCase where
  l : Fl
  x : Fl
  a : Fl
  b : Fl

def cexMad : MadCase where
  l := Fl.one b32
  x := Fl.fin false 1 (-149)
  a := Fl.fin false (2 ^ 23) (-149)
  b := Fl.fin false 0 (-149)

theorem cexMad_canonical :
    Canonical b32 cexMad.l ∧ Canonical b32 cexMad.x ∧ Canonical b32 cexMad.a ∧ Canonical b32 cexMad.b :=
  ⟨Or.inl (by decide), Or.inr (by decide), Or.inl (by decide), Or.inr (by decide)⟩

/-- **the model's `+0` was rejected by the oracle without the zero-result clause** … -/
theorem oracleMulAddOld_rejects_underflow :
    mulAddOn b32 cexMad.l cexMad.l cexMad.l cexMad.l cexMad.x cexMad.a cexMad.b = Fl.fin false 0 (-149) ∧
    ∃ why, oracleMulAddOld b32 cexMad.l cexMad.l cexMad.l cexMad.l cexMad.x cexMad.a cexMad.b
      (Fl.fin false 0 (-149)) = .fail why := by
  constructor
  · decide +kernel
  · exact exists_of_isFail (by decide +kernel)

def isGuard : Verdict → Bool
  | .guard _ => true
  | _ => false

/-- … and the present oracle answers `guard` on it -/
theorem oracleMulAdd_guards_underflow :
    isGuard (oracleMulAdd b32 cexMad.l cexMad.l cexMad.l cexMad.l cexMad.x cexMad.a cexMad.b
      (mulAddOn b32 cexMad.l cexMad.l cexMad.l cexMad.l cexMad.x cexMad.a cexMad.b)) = true := by
  decide +kernel

/-- the added clause only turns some rejections of a zero observation into `guard`: whatever the
    present oracle rejects, the old one rejected too -/
theorem oracleMulAdd_fail_imp_old {la ra lb rb x a b obs : Fl} {why : String}
    (h : oracleMulAdd f la ra lb rb x a b obs = .fail why) :
    oracleMulAddOld f la ra lb rb x a b obs = .fail why := by
  unfold oracleMulAdd at h
  unfold oracleMulAddOld
  split at h
  · cases h
  · next hg1 =>
    rw [if_neg hg1]
    split at h
    · cases h
    · next hg2 =>
      rw [if_neg hg2]
      split at h
      · cases h
      · next hg3 =>
        rw [if_neg hg3]
        simp only at h ⊢
        split at h
        · cases h
        · next hg4 =>
          rw [if_neg hg4]
          split at h
          · cases h
          · next hg5 =>
            rw [if_neg hg5]
            split at h
            · cases h
            · exact h

/-! # Part II. `oracleRounding` (C16, the bracketing oracle for `floor/ceil/round/trunc` in a unit)

The model's value for a `rnd` line is `roundInUnit (flS c.fmt) op … = new(op(get(v)))`
(`toBase … (op (fromBase … v))`).  The oracle reads the observed stored value back in the unit
*exactly* (`r`), and wants (1) `r` within `8u·(|n| + k)` of its nearest integer `n` and (2) `r` on the
correct side of the exact original `x`, up to `8u·(|x| + k + 1)`.  Both follow from
`|r − N| ≤ ρ₃·(|N| + k)` (three roundings of `new`, `N` the integer `op` returns) and
`|G − x| ≤ ρ₂(1+u)·(|x| + k) + u·|x|` (`G = get(v)`), with `ρ₃ ≤ 3.5u`, `ρ₂(1+u) + u ≤ 3.5u` for `p ≥ 4`. -/

/-! ## F. rational arithmetic behind the two checks -/

theorem rfloor_le (a : Rat) : ((a.floor : Int) : Rat) ≤ a := Rat.le_floor_iff.mp (le_refl _)

theorem lt_rfloor_add_one (a : Rat) : a < ((a.floor : Int) : Rat) + 1 := by
  have := Rat.floor_lt_iff.mp (Int.lt_add_one_iff.mpr (le_refl a.floor))
  push_cast at this; exact this

/-- `ratNearest r` is an integer at least as close to `r` as any other -/
theorem nearest_le (r : Rat) (N : Int) : |r - ((ratNearest r : Int) : Rat)| ≤ |r - (N : Rat)| := by
  unfold ratNearest
  have h1 := rfloor_le (r + 1 / 2)
  have h2 := lt_rfloor_add_one (r + 1 / 2)
  set n := (r + 1 / 2).floor with hn
  have hn1 : |r - (n : Rat)| ≤ 1 / 2 := by rw [abs_le]; constructor <;> linarith
  rcases lt_trichotomy N n with h | h | h
  · have : (N : Rat) + 1 ≤ (n : Rat) := by exact_mod_cast h
    have : 1 / 2 ≤ r - (N : Rat) := by linarith
    exact le_trans hn1 (le_trans this (le_abs_self _))
  · rw [h]
  · have : (n : Rat) + 1 ≤ (N : Rat) := by exact_mod_cast h
    have : 1 / 2 ≤ -(r - (N : Rat)) := by linarith
    exact le_trans hn1 (le_trans this (neg_le_abs _))

/-- check (1): `r` within `3.5u·(|N| + k)` of an integer `N` is within `8u·(|n| + k)` of its nearest
    integer `n` -/
theorem nearest_check {u r k : Rat} {N : Int} (hu0 : 0 ≤ u) (hu : u ≤ 1 / 16) (hk : 0 ≤ k)
    (hA : |r - (N : Rat)| ≤ 7 / 2 * u * (|(N : Rat)| + k)) :
    |r - ((ratNearest r : Int) : Rat)| ≤ 8 * u * (|((ratNearest r : Int) : Rat)| + k) := by
  have h1 := nearest_le r N
  set n : Rat := ((ratNearest r : Int) : Rat) with hn
  set W := |(N : Rat)| + k with hW
  have hW0 : 0 ≤ W := add_nonneg (abs_nonneg _) hk
  have hNn : |(N : Rat) - n| ≤ 7 * u * W := by
    have : (N : Rat) - n = -(r - (N : Rat)) + (r - n) := by ring
    rw [this]
    calc _ ≤ |-(r - (N : Rat))| + |r - n| := abs_add_le _ _
      _ ≤ _ := by rw [abs_neg]; linarith
  have hNabs : |(N : Rat)| ≤ |n| + |(N : Rat) - n| := by
    have : (N : Rat) = n + ((N : Rat) - n) := by ring
    conv_lhs => rw [this]
    exact abs_add_le _ _
  have huW : 0 ≤ u * W := mul_nonneg hu0 hW0
  -- `W ≤ |n| + k + 7uW`, `7u ≤ 7/16`
  have hW' : W ≤ |n| + k + 7 * u * W := by rw [hW]; linarith
  have h7 : 7 * u * W ≤ 7 / 16 * W := by nlinarith
  have h9 : 9 / 16 * W ≤ |n| + k := by linarith
  calc |r - n| ≤ 7 / 2 * u * W := le_trans h1 hA
    _ = 56 / 9 * u * (9 / 16 * W) := by ring
    _ ≤ 56 / 9 * u * (|n| + k) := mul_le_mul_of_nonneg_left h9 (by linarith)
    _ ≤ 8 * u * (|n| + k) := by
        have : 0 ≤ u * (|n| + k) := mul_nonneg hu0 (by linarith)
        nlinarith

/-- check (2), common part: the two error terms together stay below the oracle's `tol` -/
theorem side_budget {u r x G k : Rat} {N : Int} (hu0 : 0 ≤ u) (hu : u ≤ 1 / 16) (hk : 0 ≤ k)
    (hA : |r - (N : Rat)| ≤ 7 / 2 * u * (|(N : Rat)| + k))
    (hB : |G - x| ≤ 7 / 2 * u * (|x| + k))
    (hNG : |(N : Rat)| ≤ |G| + 1) :
    |r - (N : Rat)| + |G - x| ≤ 8 * u * (|x| + k + 1) := by
  set X := |x| + k with hX
  have hX0 : 0 ≤ X := add_nonneg (abs_nonneg _) hk
  have hG : |G| ≤ |x| + |G - x| := by
    have : G = x + (G - x) := by ring
    conv_lhs => rw [this]
    exact abs_add_le _ _
  have hN : |(N : Rat)| + k ≤ X + 7 / 2 * u * X + 1 := by rw [hX]; linarith
  have huX : 0 ≤ u * X := mul_nonneg hu0 hX0
  have hA' : |r - (N : Rat)| ≤ 7 / 2 * u * (X + 7 / 2 * u * X + 1) :=
    le_trans hA (mul_le_mul_of_nonneg_left hN (by linarith))
  have huu : u * (u * X) ≤ 1 / 16 * (u * X) := mul_le_mul_of_nonneg_right hu huX
  nlinarith

/-- `ρ₃ ≤ 3.5u` for `u ≤ 1/16` -/
theorem rho3_le {u : Rat} (hu0 : 0 ≤ u) (hu : u ≤ 1 / 16) : (1 - u) ^ (-(3 : ℤ)) - 1 ≤ 7 / 2 * u := by
  have hq : 0 < (1 - u) ^ 3 := pow_pos (by linarith) 3
  have hd : 0 ≤ 1 / 16 - u := by linarith
  have key : 1 - (1 - u) ^ 3 ≤ 7 / 2 * u * (1 - u) ^ 3 := by
    have e : (1 - u) ^ 3 = 1 - 3 * u + 3 * u ^ 2 - u ^ 3 := by ring
    rw [e]
    nlinarith [mul_nonneg hu0 hd, mul_nonneg (mul_nonneg hu0 hu0) hd, pow_nonneg hu0 3, pow_nonneg hu0 4,
      mul_nonneg (pow_nonneg hu0 3) hd]
  have e : (1 - u) ^ (-(3 : ℤ)) - 1 = (1 - (1 - u) ^ 3) / (1 - u) ^ 3 := by
    rw [zpow_neg, zpow_ofNat, inv_eq_one_div, div_sub_one hq.ne']
  rw [e, div_le_iff₀ hq]; exact key

/-- `ρ₂·(1+u) ≤ 2.5u` for `u ≤ 1/16` -/
theorem rho2_mul_le' {u : Rat} (hu0 : 0 ≤ u) (hu : u ≤ 1 / 16) :
    ((1 - u) ^ (-(2 : ℤ)) - 1) * (1 + u) ≤ 5 / 2 * u := by
  have hq : 0 < (1 - u) ^ 2 := pow_pos (by linarith) 2
  have hd : 0 ≤ 1 / 16 - u := by linarith
  have key : (1 - (1 - u) ^ 2) * (1 + u) ≤ 5 / 2 * u * (1 - u) ^ 2 := by
    nlinarith [mul_nonneg hu0 hd, mul_nonneg (mul_nonneg hu0 hu0) hd, pow_nonneg hu0 3]
  have e : (1 - u) ^ (-(2 : ℤ)) - 1 = (1 - (1 - u) ^ 2) / (1 - u) ^ 2 := by
    rw [zpow_neg, zpow_ofNat, inv_eq_one_div, div_sub_one hq.ne']
  rw [e, div_mul_eq_mul_div, div_le_iff₀ hq]; exact key

/-! ## G. the shape of `oracleRounding` -/

/-- `oracleRounding` with the integer-rounding step `opF` and the side check abstracted -/
def roundingCore (c : ConvCase) (opF : Fl → Fl) (side : Rat → Rat → Rat → Bool) (obs : Fl) : Verdict :=
  let S := flS c.fmt
  let f := baseFactor S c.pows
  if !(c.v.isFinite && c.coef.isFinite && f.isFinite) || c.coef.isZero || f.isZero then .guard "non-finite"
  else
    let g := fromBase S c.coef c.consS f c.v
    if !(fromBaseNormal c f) || !g.isFinite then .guard "overflow/underflow"
    else
      let gi := opF g
      if !(toBaseNormal { c with v := gi } f) then .guard "overflow/underflow"
      else if !obs.isFinite then .fail "non-finite result"
      else
        let u := Uom.uro c.fmt
        let k := ratAbs c.consS.toRat
        let x := c.v.toRat * f.toRat / c.coef.toRat - c.consS.toRat
        let r := obs.toRat * f.toRat / c.coef.toRat - c.consS.toRat
        let n : Rat := (ratNearest r : Int)
        let tol := 8 * u * (ratAbs x + k + 1)
        if ratAbs (r - n) > 8 * u * (ratAbs n + k) then .fail "result read back in the unit is not an integer within 8u"
        else
          if side x r tol then .pass else .fail "result does not bracket the original on the correct side"

theorem oracleRounding_zero (c : ConvCase) (obs : Fl) :
    oracleRounding c 0 obs = roundingCore c (Fl.floor c.fmt)
      (fun x r tol => decide (r ≤ x + tol) && decide (x - 1 - tol < r)) obs := rfl
theorem oracleRounding_one (c : ConvCase) (obs : Fl) :
    oracleRounding c 1 obs = roundingCore c (Fl.ceil c.fmt)
      (fun x r tol => decide (x - tol ≤ r) && decide (r < x + 1 + tol)) obs := rfl
theorem oracleRounding_two (c : ConvCase) (obs : Fl) :
    oracleRounding c 2 obs = roundingCore c (Fl.round c.fmt)
      (fun x r tol => decide (ratAbs (r - x) ≤ 1 / 2 + tol)) obs := rfl
theorem oracleRounding_three (c : ConvCase) (obs : Fl) :
    oracleRounding c 3 obs = roundingCore c (Fl.trunc c.fmt)
      (fun x r tol => decide (ratAbs r ≤ ratAbs x + tol) && decide (ratAbs x - 1 - tol < ratAbs r)) obs := rfl

/-- exact value of the original in the unit -/
def rndX (c : ConvCase) : Rat :=
  c.v.toRat * Fl.toRat (baseFactor (flS c.fmt) c.pows) / c.coef.toRat - c.consS.toRat

/-- exact value of a stored result read back in the unit -/
def rndR (c : ConvCase) (obs : Fl) : Rat :=
  obs.toRat * Fl.toRat (baseFactor (flS c.fmt) c.pows) / c.coef.toRat - c.consS.toRat

def rndTol (c : ConvCase) : Rat := 8 * Proofs.uro c.fmt * (|rndX c| + |c.consS.toRat| + 1)

/-- the core only rejects a non-finite result, a read-back value far from its nearest integer, or a
    violated side check -/
theorem roundingCore_not_fail (c : ConvCase) (opF : Fl → Fl) (side : Rat → Rat → Rat → Bool) (obs : Fl)
    (hgen : c.v.isFinite = true → c.coef.isFinite = true →
      Fl.isFinite (baseFactor (flS c.fmt) c.pows) = true → c.coef.isZero = false →
      Fl.isZero (baseFactor (flS c.fmt) c.pows) = false →
      fromBaseNormal c (baseFactor (flS c.fmt) c.pows) = true →
      Fl.isFinite (fromBase (flS c.fmt) c.coef c.consS (baseFactor (flS c.fmt) c.pows) c.v) = true →
      toBaseNormal { c with v := opF (fromBase (flS c.fmt) c.coef c.consS (baseFactor (flS c.fmt) c.pows) c.v) }
        (baseFactor (flS c.fmt) c.pows) = true →
      obs.isFinite = true ∧
        |rndR c obs - ((ratNearest (rndR c obs) : Int) : Rat)| ≤
          8 * Proofs.uro c.fmt * (|((ratNearest (rndR c obs) : Int) : Rat)| + |c.consS.toRat|) ∧
        side (rndX c) (rndR c obs) (rndTol c) = true)
    (why : String) : roundingCore c opF side obs ≠ .fail why := by
  intro h
  unfold roundingCore at h
  simp only [oracle_ratAbs_eq, oracle_uro_eq] at h
  split at h
  · cases h
  · next hg1 =>
    split at h
    · cases h
    · next hg2 =>
      split at h
      · cases h
      · next hg3 =>
        simp only [Bool.or_eq_true, Bool.and_eq_true, Bool.not_eq_true', not_or, Bool.not_eq_false,
          Bool.not_eq_true] at hg1 hg2 hg3
        obtain ⟨⟨⟨⟨hv, hc⟩, hfa⟩, hc0⟩, hf0⟩ := hg1
        obtain ⟨hfin, hnear, hside⟩ := hgen hv hc hfa hc0 hf0 hg2.1 hg2.2 hg3
        split at h
        · next hnf => rw [hfin] at hnf; exact absurd hnf (by decide)
        · split at h
          · next hgt => exact absurd hnear (not_le.mpr hgt)
          · split at h
            · cases h
            · next hs => exact hs hside

/-! ## H. the model's `new(op(get(v)))` under the oracle's own guards -/

/-- generic step.  `gi` is what the integer rounding returns on `g = get(v)`: a float with exponent
    `≥ emin` whose value is the integer `N`, `|N| ≤ |g| + 1`.  Then `new(gi)` is finite, its read-back
    value passes the nearest-integer check, and the two error terms stay within the side tolerance. -/
theorem rounding_step (c : ConvCase) (hf : c.fmt.WF) (h4 : 4 ≤ c.fmt.p)
    (hcA : Canonical c.fmt c.consA) (hcS : Canonical c.fmt c.consS)
    (hcc : c.consA.toRat = c.consS.toRat) (gi : Fl) (N : Int)
    (hgiok : Ok c.fmt gi) (hgival : gi.toRat = (N : Rat))
    (hNG : |(N : Rat)| ≤
      |Fl.toRat (fromBase (flS c.fmt) c.coef c.consS (baseFactor (flS c.fmt) c.pows) c.v)| + 1)
    (hvf : c.v.isFinite = true) (hcf : c.coef.isFinite = true)
    (hff : Fl.isFinite (baseFactor (flS c.fmt) c.pows) = true) (hc0 : c.coef.isZero = false)
    (hf0 : Fl.isZero (baseFactor (flS c.fmt) c.pows) = false)
    (hgF : fromBaseNormal c (baseFactor (flS c.fmt) c.pows) = true)
    (hgT : toBaseNormal { c with v := gi } (baseFactor (flS c.fmt) c.pows) = true) :
    Fl.isFinite (toBase (flS c.fmt) c.coef c.consA (baseFactor (flS c.fmt) c.pows) gi) = true ∧
      |rndR c (toBase (flS c.fmt) c.coef c.consA (baseFactor (flS c.fmt) c.pows) gi) -
          ((ratNearest (rndR c (toBase (flS c.fmt) c.coef c.consA (baseFactor (flS c.fmt) c.pows) gi)) : Int) : Rat)| ≤
        8 * Proofs.uro c.fmt *
          (|((ratNearest (rndR c (toBase (flS c.fmt) c.coef c.consA (baseFactor (flS c.fmt) c.pows) gi)) : Int) : Rat)|
            + |c.consS.toRat|) ∧
      |rndR c (toBase (flS c.fmt) c.coef c.consA (baseFactor (flS c.fmt) c.pows) gi) - (N : Rat)| +
          |Fl.toRat (fromBase (flS c.fmt) c.coef c.consS (baseFactor (flS c.fmt) c.pows) c.v) - rndX c| ≤
        rndTol c := by
  have hp : 1 ≤ c.fmt.p := by omega
  have hu0 := uro_nonneg c.fmt
  have hu1 := uro_lt_one c.fmt hp
  have hu := uro_le_sixteenth h4
  set fac := baseFactor (flS c.fmt) c.pows with hfac
  have hC0 : c.coef.toRat ≠ 0 := toRat_ne_zero hcf hc0
  have hF0 : fac.toRat ≠ 0 := toRat_ne_zero hff hf0
  have hk0 : 0 ≤ |c.consS.toRat| := abs_nonneg _
  -- `get`
  obtain ⟨H, hfin⟩ := fromBaseOkR_of_guard c fac hf hvf hcf hff hgF
  have hcSfin : c.consS.isFinite = true := by
    rw [fromBase_flS_eq] at hfin; exact sub_isFinite_right hfin
  have hokS := ok_of_canonical hcS hcSfin
  obtain ⟨hs, hsok⟩ := fromBaseScaledF_approx_R hp H
  have hB0 : |Fl.toRat (fromBase (flS c.fmt) c.coef c.consS fac c.v) - rndX c| ≤
      7 / 2 * Proofs.uro c.fmt * (|rndX c| + |c.consS.toRat|) := by
    rw [fromBase_flS_eq] at hfin ⊢
    have h := sub_abs_le_of_approx hp hs hsok hokS hfin
    simp only [Nat.cast_ofNat] at h
    unfold rndX
    rw [← hfac]
    set y := c.v.toRat * fac.toRat / c.coef.toRat with hy
    have h3 := rho2_mul_le' hu0 hu
    have hy' : |y| ≤ |y - c.consS.toRat| + |c.consS.toRat| := by
      have : y = (y - c.consS.toRat) + c.consS.toRat := by ring
      conv_lhs => rw [this]
      exact abs_add_le _ _
    have hB : ((1 - Proofs.uro c.fmt) ^ (-(2 : ℤ)) - 1) * |y| * (1 + Proofs.uro c.fmt) ≤
        5 / 2 * Proofs.uro c.fmt * |y| := by
      calc _ = ((1 - Proofs.uro c.fmt) ^ (-(2 : ℤ)) - 1) * (1 + Proofs.uro c.fmt) * |y| := by ring
        _ ≤ _ := mul_le_mul_of_nonneg_right h3 (abs_nonneg _)
    have hB' : 5 / 2 * Proofs.uro c.fmt * |y| ≤
        5 / 2 * Proofs.uro c.fmt * (|y - c.consS.toRat| + |c.consS.toRat|) :=
      mul_le_mul_of_nonneg_left hy' (by linarith)
    have := mul_nonneg hu0 hk0
    calc _ ≤ _ := h
      _ ≤ _ := by nlinarith
  -- `new`
  have H' := toBaseOkR_of_guard { c with v := gi } fac hf hgiok hcA hcf hc0 hff hf0 hgT
  obtain ⟨hap, hok'⟩ := toBase_flS_approx_R hp H'
  have hap' : Approx (Proofs.uro c.fmt) 3
      (Fl.toRat (toBase (flS c.fmt) c.coef c.consA fac gi))
      ((gi.toRat + c.consA.toRat) * c.coef.toRat / fac.toRat) := hap
  have hCq : Approx (Proofs.uro c.fmt) (3 + 0 + 0)
      (Fl.toRat (toBase (flS c.fmt) c.coef c.consA fac gi) * fac.toRat / c.coef.toRat)
      ((gi.toRat + c.consA.toRat) * c.coef.toRat / fac.toRat * fac.toRat / c.coef.toRat) :=
    Approx.div hu0 hu1 (Approx.mul hu0 hu1 hap' (Approx.refl _)) (Approx.refl _)
  have e : (gi.toRat + c.consA.toRat) * c.coef.toRat / fac.toRat * fac.toRat / c.coef.toRat =
      (N : Rat) + c.consS.toRat := by rw [hgival, hcc]; field_simp
  rw [e] at hCq
  have hA1 := Approx.abs_sub_le' hu0 hu1 hCq
  simp only [Nat.cast_ofNat, add_zero] at hA1
  have hA0 : |rndR c (toBase (flS c.fmt) c.coef c.consA fac gi) - (N : Rat)| ≤
      7 / 2 * Proofs.uro c.fmt * (|(N : Rat)| + |c.consS.toRat|) := by
    unfold rndR
    rw [← hfac]
    have e2 : Fl.toRat (toBase (flS c.fmt) c.coef c.consA fac gi) * fac.toRat / c.coef.toRat
        - c.consS.toRat - (N : Rat) =
        Fl.toRat (toBase (flS c.fmt) c.coef c.consA fac gi) * fac.toRat / c.coef.toRat
          - ((N : Rat) + c.consS.toRat) := by ring
    rw [e2]
    have h3 := rho3_le hu0 hu
    have htri : |(N : Rat) + c.consS.toRat| ≤ |(N : Rat)| + |c.consS.toRat| := abs_add_le _ _
    calc _ ≤ _ := hA1
      _ ≤ 7 / 2 * Proofs.uro c.fmt * |(N : Rat) + c.consS.toRat| :=
          mul_le_mul_of_nonneg_right h3 (abs_nonneg _)
      _ ≤ _ := mul_le_mul_of_nonneg_left htri (by linarith)
  refine ⟨hok'.isFinite, nearest_check hu0 hu hk0 hA0, ?_⟩
  unfold rndTol
  exact side_budget hu0 hu hk0 hA0 hB0 hNG

/-! ## I. `oracleRounding` never rejects the model's own result -/

theorem abs_abs_sub_le (a b : Rat) : |a| - |b| ≤ |a - b| ∧ |b| - |a| ≤ |a - b| :=
  ⟨abs_sub_abs_le_abs_sub a b, by rw [abs_sub_comm a b]; exact abs_sub_abs_le_abs_sub b a⟩

section rounding
variable (c : ConvCase) (hf : c.fmt.WF) (h4 : 4 ≤ c.fmt.p)
  (hcA : Canonical c.fmt c.consA) (hcS : Canonical c.fmt c.consS)
  (hcc : c.consA.toRat = c.consS.toRat)
include hf h4 hcA hcS hcc

/-- **floor** -/
theorem oracleRounding_floor_sound (why : String) :
    oracleRounding c 0 (roundInUnit (flS c.fmt) (Fl.floor c.fmt) c.coef c.consA c.consS
      (baseFactor (flS c.fmt) c.pows) c.v) ≠ .fail why := by
  rw [oracleRounding_zero]
  unfold roundInUnit
  refine roundingCore_not_fail c _ _ _ ?_ why
  intro hvf hcf hff hc0 hf0 hgF hgfin hgT
  have hgc := Fl.fromBase_canonical hf c.v c.coef c.consS (baseFactor (flS c.fmt) c.pows)
  set g := fromBase (flS c.fmt) c.coef c.consS (baseFactor (flS c.fmt) c.pows) c.v with hg
  have hval := (floor_toRat hf hgc hgfin).1
  have h1 := rfloor_le g.toRat
  have h2 := lt_rfloor_add_one g.toRat
  have hNG : |((g.toRat.floor : Int) : Rat)| ≤ |g.toRat| + 1 := by
    rw [abs_le]; constructor
    · linarith [neg_abs_le g.toRat]
    · linarith [le_abs_self g.toRat]
  obtain ⟨hfin, hnear, hbud⟩ := rounding_step c hf h4 hcA hcS hcc _ _ (floor_ok hf hgc hgfin) hval hNG
    hvf hcf hff hc0 hf0 hgF hgT
  rw [← hg] at hbud
  refine ⟨hfin, hnear, ?_⟩
  simp only [Bool.and_eq_true, decide_eq_true_eq]
  set r := rndR c (toBase (flS c.fmt) c.coef c.consA (baseFactor (flS c.fmt) c.pows) (Fl.floor c.fmt g))
  have ha := abs_le.mp (le_refl |r - ((g.toRat.floor : Int) : Rat)|)
  have hb := abs_le.mp (le_refl |g.toRat - rndX c|)
  constructor <;> linarith [ha.1, ha.2, hb.1, hb.2]

/-- **ceil** -/
theorem oracleRounding_ceil_sound (why : String) :
    oracleRounding c 1 (roundInUnit (flS c.fmt) (Fl.ceil c.fmt) c.coef c.consA c.consS
      (baseFactor (flS c.fmt) c.pows) c.v) ≠ .fail why := by
  rw [oracleRounding_one]
  unfold roundInUnit
  refine roundingCore_not_fail c _ _ _ ?_ why
  intro hvf hcf hff hc0 hf0 hgF hgfin hgT
  have hgc := Fl.fromBase_canonical hf c.v c.coef c.consS (baseFactor (flS c.fmt) c.pows)
  set g := fromBase (flS c.fmt) c.coef c.consS (baseFactor (flS c.fmt) c.pows) c.v with hg
  have hval := (ceil_toRat hf hgc hgfin).1
  have h1 := rfloor_le (-g.toRat)
  have h2 := lt_rfloor_add_one (-g.toRat)
  have hcast : ((-((-g.toRat).floor) : Int) : Rat) = -(((-g.toRat).floor : Int) : Rat) := by push_cast; ring
  have hNG : |((-((-g.toRat).floor) : Int) : Rat)| ≤ |g.toRat| + 1 := by
    rw [hcast, abs_le]; constructor
    · linarith [neg_abs_le g.toRat]
    · linarith [le_abs_self g.toRat]
  obtain ⟨hfin, hnear, hbud⟩ := rounding_step c hf h4 hcA hcS hcc _ _ (ceil_ok hf hgc hgfin) hval hNG
    hvf hcf hff hc0 hf0 hgF hgT
  rw [← hg] at hbud
  refine ⟨hfin, hnear, ?_⟩
  simp only [Bool.and_eq_true, decide_eq_true_eq]
  set r := rndR c (toBase (flS c.fmt) c.coef c.consA (baseFactor (flS c.fmt) c.pows) (Fl.ceil c.fmt g))
  rw [hcast] at hbud
  have ha := abs_le.mp (le_refl |r - -(((-g.toRat).floor : Int) : Rat)|)
  have hb := abs_le.mp (le_refl |g.toRat - rndX c|)
  constructor <;> linarith [ha.1, ha.2, hb.1, hb.2]

/-- **round** (half away from zero) -/
theorem oracleRounding_round_sound (why : String) :
    oracleRounding c 2 (roundInUnit (flS c.fmt) (Fl.round c.fmt) c.coef c.consA c.consS
      (baseFactor (flS c.fmt) c.pows) c.v) ≠ .fail why := by
  rw [oracleRounding_two]
  unfold roundInUnit
  refine roundingCore_not_fail c _ _ _ ?_ why
  intro hvf hcf hff hc0 hf0 hgF hgfin hgT
  have hgc := Fl.fromBase_canonical hf c.v c.coef c.consS (baseFactor (flS c.fmt) c.pows)
  set g := fromBase (flS c.fmt) c.coef c.consS (baseFactor (flS c.fmt) c.pows) c.v with hg
  have hval := (round_toRat hf hgc hgfin).1
  -- `|N − G| ≤ 1/2`
  have hhalf : |((ratRoundQ g.toRat : Int) : Rat) - g.toRat| ≤ 1 / 2 := by
    unfold ratRoundQ
    split
    · have h1 := rfloor_le (-g.toRat + 1 / 2)
      have h2 := lt_rfloor_add_one (-g.toRat + 1 / 2)
      push_cast
      rw [abs_le]; constructor <;> linarith
    · have h1 := rfloor_le (g.toRat + 1 / 2)
      have h2 := lt_rfloor_add_one (g.toRat + 1 / 2)
      rw [abs_le]; constructor <;> linarith
  have hNG : |((ratRoundQ g.toRat : Int) : Rat)| ≤ |g.toRat| + 1 := by
    have : ((ratRoundQ g.toRat : Int) : Rat) = g.toRat + (((ratRoundQ g.toRat : Int) : Rat) - g.toRat) := by
      ring
    rw [this]
    calc _ ≤ |g.toRat| + |((ratRoundQ g.toRat : Int) : Rat) - g.toRat| := abs_add_le _ _
      _ ≤ _ := by linarith
  obtain ⟨hfin, hnear, hbud⟩ := rounding_step c hf h4 hcA hcS hcc _ _ (round_ok hf hgc hgfin) hval hNG
    hvf hcf hff hc0 hf0 hgF hgT
  rw [← hg] at hbud
  refine ⟨hfin, hnear, ?_⟩
  simp only [decide_eq_true_eq, oracle_ratAbs_eq]
  set r := rndR c (toBase (flS c.fmt) c.coef c.consA (baseFactor (flS c.fmt) c.pows) (Fl.round c.fmt g))
  have e : r - rndX c = (r - ((ratRoundQ g.toRat : Int) : Rat)) +
      ((((ratRoundQ g.toRat : Int) : Rat) - g.toRat) + (g.toRat - rndX c)) := by ring
  rw [e]
  calc _ ≤ |r - ((ratRoundQ g.toRat : Int) : Rat)| +
        |(((ratRoundQ g.toRat : Int) : Rat) - g.toRat) + (g.toRat - rndX c)| := abs_add_le _ _
    _ ≤ |r - ((ratRoundQ g.toRat : Int) : Rat)| +
        (|((ratRoundQ g.toRat : Int) : Rat) - g.toRat| + |g.toRat - rndX c|) := by
        linarith [abs_add_le (((ratRoundQ g.toRat : Int) : Rat) - g.toRat) (g.toRat - rndX c)]
    _ ≤ _ := by linarith

/-- **trunc** -/
theorem oracleRounding_trunc_sound (why : String) :
    oracleRounding c 3 (roundInUnit (flS c.fmt) (Fl.trunc c.fmt) c.coef c.consA c.consS
      (baseFactor (flS c.fmt) c.pows) c.v) ≠ .fail why := by
  rw [oracleRounding_three]
  unfold roundInUnit
  refine roundingCore_not_fail c _ _ _ ?_ why
  intro hvf hcf hff hc0 hf0 hgF hgfin hgT
  have hgc := Fl.fromBase_canonical hf c.v c.coef c.consS (baseFactor (flS c.fmt) c.pows)
  set g := fromBase (flS c.fmt) c.coef c.consS (baseFactor (flS c.fmt) c.pows) c.v with hg
  have hval := (trunc_toRat hf hgc hgfin).1
  -- `|N| ≤ |G| < |N| + 1`
  have hmag : |((ratTruncQ g.toRat : Int) : Rat)| ≤ |g.toRat| ∧
      |g.toRat| < |((ratTruncQ g.toRat : Int) : Rat)| + 1 := by
    unfold ratTruncQ
    split
    · next hneg =>
      have h1 := rfloor_le (-g.toRat)
      have h2 := lt_rfloor_add_one (-g.toRat)
      have h0 : (0 : Rat) ≤ (((-g.toRat).floor : Int) : Rat) := by
        have : (0 : Int) ≤ (-g.toRat).floor := Rat.le_floor_iff.mpr (by push_cast; linarith)
        exact_mod_cast this
      push_cast
      rw [abs_neg, abs_of_nonneg h0, abs_of_neg hneg]
      constructor <;> linarith
    · next hnn =>
      have hnn' : 0 ≤ g.toRat := not_lt.mp hnn
      have h1 := rfloor_le g.toRat
      have h2 := lt_rfloor_add_one g.toRat
      have h0 : (0 : Rat) ≤ ((g.toRat.floor : Int) : Rat) := by
        have : (0 : Int) ≤ g.toRat.floor := Rat.le_floor_iff.mpr (by push_cast; linarith)
        exact_mod_cast this
      rw [abs_of_nonneg h0, abs_of_nonneg hnn']
      constructor <;> linarith
  have hNG : |((ratTruncQ g.toRat : Int) : Rat)| ≤ |g.toRat| + 1 := by linarith [hmag.1]
  obtain ⟨hfin, hnear, hbud⟩ := rounding_step c hf h4 hcA hcS hcc _ _ (trunc_ok hf hgc hgfin) hval hNG
    hvf hcf hff hc0 hf0 hgF hgT
  rw [← hg] at hbud
  refine ⟨hfin, hnear, ?_⟩
  simp only [Bool.and_eq_true, decide_eq_true_eq, oracle_ratAbs_eq]
  set r := rndR c (toBase (flS c.fmt) c.coef c.consA (baseFactor (flS c.fmt) c.pows) (Fl.trunc c.fmt g))
  have ha := abs_abs_sub_le r ((ratTruncQ g.toRat : Int) : Rat)
  have hb := abs_abs_sub_le g.toRat (rndX c)
  constructor <;> linarith [ha.1, ha.2, hb.1, hb.2, hmag.1, hmag.2]

/-- **`oracleRounding` soundness**: on the model's own `floor/ceil/round/trunc` in a unit
    (`roundInUnit (flS c.fmt) op …`, as the `rnd` handler of Uom/Model/Lines.lean computes it) the
    oracle never answers `fail`.
    Hypotheses: well-formed format with `p ≥ 4`; the two constants of the unit are canonical and have
    the same value (`constant(Add)` and `constant(Sub)` differ only in the sign of a zero).  The stored
    value and the coefficient need not be canonical. -/
theorem oracleRounding_sound (why : String) :
    oracleRounding c 0 (roundInUnit (flS c.fmt) (Fl.floor c.fmt) c.coef c.consA c.consS
      (baseFactor (flS c.fmt) c.pows) c.v) ≠ .fail why ∧
    oracleRounding c 1 (roundInUnit (flS c.fmt) (Fl.ceil c.fmt) c.coef c.consA c.consS
      (baseFactor (flS c.fmt) c.pows) c.v) ≠ .fail why ∧
    oracleRounding c 2 (roundInUnit (flS c.fmt) (Fl.round c.fmt) c.coef c.consA c.consS
      (baseFactor (flS c.fmt) c.pows) c.v) ≠ .fail why ∧
    oracleRounding c 3 (roundInUnit (flS c.fmt) (Fl.trunc c.fmt) c.coef c.consA c.consS
      (baseFactor (flS c.fmt) c.pows) c.v) ≠ .fail why :=
  ⟨oracleRounding_floor_sound c hf h4 hcA hcS hcc why, oracleRounding_ceil_sound c hf h4 hcA hcS hcc why,
    oracleRounding_round_sound c hf h4 hcA hcS hcc why, oracleRounding_trunc_sound c hf h4 hcA hcS hcc why⟩

end rounding

/-! ## J. why `consA.toRat = consS.toRat` is needed

The oracle reads the result back with `consS` whereas `new` adds `consA`: for a (non-physical) unit whose
two constants differ in value, the model's own result is rejected. -/

/-- binary32, `coef = 1`, no base-unit factors, `constant(Add) = 1` but `constant(Sub) = +0`, `v = 0.5`:
    `floor` in the unit gives `new(floor(0.5)) = 0 + 1 = 1`, read back as `1 > 0.5 + tol` -/
def cexConst : ConvCase where
  fmt := b32
  coef := Fl.one b32
  consA := Fl.one b32
  consS := Fl.zero b32 false
  pows := []
  v := Fl.fin false (2 ^ 23) (-24)

theorem oracleRounding_needs_equal_constants :
    Canonical b32 cexConst.consA ∧ Canonical b32 cexConst.consS ∧
    cexConst.consA.toRat ≠ cexConst.consS.toRat ∧
    ∃ why, oracleRounding cexConst 0 (roundInUnit (flS b32) (Fl.floor b32) cexConst.coef cexConst.consA
      cexConst.consS (baseFactor (flS b32) cexConst.pows) cexConst.v) = .fail why := by
  refine ⟨Or.inl (by decide), Or.inr (by decide), by decide +kernel, ?_⟩
  exact exists_of_isFail (by decide +kernel)

end Uom.Proofs.MoreOracleSound

#print axioms Uom.Proofs.MoreOracleSound.fma_rel
#print axioms Uom.Proofs.MoreOracleSound.fma_approx_normal
#print axioms Uom.Proofs.MoreOracleSound.fma_isZero_le
#print axioms Uom.Proofs.MoreOracleSound.fma_overflow
#print axioms Uom.Proofs.MoreOracleSound.oracleMulAdd_sound
#print axioms Uom.Proofs.MoreOracleSound.oracleMulAdd_sound_f32
#print axioms Uom.Proofs.MoreOracleSound.oracleMulAdd_sound_f64
#print axioms Uom.Proofs.MoreOracleSound.oracleMulAddOld_rejects_underflow
#print axioms Uom.Proofs.MoreOracleSound.oracleMulAdd_guards_underflow
#print axioms Uom.Proofs.MoreOracleSound.oracleMulAdd_fail_imp_old

#print axioms Uom.Proofs.MoreOracleSound.oracleRounding_sound
#print axioms Uom.Proofs.MoreOracleSound.oracleRounding_needs_equal_constants
