import Uom.Model.Ops
import Uom.Proofs.Exact
import Mathlib.Algebra.BigOperators.Group.List.Basic
import Mathlib.Algebra.Order.Field.Basic
import Mathlib.Algebra.GroupWithZero.Basic
/-!
# Exact-storage facts about the operator table (C06, C07, C10, C15, C17)

`phys F v = v * F` is the physical magnitude (in the system's coherent units) of a stored value `v`
whose base-unit set has base factor `F` for the quantity's dimension.
-/
namespace Uom

/-- base factor of a base-unit set (coefficients `us`) for a dimension (exponents `ds`), exact storage -/
def baseFac (us : List Rat) (ds : List Int) : Rat := (List.zipWith (fun u d => u ^ d) us ds).prod

theorem baseFactor_zipWith (us : List Rat) (ds : List Int) :
    baseFactor ratS (List.zipWith (fun u d => ratPowi u d) us ds) = baseFac us ds := by
  rw [baseFactor_rat]; rfl

/-- `∏ Uᵢ^(Dᵢ + Eᵢ) = ∏ Uᵢ^Dᵢ · ∏ Uᵢ^Eᵢ` for non-zero base coefficients: the base factor of a product
    quantity is the product of the base factors -/
theorem baseFac_add (us : List Rat) (ds es : List Int) (hlen : ds.length = es.length)
    (hus : ∀ u ∈ us, u ≠ 0) :
    baseFac us (List.zipWith (· + ·) ds es) = baseFac us ds * baseFac us es := by
  unfold baseFac
  induction us generalizing ds es with
  | nil => simp
  | cons u us ih =>
    cases ds with
    | nil => cases es with
      | nil => simp
      | cons e es => simp at hlen
    | cons d ds => cases es with
      | nil => simp at hlen
      | cons e es =>
        simp only [List.zipWith_cons_cons, List.prod_cons]
        have hu : u ≠ 0 := hus u (List.mem_cons_self)
        rw [zpow_add₀ hu, ih ds es (by simpa using hlen) (fun x hx => hus x (List.mem_cons_of_mem _ hx))]
        ring

theorem baseFac_neg (us : List Rat) (ds : List Int) :
    baseFac us (ds.map (fun d => -d)) = (baseFac us ds)⁻¹ := by
  unfold baseFac
  induction us generalizing ds with
  | nil => simp
  | cons u us ih =>
    cases ds with
    | nil => simp
    | cons d ds =>
      simp only [List.map_cons, List.zipWith_cons_cons, List.prod_cons, zpow_neg, ih ds, mul_inv]

theorem baseFac_ne_zero (us : List Rat) (ds : List Int) (hus : ∀ u ∈ us, u ≠ 0) : baseFac us ds ≠ 0 := by
  unfold baseFac
  induction us generalizing ds with
  | nil => simp
  | cons u us ih =>
    cases ds with
    | nil => simp
    | cons d ds =>
      simp only [List.zipWith_cons_cons, List.prod_cons]
      exact mul_ne_zero (zpow_ne_zero _ (hus u List.mem_cons_self)) (ih ds (fun x hx => hus x (List.mem_cons_of_mem _ hx)))

theorem baseFac_pos (us : List Rat) (ds : List Int) (hus : ∀ u ∈ us, 0 < u) : 0 < baseFac us ds := by
  unfold baseFac
  induction us generalizing ds with
  | nil => simp
  | cons u us ih =>
    cases ds with
    | nil => simp
    | cons d ds =>
      simp only [List.zipWith_cons_cons, List.prod_cons]
      exact mul_pos (zpow_pos (hus u List.mem_cons_self) _) (ih ds (fun x hx => hus x (List.mem_cons_of_mem _ hx)))

/-- re-expressing a stored value in other base units keeps the physical magnitude -/
theorem changeBase_phys (l r v : Rat) (hl : l ≠ 0) : changeBase ratS l r v * l = v * r := by
  rw [changeBase_rat]; field_simp

theorem changeBase_same_rat (l v : Rat) (hl : l ≠ 0) : changeBase ratS l l v = v := by
  rw [changeBase_rat]; field_simp

/-- integers: `value(conversion(v) * (l / l)) = v` -/
theorem changeBase_same_int (l : Rat) (v : Int) (hl : l ≠ 0) : changeBase intS l l v = v := by
  unfold changeBase
  simp only [intS, le_refl, decide_true, if_true]
  rw [div_self hl, mul_one]
  unfold ratTrunc
  simp

end Uom
